//go:build pC18 || pall

package main

import (
	"context"
	"encoding/binary"
	"errors"
	"fmt"
	"io"
	"net"
	"net/netip"
	"strconv"
	"strings"
	"sync"
	"time"

	"github.com/IrineSistiana/mosdns/v5/coremain"
	"github.com/IrineSistiana/mosdns/v5/pkg/query_context"
	fastforward "github.com/IrineSistiana/mosdns/v5/plugin/executable/forward"
	"github.com/IrineSistiana/mosdns/v5/plugin/executable/sequence"
	"github.com/miekg/dns"
)

// C18 (6): upstreams created from the forward plugin's configuration.
//
// A forward plugin is built (NewForward / Init) from 2..4 configured entries.
// Entries of one plugin often share their addr (one provider reached over
// several of its addresses) and differ in dial_addr only; sometimes they share
// both, sometimes neither. Stream entries (tcp, tls, https, pipeline aliases)
// go through a harness SOCKS5 observer (the plugin-wide socks5 option or the
// entry's own, the same observer either way), so host and port of the CONNECT
// request are what the entry's upstream dials, over the whole dial_addr
// grammar (IPv4, IPv4:port, [IPv6]:port, bare IPv6, name, name:port); a
// plugin-wide bootstrap server is configured in half of the plugins. UDP
// entries lead to loopback listeners. A query is routed to ONE entry through
// its tag (QuickConfigureExec) and must arrive at the host and port that
// entry's own addr / dial_addr say.
//
// Attribution of an observed connection to an entry: a plain DNS-over-TCP
// connection carries the query (unique name per routed query); a datagram
// carries it too. A TLS connection (tls / https) shows nothing but the
// ClientHello: it is attributed to the entry being queried only when the call
// came back with the forward's own error (its single helper has finished, so
// nothing of an earlier call is still dialling) on a machine that did not
// stall; otherwise the observation is dropped and counted.

type fwdHit struct {
	tgt   string // host|port of the CONNECT
	qname string // plain DNS over TCP: the question name of the first query; "" = not seen
	tls   bool
}

type fwdSocks struct {
	l    net.Listener
	mu   sync.Mutex
	hits []fwdHit
}

func newFwdSocks() (*fwdSocks, error) {
	l, err := net.Listen("tcp", "127.0.0.1:0")
	if err != nil {
		return nil, err
	}
	s := &fwdSocks{l: l}
	go func() {
		for {
			c, err := l.Accept()
			if err != nil {
				return
			}
			go s.serve(c)
		}
	}()
	return s, nil
}

func (s *fwdSocks) add(h fwdHit) {
	s.mu.Lock()
	s.hits = append(s.hits, h)
	s.mu.Unlock()
}

func (s *fwdSocks) take() []fwdHit {
	s.mu.Lock()
	defer s.mu.Unlock()
	h := s.hits
	s.hits = nil
	return h
}

func (s *fwdSocks) serve(c net.Conn) {
	defer c.Close()
	c.SetDeadline(time.Now().Add(4 * time.Second))
	tgt, ok := socks5Accept18(c)
	if !ok {
		return
	}
	if _, err := c.Write([]byte{5, 0, 0, 1, 0, 0, 0, 0, 0, 0}); err != nil {
		return
	}
	var h [2]byte
	if _, err := io.ReadFull(c, h[:]); err != nil {
		s.add(fwdHit{tgt: tgt})
		return
	}
	if h[0] == 0x16 { // a TLS handshake record: recorded, the handshake is not completed on purpose
		s.add(fwdHit{tgt: tgt, tls: true})
		return
	}
	// plain DNS over TCP: every frame is recorded with its question name and answered
	for {
		raw := make([]byte, binary.BigEndian.Uint16(h[:]))
		q := new(dns.Msg)
		if _, err := io.ReadFull(c, raw); err != nil || q.Unpack(raw) != nil || len(q.Question) != 1 {
			s.add(fwdHit{tgt: tgt})
			return
		}
		s.add(fwdHit{tgt: tgt, qname: q.Question[0].Name})
		m := new(dns.Msg)
		m.SetReply(q)
		b, err := m.Pack()
		if err != nil {
			return
		}
		out := make([]byte, 2+len(b))
		binary.BigEndian.PutUint16(out, uint16(len(b)))
		copy(out[2:], b)
		if _, err := c.Write(out); err != nil {
			return
		}
		c.SetDeadline(time.Now().Add(4 * time.Second))
		if _, err := io.ReadFull(c, h[:]); err != nil {
			return
		}
	}
}

type fwdUDP struct {
	pc   net.PacketConn
	host string // as written in a dial_addr: 127.0.0.1 or ::1
	port int
	mu   sync.Mutex
	seen map[string]int // qname -> datagrams
}

func newFwdUDP(ip string) (*fwdUDP, error) {
	pc, err := net.ListenPacket("udp", net.JoinHostPort(ip, "0"))
	if err != nil {
		return nil, err
	}
	u := &fwdUDP{pc: pc, host: ip, port: pc.LocalAddr().(*net.UDPAddr).Port, seen: map[string]int{}}
	go func() {
		buf := make([]byte, 4096)
		for {
			n, from, err := pc.ReadFrom(buf)
			if err != nil {
				return
			}
			q := new(dns.Msg)
			if q.Unpack(buf[:n]) != nil || len(q.Question) != 1 {
				continue
			}
			u.mu.Lock()
			u.seen[q.Question[0].Name]++
			u.mu.Unlock()
			m := new(dns.Msg)
			m.SetReply(q)
			if b, err := m.Pack(); err == nil {
				pc.WriteTo(b, from)
			}
		}
	}()
	return u, nil
}

func (u *fwdUDP) addr() string { return net.JoinHostPort(u.host, strconv.Itoa(u.port)) }

type fwdEnt struct {
	a        addr18
	udp      bool
	tag      string
	socks    string   // the entry's own socks5 option
	qnames   []string // names of the queries routed to it
	observed []string // host|port of what was attributed to it
}

// genStream18: an address of the grammar under a stream scheme, without an out-of-range port (one rejected entry
// would reject the whole plugin) and with dial_addr drawn from all six forms
func (r *Run) genStream18() addr18 {
	for {
		a := r.genAddr18()
		if a.port > 65535 {
			continue
		}
		a.scheme = []string{"tcp", "tcp", "tls", "https", "tcp+pipeline", "tls+pipeline"}[r.Rng.Intn(6)]
		a.path = ""
		if a.scheme == "https" {
			a.path = "/dns-query"
		}
		r.genDial18(&a)
		return a
	}
}

func (r *Run) genDial18(a *addr18) {
	for {
		d := r.genAddr18()
		a.dial, a.dialHost, a.dialPort = d.dial, d.dialHost, d.dialPort
		switch r.Rng.Intn(6) {
		case 0:
			a.dialHost, a.dialPort = r.name18(), -1
			a.dial = a.dialHost
		case 1:
			a.dialHost, a.dialPort = r.name18(), 1+r.Rng.Intn(65535)
			a.dial = a.dialHost + ":" + strconv.Itoa(a.dialPort)
		}
		if a.dialPort <= 65535 && a.dial != "" {
			return
		}
	}
}

func sameTarget18(obs string, wantHost string, wantPort int) bool {
	oh, ops, _ := strings.Cut(obs, "|")
	op, _ := strconv.Atoi(ops)
	if op != wantPort {
		return false
	}
	if ip, err := netip.ParseAddr(wantHost); err == nil {
		oip, err2 := netip.ParseAddr(oh)
		return err2 == nil && oip.Unmap() == ip.Unmap()
	}
	return oh == "name:"+wantHost
}

func runC18Fwd(r *Run) {
	sk, err := newFwdSocks()
	if err != nil {
		r.Note("configured-forward scenario skipped: " + err.Error())
		return
	}
	defer sk.l.Close()
	socksAddr := sk.l.Addr().String()
	var udps []*fwdUDP
	for _, ip := range []string{"127.0.0.1", "127.0.0.1", "127.0.0.1", "::1"} {
		if u, err := newFwdUDP(ip); err == nil {
			udps = append(udps, u)
			defer u.pc.Close()
		}
	}
	if len(udps) < 2 {
		r.Note("configured-forward scenario skipped: no loopback UDP listeners")
		return
	}
	bs := newBootAny18()
	if bs != nil {
		defer bs.srv.Shutdown()
	}
	sharedUDP := []string{"udp://192.0.2.53", "192.0.2.53:5353", "udp://[2001:db8::53]:53", "2001:db8::53"}

	ngroups := r.N(60, 900)
	qseq := 0
	for g := 0; g < ngroups; g++ {
		n := 2 + r.Rng.Intn(3)
		family := []string{"stream", "stream", "stream", "udp", "mixed"}[r.Rng.Intn(5)]
		base := r.genStream18()
		baseUDP := sharedUDP[r.Rng.Intn(len(sharedUDP))]
		globalSocks := r.Rng.Intn(2) == 0
		args := &fastforward.Args{Concurrent: []int{0, 1, 1, 3}[r.Rng.Intn(4)]}
		if globalSocks {
			args.Socks5 = socksAddr
		}
		if bs != nil && r.Rng.Intn(2) == 0 {
			args.Bootstrap, args.BootstrapVer = bs.addr, []int{0, 4, 6}[r.Rng.Intn(3)]
		}
		idle := []int{0, 0, 10, 30}[r.Rng.Intn(4)]
		ents := make([]*fwdEnt, n)
		for i := range ents {
			e := &fwdEnt{tag: fmt.Sprintf("e%d", i)}
			udp := family == "udp" || family == "mixed" && r.Rng.Intn(2) == 0
			if udp {
				e.udp = true
				l := udps[r.Rng.Intn(len(udps))]
				if r.Rng.Intn(3) > 0 { // the shared addr, this entry's listener as dial_addr
					e.a = addr18{scheme: "udp", port: -1, dial: l.addr(), dialHost: l.host, dialPort: l.port}
					u := strings.TrimPrefix(baseUDP, "udp://")
					if !strings.Contains(baseUDP, "://") {
						e.a.scheme = ""
					}
					e.a.host, e.a.hostBare = u, u // only rendered, never expected (dial_addr is set)
				} else { // the listener in the addr itself
					h := l.host
					if strings.Contains(h, ":") {
						h = "[" + h + "]"
					}
					e.a = addr18{scheme: "udp", host: h, hostBare: l.host, isIP: true, port: l.port, dialPort: -1}
				}
			} else {
				if r.Rng.Intn(3) > 0 { // same addr as the other entries, its own dial_addr
					e.a = base
					r.genDial18(&e.a)
				} else {
					e.a = r.genStream18()
					if r.Rng.Intn(3) == 0 {
						e.a.dial, e.a.dialHost, e.a.dialPort = "", "", -1
					}
				}
				if i > 0 && !ents[i-1].udp && r.Rng.Intn(6) == 0 { // a plain duplicate of the previous entry
					e.a = ents[i-1].a
				}
				if !globalSocks || r.Rng.Intn(4) == 0 {
					e.socks = socksAddr
				}
			}
			ents[i] = e
			args.Upstreams = append(args.Upstreams, fastforward.UpstreamConfig{
				Tag: e.tag, Addr: e.a.url(), DialAddr: e.a.dial, Socks5: e.socks, IdleTimeout: idle,
			})
		}
		var cfgDesc []string
		for _, e := range ents {
			s := fmt.Sprintf("{tag: %s, addr: %s, dial_addr: %q", e.tag, e.a.url(), e.a.dial)
			if e.socks != "" {
				s += ", socks5: " + e.socks
			}
			cfgDesc = append(cfgDesc, s+"}")
		}
		plugin := fmt.Sprintf("socks5: %q, bootstrap: %q, bootstrap_version: %d, concurrent: %d", args.Socks5, args.Bootstrap, args.BootstrapVer, args.Concurrent)
		r.Eval(fmt.Sprintf("fwd:%d:%s", g, strings.Join(cfgDesc, " ")), true)
		var f *fastforward.Forward
		via := "NewForward"
		if r.Rng.Intn(2) == 0 {
			via = "Init"
			p, err := fastforward.Init(coremain.NewBP(fmt.Sprintf("c18fwd%d", g), coremain.NewTestMosdnsWithPlugins(nil)), args)
			if err == nil {
				f = p.(*fastforward.Forward)
			}
		} else {
			f, err = fastforward.NewForward(args, fastforward.Opts{})
			if err != nil {
				f = nil
			}
		}
		if f == nil {
			// rejection at creation is always allowed by the property
			r.Count("fwd:rejected")
			continue
		}
		r.Count("fwd:created:" + family)
		r.Count("fwd:built-via:" + via)

		byQname := map[string]*fwdEnt{}
		dirty := false // a call ended with its context: its helper may still be dialling, windows prove nothing any more
		rounds := 1 + r.Rng.Intn(2)
		for round := 0; round < rounds; round++ {
			for _, i := range r.Rng.Perm(n) {
				e := ents[i]
				ex, err := f.QuickConfigureExec(e.tag)
				if err != nil {
					fatal(fmt.Errorf("C18 configured forward: QuickConfigureExec(%s): %w", e.tag, err))
				}
				qseq++
				qname := fmt.Sprintf("c18fwd-%d-%d.example.", g, qseq)
				byQname[qname] = e
				e.qnames = append(e.qnames, qname)
				q := new(dns.Msg)
				q.SetQuestion(qname, dns.TypeA)
				qCtx := query_context.NewContext(q)
				// what is still lying around was opened by earlier calls: by name where there is one, otherwise nobody's
				for _, h := range sk.take() {
					if o := byQname[h.qname]; h.qname != "" && o != nil {
						o.observed = append(o.observed, h.tgt)
					} else {
						r.Count("fwd:connection-not-attributed")
					}
				}
				meter := startStallMeter()
				ctx, cancel := context.WithTimeout(context.Background(), 3*time.Second)
				t0 := time.Now()
				xerr := ex.(sequence.Executable).Exec(ctx, qCtx)
				took := time.Since(t0)
				cancel()
				stall := meter.Stop()
				ctxErr := xerr != nil && (errors.Is(xerr, context.DeadlineExceeded) || errors.Is(xerr, context.Canceled))
				if ctxErr && !e.udp {
					dirty = true
					r.Count("fwd:call-ended-with-its-context")
				}
				calm := !dirty && !ctxErr && took < time.Second && stall < 300*time.Millisecond
				for _, h := range sk.take() {
					switch {
					case h.qname != "" && byQname[h.qname] != nil:
						o := byQname[h.qname]
						o.observed = append(o.observed, h.tgt)
					case h.tls && calm && !e.udp:
						e.observed = append(e.observed, h.tgt)
					default:
						r.Count("fwd:connection-not-attributed")
					}
				}
			}
		}
		_ = f.Close()
		if dirty {
			time.Sleep(2500 * time.Millisecond) // the helpers of a forward give up 5 s after their start
		}
		for _, h := range sk.take() {
			if o := byQname[h.qname]; h.qname != "" && o != nil {
				o.observed = append(o.observed, h.tgt)
			}
		}
		for _, l := range udps {
			l.mu.Lock()
			for qn := range l.seen {
				if o := byQname[qn]; o != nil {
					o.observed = append(o.observed, fmt.Sprintf("%s|%d", l.host, l.port))
					delete(l.seen, qn)
				}
			}
			l.mu.Unlock()
		}
		// oracle + model line
		var items, outs []string
		for i, e := range ents {
			wantHost, wantPort := e.a.expected()
			out, obs := "?", "0"
			var bad string
			for _, o := range e.observed {
				if !sameTarget18(o, wantHost, wantPort) && bad == "" {
					bad = o
				}
			}
			if len(e.observed) > 0 {
				obs = "1"
				r.Count("fwd:observed:" + map[bool]string{true: "udp", false: e.a.scheme}[e.udp])
				if bad == "" {
					out = fmt.Sprintf("%s %d", hx([]byte(wantHost)), wantPort) // the model keeps the user's text of an IP
				} else {
					bh, bp, _ := strings.Cut(bad, "|")
					out = fmt.Sprintf("%s %s", hx([]byte(strings.TrimPrefix(bh, "name:"))), bp)
					r.Fail("a query routed to one entry of a forward built from plugin arguments was sent to a host/port other than the one this entry's addr / dial_addr configure", map[string]any{
						"plugin_options": plugin, "upstreams": cfgDesc, "built_via": via, "routed_to_entry": i, "tag": e.tag,
						"want_host": wantHost, "want_port": wantPort, "connected_to": bad, "all_connections_of_this_entry": e.observed,
					})
				}
			} else {
				r.Count("fwd:entry-without-observation")
			}
			rawHost := e.a.host
			if e.a.port >= 0 {
				rawHost += ":" + strconv.Itoa(e.a.port)
			}
			items = append(items, fmt.Sprintf("%s/%s/%d/%s", hx([]byte(rawHost)), hx([]byte(e.a.dial)), defaultPort18(e.a.scheme), obs))
			outs = append(outs, out)
		}
		r.Line("fwd "+strings.Join(items, ","), strings.Join(outs, ","))
	}
}
