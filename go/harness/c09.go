//go:build pC09 || pall

package main

import (
	"context"
	"encoding/binary"
	"errors"
	"fmt"
	"io"
	"strings"
	"sync"
	"sync/atomic"
	"time"

	"github.com/IrineSistiana/mosdns/v5/pkg/upstream/transport"
)

// C09: per-connection concurrency limits hold and capacity never leaks.
//
// Part 1 drives one real TraditionalDnsConn through random histories of
// reserve / withdraw / exchange / reply / cancel / stray reply / close and,
// after every operation, probes how many further queries it admits.
// Part 2 does the same with a connection that is still dialing (the dial is
// gated) and then lets the dial succeed (equal or larger limit) or fail.
// Part 3 watches the per-connection number of unanswered queries under the two
// transports. Every history is replayed on the model.

func init() { props["C09"] = runC09 }

func runC09(r *Run) {
	// ------------------------------------------------------------------ part 1
	histories := r.N(40, 400)
	for hi := 0; hi < histories; hi++ {
		max := 1 + r.Rng.Intn(4)
		stream := r.Rng.Intn(2) == 0
		fc := newFakeConn(hi, stream)
		dc := transport.NewDnsConn(transport.TraditionalDnsConnOpts{WithLengthHeader: stream, IdleTimeout: 10 * time.Second, MaxConcurrentQuery: max}, fc)
		var holders []transport.ReservedExchanger
		var inflight []*call09
		var ops, outs []string
		closed := false
		maxUnanswered := 0
		steps := 10 + r.Rng.Intn(40)
		emit := func(op, out string) {
			free := probe09(dc.ReserveNewQuery)
			ops = append(ops, op)
			outs = append(outs, fmt.Sprintf("%s:%d", out, free))
			if len(inflight) > maxUnanswered {
				maxUnanswered = len(inflight)
			}
			if !closed && free != max-len(holders)-len(inflight) {
				r.Fail("a live connection does not admit exactly limit - (reservations + unanswered queries) further queries", map[string]any{
					"limit": max, "history": strings.Join(ops, ","), "reservations_held": len(holders), "unanswered": len(inflight), "admits": free, "stream": stream})
			}
			if len(inflight) > max {
				r.Fail("a connection carries more unanswered queries than its limit", map[string]any{"limit": max, "history": strings.Join(ops, ","), "unanswered": len(inflight)})
			}
			r.Count("tdc-op:" + strings.SplitN(op, "+", 2)[0])
		}
		for st := 0; st < steps; st++ {
			switch k := r.Rng.Intn(12); {
			case k < 3: // reserve
				rx, cl := dc.ReserveNewQuery()
				out := "r"
				if rx != nil {
					out = "a"
					holders = append(holders, rx)
				} else if cl {
					out = "c"
				}
				emit("reserve", out)
			case k == 3 && len(holders) > 0:
				holders[len(holders)-1].WithdrawReserved()
				holders = holders[:len(holders)-1]
				emit("withdraw", "-")
			case k < 7 && len(holders) > 0: // enter
				rx := holders[len(holders)-1]
				holders = holders[:len(holders)-1]
				dead := r.Rng.Intn(4) == 0
				c := startCall09(rx, dead)
				wrote := findWrite09(fc, c, 2*time.Second)
				switch {
				case closed || (!wrote && c.wait(time.Second) && errors.Is(c.err, transport.ErrTDCClosed)):
					c.wait(2 * time.Second)
					emit("enter1", "c")
				case dead:
					c.wait(2 * time.Second)
					emit("enter1+exit1", "a")
				default:
					inflight = append(inflight, c)
					emit("enter1", "a")
				}
			case k == 7 && len(inflight) > 0: // reply
				i := r.Rng.Intn(len(inflight))
				c := inflight[i]
				inflight = append(inflight[:i], inflight[i+1:]...)
				fc.feed(fc.frame(mkReply(c.wireQ, binary.BigEndian.Uint16(c.wireQ))))
				if !c.wait(2*time.Second) || c.err != nil || tagOf(*c.resp) != c.tag || binary.BigEndian.Uint16(*c.resp) != c.id {
					r.Fail("an answered query did not return its own reply", map[string]any{"history": strings.Join(ops, ","), "err": fmt.Sprint(c.err)})
				}
				emit("reply+exit0", "-")
			case k == 8 && len(inflight) > 0: // cancel
				i := r.Rng.Intn(len(inflight))
				c := inflight[i]
				inflight = append(inflight[:i], inflight[i+1:]...)
				c.cancel()
				c.wait(2 * time.Second)
				if r.Rng.Intn(2) == 0 && !closed { // its reply arrives late
					fc.feed(fc.frame(mkReply(c.wireQ, binary.BigEndian.Uint16(c.wireQ))))
					fc.waitDrained(time.Second)
					emit("exit1+stray", "-")
				} else {
					emit("exit1", "-")
				}
			case k == 9 && !closed: // a reply nobody waits for
				q := mkQuery(0, 424242)
				fc.feed(fc.frame(mkReply(q, uint16(40000+r.Rng.Intn(20000)))))
				fc.waitDrained(time.Second)
				emit("stray", "-")
			case k == 10 && !closed && r.Rng.Intn(3) == 0: // the peer closes
				fc.feedErr(io.EOF)
				for i := 0; i < 4000 && !dc.IsClosed(); i++ {
					time.Sleep(100 * time.Microsecond)
				}
				n := len(inflight)
				for _, c := range inflight {
					c.wait(2 * time.Second)
				}
				inflight = nil
				closed = true
				emit("close"+strings.Repeat("+exit1", n), "-")
			}
		}
		for _, c := range inflight {
			c.cancel()
		}
		dc.Close()
		if len(ops) == 0 {
			continue
		}
		r.Line(fmt.Sprintf("tdc %d %s", max, strings.Join(ops, ",")), strings.Join(outs, ";"))
		r.Eval(fmt.Sprintf("tdc/%d", hi), len(ops) > 3)
		r.Count(fmt.Sprintf("tdc-limit:%d", max))
		r.Trace()
	}

	// ------------------------------------------------------------------ part 2
	histories = r.N(40, 400)
	for hi := 0; hi < histories; hi++ {
		a := 1 + r.Rng.Intn(4)
		b := a + r.Rng.Intn(3)
		fc := newFakeConn(10000+hi, true)
		type dialRes struct{ ok bool }
		gate := make(chan dialRes, 1)
		var realDc *transport.TraditionalDnsConn
		lc := transport.VerifNewLazyDnsConn(func(ctx context.Context) (transport.DnsConn, error) {
			select {
			case res := <-gate:
				if !res.ok {
					return nil, errors.New("dial refused (injected)")
				}
				realDc = transport.NewDnsConn(transport.TraditionalDnsConnOpts{WithLengthHeader: true, IdleTimeout: 10 * time.Second, MaxConcurrentQuery: b}, fc)
				return realDc, nil
			case <-ctx.Done():
				return nil, ctx.Err()
			}
		}, 5*time.Second, a)
		var holders []transport.ReservedExchanger
		var parked []*call09
		var ops, outs []string
		emit := func(op, out string, free int) {
			ops = append(ops, op)
			outs = append(outs, fmt.Sprintf("%s:%d", out, free))
			r.Count("lazy-op:" + strings.SplitN(op, "+", 2)[0])
		}
		probeDialing := func() int {
			free := probe09(lc.ReserveNewQuery)
			if free != a-len(holders)-len(parked) {
				r.Fail("a dialing connection does not admit exactly queue limit - queued queries", map[string]any{
					"queue_limit": a, "history": strings.Join(ops, ","), "reservations_held": len(holders), "parked": len(parked), "admits": free})
			}
			return free
		}
		steps := 3 + r.Rng.Intn(14)
		for st := 0; st < steps; st++ {
			switch k := r.Rng.Intn(8); {
			case k < 3:
				rx, cl := lc.ReserveNewQuery()
				out := "r"
				if rx != nil {
					out = "a"
					holders = append(holders, rx)
				} else if cl {
					out = "c"
				}
				ops = append(ops, "l.reserve")
				outs = append(outs, fmt.Sprintf("%s:%d", out, probeDialing()))
				if len(holders)+len(parked) > a {
					r.Fail("a dialing connection queued more queries than its queue limit", map[string]any{"queue_limit": a, "history": strings.Join(ops, ",")})
				}
			case k == 3 && len(holders) > 0:
				holders[len(holders)-1].WithdrawReserved()
				holders = holders[:len(holders)-1]
				ops = append(ops, "l.withdraw")
				outs = append(outs, fmt.Sprintf("-:%d", probeDialing()))
			case k < 6 && len(holders) > 0:
				rx := holders[len(holders)-1]
				holders = holders[:len(holders)-1]
				parked = append(parked, startCall09(rx, false))
				ops = append(ops, "l.enter")
				outs = append(outs, fmt.Sprintf("-:%d", probeDialing()))
			case k == 6 && len(parked) > 0:
				i := r.Rng.Intn(len(parked))
				c := parked[i]
				parked = append(parked[:i], parked[i+1:]...)
				time.Sleep(200 * time.Microsecond)
				c.cancel()
				c.wait(2 * time.Second)
				ops = append(ops, "l.ctxDone")
				outs = append(outs, fmt.Sprintf("-:%d", probeDialing()))
			}
		}
		how := r.Rng.Intn(4) // 0,1: dial succeeds; 2: dial fails; 3: Close while dialing
		switch how {
		case 0, 1:
			gate <- dialRes{true}
			if len(parked)+len(holders) == 0 {
				// nobody is queued: wait until the wrapper has seen the end of the dial
				for i := 0; i < 20000; i++ {
					rx, _ := lc.ReserveNewQuery()
					if rx == nil {
						break
					}
					early := strings.Contains(fmt.Sprintf("%T", rx), "Early")
					rx.WithdrawReserved()
					if !early {
						break
					}
					time.Sleep(100 * time.Microsecond)
				}
			}
			emit("l.dialOk", "-", b) // nothing is probed here: late reservations wait for the early callers
			var inflight []*call09
			refusedEarly := 0
			for _, c := range parked {
				out := "a"
				if findWrite09(fc, c, 2*time.Second) {
					inflight = append(inflight, c)
				} else {
					c.wait(time.Second)
					out = "r"
					refusedEarly++
				}
				emit("l.proceed+t.enter1", out, b-len(inflight))
			}
			for _, rx := range holders {
				c := startCall09(rx, false)
				out := "a"
				if findWrite09(fc, c, 2*time.Second) {
					inflight = append(inflight, c)
				} else {
					c.wait(time.Second)
					out = "r"
					refusedEarly++
				}
				emit("l.enter+l.proceed+t.enter1", out, b-len(inflight))
			}
			holders = nil
			if refusedEarly > 0 {
				r.Fail("queries queued while the connection was dialing were refused after the dial succeeded with an equal or larger limit", map[string]any{
					"queue_limit": a, "connection_limit": b, "refused": refusedEarly, "history": strings.Join(ops, ",")})
			}
			// from here on the probe goes through the wrapper to the real connection
			fix := func() {
				free := probe09(lc.ReserveNewQuery)
				outs[len(outs)-1] = outs[len(outs)-1][:strings.Index(outs[len(outs)-1], ":")+1] + fmt.Sprint(free)
				if free != b-len(inflight)-len(holders) {
					r.Fail("after the dial, a live connection does not admit exactly limit - (reservations + unanswered queries)", map[string]any{
						"connection_limit": b, "history": strings.Join(ops, ","), "unanswered": len(inflight), "admits": free})
				}
			}
			if len(ops) > 0 {
				fix()
			}
			for st := 0; st < 4+r.Rng.Intn(10); st++ {
				switch k := r.Rng.Intn(6); {
				case k < 2:
					rx, cl := lc.ReserveNewQuery()
					out := "r"
					if rx != nil {
						out = "a"
						holders = append(holders, rx)
					} else if cl {
						out = "c"
					}
					emit("l.reserve", out, 0)
					fix()
				case k == 2 && len(holders) > 0:
					rx := holders[len(holders)-1]
					holders = holders[:len(holders)-1]
					c := startCall09(rx, false)
					if findWrite09(fc, c, 2*time.Second) {
						inflight = append(inflight, c)
						emit("t.enter1", "a", 0)
					} else {
						emit("t.enter1", "c", 0)
					}
					fix()
				case k == 3 && len(holders) > 0:
					holders[len(holders)-1].WithdrawReserved()
					holders = holders[:len(holders)-1]
					emit("t.withdraw", "-", 0)
					fix()
				case k >= 4 && len(inflight) > 0:
					i := r.Rng.Intn(len(inflight))
					c := inflight[i]
					inflight = append(inflight[:i], inflight[i+1:]...)
					if k == 4 {
						fc.feed(fc.frame(mkReply(c.wireQ, binary.BigEndian.Uint16(c.wireQ))))
						c.wait(2 * time.Second)
						if c.err != nil {
							r.Fail("an answered query did not return its reply", map[string]any{"history": strings.Join(ops, ","), "err": fmt.Sprint(c.err)})
						}
						emit("t.reply+t.exit0", "-", 0)
					} else {
						c.cancel()
						c.wait(2 * time.Second)
						emit("t.exit1", "-", 0)
					}
					fix()
				}
			}
			for _, c := range inflight {
				c.cancel()
			}
		case 2, 3:
			if how == 2 {
				gate <- dialRes{false}
			} else {
				lc.Close()
			}
			emit("l.dialFail", "-", 0)
			for _, c := range parked {
				c.wait(2 * time.Second)
				if c.err == nil {
					r.Fail("a query queued on a connection whose dial failed did not fail", map[string]any{"history": strings.Join(ops, ",")})
				}
				emit("l.proceed+l.finish", "c", 0)
			}
			for _, rx := range holders {
				c := startCall09(rx, false)
				c.wait(2 * time.Second)
				emit("l.enter+l.proceed+l.finish", "c", 0)
			}
			if how == 2 && len(parked)+len(holders) == 0 {
				// nobody was queued: wait until the wrapper has seen the end of the dial
				for i := 0; i < 20000; i++ {
					rx, cl := lc.ReserveNewQuery()
					if rx != nil {
						rx.WithdrawReserved()
					}
					if cl {
						break
					}
					time.Sleep(100 * time.Microsecond)
				}
			}
			rx, cl := lc.ReserveNewQuery()
			out := "r"
			if rx != nil {
				out = "a"
			} else if cl {
				out = "c"
			}
			emit("l.reserve", out, 0)
		}
		lc.Close()
		if realDc != nil {
			realDc.Close()
		}
		if len(ops) == 0 {
			continue
		}
		r.Line(fmt.Sprintf("sys %d %d %s", a, b, strings.Join(ops, ",")), strings.Join(outs, ";"))
		r.Eval(fmt.Sprintf("sys/%d", hi), len(ops) > 3)
		r.Count(fmt.Sprintf("dial-outcome:%d", how))
		r.Trace()
	}

	// ------------------------------------------------------------------ part 3
	rounds := r.N(6, 40)
	for rd := 0; rd < rounds; rd++ {
		for _, kind := range []string{"reuse", "pipeline"} {
			limit := 1
			if kind == "pipeline" {
				limit = 1 + r.Rng.Intn(3)
			}
			n := 2 + r.Rng.Intn(9)
			var mu sync.Mutex
			var conns []*fakeConn
			outstanding := map[int]int{}
			maxOut := map[int]int{}
			events := map[int][]string{}
			obs := map[int][]string{}
			var held []func()
			total := 0
			hold := true
			onWrite := func(c *fakeConn, w []byte) error {
				q := c.payloadOf(w)
				if len(q) < 12 {
					return nil
				}
				reply := c.frame(mkReply(q, binary.BigEndian.Uint16(q)))
				mu.Lock()
				outstanding[c.id]++
				total++
				if outstanding[c.id] > maxOut[c.id] {
					maxOut[c.id] = outstanding[c.id]
				}
				if kind == "reuse" {
					if len(events[c.id]) == 0 {
						events[c.id] = append(events[c.id], "send")
					} else {
						events[c.id] = append(events[c.id], "take+send")
					}
				} else {
					events[c.id] = append(events[c.id], "reserve+enter1")
				}
				obs[c.id] = append(obs[c.id], fmt.Sprint(outstanding[c.id]))
				answer := func() {
					mu.Lock()
					outstanding[c.id]--
					if kind == "reuse" {
						events[c.id] = append(events[c.id], "reply")
					} else {
						events[c.id] = append(events[c.id], "reply+exit0")
					}
					obs[c.id] = append(obs[c.id], fmt.Sprint(outstanding[c.id]))
					mu.Unlock()
					c.feed(reply)
				}
				if hold {
					held = append(held, answer)
					mu.Unlock()
				} else {
					mu.Unlock()
					answer()
				}
				return nil
			}
			dial := func() *fakeConn {
				mu.Lock()
				defer mu.Unlock()
				c := newFakeConn(len(conns)+1, true)
				c.onWrite = onWrite
				conns = append(conns, c)
				return c
			}
			var ex func(ctx context.Context, q []byte) (*[]byte, error)
			var closeT func()
			if kind == "reuse" {
				t := transport.NewReuseConnTransport(transport.ReuseConnOpts{DialContext: func(ctx context.Context) (transport.NetConn, error) { return dial(), nil }})
				ex, closeT = t.ExchangeContext, func() { t.Close() }
			} else {
				t := transport.NewPipelineTransport(transport.PipelineOpts{MaxConcurrentQueryWhileDialing: limit, DialContext: func(ctx context.Context) (transport.DnsConn, error) {
					return transport.NewDnsConn(transport.TraditionalDnsConnOpts{WithLengthHeader: true, IdleTimeout: 10 * time.Second, MaxConcurrentQuery: limit}, dial()), nil
				}})
				ex, closeT = t.ExchangeContext, func() { t.Close() }
			}
			burst := func(cancelSome bool) (failed int) {
				var wg sync.WaitGroup
				errs := make([]error, n)
				mu.Lock()
				base := total
				mu.Unlock()
				for i := 0; i < n; i++ {
					wg.Add(1)
					go func(i int) {
						defer wg.Done()
						tag09i := 500000 + rd*1000 + i
						d := 3 * time.Second
						if cancelSome && i%3 == 0 {
							d = 30 * time.Millisecond
						}
						ctx, cancel := context.WithTimeout(context.Background(), d)
						defer cancel()
						_, errs[i] = ex(ctx, mkQuery(uint16(i), tag09i))
					}(i)
				}
				deadline := time.Now().Add(2 * time.Second)
				for time.Now().Before(deadline) {
					mu.Lock()
					t := total
					mu.Unlock()
					if t >= base+n {
						break
					}
					time.Sleep(200 * time.Microsecond)
				}
				if cancelSome {
					time.Sleep(50 * time.Millisecond)
				}
				mu.Lock()
				h := held
				held = nil
				mu.Unlock()
				for _, f := range h {
					f()
				}
				wg.Wait()
				for i, e := range errs {
					if e != nil && !(cancelSome && i%3 == 0) {
						failed++
					}
				}
				return failed
			}
			f1 := burst(false)
			mu.Lock()
			conns1 := len(conns)
			mu.Unlock()
			f2 := burst(true) // some callers give up while their query is unanswered
			time.Sleep(5 * time.Millisecond)
			f3 := burst(false)
			mu.Lock()
			conns3 := len(conns)
			worst := 0
			for _, m := range maxOut {
				if m > worst {
					worst = m
				}
			}
			desc := map[string]any{"transport": kind, "limit": limit, "concurrent_queries": n, "connections_after_first_burst": conns1, "connections_after_third_burst": conns3, "max_unanswered_on_one_connection": worst, "failed": []int{f1, f2, f3}}
			if worst > limit {
				r.Fail("a connection carried more unanswered queries than its limit", desc)
			}
			if f1+f2+f3 > 0 {
				r.Fail("queries were refused although the transport can open additional connections", desc)
			}
			if kind == "pipeline" && conns1*limit >= n && conns3 > conns1 {
				r.Fail("after all queries completed or were cancelled, the same burst needed additional connections: capacity was lost", desc)
			}
			for _, c := range conns {
				if len(events[c.id]) == 0 {
					continue
				}
				if kind == "reuse" {
					// a query abandoned by its caller is still unanswered on the wire: the model's `reply` clears it
					r.Line("reuse "+strings.Join(events[c.id], ","), "-:"+strings.Join(obs[c.id], ";-:"))
				}
			}
			mu.Unlock()
			r.Eval(fmt.Sprintf("burst/%s/%d", kind, rd), true)
			r.Count(kind + ":bursts")
			r.Trace()
			closeT()
		}
	}
	concurrentReservers09(r)
	queuedBeyondLimit09(r)
	pipelineBurstWhileDialing09(r)
	lateCallerAtDial09(r)
	poolMixedStates09(r)
	doneContextCallers09(r)
	upstreamPipelineLimits09(r)
	idWrap09(r)
	r.Finish("part 1: random histories (10..50 operations) of reserve / withdraw / exchange / exchange with a dead context / reply / cancel (+ late reply) / stray reply / peer close on one TraditionalDnsConn, limit 1..4, stream and datagram, probing after every operation how many further queries are admitted; part 2: the same on a connection whose dial is gated (queue limit 1..4), then the dial succeeds with limit >= queue limit, fails, or Close cancels it; part 3: bursts of 2..10 concurrent queries (with cancellations) over both transports with the server counting unanswered queries per connection; part 4: on one TraditionalDnsConn with some reservations held and queries unanswered, 2..13 more callers than it has room for reserve at the same moment (lined up on the connection's lock, which the harness holds through a held SetReadDeadline call, or let loose together), the admitted ones send to a server that never answers and counts unanswered queries, then replies / cancellations and the capacity probe, several bursts per connection, replayed on the model; part 5: 2..16 queries queued on a dialing connection whose dial succeeds with a SMALLER limit (1..4) re-reserve at the same moment, same server-side count, replayed on the composed model; part 6: the same through PipelineTransport (burst while the dial is held, queue limit > connection limit, retries on further connections), unanswered queries counted per connection; part 7: late callers arrive at the moment the dial of a connection with a full (or partly filled) queue succeeds with an equal or larger limit, while one queued caller is held at the entry of ReserveNewQuery of the dialed connection (wrapper around the real connection): every queued query must be sent, capacity probes afterwards, replayed on the composed model; the same through PipelineTransport (limit 1..3, every call must succeed); part 8: PipelineTransport with a pool in mixed states: connection A established and filled, one more query makes it dial B (dial held), A drops below its limit, 72 (200) queries one after the other each answered at once (the visiting order of the connections varies), B's dial succeeds or fails, everything is answered, then a burst of limit x live connections held queries must be carried by the live connections without a further dial and without a call hanging; the burst is replayed on the model of the transport's pick, and the history of every connection as its server saw it on the composed model (compared: what the connection admits at the end); part 9: PipelineTransport (limit 1..4) with calls whose context is already cancelled or past its deadline, mixed with answered queries, on an established connection and while the first connection is dialing (with ordinary queries queued next to them): every later call must return, and a held burst of limit x live connections queries must be carried without a further dial; the history of the connection is replayed on the composed model; part 10: the upstream as pkg/upstream.NewUpstream builds it (tcp+pipeline, tls+pipeline, tcp / tls with EnablePipeline) against a pipelining tcp / tls server on loopback whose first read (the tls handshake) is delayed 100..300 ms: a burst of 33..64 concurrent held queries (64 = the pipelining limit) must be carried by one connection with no query failing, and again 64 on the quiescent connection; part 11 (c09wrap.go): histories longer than the 16-bit wire id space on one TraditionalDnsConn (limit 2..4): 1..limit-1 queries stay unanswered while 65536 - d (d = 0..2) further queries are answered one after the other (op fill:N) until the id counter is back at the waiting ones, then the connection is filled up repeatedly; capacity probe after every operation, unanswered queries counted by the server, replayed on the model")
}

// ---------------------------------------------------------------- concurrent reservers (parts 4..6)

// server09 is the peer of one fakeConn: it never answers by itself, and counts
// the queries (by tag, so that a datagram resend is not counted twice) it has
// received and not answered yet.
type server09 struct {
	mu         sync.Mutex
	unanswered map[int]bool
	max        int
	total      int
}

func newServer09(fc *fakeConn) *server09 {
	s := &server09{unanswered: map[int]bool{}}
	fc.onWrite = func(c *fakeConn, w []byte) error {
		q := c.payloadOf(w)
		if len(q) < 12 {
			return nil
		}
		tag := tagOf(q)
		s.mu.Lock()
		if !s.unanswered[tag] {
			s.unanswered[tag] = true
			s.total++
			if len(s.unanswered) > s.max {
				s.max = len(s.unanswered)
			}
		}
		s.mu.Unlock()
		return nil
	}
	return s
}

// answer sends the reply to wire query q.
func (s *server09) answer(fc *fakeConn, q []byte) {
	s.mu.Lock()
	delete(s.unanswered, tagOf(q))
	s.mu.Unlock()
	fc.feed(fc.frame(mkReply(q, binary.BigEndian.Uint16(q))))
}

func (s *server09) stats() (max, now, total int) {
	s.mu.Lock()
	defer s.mu.Unlock()
	return s.max, len(s.unanswered), s.total
}

// releaseGate09 lets the SetReadDeadline call held by fakeConn.armGate go.
func releaseGate09(fc *fakeConn) {
	fc.mu.Lock()
	rel := fc.gateRelease
	fc.mu.Unlock()
	if rel == nil {
		return
	}
	defer func() { _ = recover() }() // another SetReadDeadline call let it go at the same moment
	select {
	case <-rel:
	default:
		close(rel)
	}
}

// awaitGate09 waits until a SetReadDeadline call is held at the gate.
func awaitGate09(entered <-chan struct{}) bool {
	select {
	case <-entered:
		return true
	case <-time.After(time.Second):
		return false
	}
}

// reserveAtOnce09 lets k callers call rsv at the same moment. If lineUp is
// given it is called first and must arrange that callers block inside rsv
// until the returned function is called (the harness cannot see them block:
// it waits until every caller is about to call and a little longer; a caller
// that is late simply reserves later, which is just another schedule).
func reserveAtOnce09(k int, rsv func() (transport.ReservedExchanger, bool), lineUp func() (letGo func())) (admitted []transport.ReservedExchanger) {
	res := make([]transport.ReservedExchanger, k)
	var wg sync.WaitGroup
	var calling int32
	start := make(chan struct{})
	var letGo func()
	if lineUp != nil {
		letGo = lineUp()
		close(start)
	}
	for i := 0; i < k; i++ {
		wg.Add(1)
		go func(i int) {
			defer wg.Done()
			atomic.AddInt32(&calling, 1)
			<-start
			res[i], _ = rsv()
		}(i)
	}
	for i := 0; i < 20000 && atomic.LoadInt32(&calling) < int32(k); i++ {
		time.Sleep(50 * time.Microsecond)
	}
	if letGo != nil {
		time.Sleep(2 * time.Millisecond)
		letGo()
	} else {
		close(start)
	}
	wg.Wait()
	for _, rx := range res {
		if rx != nil {
			admitted = append(admitted, rx)
		}
	}
	return admitted
}

func rep09(label string, n int) string {
	l := make([]string, n)
	for i := range l {
		l[i] = label
	}
	return strings.Join(l, "+")
}

// part 4: more callers than the connection has room for reserve at the same moment.
func concurrentReservers09(r *Run) {
	conns := r.N(10, 150)
	for ci := 0; ci < conns; ci++ {
		limit := 1 + r.Rng.Intn(4)
		stream := r.Rng.Intn(2) == 0
		fc := newFakeConn(20000+ci, stream)
		srv := newServer09(fc)
		dc := transport.NewDnsConn(transport.TraditionalDnsConnOpts{WithLengthHeader: stream, IdleTimeout: 10 * time.Second, MaxConcurrentQuery: limit}, fc)
		var holders []transport.ReservedExchanger
		var inflight []*call09
		var ops, outs []string
		quiet, lastFree := false, 0
		emit := func(op, out string) {
			free := probe09(dc.ReserveNewQuery)
			lastFree = free
			ops = append(ops, op)
			outs = append(outs, fmt.Sprintf("%s:%d", out, free))
			if !quiet && free != limit-len(holders)-len(inflight) {
				r.Fail("a live connection does not admit exactly limit - (reservations + unanswered queries) further queries", map[string]any{
					"limit": limit, "history": strings.Join(ops, ","), "reservations_held": len(holders), "unanswered": len(inflight), "admits": free, "stream": stream})
			}
			r.Count("burst-op:" + strings.SplitN(op, "+", 2)[0])
		}
		enterAll := func() {
			if len(holders) == 0 {
				return
			}
			var calls []*call09
			for _, rx := range holders {
				calls = append(calls, startCall09(rx, false))
			}
			n := len(holders)
			holders = nil
			for _, c := range calls {
				if findWrite09(fc, c, 4*time.Second) {
					inflight = append(inflight, c)
				} else {
					r.Fail("a reserved query on a live connection was not sent", map[string]any{"limit": limit, "history": strings.Join(ops, ","), "err": fmt.Sprint(c.err)})
				}
			}
			emit(rep09("enter1", n), "a")
		}
		bursts := 1 + r.Rng.Intn(3)
		for bi := 0; bi < bursts; bi++ {
			// what the connection carries before the burst
			for i := r.Rng.Intn(limit + 1); i > 0; i-- {
				rx, _ := dc.ReserveNewQuery()
				if rx == nil {
					emit("reserve", "r")
					break
				}
				holders = append(holders, rx)
				emit("reserve", "a")
				if r.Rng.Intn(2) == 0 {
					enterAll()
				}
			}
			room := limit - len(holders) - len(inflight)
			k := room + 1 + r.Rng.Intn(12)
			if k < 2 {
				k = 2
			}
			forced := r.Rng.Intn(4) != 0
			op := rep09("reserve", k)
			var lineUp func() func()
			if forced {
				// a reply nobody waits for sends the reader round its loop; its SetReadDeadline call is held, and with
				// it whatever lock the connection holds across that call (the unchanged code: the queue lock)
				op = "stray+" + op
				lineUp = func() func() {
					entered := fc.armGate(2 * time.Second)
					fc.feed(fc.frame(mkReply(mkQuery(0, 424242), uint16(40000+r.Rng.Intn(20000)))))
					if !awaitGate09(entered) {
						r.Count("burst:gate-not-reached")
					}
					return func() { releaseGate09(fc) }
				}
			}
			admitted := reserveAtOnce09(k, dc.ReserveNewQuery, lineUp)
			if forced {
				fc.waitDrained(time.Second)
			}
			holders = append(holders, admitted...)
			out := "r"
			if len(admitted) > 0 {
				out = "a"
			}
			carried := len(holders) + len(inflight)
			desc := map[string]any{"limit": limit, "stream": stream, "history_before": strings.Join(ops, ","), "reservations_and_unanswered_before": limit - room,
				"concurrent_reserve_calls": k, "admitted": len(admitted), "lined_up_on_the_connection_lock": forced}
			free := probe09(dc.ReserveNewQuery)
			lastFree = free
			ops = append(ops, op)
			outs = append(outs, fmt.Sprintf("%s:%d", out, free))
			// the admitted callers (and the earlier holders) send their queries; the server never answers
			quiet = true
			enterAll()
			quiet = false
			_, now, _ := srv.stats()
			desc["unanswered_queries_seen_by_the_server"] = now
			if now > limit {
				r.Fail("a connection carries more unanswered queries than its limit: callers reserving at the same moment were all admitted", desc)
				r.Count("burst:over-limit")
				break // what follows on this connection would only repeat it
			}
			if len(admitted) < room {
				r.Fail("a live connection holding fewer queries than its limit refused a caller (concurrent reservations)", desc)
			}
			if free != limit-carried || lastFree != limit-len(inflight) {
				desc["admits_after_the_burst"], desc["admits_after_the_queries_were_sent"] = free, lastFree
				r.Fail("after concurrent reservations a live connection does not admit exactly limit - (reservations + unanswered queries) further queries", desc)
			}
			r.Count(fmt.Sprintf("burst:callers-over-room:%d", k-room))
			r.Count(fmt.Sprintf("burst:forced:%v", forced))
			// the queries end: answered, or abandoned with the reply arriving late
			n := r.Rng.Intn(len(inflight) + 1)
			if bi == bursts-1 {
				n = len(inflight)
			}
			for ; n > 0; n-- {
				i := r.Rng.Intn(len(inflight))
				c := inflight[i]
				inflight = append(inflight[:i], inflight[i+1:]...)
				if r.Rng.Intn(2) == 0 {
					srv.answer(fc, c.wireQ)
					if !c.wait(4*time.Second) || c.err != nil {
						r.Fail("an answered query did not return its reply", map[string]any{"history": strings.Join(ops, ","), "err": fmt.Sprint(c.err)})
					}
					emit("reply+exit0", "-")
				} else {
					c.cancel()
					c.wait(4 * time.Second)
					srv.answer(fc, c.wireQ)
					fc.waitDrained(time.Second)
					emit("exit1+stray", "-")
				}
			}
		}
		for _, c := range inflight {
			c.cancel()
		}
		dc.Close()
		r.Line(fmt.Sprintf("tdc %d %s", limit, strings.Join(ops, ",")), strings.Join(outs, ";"))
		r.Eval(fmt.Sprintf("tdc-burst/%d", ci), true)
		r.Count(fmt.Sprintf("burst-limit:%d", limit))
		r.Trace()
	}
}

// part 5: queries queued on a dialing connection re-reserve at the same moment on a
// connection that turns out to have a smaller limit than the queue.
func queuedBeyondLimit09(r *Run) {
	rounds := r.N(10, 150)
	for ri := 0; ri < rounds; ri++ {
		a := 2 + r.Rng.Intn(15) // queue limit while dialing
		b := a - 1              // limit of the dialed connection
		if b > 4 {
			b = 4
		}
		b = 1 + r.Rng.Intn(b)
		n := b + 1 + r.Rng.Intn(a-b) // queued queries: more than the connection will take
		forced := r.Rng.Intn(4) != 0
		fc := newFakeConn(30000+ri, true)
		srv := newServer09(fc)
		gate := make(chan struct{})
		var realDc *transport.TraditionalDnsConn
		dialed := make(chan struct{})
		lc := transport.VerifNewLazyDnsConn(func(ctx context.Context) (transport.DnsConn, error) {
			defer close(dialed)
			select {
			case <-gate:
			case <-ctx.Done():
				return nil, ctx.Err()
			}
			var entered <-chan struct{}
			if forced {
				// the reader's first SetReadDeadline call is held, and with it whatever lock the connection holds across it
				entered = fc.armGate(2 * time.Second)
			}
			realDc = transport.NewDnsConn(transport.TraditionalDnsConnOpts{WithLengthHeader: true, IdleTimeout: 10 * time.Second, MaxConcurrentQuery: b}, fc)
			if forced && !awaitGate09(entered) {
				r.Count("queued:gate-not-reached")
			}
			return realDc, nil
		}, 5*time.Second, a)
		var parked []*call09
		var ops, outs []string
		for i := 0; i < n; i++ {
			rx, _ := lc.ReserveNewQuery()
			if rx == nil {
				r.Fail("a dialing connection refused a query below its queue limit", map[string]any{"queue_limit": a, "queued": i})
				break
			}
			parked = append(parked, startCall09(rx, false))
			free := probe09(lc.ReserveNewQuery)
			ops = append(ops, "l.reserve+l.enter")
			outs = append(outs, fmt.Sprintf("a:%d", free))
			if free != a-len(parked) {
				r.Fail("a dialing connection does not admit exactly queue limit - queued queries", map[string]any{"queue_limit": a, "queued": len(parked), "admits": free})
			}
		}
		time.Sleep(time.Duration(200+r.Rng.Intn(800)) * time.Microsecond) // the callers park in ExchangeReserved
		close(gate)
		select {
		case <-dialed:
		case <-time.After(3 * time.Second):
		}
		if forced {
			// the dial goroutine returns the connection once the reader is held; the queued callers then line up behind it
			time.Sleep(2 * time.Millisecond)
			releaseGate09(fc)
		}
		var inflight, refused []*call09
		for _, c := range parked {
			if findWrite09(fc, c, 4*time.Second) {
				inflight = append(inflight, c)
			} else {
				c.wait(time.Second)
				refused = append(refused, c)
			}
		}
		_, now, _ := srv.stats()
		free := probe09(lc.ReserveNewQuery)
		op := "l.dialOk"
		if len(inflight) > 0 {
			op += "+" + rep09("l.proceed+t.enter1", len(inflight))
		}
		if len(refused) > 0 {
			op += "+" + rep09("l.proceed", len(refused))
		}
		out := "r"
		if len(inflight) > 0 {
			out = "a"
		}
		ops = append(ops, op)
		outs = append(outs, fmt.Sprintf("%s:%d", out, free))
		desc := map[string]any{"queue_limit_while_dialing": a, "connection_limit": b, "queued_queries": n, "sent_on_the_connection": len(inflight), "refused": len(refused),
			"unanswered_queries_seen_by_the_server": now, "lined_up_on_the_connection_lock": forced, "admits_afterwards": free}
		if now > b {
			r.Fail("a connection carries more unanswered queries than its limit: queries queued while it was dialing were all admitted at once", desc)
			r.Count("queued:over-limit")
		} else if free != b-len(inflight) {
			r.Fail("after the dial, a live connection does not admit exactly limit - unanswered queries", desc)
		}
		if len(inflight) < b {
			r.Fail("a live connection holding fewer queries than its limit refused a query that was queued while it was dialing", desc)
		}
		overLimit := now > b
		for len(inflight) > 0 {
			i := r.Rng.Intn(len(inflight))
			c := inflight[i]
			inflight = append(inflight[:i], inflight[i+1:]...)
			if r.Rng.Intn(2) == 0 {
				srv.answer(fc, c.wireQ)
				c.wait(4 * time.Second)
				if c.err != nil {
					r.Fail("an answered query did not return its reply", map[string]any{"history": strings.Join(ops, ","), "err": fmt.Sprint(c.err)})
				}
				ops = append(ops, "t.reply+t.exit0")
			} else {
				c.cancel()
				c.wait(4 * time.Second)
				ops = append(ops, "t.exit1")
			}
			free := probe09(lc.ReserveNewQuery)
			outs = append(outs, fmt.Sprintf("-:%d", free))
			if free != b-len(inflight) && !overLimit {
				desc["admits_afterwards"], desc["unanswered"] = free, len(inflight)
				r.Fail("capacity was lost on a connection that refused queued queries: it does not admit limit - unanswered queries", desc)
			}
		}
		lc.Close()
		if realDc != nil {
			realDc.Close()
		}
		r.Line(fmt.Sprintf("sys %d %d %s", a, b, strings.Join(ops, ",")), strings.Join(outs, ";"))
		r.Eval(fmt.Sprintf("sys-burst/%d", ri), true)
		r.Count(fmt.Sprintf("queued:forced:%v", forced))
		r.Count(fmt.Sprintf("queued:over-limit-by:%d", n-b))
		r.Trace()
	}
}

// part 6: the same through PipelineTransport: a burst while the dial is held, queue
// limit larger than the limit of the dialed connections. Queries that do not fit
// fail or are retried on further connections; no connection may exceed its limit.
func pipelineBurstWhileDialing09(r *Run) {
	rounds := r.N(8, 80)
	for ri := 0; ri < rounds; ri++ {
		b := 1 + r.Rng.Intn(3)
		a := b + 1 + r.Rng.Intn(12)
		n := a + r.Rng.Intn(3)
		forced := r.Rng.Intn(4) != 0
		var mu sync.Mutex
		var conns []*fakeConn
		var srvs []*server09
		dialGo := make(chan struct{})
		t := transport.NewPipelineTransport(transport.PipelineOpts{MaxConcurrentQueryWhileDialing: a, DialContext: func(ctx context.Context) (transport.DnsConn, error) {
			select {
			case <-dialGo:
			case <-ctx.Done():
				return nil, ctx.Err()
			}
			mu.Lock()
			fc := newFakeConn(40000+ri*100+len(conns), true)
			conns = append(conns, fc)
			srvs = append(srvs, newServer09(fc))
			mu.Unlock()
			var entered <-chan struct{}
			if forced {
				entered = fc.armGate(2 * time.Second)
			}
			dc := transport.NewDnsConn(transport.TraditionalDnsConnOpts{WithLengthHeader: true, IdleTimeout: 10 * time.Second, MaxConcurrentQuery: b}, fc)
			if forced {
				awaitGate09(entered)
				time.AfterFunc(2*time.Millisecond, func() { releaseGate09(fc) })
			}
			return dc, nil
		}})
		ctx, cancel := context.WithTimeout(context.Background(), 10*time.Second)
		var wg sync.WaitGroup
		var started, finished int32
		for i := 0; i < n; i++ {
			wg.Add(1)
			go func(i int) {
				defer wg.Done()
				atomic.AddInt32(&started, 1)
				_, _ = t.ExchangeContext(ctx, mkQuery(uint16(i), 600000+ri*1000+i))
				atomic.AddInt32(&finished, 1)
			}(i)
		}
		for i := 0; i < 20000 && atomic.LoadInt32(&started) < int32(n); i++ {
			time.Sleep(50 * time.Microsecond)
		}
		time.Sleep(time.Duration(1+r.Rng.Intn(3)) * time.Millisecond) // they queue up on the dialing connection(s)
		close(dialGo)
		// every query ends up unanswered at the server or failed
		settled := false
		for deadline := time.Now().Add(5 * time.Second); time.Now().Before(deadline); time.Sleep(200 * time.Microsecond) {
			sent := 0
			mu.Lock()
			for _, s := range srvs {
				_, _, total := s.stats()
				sent += total
			}
			mu.Unlock()
			if sent+int(atomic.LoadInt32(&finished)) >= n {
				settled = true
				break
			}
		}
		mu.Lock()
		worst, sent := 0, 0
		var perConn []int
		for _, s := range srvs {
			max, _, total := s.stats()
			perConn = append(perConn, max)
			sent += total
			if max > worst {
				worst = max
			}
		}
		nconns := len(conns)
		mu.Unlock()
		desc := map[string]any{"transport": "pipeline", "queue_limit_while_dialing": a, "connection_limit": b, "concurrent_queries_while_the_dial_is_held": n,
			"connections": nconns, "max_unanswered_per_connection_seen_by_the_server": perConn, "queries_sent": sent, "queries_failed": int(atomic.LoadInt32(&finished)),
			"lined_up_on_the_connection_lock": forced}
		if worst > b {
			r.Fail("a connection carried more unanswered queries than its limit (burst queued while the connection was dialing)", desc)
			r.Count("pipeline-dialing:over-limit")
		}
		if !settled {
			r.Count("pipeline-dialing:not-settled")
		}
		cancel()
		wg.Wait()
		t.Close()
		r.Eval(fmt.Sprintf("burst/pipeline-dialing/%d", ri), true)
		r.Count(fmt.Sprintf("pipeline-dialing:forced:%v", forced))
		r.Count(fmt.Sprintf("pipeline-dialing:connections:%d", nconns))
		r.Trace()
	}
}
