//go:build pC09 || pall

package main

import (
	"context"
	"encoding/binary"
	"errors"
	"fmt"
	"io"
	"strings"
	"sync"
	"time"

	"github.com/IrineSistiana/mosdns/v5/pkg/upstream/transport"
)

// C09: per-connection concurrency limits hold and capacity never leaks.
//
// Part 1 drives one real TraditionalDnsConn through random histories of
// reserve / withdraw / exchange / reply / cancel / stray reply / close and,
// after every operation, probes how many further queries it admits.
// Part 2 does the same with a connection that is still dialing (the dial is
// gated) and then lets the dial succeed (equal or larger limit) or fail.
// Part 3 watches the per-connection number of unanswered queries under the two
// transports. Every history is replayed on the model.

func init() { props["C09"] = runC09 }

func runC09(r *Run) {
	// ------------------------------------------------------------------ part 1
	histories := r.N(40, 400)
	for hi := 0; hi < histories; hi++ {
		max := 1 + r.Rng.Intn(4)
		stream := r.Rng.Intn(2) == 0
		fc := newFakeConn(hi, stream)
		dc := transport.NewDnsConn(transport.TraditionalDnsConnOpts{WithLengthHeader: stream, IdleTimeout: 10 * time.Second, MaxConcurrentQuery: max}, fc)
		var holders []transport.ReservedExchanger
		var inflight []*call09
		var ops, outs []string
		closed := false
		maxUnanswered := 0
		steps := 10 + r.Rng.Intn(40)
		emit := func(op, out string) {
			free := probe09(dc.ReserveNewQuery)
			ops = append(ops, op)
			outs = append(outs, fmt.Sprintf("%s:%d", out, free))
			if len(inflight) > maxUnanswered {
				maxUnanswered = len(inflight)
			}
			if !closed && free != max-len(holders)-len(inflight) {
				r.Fail("a live connection does not admit exactly limit - (reservations + unanswered queries) further queries", map[string]any{
					"limit": max, "history": strings.Join(ops, ","), "reservations_held": len(holders), "unanswered": len(inflight), "admits": free, "stream": stream})
			}
			if len(inflight) > max {
				r.Fail("a connection carries more unanswered queries than its limit", map[string]any{"limit": max, "history": strings.Join(ops, ","), "unanswered": len(inflight)})
			}
			r.Count("tdc-op:" + strings.SplitN(op, "+", 2)[0])
		}
		for st := 0; st < steps; st++ {
			switch k := r.Rng.Intn(12); {
			case k < 3: // reserve
				rx, cl := dc.ReserveNewQuery()
				out := "r"
				if rx != nil {
					out = "a"
					holders = append(holders, rx)
				} else if cl {
					out = "c"
				}
				emit("reserve", out)
			case k == 3 && len(holders) > 0:
				holders[len(holders)-1].WithdrawReserved()
				holders = holders[:len(holders)-1]
				emit("withdraw", "-")
			case k < 7 && len(holders) > 0: // enter
				rx := holders[len(holders)-1]
				holders = holders[:len(holders)-1]
				dead := r.Rng.Intn(4) == 0
				c := startCall09(rx, dead)
				wrote := findWrite09(fc, c, 2*time.Second)
				switch {
				case closed || (!wrote && c.wait(time.Second) && errors.Is(c.err, transport.ErrTDCClosed)):
					c.wait(2 * time.Second)
					emit("enter1", "c")
				case dead:
					c.wait(2 * time.Second)
					emit("enter1+exit1", "a")
				default:
					inflight = append(inflight, c)
					emit("enter1", "a")
				}
			case k == 7 && len(inflight) > 0: // reply
				i := r.Rng.Intn(len(inflight))
				c := inflight[i]
				inflight = append(inflight[:i], inflight[i+1:]...)
				fc.feed(fc.frame(mkReply(c.wireQ, binary.BigEndian.Uint16(c.wireQ))))
				if !c.wait(2*time.Second) || c.err != nil || tagOf(*c.resp) != c.tag || binary.BigEndian.Uint16(*c.resp) != c.id {
					r.Fail("an answered query did not return its own reply", map[string]any{"history": strings.Join(ops, ","), "err": fmt.Sprint(c.err)})
				}
				emit("reply+exit0", "-")
			case k == 8 && len(inflight) > 0: // cancel
				i := r.Rng.Intn(len(inflight))
				c := inflight[i]
				inflight = append(inflight[:i], inflight[i+1:]...)
				c.cancel()
				c.wait(2 * time.Second)
				if r.Rng.Intn(2) == 0 && !closed { // its reply arrives late
					fc.feed(fc.frame(mkReply(c.wireQ, binary.BigEndian.Uint16(c.wireQ))))
					fc.waitDrained(time.Second)
					emit("exit1+stray", "-")
				} else {
					emit("exit1", "-")
				}
			case k == 9 && !closed: // a reply nobody waits for
				q := mkQuery(0, 424242)
				fc.feed(fc.frame(mkReply(q, uint16(40000+r.Rng.Intn(20000)))))
				fc.waitDrained(time.Second)
				emit("stray", "-")
			case k == 10 && !closed && r.Rng.Intn(3) == 0: // the peer closes
				fc.feedErr(io.EOF)
				for i := 0; i < 4000 && !dc.IsClosed(); i++ {
					time.Sleep(100 * time.Microsecond)
				}
				n := len(inflight)
				for _, c := range inflight {
					c.wait(2 * time.Second)
				}
				inflight = nil
				closed = true
				emit("close"+strings.Repeat("+exit1", n), "-")
			}
		}
		for _, c := range inflight {
			c.cancel()
		}
		dc.Close()
		if len(ops) == 0 {
			continue
		}
		r.Line(fmt.Sprintf("tdc %d %s", max, strings.Join(ops, ",")), strings.Join(outs, ";"))
		r.Eval(fmt.Sprintf("tdc/%d", hi), len(ops) > 3)
		r.Count(fmt.Sprintf("tdc-limit:%d", max))
		r.Trace()
	}

	// ------------------------------------------------------------------ part 2
	histories = r.N(40, 400)
	for hi := 0; hi < histories; hi++ {
		a := 1 + r.Rng.Intn(4)
		b := a + r.Rng.Intn(3)
		fc := newFakeConn(10000+hi, true)
		type dialRes struct{ ok bool }
		gate := make(chan dialRes, 1)
		var realDc *transport.TraditionalDnsConn
		lc := transport.VerifNewLazyDnsConn(func(ctx context.Context) (transport.DnsConn, error) {
			select {
			case res := <-gate:
				if !res.ok {
					return nil, errors.New("dial refused (injected)")
				}
				realDc = transport.NewDnsConn(transport.TraditionalDnsConnOpts{WithLengthHeader: true, IdleTimeout: 10 * time.Second, MaxConcurrentQuery: b}, fc)
				return realDc, nil
			case <-ctx.Done():
				return nil, ctx.Err()
			}
		}, 5*time.Second, a)
		var holders []transport.ReservedExchanger
		var parked []*call09
		var ops, outs []string
		emit := func(op, out string, free int) {
			ops = append(ops, op)
			outs = append(outs, fmt.Sprintf("%s:%d", out, free))
			r.Count("lazy-op:" + strings.SplitN(op, "+", 2)[0])
		}
		probeDialing := func() int {
			free := probe09(lc.ReserveNewQuery)
			if free != a-len(holders)-len(parked) {
				r.Fail("a dialing connection does not admit exactly queue limit - queued queries", map[string]any{
					"queue_limit": a, "history": strings.Join(ops, ","), "reservations_held": len(holders), "parked": len(parked), "admits": free})
			}
			return free
		}
		steps := 3 + r.Rng.Intn(14)
		for st := 0; st < steps; st++ {
			switch k := r.Rng.Intn(8); {
			case k < 3:
				rx, cl := lc.ReserveNewQuery()
				out := "r"
				if rx != nil {
					out = "a"
					holders = append(holders, rx)
				} else if cl {
					out = "c"
				}
				ops = append(ops, "l.reserve")
				outs = append(outs, fmt.Sprintf("%s:%d", out, probeDialing()))
				if len(holders)+len(parked) > a {
					r.Fail("a dialing connection queued more queries than its queue limit", map[string]any{"queue_limit": a, "history": strings.Join(ops, ",")})
				}
			case k == 3 && len(holders) > 0:
				holders[len(holders)-1].WithdrawReserved()
				holders = holders[:len(holders)-1]
				ops = append(ops, "l.withdraw")
				outs = append(outs, fmt.Sprintf("-:%d", probeDialing()))
			case k < 6 && len(holders) > 0:
				rx := holders[len(holders)-1]
				holders = holders[:len(holders)-1]
				parked = append(parked, startCall09(rx, false))
				ops = append(ops, "l.enter")
				outs = append(outs, fmt.Sprintf("-:%d", probeDialing()))
			case k == 6 && len(parked) > 0:
				i := r.Rng.Intn(len(parked))
				c := parked[i]
				parked = append(parked[:i], parked[i+1:]...)
				time.Sleep(200 * time.Microsecond)
				c.cancel()
				c.wait(2 * time.Second)
				ops = append(ops, "l.ctxDone")
				outs = append(outs, fmt.Sprintf("-:%d", probeDialing()))
			}
		}
		how := r.Rng.Intn(4) // 0,1: dial succeeds; 2: dial fails; 3: Close while dialing
		switch how {
		case 0, 1:
			gate <- dialRes{true}
			if len(parked)+len(holders) == 0 {
				// nobody is queued: wait until the wrapper has seen the end of the dial
				for i := 0; i < 20000; i++ {
					rx, _ := lc.ReserveNewQuery()
					if rx == nil {
						break
					}
					early := strings.Contains(fmt.Sprintf("%T", rx), "Early")
					rx.WithdrawReserved()
					if !early {
						break
					}
					time.Sleep(100 * time.Microsecond)
				}
			}
			emit("l.dialOk", "-", b) // nothing is probed here: late reservations wait for the early callers
			var inflight []*call09
			refusedEarly := 0
			for _, c := range parked {
				out := "a"
				if findWrite09(fc, c, 2*time.Second) {
					inflight = append(inflight, c)
				} else {
					c.wait(time.Second)
					out = "r"
					refusedEarly++
				}
				emit("l.proceed+t.enter1", out, b-len(inflight))
			}
			for _, rx := range holders {
				c := startCall09(rx, false)
				out := "a"
				if findWrite09(fc, c, 2*time.Second) {
					inflight = append(inflight, c)
				} else {
					c.wait(time.Second)
					out = "r"
					refusedEarly++
				}
				emit("l.enter+l.proceed+t.enter1", out, b-len(inflight))
			}
			holders = nil
			if refusedEarly > 0 {
				r.Fail("queries queued while the connection was dialing were refused after the dial succeeded with an equal or larger limit", map[string]any{
					"queue_limit": a, "connection_limit": b, "refused": refusedEarly, "history": strings.Join(ops, ",")})
			}
			// from here on the probe goes through the wrapper to the real connection
			fix := func() {
				free := probe09(lc.ReserveNewQuery)
				outs[len(outs)-1] = outs[len(outs)-1][:strings.Index(outs[len(outs)-1], ":")+1] + fmt.Sprint(free)
				if free != b-len(inflight)-len(holders) {
					r.Fail("after the dial, a live connection does not admit exactly limit - (reservations + unanswered queries)", map[string]any{
						"connection_limit": b, "history": strings.Join(ops, ","), "unanswered": len(inflight), "admits": free})
				}
			}
			if len(ops) > 0 {
				fix()
			}
			for st := 0; st < 4+r.Rng.Intn(10); st++ {
				switch k := r.Rng.Intn(6); {
				case k < 2:
					rx, cl := lc.ReserveNewQuery()
					out := "r"
					if rx != nil {
						out = "a"
						holders = append(holders, rx)
					} else if cl {
						out = "c"
					}
					emit("l.reserve", out, 0)
					fix()
				case k == 2 && len(holders) > 0:
					rx := holders[len(holders)-1]
					holders = holders[:len(holders)-1]
					c := startCall09(rx, false)
					if findWrite09(fc, c, 2*time.Second) {
						inflight = append(inflight, c)
						emit("t.enter1", "a", 0)
					} else {
						emit("t.enter1", "c", 0)
					}
					fix()
				case k == 3 && len(holders) > 0:
					holders[len(holders)-1].WithdrawReserved()
					holders = holders[:len(holders)-1]
					emit("t.withdraw", "-", 0)
					fix()
				case k >= 4 && len(inflight) > 0:
					i := r.Rng.Intn(len(inflight))
					c := inflight[i]
					inflight = append(inflight[:i], inflight[i+1:]...)
					if k == 4 {
						fc.feed(fc.frame(mkReply(c.wireQ, binary.BigEndian.Uint16(c.wireQ))))
						c.wait(2 * time.Second)
						if c.err != nil {
							r.Fail("an answered query did not return its reply", map[string]any{"history": strings.Join(ops, ","), "err": fmt.Sprint(c.err)})
						}
						emit("t.reply+t.exit0", "-", 0)
					} else {
						c.cancel()
						c.wait(2 * time.Second)
						emit("t.exit1", "-", 0)
					}
					fix()
				}
			}
			for _, c := range inflight {
				c.cancel()
			}
		case 2, 3:
			if how == 2 {
				gate <- dialRes{false}
			} else {
				lc.Close()
			}
			emit("l.dialFail", "-", 0)
			for _, c := range parked {
				c.wait(2 * time.Second)
				if c.err == nil {
					r.Fail("a query queued on a connection whose dial failed did not fail", map[string]any{"history": strings.Join(ops, ",")})
				}
				emit("l.proceed+l.finish", "c", 0)
			}
			for _, rx := range holders {
				c := startCall09(rx, false)
				c.wait(2 * time.Second)
				emit("l.enter+l.proceed+l.finish", "c", 0)
			}
			if how == 2 && len(parked)+len(holders) == 0 {
				// nobody was queued: wait until the wrapper has seen the end of the dial
				for i := 0; i < 20000; i++ {
					rx, cl := lc.ReserveNewQuery()
					if rx != nil {
						rx.WithdrawReserved()
					}
					if cl {
						break
					}
					time.Sleep(100 * time.Microsecond)
				}
			}
			rx, cl := lc.ReserveNewQuery()
			out := "r"
			if rx != nil {
				out = "a"
			} else if cl {
				out = "c"
			}
			emit("l.reserve", out, 0)
		}
		lc.Close()
		if realDc != nil {
			realDc.Close()
		}
		if len(ops) == 0 {
			continue
		}
		r.Line(fmt.Sprintf("sys %d %d %s", a, b, strings.Join(ops, ",")), strings.Join(outs, ";"))
		r.Eval(fmt.Sprintf("sys/%d", hi), len(ops) > 3)
		r.Count(fmt.Sprintf("dial-outcome:%d", how))
		r.Trace()
	}

	// ------------------------------------------------------------------ part 3
	rounds := r.N(6, 40)
	for rd := 0; rd < rounds; rd++ {
		for _, kind := range []string{"reuse", "pipeline"} {
			limit := 1
			if kind == "pipeline" {
				limit = 1 + r.Rng.Intn(3)
			}
			n := 2 + r.Rng.Intn(9)
			var mu sync.Mutex
			var conns []*fakeConn
			outstanding := map[int]int{}
			maxOut := map[int]int{}
			events := map[int][]string{}
			obs := map[int][]string{}
			var held []func()
			total := 0
			hold := true
			onWrite := func(c *fakeConn, w []byte) error {
				q := c.payloadOf(w)
				if len(q) < 12 {
					return nil
				}
				reply := c.frame(mkReply(q, binary.BigEndian.Uint16(q)))
				mu.Lock()
				outstanding[c.id]++
				total++
				if outstanding[c.id] > maxOut[c.id] {
					maxOut[c.id] = outstanding[c.id]
				}
				if kind == "reuse" {
					if len(events[c.id]) == 0 {
						events[c.id] = append(events[c.id], "send")
					} else {
						events[c.id] = append(events[c.id], "take+send")
					}
				} else {
					events[c.id] = append(events[c.id], "reserve+enter1")
				}
				obs[c.id] = append(obs[c.id], fmt.Sprint(outstanding[c.id]))
				answer := func() {
					mu.Lock()
					outstanding[c.id]--
					if kind == "reuse" {
						events[c.id] = append(events[c.id], "reply")
					} else {
						events[c.id] = append(events[c.id], "reply+exit0")
					}
					obs[c.id] = append(obs[c.id], fmt.Sprint(outstanding[c.id]))
					mu.Unlock()
					c.feed(reply)
				}
				if hold {
					held = append(held, answer)
					mu.Unlock()
				} else {
					mu.Unlock()
					answer()
				}
				return nil
			}
			dial := func() *fakeConn {
				mu.Lock()
				defer mu.Unlock()
				c := newFakeConn(len(conns)+1, true)
				c.onWrite = onWrite
				conns = append(conns, c)
				return c
			}
			var ex func(ctx context.Context, q []byte) (*[]byte, error)
			var closeT func()
			if kind == "reuse" {
				t := transport.NewReuseConnTransport(transport.ReuseConnOpts{DialContext: func(ctx context.Context) (transport.NetConn, error) { return dial(), nil }})
				ex, closeT = t.ExchangeContext, func() { t.Close() }
			} else {
				t := transport.NewPipelineTransport(transport.PipelineOpts{MaxConcurrentQueryWhileDialing: limit, DialContext: func(ctx context.Context) (transport.DnsConn, error) {
					return transport.NewDnsConn(transport.TraditionalDnsConnOpts{WithLengthHeader: true, IdleTimeout: 10 * time.Second, MaxConcurrentQuery: limit}, dial()), nil
				}})
				ex, closeT = t.ExchangeContext, func() { t.Close() }
			}
			burst := func(cancelSome bool) (failed int) {
				var wg sync.WaitGroup
				errs := make([]error, n)
				mu.Lock()
				base := total
				mu.Unlock()
				for i := 0; i < n; i++ {
					wg.Add(1)
					go func(i int) {
						defer wg.Done()
						tag09i := 500000 + rd*1000 + i
						d := 3 * time.Second
						if cancelSome && i%3 == 0 {
							d = 30 * time.Millisecond
						}
						ctx, cancel := context.WithTimeout(context.Background(), d)
						defer cancel()
						_, errs[i] = ex(ctx, mkQuery(uint16(i), tag09i))
					}(i)
				}
				deadline := time.Now().Add(2 * time.Second)
				for time.Now().Before(deadline) {
					mu.Lock()
					t := total
					mu.Unlock()
					if t >= base+n {
						break
					}
					time.Sleep(200 * time.Microsecond)
				}
				if cancelSome {
					time.Sleep(50 * time.Millisecond)
				}
				mu.Lock()
				h := held
				held = nil
				mu.Unlock()
				for _, f := range h {
					f()
				}
				wg.Wait()
				for i, e := range errs {
					if e != nil && !(cancelSome && i%3 == 0) {
						failed++
					}
				}
				return failed
			}
			f1 := burst(false)
			mu.Lock()
			conns1 := len(conns)
			mu.Unlock()
			f2 := burst(true) // some callers give up while their query is unanswered
			time.Sleep(5 * time.Millisecond)
			f3 := burst(false)
			mu.Lock()
			conns3 := len(conns)
			worst := 0
			for _, m := range maxOut {
				if m > worst {
					worst = m
				}
			}
			desc := map[string]any{"transport": kind, "limit": limit, "concurrent_queries": n, "connections_after_first_burst": conns1, "connections_after_third_burst": conns3, "max_unanswered_on_one_connection": worst, "failed": []int{f1, f2, f3}}
			if worst > limit {
				r.Fail("a connection carried more unanswered queries than its limit", desc)
			}
			if f1+f2+f3 > 0 {
				r.Fail("queries were refused although the transport can open additional connections", desc)
			}
			if kind == "pipeline" && conns1*limit >= n && conns3 > conns1 {
				r.Fail("after all queries completed or were cancelled, the same burst needed additional connections: capacity was lost", desc)
			}
			for _, c := range conns {
				if len(events[c.id]) == 0 {
					continue
				}
				if kind == "reuse" {
					// a query abandoned by its caller is still unanswered on the wire: the model's `reply` clears it
					r.Line("reuse "+strings.Join(events[c.id], ","), "-:"+strings.Join(obs[c.id], ";-:"))
				}
			}
			mu.Unlock()
			r.Eval(fmt.Sprintf("burst/%s/%d", kind, rd), true)
			r.Count(kind + ":bursts")
			r.Trace()
			closeT()
		}
	}
	r.Finish("part 1: random histories (10..50 operations) of reserve / withdraw / exchange / exchange with a dead context / reply / cancel (+ late reply) / stray reply / peer close on one TraditionalDnsConn, limit 1..4, stream and datagram, probing after every operation how many further queries are admitted; part 2: the same on a connection whose dial is gated (queue limit 1..4), then the dial succeeds with limit >= queue limit, fails, or Close cancels it; part 3: bursts of 2..10 concurrent queries (with cancellations) over both transports with the server counting unanswered queries per connection")
}
