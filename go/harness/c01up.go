//go:build pC01 || pall

package main

import (
	"bytes"
	"context"
	"encoding/binary"
	"fmt"
	"io"
	"net"
	"sort"
	"strings"
	"sync"
	"syscall"
	"time"

	"github.com/IrineSistiana/mosdns/v5/pkg/pool"
	"github.com/IrineSistiana/mosdns/v5/pkg/upstream"
)

// C01, part 5: the upstreams as pkg/upstream.NewUpstream builds them (plain UDP with its TCP fallback, tcp,
// tcp+pipeline) against a loopback server that listens on UDP and TCP on one port.
//
// The server decides per query (by its unique question) what happens: the UDP reply is plain or has TC set,
// is sent late, twice, or behind a reply with an id nobody waits for; the TCP side answers, closes after the
// query, sends half a frame, stalls until the caller's context ends, or (second server) refuses the
// connection. Callers keep what they were given while further traffic runs on the same upstreams and their
// replies are released to the pool by the harness (their last owner).
//
// Oracle (from the statement only): a call that succeeds holds a reply the server produced for its own query
// (byte for byte one of the replies the server sent for that question), with the caller's id; it still holds
// exactly these bytes after any amount of later traffic. Whether a call must succeed is not C01's matter.

type beh01 struct {
	udp   string // plain | tc
	dup   bool
	stray bool
	delay time.Duration
	tcp   string // ans | close | half | stall | refuse (refuse: the server without a TCP listener)
}

func (b beh01) String() string {
	s := "udp=" + b.udp
	if b.dup {
		s += "+dup"
	}
	if b.stray {
		s += "+stray"
	}
	if b.delay > 0 {
		s += "+late"
	}
	return s + " tcp=" + b.tcp
}

type srv01 struct {
	mu      sync.Mutex
	uc      *net.UDPConn
	tl      net.Listener
	holdFd  int // bound, not listening TCP socket: connections to the port are refused and nobody else can take it
	script  map[int]beh01
	sent    map[int][][]byte // per question: every reply produced for it (id zeroed)
	udpWire map[int]uint16
	tcpWire map[int]uint16
	conns   []net.Conn
	stop    chan struct{}
}

func newSrv01(withTCP bool) (*srv01, string) {
	for try := 0; try < 50; try++ {
		s := &srv01{holdFd: -1, script: map[int]beh01{}, sent: map[int][][]byte{}, udpWire: map[int]uint16{}, tcpWire: map[int]uint16{}, stop: make(chan struct{})}
		port := 0
		if withTCP {
			l, err := net.Listen("tcp", "127.0.0.1:0")
			if err != nil {
				fatal(err)
			}
			s.tl = l
			port = l.Addr().(*net.TCPAddr).Port
		}
		uc, err := net.ListenUDP("udp", &net.UDPAddr{IP: net.IPv4(127, 0, 0, 1), Port: port})
		if err != nil {
			if s.tl != nil {
				s.tl.Close()
			}
			continue
		}
		if !withTCP {
			port = uc.LocalAddr().(*net.UDPAddr).Port
			fd, err := syscall.Socket(syscall.AF_INET, syscall.SOCK_STREAM, 0)
			if err != nil {
				fatal(err)
			}
			if err := syscall.Bind(fd, &syscall.SockaddrInet4{Port: port, Addr: [4]byte{127, 0, 0, 1}}); err != nil {
				syscall.Close(fd)
				uc.Close()
				continue
			}
			s.holdFd = fd
		}
		s.uc = uc
		go s.serveUDP()
		if withTCP {
			go s.serveTCP()
		}
		return s, fmt.Sprintf("127.0.0.1:%d", port)
	}
	fatal(fmt.Errorf("cannot bind a UDP+TCP port pair"))
	return nil, ""
}

// produce builds the server's reply to wire query q over the given transport and records it.
func (s *srv01) produce(q []byte, via string, tc bool) []byte {
	r := mkReply(q, binary.BigEndian.Uint16(q))
	if tc {
		r[2] |= 2
	}
	r = append(r, []byte("/"+via+"/")...)
	for i := 0; i < 5+len(q)%7; i++ {
		r = append(r, byte(i*13+len(q)))
	}
	z := append([]byte(nil), r...)
	z[0], z[1] = 0, 0
	tag := tagOf(q)
	s.mu.Lock()
	s.sent[tag] = append(s.sent[tag], z)
	s.mu.Unlock()
	return r
}

func (s *srv01) serveUDP() {
	buf := make([]byte, 65535)
	for {
		n, addr, err := s.uc.ReadFromUDP(buf)
		if err != nil {
			return
		}
		if n < 12 {
			continue
		}
		q := append([]byte(nil), buf[:n]...)
		tag := tagOf(q)
		w := binary.BigEndian.Uint16(q)
		s.mu.Lock()
		b, ok := s.script[tag]
		s.udpWire[tag] = w
		s.mu.Unlock()
		if !ok {
			b = beh01{udp: "plain"}
		}
		rep := s.produce(q, "udp", b.udp == "tc")
		send := func() {
			if b.stray {
				s.uc.WriteToUDP(mkReply(mkQuery(0, 999999), w+30000), addr)
			}
			s.uc.WriteToUDP(rep, addr)
			if b.dup {
				s.uc.WriteToUDP(rep, addr)
			}
		}
		if b.delay > 0 {
			go func() { time.Sleep(b.delay); send() }()
		} else {
			send()
		}
	}
}

func (s *srv01) serveTCP() {
	for {
		c, err := s.tl.Accept()
		if err != nil {
			return
		}
		s.mu.Lock()
		s.conns = append(s.conns, c)
		s.mu.Unlock()
		go func() {
			defer c.Close()
			for {
				var h [2]byte
				if _, err := io.ReadFull(c, h[:]); err != nil {
					return
				}
				q := make([]byte, binary.BigEndian.Uint16(h[:]))
				if _, err := io.ReadFull(c, q); err != nil || len(q) < 12 {
					return
				}
				tag := tagOf(q)
				s.mu.Lock()
				b, ok := s.script[tag]
				s.tcpWire[tag] = binary.BigEndian.Uint16(q)
				s.mu.Unlock()
				if !ok {
					b = beh01{tcp: "ans"}
				}
				switch b.tcp {
				case "close":
					return
				case "stall":
					select {
					case <-s.stop:
					case <-time.After(1500 * time.Millisecond):
					}
					return
				case "half":
					rep := mkReply(q, binary.BigEndian.Uint16(q)) // not recorded: it never arrives as a whole
					f := append([]byte{0, byte(len(rep))}, rep...)
					c.Write(f[:len(f)/2])
					return
				default:
					rep := s.produce(q, "tcp", false)
					f := append([]byte{byte(len(rep) >> 8), byte(len(rep))}, rep...)
					if b.delay > 0 {
						time.Sleep(b.delay)
					}
					if _, err := c.Write(f); err != nil {
						return
					}
				}
			}
		}()
	}
}

func (s *srv01) close() {
	close(s.stop)
	s.uc.Close()
	if s.tl != nil {
		s.tl.Close()
	}
	if s.holdFd >= 0 {
		syscall.Close(s.holdFd)
	}
	s.mu.Lock()
	for _, c := range s.conns {
		c.Close()
	}
	s.mu.Unlock()
}

func (s *srv01) produced(tag int, reply []byte) bool {
	z := append([]byte(nil), reply...)
	if len(z) >= 2 {
		z[0], z[1] = 0, 0
	}
	s.mu.Lock()
	defer s.mu.Unlock()
	for _, p := range s.sent[tag] {
		if bytes.Equal(p, z) {
			return true
		}
	}
	return false
}

type ucall01 struct {
	*call01
	beh  beh01
	up   string
	srv  *srv01
	snap []byte
}

// fail01 is the failing input as reported (field order = order in the report)
type fail01 struct {
	Upstream  string `json:"upstream"`
	Behaviour string `json:"server_behaviour_for_this_query"`
	When      string `json:"when"`
	Verdict   string `json:"verdict"`
	Released  bool   `json:"returned_buffer_was_already_released_to_the_pool"`
	CallerID  uint16 `json:"caller_id"`
	OwnQuery  int    `json:"own_query"`
	Was       string `json:"reply_was,omitempty"`
	Returned  string `json:"reply_bytes_now"`
	Round     int    `json:"round"`
	Script    string `json:"concurrent_queries_of_the_round"`
}

// script01 condenses the (sorted) behaviours of a round: "3x udp udp=tc tcp=close; ..."
func script01(script []string) string {
	var out []string
	for i := 0; i < len(script); {
		j := i
		for j < len(script) && script[j] == script[i] {
			j++
		}
		out = append(out, fmt.Sprintf("%dx %s", j-i, script[i]))
		i = j
	}
	return strings.Join(out, "; ")
}

func c01Upstreams(r *Run) {
	sT, addrT := newSrv01(true)
	defer sT.close()
	sU, addrU := newSrv01(false)
	defer sU.close()
	type up01 struct {
		name string
		u    upstream.Upstream
		srv  *srv01
	}
	var ups []up01
	for _, d := range []struct {
		name, addr string
		srv        *srv01
	}{{"udp", "udp://" + addrT, sT}, {"udp(no tcp listener)", addrU, sU}, {"tcp", "tcp://" + addrT, sT}, {"tcp+pipeline", "tcp+pipeline://" + addrT, sT}} {
		u, err := upstream.NewUpstream(d.addr, upstream.Opt{})
		if err != nil {
			fatal(err)
		}
		defer u.Close()
		ups = append(ups, up01{d.name, u, d.srv})
	}

	start := func(u up01, b beh01, timeout time.Duration) *ucall01 {
		tag01++
		c := &call01{tag: tag01, id: ids01[r.Rng.Intn(len(ids01))], done: make(chan struct{})}
		u.srv.mu.Lock()
		u.srv.script[c.tag] = b
		u.srv.mu.Unlock()
		ctx, cancel := context.WithTimeout(context.Background(), timeout)
		c.cancel = cancel
		q := mkQuery(c.id, c.tag)
		go func() {
			c.resp, c.err = u.u.ExchangeContext(ctx, q)
			close(c.done)
		}()
		return &ucall01{call01: c, beh: b, up: u.name, srv: u.srv}
	}
	// check judges a finished call; true = it holds a reply
	check := func(c *ucall01, where string, round int, script []string) bool {
		if !c.wait(8 * time.Second) {
			c.cancel()
			c.wait(2 * time.Second)
			r.Count("upstream:call-did-not-return-in-8s") // C07's matter
			return false
		}
		c.cancel()
		if c.err != nil || c.resp == nil {
			r.Count("upstream:" + c.up + ":" + c.beh.String() + " -> error")
			return false
		}
		got := *c.resp
		v := c.verdict()
		if v == "own" && !c.srv.produced(c.tag, got) {
			v = "altered"
		}
		if v != "own" {
			// the pattern written by the wrapped pool.ReleaseBuf in place of the header (a reader that has taken
			// the buffer from the pool since may have resized it, so only the head is looked at)
			poisoned := len(got) >= 12
			for i := 0; i < 12 && i < len(got); i++ {
				if got[i] != 0xEE {
					poisoned = false
				}
			}
			pre := got
			if len(pre) > 24 {
				pre = pre[:24]
			}
			r.Fail("an exchange returned a reply that is not the server's reply to its own query (or its id was not restored)", fail01{
				Upstream: c.up, Behaviour: c.beh.String(), When: where, Verdict: v, CallerID: c.id, Returned: hx(pre), Released: poisoned, OwnQuery: c.tag,
				Round: round, Script: script01(script)})
			return false
		}
		c.snap = append([]byte(nil), got...)
		c.srv.mu.Lock()
		via, w := "udp", c.srv.udpWire[c.tag]
		if bytes.Contains(got, []byte("/tcp/")) {
			via, w = "tcp", c.srv.tcpWire[c.tag]
		}
		c.srv.mu.Unlock()
		if strings.HasPrefix(c.up, "udp") && c.beh.udp == "tc" {
			r.Count("upstream:" + c.up + ":" + c.beh.String() + " -> reply via " + via)
		}
		r.Line(fmt.Sprintf("restore %d %d %d", c.id, w, c.tag), fmt.Sprintf("wire=%d id=%d body=%d", w, binary.BigEndian.Uint16(got), c.tag+1))
		return true
	}

	rounds := r.N(14, 150)
	for rd := 0; rd < rounds; rd++ {
		var held []*ucall01
		var all []*ucall01
		var script []string
		n := 4 + r.Rng.Intn(28)
		stalls := 0
		for i := 0; i < n; i++ {
			u := ups[0]
			switch k := r.Rng.Intn(10); {
			case k < 2:
				u = ups[1]
			case k == 2:
				u = ups[2]
			case k == 3:
				u = ups[3]
			}
			b := beh01{udp: "plain", tcp: "ans"}
			timeout := 5 * time.Second
			if strings.HasPrefix(u.name, "udp") {
				if r.Rng.Intn(2) == 0 {
					b.udp = "tc"
				}
				b.dup = r.Rng.Intn(4) == 0
				b.stray = r.Rng.Intn(5) == 0
				if r.Rng.Intn(4) == 0 {
					b.delay = time.Duration(r.Rng.Intn(3000)) * time.Microsecond
				}
			}
			switch k := r.Rng.Intn(8); {
			case u.srv == sU:
				b.tcp = "refuse"
			case k < 3:
				b.tcp = "ans"
			case k < 5:
				b.tcp = "close"
			case k < 7:
				b.tcp = "half"
			case stalls < 2 && b.udp == "tc":
				b.tcp = "stall"
				stalls++
				timeout = 150 * time.Millisecond
			}
			if !strings.HasPrefix(u.name, "udp") && r.Rng.Intn(4) != 0 {
				b.tcp = "ans"
			}
			script = append(script, u.name+" "+b.String())
			all = append(all, start(u, b, timeout))
		}
		sort.Strings(script)
		for _, c := range all {
			if check(c, "concurrent burst", rd, script) {
				held = append(held, c)
			}
			r.Eval(fmt.Sprintf("up/%d/%s/%s", rd, c.up, c.beh.String()), c.beh.udp == "tc" || c.beh.tcp != "ans")
		}
		// further traffic on the same upstreams while the callers above keep their replies; these replies are
		// released by the harness, so their buffers go round through the pool
		m := 20 + r.Rng.Intn(40)
		for i := 0; i < m; {
			k := 1 + r.Rng.Intn(6)
			var batch []*ucall01
			for j := 0; j < k; j++ {
				u := ups[0]
				if r.Rng.Intn(4) == 0 {
					u = ups[r.Rng.Intn(len(ups))]
				}
				b := beh01{udp: "plain", tcp: "ans", dup: r.Rng.Intn(6) == 0}
				if u.srv == sU {
					b.tcp = "refuse"
				}
				batch = append(batch, start(u, b, 5*time.Second))
			}
			for _, c := range batch {
				if check(c, "follow-up traffic", rd, script) {
					pool.ReleaseBuf(c.resp)
				}
				r.Eval(fmt.Sprintf("upf/%d/%d", rd, i), false)
				i++
			}
		}
		for _, c := range held {
			if !bytes.Equal(*c.resp, c.snap) {
				now := *c.resp
				if len(now) > 24 {
					now = now[:24]
				}
				r.Fail("a reply handed to its caller was overwritten later (its buffer was released while the caller owned it)", fail01{
					Upstream: c.up, Behaviour: c.beh.String(), When: fmt.Sprintf("after %d further exchanges on the same upstreams", m), Verdict: fmt.Sprintf("now carries the question of query %d", tagOf(*c.resp)),
					CallerID: c.id, Was: hx(c.snap[:min(24, len(c.snap))]), Returned: hx(now), OwnQuery: c.tag, Round: rd, Script: script01(script)})
			}
			pool.ReleaseBuf(c.resp) // the caller is done: it is the last owner
		}
		r.Count("upstream:rounds")
		r.Trace()
	}
}
