//go:build pC12 || pall

package main

import (
	"context"
	"fmt"
	"os"
	"path/filepath"
	"regexp"
	"sort"
	"strings"

	"github.com/IrineSistiana/mosdns/v5/coremain"
	"github.com/IrineSistiana/mosdns/v5/pkg/matcher/domain"
	"github.com/IrineSistiana/mosdns/v5/pkg/query_context"
	"github.com/IrineSistiana/mosdns/v5/plugin/data_provider/domain_set"
	"github.com/IrineSistiana/mosdns/v5/plugin/executable/sequence"
	base_domain "github.com/IrineSistiana/mosdns/v5/plugin/matcher/base_domain"
	"github.com/IrineSistiana/mosdns/v5/plugin/matcher/qname"
	"github.com/miekg/dns"
)

// C12, the data_provider/domain_set plugin: a set is assembled from its own expressions, its files and
// other sets (`sets:`), which may themselves be assembled from sets. "A domain set matches a name if and
// only if some rule describes it": the rules of such a set are its own and those of every set it
// references, directly or through other sets. The hierarchies are built by the real NewDomainSet, one
// plugin after the other in configuration order (a set can only reference sets built before it); every set
// is asked for every name right after it was built and again after all the others were built.

type set12 struct {
	tag      string
	exps     []rule12
	file     []rule12 // rules of the set's file (nil: no file)
	refs     []int    // positions of the referenced sets, in `sets:` order
	rootOnly bool     // the own rules are rules for the root only
	built    *domain_set.DomainSet
	// a qname matcher of a sequence (plugin/matcher/base_domain) instead of a domain_set plugin: "" (a set),
	// "qname" (built by the qname plugin's quick setup from `$set... rule... &file`) or "args" (built by
	// base_domain.NewMatcher from Args). Its rules are its own expressions, its file and the rules of the
	// sets it names, exactly as for a set; nothing can reference it.
	matcher string
	seqM    sequence.Matcher
}

// matches12 asks the set (through its GetDomainMatcher) or the matcher (with a query for the name).
func (s *set12) matches12(name string) bool {
	if s.matcher == "" {
		_, ok := s.built.GetDomainMatcher().Match(name)
		return ok
	}
	q := new(dns.Msg)
	q.Id = 1
	q.Question = []dns.Question{{Name: name, Qtype: dns.TypeA, Qclass: dns.ClassINET}}
	ok, err := s.seqM.Match(context.Background(), query_context.NewContext(q))
	if err != nil {
		fatal(err)
	}
	return ok
}

// matchQuestion12: the match function handed to base_domain.NewMatcher (what the qname plugin passes).
func matchQuestion12(qCtx *query_context.Context, m domain.Matcher[struct{}]) (bool, error) {
	for _, question := range qCtx.Q().Question {
		if _, ok := m.Match(question.Name); ok {
			return true, nil
		}
	}
	return false, nil
}

// matchers12 appends 2..4 qname matchers to a configuration: each names a set first (mostly the same one,
// `shared`), then now and then further sets, and carries rules of its own (expressions, some in a file).
func (r *Run) matchers12(sets []*set12, shared int, pool *[]string) []*set12 {
	nSets := len(sets)
	for i, k := 0, 2+r.Rng.Intn(3); i < k; i++ {
		s := &set12{tag: fmt.Sprintf("q%d", i), matcher: []string{"qname", "args"}[r.Rng.Intn(2)]}
		first := shared
		if r.Rng.Intn(6) == 0 {
			first = r.Rng.Intn(nSets)
		}
		s.refs = []int{first}
		if r.Rng.Intn(4) == 0 {
			s.refs = append(s.refs, r.Rng.Intn(nSets))
		}
		if r.Rng.Intn(8) > 0 {
			for j, n := 0, 1+r.Rng.Intn(2); j < n; j++ {
				rl := r.setRule12(pool)
				if t := rl.text(); t == "" || t[0] == '$' || t[0] == '&' { // `$` / `&` open a set / file argument
					rl.prefix = true
				}
				if r.Rng.Intn(4) == 0 {
					s.file = append(s.file, rl)
				} else {
					s.exps = append(s.exps, rl)
				}
			}
		}
		sets = append(sets, s)
	}
	return sets
}

var regexps12 = []string{`^ad[0-9]*\.`, `\.example\.com$`, `^[a-z]+\.net$`, `cdn`, `^www\d?\.`, `co\.uk$`, `^(a|b)\.`, `tracker`}

// setRule12 draws one rule of a set; pool collects the normalised domain/full patterns of the whole
// hierarchy, so that rules of different sets nest, repeat and nearly repeat each other.
func (r *Run) setRule12(pool *[]string) rule12 {
	var rl rule12
	rl.kind = []string{"domain", "domain", "domain", "full", "full", "keyword", "regexp"}[r.Rng.Intn(7)]
	switch rl.kind {
	case "regexp":
		rl.pattern = regexps12[r.Rng.Intn(len(regexps12))]
	case "keyword":
		kw := []string{"ad", "tracker", "cdn.", ".lan", "a.b", "mail", "_tcp", "-1", r.label12()}
		rl.pattern = r.spell12(kw[r.Rng.Intn(len(kw))])
	default:
		var base string
		if len(*pool) > 0 && r.Rng.Intn(3) == 0 {
			b := (*pool)[r.Rng.Intn(len(*pool))]
			switch r.Rng.Intn(4) {
			case 0:
				base = b // the same rule in another set
			case 1:
				base = r.name12(1) + "." + b // below another set's rule
			case 2:
				if i := strings.IndexByte(b, '.'); i >= 0 {
					base = b[i+1:] // above it
				} else {
					base = b
				}
			default:
				base = r.label12() + b // string suffix, not label suffix
			}
		} else {
			base = r.name12(1 + r.Rng.Intn(3))
		}
		if rl.kind == "domain" && r.Rng.Intn(40) == 0 {
			base = "" // the root
		}
		base = strings.Trim(base, ".")
		for strings.Contains(base, "..") {
			base = strings.ReplaceAll(base, "..", ".")
		}
		*pool = append(*pool, norm12(base))
		rl.pattern = r.spell12(base)
	}
	rl.prefix = rl.kind != "domain" || r.Rng.Intn(2) == 0 // a domain_set's default type is `domain`
	if rl.pattern == "" {
		rl.prefix = true
	}
	return rl
}

// rootRules12: the ways to write the rule for the root (it describes every name).
var rootRules12 = []rule12{
	{kind: "domain", pattern: ".", prefix: true},  // domain:.
	{kind: "domain", pattern: ".", prefix: false}, // .
	{kind: "domain", pattern: "", prefix: true},   // domain:
	{kind: "domain", pattern: "", prefix: false},  // "" (an expression; in a file it would be a blank line)
}

// ownRules12: n own rules, some of them in a file. Now and then the own rules of a set are rules for the
// root only (one or two of its spellings, as expressions or in the file): such a set matches every name, and
// so does every set that references it.
func (r *Run) ownRules12(s *set12, n int, pool *[]string) {
	var rs []rule12
	if n > 0 && r.Rng.Intn(16) == 0 {
		for i, k := 0, 1+r.Rng.Intn(2); i < k; i++ {
			rs = append(rs, rootRules12[r.Rng.Intn(len(rootRules12))])
		}
		*pool = append(*pool, "")
		s.rootOnly = true
	} else {
		for i := 0; i < n; i++ {
			rs = append(rs, r.setRule12(pool))
		}
	}
	for _, rl := range rs {
		if r.Rng.Intn(4) == 0 && rl.text() != "" {
			s.file = append(s.file, rl)
		} else {
			s.exps = append(s.exps, rl)
		}
	}
}

// pickRefs12: k distinct earlier sets (out of the positions in from) in random order.
func (r *Run) pickRefs12(from []int, k int) []int {
	p := append([]int(nil), from...)
	r.Rng.Shuffle(len(p), func(i, j int) { p[i], p[j] = p[j], p[i] })
	if k > len(p) {
		k = len(p)
	}
	return p[:k]
}

// hierarchy12 draws one configuration.
func (r *Run) hierarchy12(pool *[]string) ([]*set12, string) {
	var sets []*set12
	add := func(s *set12) int {
		s.tag = fmt.Sprintf("s%d", len(sets))
		sets = append(sets, s)
		return len(sets) - 1
	}
	all := func() []int {
		var p []int
		for i := range sets {
			p = append(p, i)
		}
		return p
	}
	shapeNo := r.Rng.Intn(3)
	if shapeNo == 2 {
		// qname matchers over a shared set of 1..9 members (own rules count as one member, every referenced
		// set as one; the same leaf may be named twice)
		var leaves []int
		for i, nl := 0, 1+r.Rng.Intn(4); i < nl; i++ {
			s := &set12{}
			r.ownRules12(s, 1+r.Rng.Intn(2), pool)
			leaves = append(leaves, add(s))
		}
		base := &set12{}
		members := 1 + r.Rng.Intn(9)
		if r.Rng.Intn(4) > 0 {
			r.ownRules12(base, 1+r.Rng.Intn(2), pool)
			members--
		}
		for i := 0; i < members; i++ {
			base.refs = append(base.refs, leaves[r.Rng.Intn(len(leaves))])
		}
		bi := add(base)
		return r.matchers12(sets, bi, pool), "qname-matchers"
	}
	if shapeNo == 0 {
		// any acyclic configuration
		k := 3 + r.Rng.Intn(7)
		for i := 0; i < k; i++ {
			s := &set12{}
			if i > 0 && r.Rng.Intn(3) > 0 {
				s.refs = r.pickRefs12(all(), 1+r.Rng.Intn(3))
				if len(s.refs) > 0 && r.Rng.Intn(8) == 0 {
					s.refs = append(s.refs, s.refs[r.Rng.Intn(len(s.refs))]) // the same set named twice
				}
			}
			n := r.Rng.Intn(4)
			if len(s.refs) == 0 && n == 0 && r.Rng.Intn(4) > 0 {
				n = 1
			}
			r.ownRules12(s, n, pool)
			add(s)
		}
		if r.Rng.Intn(3) == 0 {
			return r.matchers12(sets, r.Rng.Intn(len(sets)), pool), "dag+qname-matchers"
		}
		return sets, "dag"
	}
	// sets derived from a common base: leaf sets, a base made of own rules and some leaves (1..7 members),
	// several sets that extend the base by further sets (mostly without rules of their own, the base mostly
	// named first), sometimes a set on top of those
	var leaves []int
	for i, nl := 0, 2+r.Rng.Intn(5); i < nl; i++ {
		s := &set12{}
		r.ownRules12(s, 1+r.Rng.Intn(2), pool)
		leaves = append(leaves, add(s))
	}
	base := &set12{refs: r.pickRefs12(leaves, r.Rng.Intn(len(leaves)+1))}
	nOwn := r.Rng.Intn(3)
	if len(base.refs) == 0 && nOwn == 0 {
		nOwn = 1
	}
	r.ownRules12(base, nOwn, pool)
	bi := add(base)
	var derived []int
	for i, nd := 0, 2+r.Rng.Intn(3); i < nd; i++ {
		s := &set12{}
		others := append(append([]int(nil), leaves...), derived...)
		extra := r.pickRefs12(others, 1+r.Rng.Intn(2))
		s.refs = append([]int{bi}, extra...)
		if r.Rng.Intn(4) == 0 {
			r.Rng.Shuffle(len(s.refs), func(i, j int) { s.refs[i], s.refs[j] = s.refs[j], s.refs[i] })
		}
		if r.Rng.Intn(4) == 0 {
			r.ownRules12(s, 1, pool)
		}
		derived = append(derived, add(s))
	}
	if r.Rng.Intn(3) == 0 {
		s := &set12{refs: r.pickRefs12(derived, 1+r.Rng.Intn(len(derived)))}
		if r.Rng.Intn(2) == 0 {
			r.ownRules12(s, 1, pool)
		}
		add(s)
	}
	return sets, "common-base"
}

// reach12: every rule of set i and of the sets it references, directly or through other sets.
func reach12(sets []*set12, i int, seen map[int]bool, out *[]rule12) {
	if seen[i] {
		return
	}
	seen[i] = true
	*out = append(*out, sets[i].exps...)
	*out = append(*out, sets[i].file...)
	for _, j := range sets[i].refs {
		reach12(sets, j, seen, out)
	}
}

func (r *Run) sets12() {
	dir, err := os.MkdirTemp("", "verif-c12-sets")
	if err != nil {
		fatal(err)
	}
	defer os.RemoveAll(dir)
	compiled := map[string]*regexp.Regexp{}
	for _, e := range regexps12 {
		compiled[e] = regexp.MustCompile(e)
	}
	n := r.N(80, 2500)
	for it := 0; it < n; it++ {
		var pool []string
		sets, shape := r.hierarchy12(&pool)
		// names derived from the rules of all sets
		var names []string
		for _, b := range pool {
			names = append(names, b, "x."+b, "not"+b)
			if r.Rng.Intn(2) == 0 {
				names = append(names, r.label12()+b, r.name12(2)+"."+b)
			}
			if i := strings.IndexByte(b, '.'); i >= 0 {
				names = append(names, b[i+1:])
			}
		}
		names = append(names, r.name12(1+r.Rng.Intn(3)), "ad1.example.com", "www.example.com", "a.net", "nas.lan", "my-tracker.co.uk", "x.cdn.test")
		for i := range names {
			names[i] = r.spell12(strings.Trim(names[i], "."))
			if names[i] == "" || names[i] == "." {
				names[i] = "com"
			}
		}
		if max := r.N(24, 40); len(names) > max {
			r.Rng.Shuffle(len(names), func(i, j int) { names[i], names[j] = names[j], names[i] })
			names = names[:max]
		}
		r.setsCase12(dir, it, sets, names, compiled, shape)
	}
}

func describeSets12(sets []*set12) []string {
	var out []string
	for _, s := range sets {
		var e, f, t []string
		for _, rl := range s.exps {
			e = append(e, rl.text())
		}
		for _, rl := range s.file {
			f = append(f, rl.text())
		}
		for _, j := range s.refs {
			t = append(t, sets[j].tag)
		}
		d := fmt.Sprintf("%s: exps=%q", s.tag, e)
		if s.file != nil {
			d += fmt.Sprintf(" file=%q", f)
		}
		out = append(out, d+fmt.Sprintf(" sets=%v", t))
	}
	return out
}

// setsCase12 builds one configuration with the real plugin constructor and compares every set on every
// name with "some rule of the set or of a set it references describes the name".
func (r *Run) setsCase12(dir string, it int, sets []*set12, names []string, compiled map[string]*regexp.Regexp, shape string) {
	plugins := map[string]any{}
	m := coremain.NewTestMosdnsWithPlugins(plugins)
	want := make([][]bool, len(sets))
	for i := range sets {
		var rules []rule12
		reach12(sets, i, map[int]bool{}, &rules)
		want[i] = make([]bool, len(names))
		for k, nm := range names {
			for _, rl := range rules {
				if describes12(rl, compiled[rl.pattern], nm) {
					want[i][k] = true
					break
				}
			}
		}
	}
	failed := false
	ask := func(i int, phase string) string {
		bits := make([]byte, len(names))
		kind := "domain_set"
		if sets[i].matcher != "" {
			kind = "qname matcher (" + sets[i].matcher + ")"
		}
		for k, nm := range names {
			ok := sets[i].matches12(nm)
			bits[k] = '0'
			if ok {
				bits[k] = '1'
			}
			if ok != want[i][k] && !failed {
				failed = true // one report per configuration
				var rules []rule12
				reach12(sets, i, map[int]bool{}, &rules)
				var rt []string
				for _, rl := range rules {
					rt = append(rt, rl.text())
				}
				what := "although no rule of the set or of the sets it references describes the name"
				if want[i][k] {
					what = "although a rule of the set or of a set it references describes the name"
				}
				r.Fail(fmt.Sprintf("%s %q, %s: Match(%q) = %v %s", kind, sets[i].tag, phase, nm, ok, what),
					map[string]any{"scenario": "domain_set hierarchy (" + shape + ")", "sets_in_config_order": describeSets12(sets), "set": sets[i].tag, "name": nm, "rules_reachable_from_the_set": rt, "when": phase})
			}
		}
		return string(bits)
	}
	var cfg []string
	for i, s := range sets {
		args := &domain_set.Args{}
		var rs, js []string
		for _, rl := range s.exps {
			args.Exps = append(args.Exps, rl.text())
			rs = append(rs, hx([]byte(rl.text())))
		}
		if s.file != nil {
			var sb strings.Builder
			sb.WriteString("# " + s.tag + "\n")
			for k, rl := range s.file {
				switch k % 3 {
				case 0:
					sb.WriteString(rl.text() + "\n")
				case 1:
					sb.WriteString("  " + rl.text() + " # comment\n\n")
				default:
					sb.WriteString("\t" + rl.text() + "\r\n")
				}
				rs = append(rs, hx([]byte(rl.text())))
			}
			p := filepath.Join(dir, fmt.Sprintf("%d-%s.txt", it, s.tag))
			if err := os.WriteFile(p, []byte(sb.String()), 0o644); err != nil {
				fatal(err)
			}
			args.Files = []string{p}
		}
		for _, j := range s.refs {
			args.Sets = append(args.Sets, sets[j].tag)
			js = append(js, fmt.Sprint(j))
		}
		if len(rs) == 0 {
			rs = []string{"_"}
		}
		if len(js) == 0 {
			js = []string{"_"}
		}
		cfg = append(cfg, strings.Join(rs, ",")+"|"+strings.Join(js, ","))
		var err error
		switch s.matcher {
		case "":
			s.built, err = domain_set.NewDomainSet(coremain.NewBP(s.tag, m), args)
		case "args":
			s.seqM, err = base_domain.NewMatcher(sequence.NewBQ(m, m.Logger()), &base_domain.Args{Exps: args.Exps, DomainSets: args.Sets, Files: args.Files}, matchQuestion12)
		default: // the qname plugin's quick setup: sets first (as drawn), expressions and the file in any order behind
			var fs []string
			for _, t := range args.Sets {
				fs = append(fs, "$"+t)
			}
			rest := append([]string(nil), args.Exps...)
			for _, f := range args.Files {
				rest = append(rest, "&"+f)
			}
			r.Rng.Shuffle(len(rest), func(i, j int) { rest[i], rest[j] = rest[j], rest[i] })
			s.seqM, err = qname.QuickSetup(sequence.NewBQ(m, m.Logger()), strings.Join(append(fs, rest...), []string{" ", "  ", "\t"}[r.Rng.Intn(3)]))
		}
		if err != nil {
			r.Fail("a valid configuration of domain sets was rejected", map[string]any{"scenario": "domain_set hierarchy (" + shape + ")", "sets_in_config_order": describeSets12(sets), "set": s.tag, "err": err.Error()})
			return
		}
		if s.matcher == "" {
			plugins[s.tag] = s.built
		}
		ask(i, "right after it was built")
	}
	var outs []string
	hit, miss := false, false
	for i := range sets {
		b := ask(i, "after all sets were built")
		outs = append(outs, b)
		hit = hit || strings.Contains(b, "1")
		miss = miss || strings.Contains(b, "0")
	}
	// regexp truth table for the model
	var ns, tbl []string
	seenT := map[string]bool{}
	used := map[string]bool{}
	for _, s := range sets {
		for _, rl := range append(append([]rule12(nil), s.exps...), s.file...) {
			if rl.kind == "regexp" {
				used[rl.pattern] = true
			}
		}
	}
	for _, nm := range names {
		ns = append(ns, hx([]byte(nm)))
		for e := range used {
			k := hx([]byte(e)) + "@" + hx([]byte(norm12(nm)))
			if compiled[e].MatchString(norm12(nm)) && !seenT[k] {
				seenT[k] = true
				tbl = append(tbl, k)
			}
		}
	}
	sort.Strings(tbl)
	tb := strings.Join(tbl, ";")
	if tb == "" {
		tb = "-"
	}
	line := fmt.Sprintf("sets %s %s %s", strings.Join(cfg, ";"), strings.Join(ns, ";"), tb)
	r.Line(line, strings.Join(outs, ";"))
	r.Eval(line, hit && miss)
	r.Count("scenario:sets-" + shape)
	nref, nofown := 0, 0
	for _, s := range sets {
		if len(s.refs) > 0 {
			nref++
			if len(s.exps)+len(s.file) == 0 {
				nofown++
			}
		}
	}
	for _, s := range sets {
		if s.rootOnly {
			r.Count("sets: a set whose own rules are rules for the root only")
			break
		}
	}
	if nofown >= 2 {
		r.Count("sets: two or more sets made of other sets only")
	}
	r.Count(fmt.Sprintf("sets: %d referencing sets", nref))
	// qname matchers that name the same set first and carry rules of their own, by the number of members of that set
	firstBy := map[int]int{}
	for _, s := range sets {
		if s.matcher != "" && len(s.exps)+len(s.file) > 0 {
			firstBy[s.refs[0]]++
		}
	}
	for j, c := range firstBy {
		if c >= 2 {
			mem := len(sets[j].refs)
			if len(sets[j].exps)+len(sets[j].file) > 0 {
				mem++
			}
			r.Count(fmt.Sprintf("sets: two or more qname matchers with own rules name the same set of %d members first", mem))
		}
	}
}
