//go:build pC20 || pall

package main

import (
	"context"
	"errors"
	"fmt"
	"net"
	"strings"
	"sync"
	"sync/atomic"
	"time"

	"github.com/IrineSistiana/mosdns/v5/coremain"
	"github.com/IrineSistiana/mosdns/v5/pkg/query_context"
	"github.com/IrineSistiana/mosdns/v5/plugin/executable/sequence"
	"github.com/IrineSistiana/mosdns/v5/plugin/executable/sequence/fallback"
	"github.com/miekg/dns"
)

// C20, the queries the two workers run on. "The primary's answer" / "the secondary's answer" of the property are the
// answers of the two executables to the query the fallback was called with: the workers run on copies of the query
// context (qCtx.Copy), so a branch that edits the EDNS0 options of ITS query (ecs_handler, forward_edns0opt in one
// branch only) changes neither the query the other branch sends nor the caller's query.
//
// Both executables are scripted with edits of their own query's OPT record (append an option / a client subnet, delete
// the options with a code, drop all, flip DO, set the UDP size) and looks at their query; each answers with a record
// that names the query it answered. One global order of all events is enforced (so the runs are deterministic and free
// of data races whatever is shared), consistent with what doFallback allows in the scenario:
//
//	fail:   the primary fails far inside the threshold (no standby: the secondary runs after it; standby: any interleaving)
//	slow:   the threshold (20 ms) passes while the primary still works on (and edits) its query; the secondary runs
//	        interleaved with the rest of the primary; the primary finishes after the secondary's answer was returned, or,
//	        if the secondary failed, late with its own outcome
//	intime: the primary answers far inside the threshold (standby: any interleaving with the secondary, either finishing first)
//
// Judged: which worker's answer is returned (the property's predicate), that the returned answer is that worker's answer
// to the caller's query as edited by that worker alone, that every look of a worker shows the caller's query as edited by
// that worker alone (reference: the same edits applied to a dns.Msg.Copy of the caller's query), and that the caller's
// query is the same message text afterwards. Each call is replayed on the model twice: as a schedule (sched) and as a
// fork of the query's option list (qfork, Model.C20Copy with deep copies).

type qev20 struct {
	who  byte   // 'p' primary, 's' secondary, 'h' harness
	kind string // add del clear do udp look ret | secStarted returned
	code uint16
	data []byte
}

func (e qev20) String() string {
	s := string(e.who) + ":" + e.kind
	switch e.kind {
	case "add":
		s += fmt.Sprintf("(%d,%x)", e.code, e.data)
	case "del", "udp":
		s += fmt.Sprintf("(%d)", e.code)
	}
	return s
}

// model is the event in the qfork line's notation ("" if the model does not have it)
func (e qev20) model() string {
	switch e.kind {
	case "add":
		return fmt.Sprintf("%ca%d", e.who, e.code)
	case "del":
		return fmt.Sprintf("%cd%d", e.who, e.code)
	case "clear":
		return string(e.who) + "c"
	case "look":
		return string(e.who) + "l"
	}
	return ""
}

func applyEdit20(opt *dns.OPT, e qev20) {
	switch e.kind {
	case "add":
		if e.code == dns.EDNS0SUBNET {
			ip := net.IPv4(e.data[0], e.data[1], e.data[2], 0).To4()
			opt.Option = append(opt.Option, &dns.EDNS0_SUBNET{Code: dns.EDNS0SUBNET, Family: 1, SourceNetmask: 24, Address: ip})
		} else {
			opt.Option = append(opt.Option, &dns.EDNS0_LOCAL{Code: e.code, Data: append([]byte{}, e.data...)})
		}
	case "del":
		var keep []dns.EDNS0
		for _, o := range opt.Option {
			if o.Option() != e.code {
				keep = append(keep, o)
			}
		}
		opt.Option = keep
	case "clear":
		opt.Option = nil
	case "do":
		opt.SetDo(!opt.Do())
	case "udp":
		opt.SetUDPSize(e.code)
	}
}

func optOf20(m *dns.Msg) *dns.OPT {
	for i := len(m.Extra) - 1; i >= 0; i-- {
		if o, ok := m.Extra[i].(*dns.OPT); ok {
			return o
		}
	}
	return nil
}

func codes20(m *dns.Msg) string {
	opt := optOf20(m)
	if opt == nil {
		return "no-opt"
	}
	if len(opt.Option) == 0 {
		return "-"
	}
	var cs []string
	for _, o := range opt.Option {
		cs = append(cs, fmt.Sprint(o.Option()))
	}
	return strings.Join(cs, ".")
}

// text20 is the whole message as text, on one line
func text20(m *dns.Msg) string {
	return strings.Join(strings.Fields(m.String()), " ")
}

type order20 struct {
	mu   sync.Mutex
	n    int
	wake chan struct{}
}

func (o *order20) wait(i int, d time.Duration) bool {
	deadline := time.After(d)
	for {
		o.mu.Lock()
		if o.n >= i {
			o.mu.Unlock()
			return true
		}
		w := o.wake
		o.mu.Unlock()
		select {
		case <-w:
		case <-deadline:
			return false
		}
	}
}

func (o *order20) done() {
	o.mu.Lock()
	o.n++
	close(o.wake)
	o.wake = make(chan struct{})
	o.mu.Unlock()
}

type qexec20 struct {
	who     byte
	name    string
	outcome string
	evs     []qev20
	ord     *order20
	calls   int32
	// written by the worker goroutine; read after the order has completed
	sawText  []string
	sawCodes []string
	stuck    bool
}

func (e *qexec20) Exec(_ context.Context, qCtx *query_context.Context) error {
	if atomic.AddInt32(&e.calls, 1) != 1 {
		return errors.New("harness: executable called twice")
	}
	var err error
	for i, ev := range e.evs {
		if ev.who != e.who {
			continue
		}
		if !e.ord.wait(i, 4*time.Second) {
			e.stuck = true
			return errors.New("harness: the executable's turn never came")
		}
		switch ev.kind {
		case "look":
			e.sawText = append(e.sawText, text20(qCtx.Q()))
			e.sawCodes = append(e.sawCodes, codes20(qCtx.Q()))
		case "ret":
			switch e.outcome {
			case "err":
				err = errors.New(e.name + " failed")
			case "none":
			default: // ans, errans: an answer that names the query it is the answer to
				r := new(dns.Msg)
				r.SetReply(qCtx.Q())
				r.Answer = append(r.Answer, &dns.TXT{Hdr: dns.RR_Header{Name: qCtx.Q().Question[0].Name, Rrtype: dns.TypeTXT, Class: 1, Ttl: 60},
					Txt: []string{e.name, codes20(qCtx.Q()), text20(qCtx.Q())}})
				qCtx.SetResponse(r)
				if e.outcome == "errans" {
					err = errors.New(e.name + " failed after a response had been attached")
				}
			}
		default:
			applyEdit20(qCtx.QOpt(), ev)
		}
		e.ord.done()
	}
	return err
}

var optCodes20 = []uint16{dns.EDNS0SUBNET, dns.EDNS0COOKIE, dns.EDNS0PADDING, dns.EDNS0EDE, 65001, 65002}

// script20 is a worker's own events: n random edits / looks, with at least one appended option if `editor`; then a look
func script20(r *Run, who byte, editor bool) []qev20 {
	var evs []qev20
	add := func() qev20 {
		d := make([]byte, 4)
		r.Rng.Read(d)
		return qev20{who: who, kind: "add", code: optCodes20[r.Rng.Intn(len(optCodes20))], data: d}
	}
	n := r.Rng.Intn(4)
	if editor {
		n++
	}
	added := false
	for i := 0; i < n; i++ {
		var e qev20
		switch k := r.Rng.Intn(20); {
		case k < 9 || (editor && !added && i == n-1):
			e, added = add(), true
		case k < 11:
			e = qev20{who: who, kind: "del", code: optCodes20[r.Rng.Intn(len(optCodes20))]}
		case k < 12:
			e = qev20{who: who, kind: "clear"}
		case k < 13:
			e = qev20{who: who, kind: "do"}
		case k < 14:
			e = qev20{who: who, kind: "udp", code: uint16(512 + r.Rng.Intn(4000))}
		default:
			e = qev20{who: who, kind: "look"}
		}
		evs = append(evs, e)
	}
	return append(evs, qev20{who: who, kind: "look"})
}

func interleave20(r *Run, a, b []qev20) []qev20 {
	out := make([]qev20, 0, len(a)+len(b))
	for len(a) > 0 || len(b) > 0 {
		if len(b) == 0 || (len(a) > 0 && r.Rng.Intn(len(a)+len(b)) < len(a)) {
			out, a = append(out, a[0]), a[1:]
		} else {
			out, b = append(out, b[0]), b[1:]
		}
	}
	return out
}

func copy20(r *Run) {
	outcomes := []string{"ans", "none", "err", "errans"}
	for rep, n := 0, r.N(3, 30); rep < n; rep++ {
		for _, mode := range []string{"fail", "slow", "intime"} {
			for _, sb := range []bool{false, true} {
				p, s := outcomes[r.Rng.Intn(4)], "ans"
				if r.Rng.Intn(3) == 0 {
					s = outcomes[r.Rng.Intn(4)]
				}
				switch mode {
				case "fail":
					p = fails20[r.Rng.Intn(3)]
				case "intime":
					p = "ans"
				}
				runCopy20(r, mode, sb, p, s)
			}
		}
	}
}

func runCopy20(r *Run, mode string, standby bool, p, s string) {
	pAns, sAns := p == "ans", s == "ans"
	what := fmt.Sprintf("query-copies/%s(always_standby=%v primary=%s secondary=%s)", mode, standby, p, s)
	earlier := earlier20()
	hist20 = append(hist20, what)

	// ---- the events and their order
	pEditor := r.Rng.Intn(4) != 0
	P := script20(r, 'p', pEditor)
	S := script20(r, 's', !pEditor || r.Rng.Intn(2) == 0)
	pRet, sRet := qev20{who: 'p', kind: "ret"}, qev20{who: 's', kind: "ret"}
	Sr := append(append([]qev20{}, S...), sRet)
	var evs []qev20
	switch {
	case mode == "fail" && !standby:
		evs = append(append(append(evs, P...), pRet), Sr...)
	case mode == "fail" || (mode == "intime" && standby):
		evs = interleave20(r, append(append([]qev20{}, P...), pRet), Sr)
	case mode == "intime":
		evs = append(append(evs, P...), pRet) // the secondary is never started
	case mode == "slow":
		if standby {
			evs = interleave20(r, P, Sr)
		} else {
			k := r.Rng.Intn(len(P) + 1)
			evs = append(evs, P[:k]...)
			evs = append(evs, qev20{who: 'h', kind: "secStarted"})
			evs = append(evs, interleave20(r, P[k:], Sr)...)
		}
		if sAns {
			evs = append(evs, qev20{who: 'h', kind: "returned"})
		}
		evs = append(evs, pRet)
	}
	sRetFirst := false
	for _, e := range evs {
		if e.kind == "ret" {
			sRetFirst = e.who == 's'
			break
		}
	}

	// ---- the plugin
	threshold := 5000
	if mode == "slow" {
		threshold = 20
	}
	ord := &order20{wake: make(chan struct{})}
	prim := &qexec20{who: 'p', name: "primary", outcome: p, evs: evs, ord: ord}
	sec := &qexec20{who: 's', name: "secondary", outcome: s, evs: evs, ord: ord}
	plugins := map[string]any{"prim": prim, "sec": sec}
	m := coremain.NewTestMosdnsWithPlugins(plugins)
	fb, err := fallback.Init(coremain.NewBP("fb", m), &fallback.Args{Primary: "prim", Secondary: "sec", Threshold: threshold, AlwaysStandby: standby})
	if err != nil {
		fatal(err)
	}

	// ---- the caller's query: what a client sent (with or without EDNS0), then what plugins in front of the fallback did to it
	q := new(dns.Msg)
	q.SetQuestion("c20.example.", dns.TypeA)
	if r.Rng.Intn(3) != 0 {
		q.SetEdns0(uint16(512+r.Rng.Intn(4000)), r.Rng.Intn(2) == 0)
	}
	qCtx := query_context.NewContext(q)
	for i, n := 0, r.Rng.Intn(3); i < n; i++ {
		d := make([]byte, 4)
		r.Rng.Read(d)
		applyEdit20(qCtx.QOpt(), qev20{kind: "add", code: optCodes20[r.Rng.Intn(len(optCodes20))], data: d})
	}
	q0 := qCtx.Q().Copy() // the library's deep copy, taken before the call
	q0Text, q0Codes := text20(q0), codes20(q0)

	// ---- reference: each worker alone with a copy of the caller's query
	type ref struct {
		sawText, sawCodes []string
		ansCodes, ansText string
	}
	solo := func(who byte) ref {
		var rf ref
		mq := q0.Copy()
		for _, e := range evs {
			if e.who != who {
				continue
			}
			switch e.kind {
			case "look":
				rf.sawText, rf.sawCodes = append(rf.sawText, text20(mq)), append(rf.sawCodes, codes20(mq))
			case "ret":
				rf.ansCodes, rf.ansText = codes20(mq), text20(mq)
			default:
				applyEdit20(optOf20(mq), e)
			}
		}
		return rf
	}
	refP, refS := solo('p'), solo('s')

	// ---- the call
	ctx, cancel := context.WithCancel(context.Background())
	defer cancel()
	retCh := make(chan error, 1)
	go func() { retCh <- fb.(sequence.Executable).Exec(ctx, qCtx) }()
	var callErr error
	returned, hang := false, ""
	waitRet := func() {
		if returned || hang != "" {
			return
		}
		select {
		case callErr = <-retCh:
			returned = true
		case <-time.After(4 * time.Second):
			hang = "the call did not return"
		}
	}
	for i, e := range evs {
		if e.who != 'h' || hang != "" {
			continue
		}
		if !ord.wait(i, 4*time.Second) {
			hang = "the scripted events before " + e.String() + " did not all happen"
			break
		}
		switch e.kind {
		case "secStarted": // the threshold passes
			for k := 0; k < 3000 && atomic.LoadInt32(&sec.calls) == 0; k++ {
				time.Sleep(time.Millisecond)
			}
		case "returned":
			waitRet()
		}
		ord.done()
	}
	waitRet()
	if hang == "" && !ord.wait(len(evs), 4*time.Second) {
		hang = "the scripted events did not all happen"
	}
	time.Sleep(2 * time.Millisecond)
	secStarted := atomic.LoadInt32(&sec.calls) > 0

	// ---- what came out
	result, ansCodes, ansText := "hang", "", ""
	switch {
	case hang != "":
	case callErr != nil && errors.Is(callErr, fallback.ErrFailed):
		result = "failed"
	case callErr != nil:
		result = "ctx"
	default:
		result = "noanswer"
		if rr := qCtx.R(); rr != nil && len(rr.Answer) == 1 {
			if t, ok := rr.Answer[0].(*dns.TXT); ok && len(t.Txt) == 3 {
				result, ansCodes, ansText = t.Txt[0], t.Txt[1], t.Txt[2]
			}
		}
	}
	var evStr, evModel []string
	for _, e := range evs {
		evStr = append(evStr, e.String())
		if ms := e.model(); ms != "" {
			evModel = append(evModel, ms)
		}
	}
	afterText, afterCodes := text20(qCtx.Q()), codes20(qCtx.Q())
	desc := map[string]any{"scenario": what, "always_standby": standby, "primary": p, "secondary": s, "threshold_ms": threshold,
		"events_in_order": strings.Join(evStr, " "), "z_legend": "p:/s: the primary / secondary executable does this to / with the query of the context it was given (add(code,data) appends an EDNS0 option, code 8 a client subnet; look records the query; ret returns, an answer names the query it answers); h: the harness waits for the secondary to be started / for the call to return",
		"callers_query_options": q0Codes, "text_callers_query": q0Text, "result": result, "secondary_started": secStarted,
		"primary_saw_options": strings.Join(prim.sawCodes, " | "), "primary_alone_would_see": strings.Join(refP.sawCodes, " | "),
		"secondary_saw_options": strings.Join(sec.sawCodes, " | "), "secondary_alone_would_see": strings.Join(refS.sawCodes, " | "),
		"callers_query_options_afterwards": afterCodes, "with_earlier_calls_in_this_process": earlier}
	if hang != "" {
		desc["hang"] = hang
	}

	// ---- the property's own predicate: whose answer
	want := "primary"
	switch {
	case mode == "fail" && sAns:
		want = "secondary"
	case mode == "fail":
		want = "failed"
	case mode == "slow" && sAns:
		want = "secondary"
	case mode == "slow" && !pAns:
		want = "failed"
	}
	wantRef := refP
	if want == "secondary" {
		wantRef = refS
	}
	switch {
	case result != want && mode == "fail":
		r.Fail("the primary failed: the result must be the secondary's answer if it has one and 'both failed' otherwise", desc)
	case result != want && mode == "slow":
		r.Fail("the primary was slower than the threshold: the result must be the secondary's answer if it has one, else the primary's (late) answer, else 'both failed'", desc)
	case result != want:
		r.Fail("the primary answered within the threshold but its answer was not returned", desc)
	case mode == "intime" && !standby && secStarted:
		r.Fail("without always_standby the secondary was started although the primary answered within the threshold", desc)
	case (want == "primary" || want == "secondary") && (ansCodes != wantRef.ansCodes || ansText != wantRef.ansText):
		desc["returned_answer_is_for_query_with_options"], desc["text_returned_answer_is_for_query"] = ansCodes, ansText
		desc["that_worker_alone_would_answer_query_with_options"], desc["text_that_worker_alone_would_answer_query"] = wantRef.ansCodes, wantRef.ansText
		r.Fail("the answer that was returned is the "+want+"'s, but it is its answer to a query that carries what the other worker did to its own copy of the query context, not to (its copy of) the caller's query", desc)
	}
	// ---- workers run on copies of the query context
	if hang == "" && !prim.stuck && !sec.stuck {
		same := func(a, b []string) bool { return strings.Join(a, "\n") == strings.Join(b, "\n") }
		if !same(sec.sawText, refS.sawText) {
			r.Fail("the query the secondary was given is not a copy of the caller's query that only the secondary edits: it shows what the primary did to the query of ITS context", desc)
		}
		if !same(prim.sawText, refP.sawText) {
			r.Fail("the query the primary was given is not a copy of the caller's query that only the primary edits: it shows what the secondary did to the query of ITS context", desc)
		}
		if afterText != q0Text {
			desc["text_callers_query_afterwards"] = afterText
			r.Fail("the caller's query was changed by a worker, which should have run on a copy of the query context", desc)
		}
	}

	// ---- the same call on the model: the schedule ...
	var labels []string
	switch {
	case mode == "fail" && !standby:
		labels = append(labels, "pFinish", "pOp", "pOp", "sPickFailed", "sFinish", "sSend")
	case mode == "intime" && !standby:
		labels = append(labels, "pFinish", "pOp", "pOp", "sPickDone")
	case mode == "fail" || mode == "intime":
		released := "sWaitFailed"
		if mode == "intime" {
			released = "sWaitDone"
		}
		labels = append(labels, "sStart")
		if sRetFirst {
			labels = append(labels, "sFinish")
			if !sAns {
				labels = append(labels, "sSend")
			}
			labels = append(labels, "pFinish", "pOp", "pOp")
			if sAns {
				labels = append(labels, released)
			}
		} else {
			labels = append(labels, "pFinish", "pOp", "pOp", "sFinish")
			if sAns {
				labels = append(labels, released)
			} else {
				labels = append(labels, "sSend")
			}
		}
	case !standby: // slow
		labels = append(labels, "timerFire", "sPickTimer", "sFinish", "sSend")
		if !sAns {
			labels = append(labels, "pFinish", "pOp", "pOp")
		}
	default: // slow, standby
		labels = append(labels, "sStart", "sFinish")
		if sAns {
			labels = append(labels, "timerFire", "sWaitTimer")
		} else {
			labels = append(labels, "sSend", "pFinish", "pOp", "pOp")
		}
	}
	labels = append(labels, "mRecv", "mRecv")
	r.Line(fmt.Sprintf("sched %s %s %s %s", b01(pAns), b01(sAns), b01(standby), strings.Join(labels, ",")), fmt.Sprintf("%s secStarted=%s", result, b01(secStarted)))
	// ... and the three queries
	looks := func(l []string) string {
		if len(l) == 0 {
			return "none"
		}
		return strings.Join(l, "|")
	}
	em := "-"
	if len(evModel) > 0 {
		em = strings.Join(evModel, ",")
	}
	r.Line(fmt.Sprintf("qfork %s %s", q0Codes, em), fmt.Sprintf("prim=%s sec=%s caller=%s", looks(prim.sawCodes), looks(sec.sawCodes), afterCodes))
	r.Eval(fmt.Sprintf("copies/%s/%v/%s/%s", mode, standby, p, s), len(evModel) > 0)
	r.Count("scenario:query-copies-" + mode)
	r.Trace()
}
