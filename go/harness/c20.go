//go:build pC20 || pall

package main

import (
	"context"
	"errors"
	"fmt"
	"net"
	"runtime"
	"strings"
	"sync"
	"sync/atomic"
	"time"

	"github.com/IrineSistiana/mosdns/v5/coremain"
	"github.com/IrineSistiana/mosdns/v5/pkg/pool"
	"github.com/IrineSistiana/mosdns/v5/pkg/query_context"
	"github.com/IrineSistiana/mosdns/v5/pkg/verifpoint"
	"github.com/IrineSistiana/mosdns/v5/plugin/executable/sequence"
	"github.com/IrineSistiana/mosdns/v5/plugin/executable/sequence/fallback"
	"github.com/miekg/dns"
)

// C20: fallback prefers the primary and fails over only when it should.
//
// The real fallback plugin runs with scripted primary / secondary executables
// whose completion the harness gates, a threshold chosen far above or below
// the scripted delays, and the primary paused at the schedule point between
// its two signalling statements (hook verifpoint "fallback.primary.signalling").
// Every scenario is also given to the model as the schedule it enforces.
//
// The threshold timer is borrowed from pkg/pool, which is process-wide: what one
// call leaves in it is what a later call finds. So besides the grid of single
// calls there are sequences of calls in one process: calls in which the timer
// fires while nobody is waiting on it (the primary fails early and the secondary
// works past the threshold; then possibly the caller's context ends), one after
// the other on a single P or as a concurrent burst on all Ps, followed by calls
// whose primary answers far inside the threshold - each judged by the same
// predicate and replayed on the model as a call of its own. The pool itself is
// driven through random borrow histories and compared with the model's timer.
// (The harness module has the same `go` directive as mosdns, hence the same
// timer-channel semantics.)

func init() { props["C20"] = runC20 }

type exec20 struct {
	who     string
	outcome string // ans none err errans (error returned although a response was attached: counts as failed)
	gate    chan struct{}
	calls   int32
	done    chan struct{} // closed when Exec returned (first call)
	doneAt  time.Time     // when that was (read it after <-done)
	once    sync.Once
}

func newExec20(who, outcome string, open bool) *exec20 {
	e := &exec20{who: who, outcome: outcome, gate: make(chan struct{}), done: make(chan struct{})}
	if open {
		close(e.gate)
	}
	return e
}

func (e *exec20) Exec(ctx context.Context, qCtx *query_context.Context) error {
	atomic.AddInt32(&e.calls, 1)
	defer e.once.Do(func() { e.doneAt = time.Now(); close(e.done) })
	select {
	case <-e.gate:
	case <-ctx.Done():
		return context.Cause(ctx)
	}
	switch e.outcome {
	case "err":
		return errors.New(e.who + " failed")
	case "none":
		return nil
	case "errans":
		// e.g. a sequence whose forward step answered and whose later step then failed
		r := new(dns.Msg)
		r.SetReply(qCtx.Q())
		r.Answer = append(r.Answer, &dns.A{Hdr: dns.RR_Header{Name: qCtx.Q().Question[0].Name, Rrtype: dns.TypeA, Class: 1, Ttl: 60}, A: net.IPv4(9, 9, 9, 9)})
		qCtx.SetResponse(r)
		return errors.New(e.who + " failed after a response had been attached")
	}
	r := new(dns.Msg)
	r.SetReply(qCtx.Q())
	ip := net.IPv4(1, 1, 1, 1)
	if e.who == "secondary" {
		ip = net.IPv4(2, 2, 2, 2)
	}
	r.Answer = append(r.Answer, &dns.A{Hdr: dns.RR_Header{Name: qCtx.Q().Question[0].Name, Rrtype: dns.TypeA, Class: 1, Ttl: 60}, A: ip})
	qCtx.SetResponse(r)
	return nil
}

func waitCh(c <-chan struct{}, d time.Duration) bool {
	select {
	case <-c:
		return true
	case <-time.After(d):
		return false
	}
}

type res20 struct {
	result     string
	secStarted bool
	took       time.Duration
}

type scen20 struct {
	kind    string // A B C D E F H
	standby bool
	p, s    string
	pDelay  time.Duration // A, B: extra time the primary takes (still far inside the threshold)
}

// the calls made so far in this process, oldest first (the timer pool is process-wide)
var hist20 []string

func earlier20() []string {
	h := hist20
	if len(h) > 6 {
		h = h[len(h)-6:]
	}
	return append([]string{}, h...)
}

func (sc scen20) String() string {
	return fmt.Sprintf("%s(always_standby=%v primary=%s secondary=%s)", sc.kind, sc.standby, sc.p, sc.s)
}

var fails20 = []string{"none", "err", "errans"}

func runC20(r *Run) {
	outcomes := []string{"ans", "none", "err", "errans"}
	var scens []scen20
	reps := r.N(2, 12)
	for rep := 0; rep < reps; rep++ {
		for _, k := range []string{"A", "B", "C", "D", "E"} {
			for _, sb := range []bool{true, false} {
				if (k == "A" && !sb) || (k == "B" && sb) || (k == "E" && !sb) {
					continue
				}
				for _, p := range outcomes {
					for _, s := range outcomes {
						scens = append(scens, scen20{kind: k, standby: sb, p: p, s: s})
					}
				}
			}
		}
	}
	for rep := 0; rep < r.N(1, 4); rep++ {
		for _, sb := range []bool{true, false} {
			for _, p := range fails20 {
				for _, s := range outcomes {
					scens = append(scens, scen20{kind: "F", standby: sb, p: p, s: s})
				}
				scens = append(scens, scen20{kind: "H", standby: sb, p: p, s: outcomes[r.Rng.Intn(len(outcomes))]})
			}
		}
	}
	r.Rng.Shuffle(len(scens), func(i, j int) { scens[i], scens[j] = scens[j], scens[i] })
	for _, sc := range scens {
		runScen20(r, sc)
	}

	// ---- sequences of calls in one process (the threshold timer comes from a process-wide pool)
	for i, nSeq := 0, r.N(8, 48); i < nSeq; i++ {
		pin := r.Rng.Intn(2) == 0
		procs := runtime.GOMAXPROCS(0)
		if pin {
			runtime.GOMAXPROCS(1) // one P: the pool hands the next call the timer the previous one released
		}
		if pin {
			for k, n := 0, 1+r.Rng.Intn(3); k < n; k++ {
				sc := scen20{kind: "F", standby: r.Rng.Intn(2) == 0, p: fails20[r.Rng.Intn(3)], s: outcomes[r.Rng.Intn(4)]}
				if r.Rng.Intn(4) == 0 {
					sc.kind = "H"
				}
				runScen20(r, sc)
			}
		} else {
			n := (2 + r.Rng.Intn(2)) * procs
			burst20(r, n, r.Rng.Intn(2) == 0, fails20[r.Rng.Intn(3)], outcomes[r.Rng.Intn(4)])
		}
		nv := 1 + r.Rng.Intn(2)
		if !pin {
			nv += 2
		}
		for k := 0; k < nv; k++ {
			sc := scen20{kind: "B", p: "ans", s: "ans", pDelay: time.Duration(r.Rng.Intn(40)) * time.Millisecond}
			if r.Rng.Intn(3) == 0 {
				sc.s = outcomes[r.Rng.Intn(4)]
			}
			if r.Rng.Intn(2) == 0 {
				sc.kind, sc.standby = "A", true
			}
			if r.Rng.Intn(4) == 0 {
				sc.p = outcomes[r.Rng.Intn(4)]
			}
			runScen20(r, sc)
		}
		if pin {
			runtime.GOMAXPROCS(procs)
		}
		r.Count("sequence")
	}
	// ---- calls abandoned by their callers while the primary works, then a call whose primary is slower than the threshold
	for i, n := 0, r.N(8, 40); i < n; i++ {
		abandon20(r, i%4 != 3)
	}
	pool20(r)
	thr20(r)
	copy20(r)
	// ---- other clients of the timer pool (real sleep steps, also ones whose context ends mid-sleep), then overlapping
	// calls. Last, and not continued after a failure: once two calls have shared a timer the pool is in no defined
	// state and pool.GetTimer may panic, which would take the recorded failing input with it.
	for i, n := 0, r.N(5, 30); i < n; i++ {
		if !share20(r, i) {
			break
		}
	}

	r.Finish("scenarios x {always_standby} x primary {answer, no answer, error} x secondary {answer, no answer, error}: A standby secondary finished first + in-time primary paused between its two signalling statements; B no standby + in-time primary paused there; C threshold passes while the primary works; D caller's context ends; E threshold counted from the start of the call; F primary fails at once and the secondary works past the threshold (the timer fires with nobody waiting on it); H the same and then the caller's context ends; each enforced on the real plugin with gated executables and the verifpoint hook and replayed as a schedule on the model; sequences of calls in one process (F/H calls one after the other on one P, or a concurrent burst of them on all Ps, then A/B calls whose primary answers 0-40 ms into a 5 s threshold), every call judged and replayed on its own; 1-3 calls abandoned by their callers while the primary works (with and without always_standby, a standby secondary finished or not; their workers left hanging) and then a call whose primary finishes 1.5 s after a 50-100 ms threshold with a secondary that answers at once when started or released (the secondary's answer must be returned before the primary finishes), on one P and on all Ps, every call replayed on the model; other clients of the timer pool first: 1-3 real sleep steps (run to completion, context already over, cancelled or past their deadline mid-sleep) on one P with the collector off, then one or two calls that go past their 15 ms threshold and keep running, then - while those run - a call whose primary finishes 1.5 s after a 300-400 ms threshold with a secondary that answers at once, the earlier calls' secondaries finishing inside that threshold window (the later call must return the secondary's answer before its primary finishes), every call replayed on the model; random borrow histories on the real pkg/pool timer pool against the model's pooled timer; configured thresholds: plugins built through Init with thresholds of 1 ms .. a day (every bound in between and random ones) run in real time, the primary finishing well within the configured threshold (for thresholds >= 1.5 s: 650-1150 ms into the call, thorough also 5.2-5.7 s) or 300-450 ms after it, with a secondary that answers at once when started or released, each call judged and replayed as a timed schedule on the model, whose timer may not fire before the regenerated Gen.fallbackThreshold of the configured value; the duration the built plugin carries against Gen.fallbackThreshold for boundary and random configurations; the queries the workers run on: executables scripted with edits of the OPT record of their own query (append an option / a client subnet, delete, drop all, DO, UDP size) and looks at it, in one enforced global order (primary failing / slower than a 20 ms threshold and still editing / in time; with and without always_standby; either worker finishing first), each answering with a record that names the query it answers: whose answer is returned, that it is that worker's answer to the caller's query as edited by that worker alone, that every look shows exactly that, and that the caller's query is unchanged, each call replayed as a schedule and as a fork of the option list on Model.C20Copy; every scenario is non-trivial")
}

// burst20 runs n concurrent calls on one fallback instance in which the primary fails at once and the
// secondary works past the threshold.
func burst20(r *Run, n int, standby bool, p, s string) {
	plugins := map[string]any{}
	m := coremain.NewTestMosdnsWithPlugins(plugins)
	prim, sec := newExec20("primary", p, true), newExec20("secondary", s, false)
	plugins["prim"], plugins["sec"] = prim, sec
	const threshold = 15
	fb, err := fallback.Init(coremain.NewBP("fb", m), &fallback.Args{Primary: "prim", Secondary: "sec", Threshold: threshold, AlwaysStandby: standby})
	if err != nil {
		fatal(err)
	}
	what := fmt.Sprintf("burst of %d concurrent F(always_standby=%v primary=%s secondary=%s) gomaxprocs=%d", n, standby, p, s, runtime.GOMAXPROCS(0))
	earlier := earlier20()
	hist20 = append(hist20, what)
	ctx, cancel := context.WithCancel(context.Background())
	defer cancel()
	type ret struct {
		err error
		q   *query_context.Context
	}
	retCh := make(chan ret, n)
	for i := 0; i < n; i++ {
		q := new(dns.Msg)
		q.SetQuestion("c20.example.", dns.TypeA)
		qCtx := query_context.NewContext(q)
		go func() { retCh <- ret{fb.(sequence.Executable).Exec(ctx, qCtx), qCtx} }()
	}
	for i := 0; i < 3000 && atomic.LoadInt32(&sec.calls) < int32(n); i++ {
		time.Sleep(time.Millisecond)
	}
	started := atomic.LoadInt32(&sec.calls)
	time.Sleep(3 * threshold * time.Millisecond)
	close(sec.gate)
	labels := "pFinish,pOp,pOp,sPickFailed,timerFire,sFinish,sSend,mRecv,mRecv"
	if standby {
		labels = "sStart,pFinish,pOp,pOp,timerFire,sFinish,sSend,mRecv,mRecv"
		if s == "ans" {
			labels = "sStart,pFinish,pOp,pOp,timerFire,sFinish,sWaitFailed,mRecv,mRecv"
		}
	}
	want := "failed"
	if s == "ans" {
		want = "secondary"
	}
	for i := 0; i < n; i++ {
		var got ret
		res := "hang"
		select {
		case got = <-retCh:
			res = result20(got.err, got.q)
		case <-time.After(4 * time.Second):
		}
		if res != want {
			r.Fail("the primary failed: the result must be the secondary's answer if it has one and 'both failed' otherwise",
				map[string]any{"scenario": what, "call": i, "threshold_ms": threshold, "result": res, "secondaries_started": started, "with_earlier_calls_in_this_process": earlier})
		}
		r.Line(fmt.Sprintf("sched 0 %s %s %s", b01(s == "ans"), b01(standby), labels), fmt.Sprintf("%s secStarted=%s", res, b01(started > 0)))
		r.Eval(fmt.Sprintf("burst/%v/%s/%s", standby, p, s), true)
	}
	time.Sleep(5 * time.Millisecond)
	r.Count("scenario:burst")
	r.Trace()
}

func result20(err error, qCtx *query_context.Context) string {
	switch {
	case err != nil && errors.Is(err, fallback.ErrFailed):
		return "failed"
	case err != nil:
		return "ctx"
	}
	rr := qCtx.R()
	switch {
	case rr == nil || len(rr.Answer) != 1:
		return "noanswer"
	case rr.Answer[0].(*dns.A).A.Equal(net.IPv4(1, 1, 1, 1)):
		return "primary"
	case rr.Answer[0].(*dns.A).A.Equal(net.IPv4(9, 9, 9, 9)):
		return "response-of-a-failed-executable"
	}
	return "secondary"
}

// pool20 drives pkg/pool's timer pool through random borrow histories (on one P, so that a released timer
// is the next one handed out) and compares the timer GetTimer then hands out with the model's.
func pool20(r *Run) {
	procs := runtime.GOMAXPROCS(1)
	defer runtime.GOMAXPROCS(procs)
	for i, n := 0, r.N(12, 120); i < n; i++ {
		var hist []string
		for k, nb := 0, 1+r.Rng.Intn(4); k < nb; k++ {
			b := ""
			for j, l := 0, r.Rng.Intn(4); j < l; j++ {
				b += string("fr"[r.Rng.Intn(2)])
			}
			d := time.Hour
			if strings.Contains(b, "f") {
				d = time.Millisecond
			}
			t := pool.GetTimer(d)
			fired := false
			for _, c := range b {
				switch {
				case c == 'f' && !fired:
					for w := 0; w < 4000 && len(t.C) == 0; w++ {
						time.Sleep(500 * time.Microsecond)
					}
					fired = true
				case c == 'r':
					select {
					case <-t.C:
						fired = true
					default:
					}
				}
			}
			pool.ReleaseTimer(t)
			if b == "" {
				b = "-"
			}
			hist = append(hist, b)
		}
		t := pool.GetTimer(time.Hour)
		tick := len(t.C) > 0
		armed := t.Stop()
		if tick {
			r.Fail("a threshold timer handed out by pool.GetTimer(1h) is readable at once: a call that gets it sees its threshold as already passed",
				map[string]any{"scenario": "pool", "with_earlier_calls_in_this_process": earlier20(), "borrows_before": strings.Join(hist, ";"), "legend": "f = the timer's duration (1 ms) passes while it is held, r = the holder receives from timer.C (non-blocking), - = neither; then ReleaseTimer"})
			<-t.C // so that the later checks are independent of this one
		}
		pool.ReleaseTimer(t)
		r.Line("pool "+strings.Join(hist, ";"), fmt.Sprintf("armed=%s tick=%s", b01(armed), b01(tick)))
		r.Eval("pool/"+strings.Join(hist, ";"), true)
		r.Count("scenario:pool")
	}
}

func runScen20(r *Run, sc scen20) {
	{
		pAns, sAns := sc.p == "ans", sc.s == "ans"
		earlier, procs := earlier20(), runtime.GOMAXPROCS(0)
		hist20 = append(hist20, fmt.Sprintf("%s gomaxprocs=%d", sc, procs))
		plugins := map[string]any{}
		m := coremain.NewTestMosdnsWithPlugins(plugins)
		early := sc.kind == "F" || sc.kind == "H" // the primary fails at once
		prim := newExec20("primary", sc.p, early)
		sec := newExec20("secondary", sc.s, sc.kind == "B" || sc.kind == "C")
		plugins["prim"], plugins["sec"] = prim, sec
		threshold := 5000
		if sc.kind == "C" {
			threshold = 20
		}
		if early {
			if pAns {
				fatal(errors.New("c20: scenarios F and H are for a failing primary"))
			}
			threshold = 15
		}
		if sc.kind == "E" {
			threshold = 200
		}
		fb, err := fallback.Init(coremain.NewBP("fb", m), &fallback.Args{Primary: "prim", Secondary: "sec", Threshold: threshold, AlwaysStandby: sc.standby})
		if err != nil {
			fatal(err)
		}
		// schedule point between the primary's two signalling statements
		reached := make(chan struct{}, 4)
		release := make(chan struct{})
		if early {
			close(release) // no pause between the primary's two signalling statements
		}
		var cancelAt time.Time
		verifpoint.Set(func(name string) {
			if name == "fallback.primary.signalling" {
				reached <- struct{}{}
				<-release
			}
		})
		meter := startStallMeter()
		ctx, cancel := context.WithCancel(context.Background())
		q := new(dns.Msg)
		q.SetQuestion("c20.example.", dns.TypeA)
		qCtx := query_context.NewContext(q)
		type ret struct {
			err  error
			took time.Duration
		}
		retCh := make(chan ret, 1)
		t0 := time.Now()
		go func() {
			err := fb.(sequence.Executable).Exec(ctx, qCtx)
			retCh <- ret{err, time.Since(t0)}
		}()
		var labels []string
		switch sc.kind {
		case "A": // standby; the secondary finishes first; the primary is in time and pauses mid-signal
			labels = append(labels, "sStart")
			for i := 0; i < 400 && atomic.LoadInt32(&sec.calls) == 0; i++ {
				time.Sleep(time.Millisecond)
			}
			close(sec.gate)
			waitCh(sec.done, 2*time.Second)
			labels = append(labels, "sFinish")
			if !sAns {
				labels = append(labels, "sSend")
			}
			time.Sleep(10*time.Millisecond + sc.pDelay)
			close(prim.gate)
			labels = append(labels, "pFinish", "pOp")
			waitCh(reached, 2*time.Second)
			time.Sleep(30 * time.Millisecond) // whoever could overtake the paused primary does so now
			if !pAns && sAns {
				labels = append(labels, "sWaitFailed")
			}
			close(release)
			labels = append(labels, "pOp")
			if pAns && sAns {
				labels = append(labels, "sWaitDone")
			}
		case "B": // no standby; the primary is in time and pauses mid-signal; the secondary's Exec does not block
			time.Sleep(sc.pDelay)
			close(prim.gate)
			labels = append(labels, "pFinish", "pOp")
			waitCh(reached, 2*time.Second)
			time.Sleep(30 * time.Millisecond)
			if !pAns {
				labels = append(labels, "sPickFailed", "sFinish", "sSend")
			}
			close(release)
			labels = append(labels, "pOp")
			if pAns {
				labels = append(labels, "sPickDone")
			}
		case "C": // the threshold (20 ms) passes while the primary is still working
			if sc.standby {
				labels = append(labels, "sStart", "sFinish")
				if !sAns {
					labels = append(labels, "sSend")
				}
				labels = append(labels, "timerFire")
				if sAns {
					labels = append(labels, "sWaitTimer")
				}
			} else {
				labels = append(labels, "timerFire", "sPickTimer", "sFinish", "sSend")
			}
			time.Sleep(120 * time.Millisecond)
			// on a loaded machine the secondary's goroutine may not have run yet although the threshold passed 100 ms
			// ago: the schedule continues when it has been started and has finished (event-driven, normally at once)
			for i := 0; i < 3000 && atomic.LoadInt32(&sec.calls) == 0; i++ {
				time.Sleep(time.Millisecond)
			}
			waitCh(sec.done, 3*time.Second)
			close(release)
			if !sAns { // nobody answered yet: now the primary finishes
				close(prim.gate)
				labels = append(labels, "pFinish", "pOp", "pOp")
			}
		case "E": // standby: the secondary needs 120 ms, the threshold is 200 ms from the start of the call, the primary needs 300 ms
			labels = append(labels, "sStart")
			time.Sleep(120 * time.Millisecond)
			close(sec.gate)
			labels = append(labels, "sFinish")
			if !sAns {
				labels = append(labels, "sSend")
			}
			labels = append(labels, "timerFire")
			if sAns {
				labels = append(labels, "sWaitTimer")
			}
			time.Sleep(180 * time.Millisecond)
			close(release)
			close(prim.gate)
			labels = append(labels, "pFinish", "pOp", "pOp")
		case "F", "H": // the primary fails at once; the secondary (started for that reason, or standby) works past the
			// threshold (15 ms), so the timer fires while nobody is waiting on it; H: then the caller's context ends
			if sc.standby {
				labels = append(labels, "sStart")
			}
			labels = append(labels, "pFinish", "pOp", "pOp")
			if !sc.standby {
				labels = append(labels, "sPickFailed")
			}
			for i := 0; i < 3000 && atomic.LoadInt32(&sec.calls) == 0; i++ {
				time.Sleep(time.Millisecond)
			}
			time.Sleep(time.Duration(3*threshold+r.Rng.Intn(20)) * time.Millisecond)
			labels = append(labels, "timerFire")
			if sc.kind == "H" {
				labels = append(labels, "mRecv", "ctxCancel", "mCtx")
				cancelAt = time.Now()
				cancel()
				break
			}
			close(sec.gate)
			labels = append(labels, "sFinish")
			if sc.standby && sAns {
				labels = append(labels, "sWaitFailed")
			} else {
				labels = append(labels, "sSend")
			}
		case "D": // the caller's context ends while both are working
			if sc.standby {
				labels = append(labels, "sStart")
			}
			time.Sleep(20 * time.Millisecond)
			cancel()
			labels = append(labels, "ctxCancel", "mCtx")
			close(release)
		}
		var got ret
		timedOut := false
		select {
		case got = <-retCh:
		case <-time.After(4 * time.Second):
			timedOut = true
		}
		stall := meter.Stop()
		secStartedAtReturn := atomic.LoadInt32(&sec.calls) > 0
		// the caller's receives: as many as the model needs to reach a result
		if sc.kind != "D" && sc.kind != "H" {
			labels = append(labels, "mRecv", "mRecv")
		}
		// let everything finish, then clean up
		select {
		case <-prim.gate:
		default:
			close(prim.gate)
		}
		select {
		case <-sec.gate:
		default:
			close(sec.gate)
		}
		cancel()
		time.Sleep(5 * time.Millisecond)
		verifpoint.Set(nil)

		res := res20{took: got.took, secStarted: secStartedAtReturn}
		if timedOut {
			res.result = "hang"
		} else {
			res.result = result20(got.err, qCtx)
		}
		// in scenario C with a failing secondary the model needs two receives only if the first item is nil:
		// the canonical schedule above handles it; trim a superfluous trailing mRecv if the model would not enable it.
		desc := map[string]any{"scenario": sc.kind, "always_standby": sc.standby, "primary": sc.p, "secondary": sc.s, "threshold_ms": threshold,
			"result": res.result, "secondary_started": res.secStarted, "took": res.took.String(), "schedule": strings.Join(labels, ",")}
		if sc.pDelay > 0 {
			desc["primary_answers_after"] = sc.pDelay.String()
		}
		desc["with_earlier_calls_in_this_process"], desc["gomaxprocs"] = earlier, procs
		// ---- the property's own predicate
		switch sc.kind {
		case "A", "B", "F": // the primary finished (A, B: answered or failed; F: failed) far inside the threshold
			switch {
			case pAns && res.result != "primary":
				r.Fail("the primary answered within the threshold but its answer was not returned", desc)
			case pAns && !sc.standby && res.secStarted:
				r.Fail("without always_standby the secondary was started although the primary answered within the threshold", desc)
			case !pAns && sAns && res.result != "secondary":
				r.Fail("the primary failed and the secondary answered, but the secondary's answer was not returned", desc)
			case !pAns && !sAns && res.result != "failed":
				r.Fail("both failed but the call did not report ErrFailed", desc)
			}
		case "C":
			switch {
			case sAns && res.result != "secondary":
				r.Fail("the primary was slower than the threshold and the secondary answered first, but its answer was not returned", desc)
			case !sAns && pAns && res.result != "primary":
				r.Fail("the secondary failed and the primary answered (late), but the primary's answer was not returned", desc)
			case !sAns && !pAns && res.result != "failed":
				r.Fail("both failed but the call did not report ErrFailed", desc)
			}
		case "E":
			switch {
			case sAns && res.result == "secondary" && res.took > 270*time.Millisecond && stall > 25*time.Millisecond:
				r.Count("timing-bound-not-asserted:machine-stalled") // the harness process itself was held up for longer than the margin
			case sAns && (res.result != "secondary" || res.took > 270*time.Millisecond):
				r.Fail("the threshold (counted from the start of the call) passed with a finished standby secondary, but its answer was not returned then", desc)
			case !sAns && pAns && res.result != "primary":
				r.Fail("the secondary failed and the primary answered (late), but the primary's answer was not returned", desc)
			}
		case "D":
			if res.result != "ctx" || res.took > time.Second {
				r.Fail("the call did not end (with the context's error) when the caller's context ended", desc)
			}
		case "H":
			late := t0.Add(res.took).Sub(cancelAt)
			switch {
			case res.result == "ctx" && late > time.Second && stall > 500*time.Millisecond:
				r.Count("timing-bound-not-asserted:machine-stalled")
			case res.result != "ctx" || late > time.Second:
				r.Fail("the call did not end (with the context's error) when the caller's context ended", desc)
			}
		}
		out := fmt.Sprintf("%s secStarted=%s", res.result, b01(res.secStarted))
		r.Line(fmt.Sprintf("sched %s %s %s %s", b01(pAns), b01(sAns), b01(sc.standby), strings.Join(labels, ",")), out)
		r.Eval(fmt.Sprintf("%s/%v/%s/%s", sc.kind, sc.standby, sc.p, sc.s), true)
		r.Count("scenario:" + sc.kind)
		r.Trace()
	}
}
