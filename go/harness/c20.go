//go:build pC20 || pall

package main

import (
	"context"
	"errors"
	"fmt"
	"net"
	"strings"
	"sync"
	"sync/atomic"
	"time"

	"github.com/IrineSistiana/mosdns/v5/coremain"
	"github.com/IrineSistiana/mosdns/v5/pkg/query_context"
	"github.com/IrineSistiana/mosdns/v5/pkg/verifpoint"
	"github.com/IrineSistiana/mosdns/v5/plugin/executable/sequence"
	"github.com/IrineSistiana/mosdns/v5/plugin/executable/sequence/fallback"
	"github.com/miekg/dns"
)

// C20: fallback prefers the primary and fails over only when it should.
//
// The real fallback plugin runs with scripted primary / secondary executables
// whose completion the harness gates, a threshold chosen far above or below
// the scripted delays, and the primary paused at the schedule point between
// its two signalling statements (hook verifpoint "fallback.primary.signalling").
// Every scenario is also given to the model as the schedule it enforces.

func init() { props["C20"] = runC20 }

type exec20 struct {
	who     string
	outcome string // ans none err errans (error returned although a response was attached: counts as failed)
	gate    chan struct{}
	calls   int32
	done    chan struct{} // closed when Exec returned (first call)
	once    sync.Once
}

func newExec20(who, outcome string, open bool) *exec20 {
	e := &exec20{who: who, outcome: outcome, gate: make(chan struct{}), done: make(chan struct{})}
	if open {
		close(e.gate)
	}
	return e
}

func (e *exec20) Exec(ctx context.Context, qCtx *query_context.Context) error {
	atomic.AddInt32(&e.calls, 1)
	defer e.once.Do(func() { close(e.done) })
	select {
	case <-e.gate:
	case <-ctx.Done():
		return context.Cause(ctx)
	}
	switch e.outcome {
	case "err":
		return errors.New(e.who + " failed")
	case "none":
		return nil
	case "errans":
		// e.g. a sequence whose forward step answered and whose later step then failed
		r := new(dns.Msg)
		r.SetReply(qCtx.Q())
		r.Answer = append(r.Answer, &dns.A{Hdr: dns.RR_Header{Name: qCtx.Q().Question[0].Name, Rrtype: dns.TypeA, Class: 1, Ttl: 60}, A: net.IPv4(9, 9, 9, 9)})
		qCtx.SetResponse(r)
		return errors.New(e.who + " failed after a response had been attached")
	}
	r := new(dns.Msg)
	r.SetReply(qCtx.Q())
	ip := net.IPv4(1, 1, 1, 1)
	if e.who == "secondary" {
		ip = net.IPv4(2, 2, 2, 2)
	}
	r.Answer = append(r.Answer, &dns.A{Hdr: dns.RR_Header{Name: qCtx.Q().Question[0].Name, Rrtype: dns.TypeA, Class: 1, Ttl: 60}, A: ip})
	qCtx.SetResponse(r)
	return nil
}

func waitCh(c <-chan struct{}, d time.Duration) bool {
	select {
	case <-c:
		return true
	case <-time.After(d):
		return false
	}
}

type res20 struct {
	result     string
	secStarted bool
	took       time.Duration
}

func runC20(r *Run) {
	outcomes := []string{"ans", "none", "err", "errans"}
	type scen struct {
		kind    string // A B C D
		standby bool
		p, s    string
	}
	var scens []scen
	reps := r.N(2, 12)
	for rep := 0; rep < reps; rep++ {
		for _, k := range []string{"A", "B", "C", "D", "E"} {
			for _, sb := range []bool{true, false} {
				if (k == "A" && !sb) || (k == "B" && sb) || (k == "E" && !sb) {
					continue
				}
				for _, p := range outcomes {
					for _, s := range outcomes {
						scens = append(scens, scen{k, sb, p, s})
					}
				}
			}
		}
	}
	r.Rng.Shuffle(len(scens), func(i, j int) { scens[i], scens[j] = scens[j], scens[i] })

	for _, sc := range scens {
		pAns, sAns := sc.p == "ans", sc.s == "ans"
		plugins := map[string]any{}
		m := coremain.NewTestMosdnsWithPlugins(plugins)
		prim := newExec20("primary", sc.p, false)
		sec := newExec20("secondary", sc.s, sc.kind == "B" || sc.kind == "C")
		plugins["prim"], plugins["sec"] = prim, sec
		threshold := 5000
		if sc.kind == "C" {
			threshold = 20
		}
		if sc.kind == "E" {
			threshold = 200
		}
		fb, err := fallback.Init(coremain.NewBP("fb", m), &fallback.Args{Primary: "prim", Secondary: "sec", Threshold: threshold, AlwaysStandby: sc.standby})
		if err != nil {
			fatal(err)
		}
		// schedule point between the primary's two signalling statements
		reached := make(chan struct{}, 4)
		release := make(chan struct{})
		verifpoint.Set(func(name string) {
			if name == "fallback.primary.signalling" {
				reached <- struct{}{}
				<-release
			}
		})
		meter := startStallMeter()
		ctx, cancel := context.WithCancel(context.Background())
		q := new(dns.Msg)
		q.SetQuestion("c20.example.", dns.TypeA)
		qCtx := query_context.NewContext(q)
		type ret struct {
			err  error
			took time.Duration
		}
		retCh := make(chan ret, 1)
		t0 := time.Now()
		go func() {
			err := fb.(sequence.Executable).Exec(ctx, qCtx)
			retCh <- ret{err, time.Since(t0)}
		}()
		var labels []string
		switch sc.kind {
		case "A": // standby; the secondary finishes first; the primary is in time and pauses mid-signal
			labels = append(labels, "sStart")
			for i := 0; i < 400 && atomic.LoadInt32(&sec.calls) == 0; i++ {
				time.Sleep(time.Millisecond)
			}
			close(sec.gate)
			waitCh(sec.done, 2*time.Second)
			labels = append(labels, "sFinish")
			if !sAns {
				labels = append(labels, "sSend")
			}
			time.Sleep(10 * time.Millisecond)
			close(prim.gate)
			labels = append(labels, "pFinish", "pOp")
			waitCh(reached, 2*time.Second)
			time.Sleep(30 * time.Millisecond) // whoever could overtake the paused primary does so now
			if !pAns && sAns {
				labels = append(labels, "sWaitFailed")
			}
			close(release)
			labels = append(labels, "pOp")
			if pAns && sAns {
				labels = append(labels, "sWaitDone")
			}
		case "B": // no standby; the primary is in time and pauses mid-signal; the secondary's Exec does not block
			close(prim.gate)
			labels = append(labels, "pFinish", "pOp")
			waitCh(reached, 2*time.Second)
			time.Sleep(30 * time.Millisecond)
			if !pAns {
				labels = append(labels, "sPickFailed", "sFinish", "sSend")
			}
			close(release)
			labels = append(labels, "pOp")
			if pAns {
				labels = append(labels, "sPickDone")
			}
		case "C": // the threshold (20 ms) passes while the primary is still working
			if sc.standby {
				labels = append(labels, "sStart", "sFinish")
				if !sAns {
					labels = append(labels, "sSend")
				}
				labels = append(labels, "timerFire")
				if sAns {
					labels = append(labels, "sWaitTimer")
				}
			} else {
				labels = append(labels, "timerFire", "sPickTimer", "sFinish", "sSend")
			}
			time.Sleep(120 * time.Millisecond)
			close(release)
			if !sAns { // nobody answered yet: now the primary finishes
				close(prim.gate)
				labels = append(labels, "pFinish", "pOp", "pOp")
			}
		case "E": // standby: the secondary needs 120 ms, the threshold is 200 ms from the start of the call, the primary needs 300 ms
			labels = append(labels, "sStart")
			time.Sleep(120 * time.Millisecond)
			close(sec.gate)
			labels = append(labels, "sFinish")
			if !sAns {
				labels = append(labels, "sSend")
			}
			labels = append(labels, "timerFire")
			if sAns {
				labels = append(labels, "sWaitTimer")
			}
			time.Sleep(180 * time.Millisecond)
			close(release)
			close(prim.gate)
			labels = append(labels, "pFinish", "pOp", "pOp")
		case "D": // the caller's context ends while both are working
			if sc.standby {
				labels = append(labels, "sStart")
			}
			time.Sleep(20 * time.Millisecond)
			cancel()
			labels = append(labels, "ctxCancel", "mCtx")
			close(release)
		}
		var got ret
		timedOut := false
		select {
		case got = <-retCh:
		case <-time.After(4 * time.Second):
			timedOut = true
		}
		stall := meter.Stop()
		secStartedAtReturn := atomic.LoadInt32(&sec.calls) > 0
		// the caller's receives: as many as the model needs to reach a result
		if sc.kind != "D" {
			labels = append(labels, "mRecv", "mRecv")
		}
		// let everything finish, then clean up
		select {
		case <-prim.gate:
		default:
			close(prim.gate)
		}
		select {
		case <-sec.gate:
		default:
			close(sec.gate)
		}
		cancel()
		time.Sleep(5 * time.Millisecond)
		verifpoint.Set(nil)

		res := res20{took: got.took, secStarted: secStartedAtReturn}
		switch {
		case timedOut:
			res.result = "hang"
		case got.err != nil && errors.Is(got.err, fallback.ErrFailed):
			res.result = "failed"
		case got.err != nil:
			res.result = "ctx"
		default:
			rr := qCtx.R()
			if rr == nil || len(rr.Answer) != 1 {
				res.result = "noanswer"
			} else if rr.Answer[0].(*dns.A).A.Equal(net.IPv4(1, 1, 1, 1)) {
				res.result = "primary"
			} else if rr.Answer[0].(*dns.A).A.Equal(net.IPv4(9, 9, 9, 9)) {
				res.result = "response-of-a-failed-executable"
			} else {
				res.result = "secondary"
			}
		}
		// in scenario C with a failing secondary the model needs two receives only if the first item is nil:
		// the canonical schedule above handles it; trim a superfluous trailing mRecv if the model would not enable it.
		desc := map[string]any{"scenario": sc.kind, "always_standby": sc.standby, "primary": sc.p, "secondary": sc.s, "threshold_ms": threshold,
			"result": res.result, "secondary_started": res.secStarted, "took": res.took.String(), "schedule": strings.Join(labels, ",")}
		// ---- the property's own predicate
		switch sc.kind {
		case "A", "B": // the primary finished far inside the threshold
			switch {
			case pAns && res.result != "primary":
				r.Fail("the primary answered within the threshold but its answer was not returned", desc)
			case pAns && !sc.standby && res.secStarted:
				r.Fail("without always_standby the secondary was started although the primary answered within the threshold", desc)
			case !pAns && sAns && res.result != "secondary":
				r.Fail("the primary failed and the secondary answered, but the secondary's answer was not returned", desc)
			case !pAns && !sAns && res.result != "failed":
				r.Fail("both failed but the call did not report ErrFailed", desc)
			}
		case "C":
			switch {
			case sAns && res.result != "secondary":
				r.Fail("the primary was slower than the threshold and the secondary answered first, but its answer was not returned", desc)
			case !sAns && pAns && res.result != "primary":
				r.Fail("the secondary failed and the primary answered (late), but the primary's answer was not returned", desc)
			case !sAns && !pAns && res.result != "failed":
				r.Fail("both failed but the call did not report ErrFailed", desc)
			}
		case "E":
			switch {
			case sAns && res.result == "secondary" && res.took > 270*time.Millisecond && stall > 25*time.Millisecond:
				r.Count("timing-bound-not-asserted:machine-stalled") // the harness process itself was held up for longer than the margin
			case sAns && (res.result != "secondary" || res.took > 270*time.Millisecond):
				r.Fail("the threshold (counted from the start of the call) passed with a finished standby secondary, but its answer was not returned then", desc)
			case !sAns && pAns && res.result != "primary":
				r.Fail("the secondary failed and the primary answered (late), but the primary's answer was not returned", desc)
			}
		case "D":
			if res.result != "ctx" || res.took > time.Second {
				r.Fail("the call did not end (with the context's error) when the caller's context ended", desc)
			}
		}
		out := fmt.Sprintf("%s secStarted=%s", res.result, b01(res.secStarted))
		r.Line(fmt.Sprintf("sched %s %s %s %s", b01(pAns), b01(sAns), b01(sc.standby), strings.Join(labels, ",")), out)
		r.Eval(fmt.Sprintf("%s/%v/%s/%s", sc.kind, sc.standby, sc.p, sc.s), true)
		r.Count("scenario:" + sc.kind)
		r.Trace()
	}
	r.Finish("scenarios x {always_standby} x primary {answer, no answer, error} x secondary {answer, no answer, error}: A standby secondary finished first + in-time primary paused between its two signalling statements; B no standby + in-time primary paused there; C threshold passes while the primary works; D caller's context ends; each enforced on the real plugin with gated executables and the verifpoint hook and replayed as a schedule on the model; every scenario is non-trivial")
}
