//go:build pC18 || pall

package main

import (
	"context"
	"crypto/ecdsa"
	"crypto/elliptic"
	"crypto/rand"
	"crypto/tls"
	"crypto/x509"
	"crypto/x509/pkix"
	"encoding/base64"
	"errors"
	"fmt"
	"io"
	"log"
	"math/big"
	"net"
	"net/http"
	"net/netip"
	"strconv"
	"strings"
	"sync"
	"time"

	"github.com/IrineSistiana/mosdns/v5/pkg/upstream"
	"github.com/quic-go/quic-go/http3"
)

// C18 (5): the DoH path (https over TCP, h3 over QUIC).
//
// For these two schemes mosdns does not compute a TLS server name itself: it
// hands an endpoint URL to Go's HTTP clients, which take the server name (the
// name the certificate is verified against and that is sent as SNI) and the
// Host / :authority of every request from that URL. The address matrix is
// therefore run against real DoH servers on loopback:
//
//   - https: one TLS + HTTP/2 (and 1.1) server; every case has its own leaf
//     certificate, valid for EXACTLY the URL host the user wrote (an IP SAN or a
//     DNS SAN) and signed by a harness CA. A case either verifies (RootCAs =
//     harness CA: the handshake succeeds only if the server name is the URL
//     host) or skips verification (then only what is on the wire is looked at).
//     The connection is attributed to its case by a per-case ALPN tag in the
//     ClientHello (Opt.TLSConfig.NextProtos is the caller's to choose), the
//     requests by the connection they arrive on: nothing rests on timing.
//     The server is reached through dial_addr (127.0.0.1:port or [::1]:port) or,
//     without dial_addr, through a SOCKS5 observer that records the CONNECT
//     target and splices the connection to the server.
//   - h3: one HTTP/3 server per case on its own UDP socket (QUIC leaves no room
//     for an ALPN tag), reached through dial_addr.
//
// The address matrix (genDoh18) writes the port out as exactly the scheme
// default (443), as the default of another scheme or as a neighbour in a third
// of the cases, for every host form, and draws half of its IPv6 literals with an
// all-decimal last group (without their brackets such a text reads as
// host:port): "with or without port" includes the port that equals the default.
//
// Oracles, all from the property statement:
//   - "the TLS server name defaults to the URL host": a certificate valid for
//     exactly the URL host must not be refused with a host-name mismatch; the
//     SNI on the wire is the URL host (or absent when the host is an IP literal);
//   - "never silently altered": the requests are addressed (Host / :authority)
//     to the URL host as written;
//   - "connections are opened to exactly the host and port the user wrote": the
//     CONNECT target, or the listener named by dial_addr.
//
// Every determined server name / authority is also replayed on the model
// (driver ops dohsni / dohhost).

type doh18Conn struct {
	lis    int    // index of the listener it arrived at
	remote string // peer address (the SOCKS5 observer's outgoing address when the connection came through it)
	hello bool
	tag   string
	sni   string
	hosts []string // Host / :authority of every request on this connection
}

// doh18NetConn carries the per-connection record through crypto/tls and net/http.
type doh18NetConn struct {
	net.Conn
	st *doh18Conn
}

type doh18Lis struct {
	net.Listener
	srv *doh18Srv
	idx int
}

func (l *doh18Lis) Accept() (net.Conn, error) {
	c, err := l.Listener.Accept()
	if err != nil {
		return nil, err
	}
	st := &doh18Conn{lis: l.idx, remote: c.RemoteAddr().String()}
	l.srv.mu.Lock()
	l.srv.conns = append(l.srv.conns, st)
	l.srv.mu.Unlock()
	return &doh18NetConn{Conn: c, st: st}, nil
}

type doh18Srv struct {
	mu      sync.Mutex
	conns   []*doh18Conn
	certs   map[string]*tls.Certificate // ALPN tag -> certificate of that case
	addrs   []string                    // listener addresses (127.0.0.1:p, [::1]:p)
	https   []*http.Server
	caPool  *x509.CertPool
	caCert  *x509.Certificate
	caKey   *ecdsa.PrivateKey
	leafKey *ecdsa.PrivateKey
	serial  int64
}

type doh18CtxKey struct{}

// doh18Handler answers a DoH GET with the query turned into a response and reports the request's authority.
func doh18Handler(seen func(r *http.Request)) http.Handler {
	return http.HandlerFunc(func(w http.ResponseWriter, r *http.Request) {
		seen(r)
		raw, err := base64.RawURLEncoding.DecodeString(r.URL.Query().Get("dns"))
		if err != nil || len(raw) < 12 {
			http.Error(w, "bad dns parameter", http.StatusBadRequest)
			return
		}
		raw[2] |= 0x80
		w.Header().Set("Content-Type", "application/dns-message")
		w.Write(raw)
	})
}

func newDoh18Srv() (*doh18Srv, error) {
	s := &doh18Srv{certs: map[string]*tls.Certificate{}}
	var err error
	if s.caKey, err = ecdsa.GenerateKey(elliptic.P256(), rand.Reader); err != nil {
		return nil, err
	}
	if s.leafKey, err = ecdsa.GenerateKey(elliptic.P256(), rand.Reader); err != nil {
		return nil, err
	}
	tmpl := &x509.Certificate{
		SerialNumber: big.NewInt(1), Subject: pkix.Name{CommonName: "c18 harness CA"},
		NotBefore: time.Now().Add(-48 * time.Hour), NotAfter: time.Now().Add(48 * time.Hour),
		KeyUsage: x509.KeyUsageCertSign | x509.KeyUsageDigitalSignature, BasicConstraintsValid: true, IsCA: true,
	}
	der, err := x509.CreateCertificate(rand.Reader, tmpl, tmpl, &s.caKey.PublicKey, s.caKey)
	if err != nil {
		return nil, err
	}
	if s.caCert, err = x509.ParseCertificate(der); err != nil {
		return nil, err
	}
	s.caPool = x509.NewCertPool()
	s.caPool.AddCert(s.caCert)
	s.serial = 1

	cfg := &tls.Config{GetConfigForClient: func(chi *tls.ClientHelloInfo) (*tls.Config, error) {
		tag := ""
		for _, p := range chi.SupportedProtos {
			if strings.HasPrefix(p, "c18d") {
				tag = p
			}
		}
		s.mu.Lock()
		if nc, ok := chi.Conn.(*doh18NetConn); ok {
			nc.st.hello, nc.st.tag, nc.st.sni = true, tag, chi.ServerName
		}
		cert := s.certs[tag]
		s.mu.Unlock()
		if cert == nil {
			return nil, errors.New("harness: connection of no running case")
		}
		return &tls.Config{Certificates: []tls.Certificate{*cert}, NextProtos: []string{"h2", "http/1.1"}}, nil
	}}
	for i, lo := range []string{"127.0.0.1", "::1"} {
		l, err := net.Listen("tcp", net.JoinHostPort(lo, "0"))
		if err != nil {
			if i == 0 {
				return nil, err
			}
			break
		}
		srv := &http.Server{
			TLSConfig: cfg,
			ErrorLog:  log.New(io.Discard, "", 0),
			ConnContext: func(ctx context.Context, c net.Conn) context.Context {
				if tc, ok := c.(*tls.Conn); ok {
					if nc, ok := tc.NetConn().(*doh18NetConn); ok {
						return context.WithValue(ctx, doh18CtxKey{}, nc.st)
					}
				}
				return ctx
			},
			Handler: doh18Handler(func(r *http.Request) {
				if st, ok := r.Context().Value(doh18CtxKey{}).(*doh18Conn); ok {
					s.mu.Lock()
					st.hosts = append(st.hosts, r.Host)
					s.mu.Unlock()
				}
			}),
		}
		s.https = append(s.https, srv)
		s.addrs = append(s.addrs, l.Addr().String())
		go srv.ServeTLS(&doh18Lis{Listener: l, srv: s, idx: i}, "", "")
	}
	return s, nil
}

func (s *doh18Srv) close() {
	for _, h := range s.https {
		h.Close()
	}
}

// leaf mints a certificate valid for exactly host (an IP literal or a DNS name).
func (s *doh18Srv) leaf(host string) (*tls.Certificate, error) {
	s.mu.Lock()
	s.serial++
	serial := s.serial
	s.mu.Unlock()
	tmpl := &x509.Certificate{
		SerialNumber: big.NewInt(serial), Subject: pkix.Name{CommonName: "c18 harness leaf"},
		NotBefore: time.Now().Add(-24 * time.Hour), NotAfter: time.Now().Add(24 * time.Hour),
		KeyUsage: x509.KeyUsageDigitalSignature, ExtKeyUsage: []x509.ExtKeyUsage{x509.ExtKeyUsageServerAuth},
	}
	if ip := net.ParseIP(host); ip != nil {
		tmpl.IPAddresses = []net.IP{ip}
	} else {
		tmpl.DNSNames = []string{host}
	}
	der, err := x509.CreateCertificate(rand.Reader, tmpl, s.caCert, &s.leafKey.PublicKey, s.caKey)
	if err != nil {
		return nil, err
	}
	return &tls.Certificate{Certificate: [][]byte{der}, PrivateKey: s.leafKey}, nil
}

// takeTag removes and returns the connection records that carry tag.
func (s *doh18Srv) takeTag(tag string) []*doh18Conn {
	s.mu.Lock()
	defer s.mu.Unlock()
	var mine, rest []*doh18Conn
	for _, c := range s.conns {
		if c.hello && c.tag == tag {
			cp := *c
			cp.hosts = append([]string(nil), c.hosts...)
			mine = append(mine, &cp)
		} else if !c.hello {
			rest = append(rest, c) // may still get its ClientHello
		}
	}
	s.conns = rest
	delete(s.certs, tag)
	return mine
}

// sameHost18: is the observed host text the host the user wrote (IP literals compare as addresses)?
func sameHost18(observed, written string) bool {
	if a, err := netip.ParseAddr(written); err == nil {
		b, err := netip.ParseAddr(observed)
		return err == nil && a.Unmap() == b.Unmap()
	}
	return strings.EqualFold(strings.TrimSuffix(observed, "."), written)
}

func unbracket18(s string) string {
	if len(s) >= 2 && s[0] == '[' && s[len(s)-1] == ']' {
		return s[1 : len(s)-1]
	}
	return s
}

// genDoh18 draws a DoH address: scheme https or h3, host IPv4 / [IPv6] / bare IPv6 / host name, port or none, a path.
func (r *Run) genDoh18(h3 bool) addr18 {
	var a addr18
	for {
		a = r.genAddr18()
		if a.isIP && a.host == a.hostBare && strings.Contains(a.host, ":") && r.Rng.Intn(2) != 0 {
			continue // bare IPv6: half of the draws
		}
		break
	}
	if !a.isIP && net.ParseIP(a.hostBare) != nil {
		a.isIP = true
	}
	a.scheme = "https"
	if h3 {
		a.scheme = "h3"
	}
	if a.port > 65535 { // out-of-range ports are the business of the matrix above
		a.port = 1 + a.port%65535
	}
	v6 := a.isIP && strings.Contains(a.hostBare, ":")
	// IPv6 literals whose last group is all decimal digits: without their brackets such a text reads as host:port
	// (and what is left of it may be another valid address); half of the IPv6 draws
	if v6 && r.Rng.Intn(2) == 0 {
		bracketed := a.host != a.hostBare
		a.hostBare = []string{"fd00::53", "2001:db8::8:53", "2001:db8::443", "::53", "2001:db8:0:0:0:0:1:853", "fe80::1:443",
			fmt.Sprintf("2001:db8::%d:%d", r.Rng.Intn(10000), r.Rng.Intn(10000)), fmt.Sprintf("fd%02x::%d", r.Rng.Intn(256), r.Rng.Intn(10000))}[r.Rng.Intn(8)]
		a.host = a.hostBare
		if bracketed {
			a.host = "[" + a.hostBare + "]"
		}
	}
	// the port written out: exactly the scheme default (443), the default of another scheme, or a neighbour of them - for
	// every host form (a bare IPv6 literal gets its brackets for that: it cannot carry a port); a third of the draws
	if r.Rng.Intn(3) == 0 {
		if v6 {
			a.host = "[" + a.hostBare + "]"
		}
		a.port = []int{443, 443, 443, 443, 53, 853, 80, 8443, 444, 442, 4430, 44}[r.Rng.Intn(12)]
		if a.port == 443 {
			r.Count("doh:default-port-written-out")
			if v6 {
				r.Count("doh:default-port-written-out:ipv6")
			}
		}
	}
	switch r.Rng.Intn(4) {
	case 0:
		a.path = ""
	case 1:
		a.path = "/"
	case 2:
		a.path = fmt.Sprintf("/q%d/dns", r.Rng.Intn(1000))
	default:
		a.path = "/dns-query"
	}
	a.dial, a.dialHost, a.dialPort = "", "", -1
	return a
}

type dohObs18 struct {
	snis    []string
	hosts   []string
	lis     []int
	remotes []string
}

// judgeDoh18 applies the oracles to what one DoH upstream was seen doing and emits the model lines.
func (r *Run) judgeDoh18(a addr18, rawHost string, verified bool, exErr error, o dohObs18, desc map[string]any) {
	failed := false
	fail := func(what string) {
		if failed {
			return // one report per case
		}
		failed = true
		r.Fail(what, desc)
	}
	// what netip.ParseAddr says about the URL host (with its port, if any): a parameter of the model
	v6bit := "0"
	if ad, err := netip.ParseAddr(rawHost); err == nil && ad.Is6() {
		v6bit = "1"
	}
	name := "" // the server name, when the run determines it
	var he x509.HostnameError
	var hep *x509.HostnameError
	switch {
	case exErr != nil && errors.As(exErr, &he):
		name = he.Host
	case exErr != nil && errors.As(exErr, &hep):
		name = hep.Host
	}
	if name == "" && exErr != nil && verified {
		// quic-go reports the handshake failure as text only
		const m = "but wanted to match "
		if i := strings.Index(exErr.Error(), m); i >= 0 && strings.Contains(exErr.Error(), "x509: certificate is") {
			name = strings.TrimSpace(exErr.Error()[i+len(m):])
		} else if j := strings.Index(exErr.Error(), "x509: certificate is valid for "); j >= 0 {
			if k := strings.LastIndex(exErr.Error(), ", not "); k > j {
				name = strings.TrimSpace(exErr.Error()[k+len(", not "):])
			}
		}
	}
	if name != "" {
		name = unbracket18(name)
		desc["certificate_valid_for"] = a.hostBare
		desc["server_name_verified_against"] = name
		desc["error"] = exErr.Error()
		if !sameHost18(name, a.hostBare) {
			fail("the TLS server name is not the URL host: a certificate valid for exactly the URL host was refused")
		}
	}
	for _, sni := range o.snis {
		if sni == "" && a.isIP {
			continue // no SNI for IP literals
		}
		if name == "" {
			name = sni
		}
		if !sameHost18(sni, a.hostBare) {
			desc["sni"] = sni
			fail("the TLS server name is not the URL host (SNI on the wire)")
			break
		}
		r.Count("doh:sni-observed")
	}
	if name == "" && verified && len(o.hosts) > 0 {
		name = a.hostBare // the verified handshake went through with a certificate for exactly this host
		r.Count("doh:verified-handshake")
	}
	if name != "" {
		r.Line("dohsni "+hx([]byte(rawHost))+" "+v6bit, hx([]byte(strings.ToLower(name))))
	}
	// requests: addressed to the URL host as written (a default port may be spelled out or left out); the authority of an
	// IPv6 literal is its bracketed form, whether or not the user wrote the brackets
	base := a.host
	if a.isIP && strings.Contains(a.hostBare, ":") {
		base = "[" + a.hostBare + "]"
	}
	legit := map[string]bool{}
	if a.port >= 0 {
		legit[base+":"+strconv.Itoa(a.port)] = true
	}
	if a.port < 0 || a.port == 443 {
		legit[base], legit[base+":443"] = true, true
	}
	for i, h := range o.hosts {
		hl := strings.ToLower(h)
		if i == 0 {
			r.Line("dohhost "+hx([]byte(rawHost))+" "+v6bit, hx([]byte(hl)))
			r.Count("doh:request-observed:" + a.scheme)
		}
		if !legit[hl] {
			desc["request_authority"] = h
			fail("the DoH request is addressed to a host other than the URL host the user wrote (address silently altered)")
			break
		}
	}
}

func runC18Doh(r *Run) {
	srv, err := newDoh18Srv()
	if err != nil {
		r.Note("DoH scenario skipped: " + err.Error())
		return
	}
	defer srv.close()
	sk := newSocks18()
	sk.forward = srv.addrs[0]
	defer sk.l.Close()
	q := make([]byte, 29)
	copy(q, []byte{0x12, 0x34, 1, 0, 0, 1, 0, 0, 0, 0, 0, 0, 7, 'e', 'x', 'a', 'm', 'p', 'l', 'e', 3, 'c', 'o', 'm', 0, 0, 1, 0, 1})

	// ---------- https
	fails0 := r.meta.Dist["ORACLE-FAIL"]
	for i, n := 0, r.N(70, 900); i < n && r.meta.Dist["ORACLE-FAIL"]-fails0 < 12; i++ {
		a := r.genDoh18(false)
		tag := fmt.Sprintf("c18d%d", i)
		wantLis := -1
		opt := upstream.Opt{}
		switch k := r.Rng.Intn(3); {
		case k == 0: // no dial_addr: through the SOCKS5 observer
			opt.Socks5 = sk.l.Addr().String()
		default:
			wantLis = r.Rng.Intn(len(srv.addrs))
			a.dial = srv.addrs[wantLis]
			a.dialHost, _, _ = net.SplitHostPort(a.dial)
			opt.DialAddr = a.dial
		}
		verified := r.Rng.Intn(3) != 0
		cert, err := srv.leaf(a.hostBare)
		if err != nil {
			r.Count("doh:no-certificate-for-host")
			continue
		}
		srv.mu.Lock()
		srv.certs[tag] = cert
		srv.mu.Unlock()
		opt.TLSConfig = &tls.Config{NextProtos: []string{tag}}
		if verified {
			opt.TLSConfig.RootCAs = srv.caPool
		} else {
			opt.TLSConfig.InsecureSkipVerify = true
		}
		rawHost := a.host
		if a.port >= 0 {
			rawHost += ":" + strconv.Itoa(a.port)
		}
		desc := map[string]any{"addr": a.url(), "dial_addr": a.dial, "want_server_name": a.hostBare, "certificate_verification": verified}
		r.Eval(fmt.Sprintf("doh:%s|%s|%v", a.url(), a.dial, verified), true)
		u, err := upstream.NewUpstream(a.url(), opt)
		if err != nil {
			// rejection at creation is always allowed by the property
			r.Count("doh:rejected:https")
			srv.takeTag(tag)
			continue
		}
		r.Count("doh:created:https")
		ctx, cancel := context.WithTimeout(context.Background(), 2500*time.Millisecond)
		_, exErr := u.ExchangeContext(ctx, q)
		cancel()
		u.Close()
		if exErr == nil {
			r.Count("doh:answered:https")
		}
		var o dohObs18
		for _, c := range srv.takeTag(tag) {
			o.snis = append(o.snis, c.sni)
			o.hosts = append(o.hosts, c.hosts...)
			o.lis = append(o.lis, c.lis)
			o.remotes = append(o.remotes, c.remote)
		}
		sk.take()
		// the CONNECT request of THIS case's connection: the observer remembers it under the address it spliced from
		target := ""
		if opt.Socks5 != "" && len(o.remotes) > 0 {
			sk.mu.Lock()
			target = sk.fwd[o.remotes[0]]
			sk.mu.Unlock()
		}
		if target != "" {
			wantHost, wantPort := a.expected()
			obsHost, obsPortS, _ := strings.Cut(target, "|")
			obsPort, _ := strconv.Atoi(obsPortS)
			desc["dialled"] = target
			if !sameHost18(strings.TrimPrefix(obsHost, "name:"), wantHost) || obsPort != wantPort ||
				strings.HasPrefix(obsHost, "name:") == a.isIP {
				desc["want_host"], desc["want_port"] = wantHost, wantPort
				r.Fail("the upstream connected to a host/port other than the one the user configured", desc)
			}
			mh := strings.TrimPrefix(obsHost, "name:")
			if a.isIP && sameHost18(mh, wantHost) {
				mh = wantHost // the model keeps the user's text
			}
			r.Line(fmt.Sprintf("target %s %s %d", hx([]byte(rawHost)), hx([]byte(a.dial)), 443), fmt.Sprintf("%s %d", hx([]byte(mh)), obsPort))
		}
		for _, li := range o.lis {
			if wantLis >= 0 && li != wantLis {
				desc["connected_to"] = srv.addrs[li]
				r.Fail("the upstream connected to a host/port other than the dial_addr the user configured", desc)
				break
			}
		}
		r.judgeDoh18(a, rawHost, verified, exErr, o, desc)
	}

	// ---------- h3: one HTTP/3 server per case
	// the sockets stay bound until the end, so that no port of an earlier case is handed out again while this runs
	var pcs []net.PacketConn
	defer func() {
		for _, pc := range pcs {
			pc.Close()
		}
	}()
	fails0 = r.meta.Dist["ORACLE-FAIL"]
	for i, n := 0, r.N(14, 150); i < n && r.meta.Dist["ORACLE-FAIL"]-fails0 < 6; i++ {
		a := r.genDoh18(true)
		pc, err := net.ListenPacket("udp", "127.0.0.1:0")
		if err != nil {
			r.Note("h3 cases skipped: " + err.Error())
			break
		}
		pcs = append(pcs, pc)
		cert, err := srv.leaf(a.hostBare)
		if err != nil {
			r.Count("doh:no-certificate-for-host")
			continue
		}
		var mu sync.Mutex
		var o dohObs18
		h3s := &http3.Server{
			TLSConfig: &tls.Config{Certificates: []tls.Certificate{*cert}, GetConfigForClient: func(chi *tls.ClientHelloInfo) (*tls.Config, error) {
				mu.Lock()
				o.snis = append(o.snis, chi.ServerName)
				mu.Unlock()
				return nil, nil
			}},
			Handler: doh18Handler(func(req *http.Request) {
				mu.Lock()
				o.hosts = append(o.hosts, req.Host)
				mu.Unlock()
			}),
		}
		go h3s.Serve(pc)
		a.dial = pc.LocalAddr().String()
		a.dialHost, _, _ = net.SplitHostPort(a.dial)
		verified := r.Rng.Intn(3) != 0
		opt := upstream.Opt{DialAddr: a.dial, TLSConfig: &tls.Config{}}
		if verified {
			opt.TLSConfig.RootCAs = srv.caPool
		} else {
			opt.TLSConfig.InsecureSkipVerify = true
		}
		rawHost := a.host
		if a.port >= 0 {
			rawHost += ":" + strconv.Itoa(a.port)
		}
		desc := map[string]any{"addr": a.url(), "dial_addr": a.dial, "want_server_name": a.hostBare, "certificate_verification": verified}
		r.Eval(fmt.Sprintf("doh:%s|%s|%v", a.url(), a.dial, verified), true)
		u, err := upstream.NewUpstream(a.url(), opt)
		if err != nil {
			r.Count("doh:rejected:h3")
			h3s.Close()
			continue
		}
		r.Count("doh:created:h3")
		ctx, cancel := context.WithTimeout(context.Background(), 2500*time.Millisecond)
		_, exErr := u.ExchangeContext(ctx, q)
		cancel()
		u.Close()
		if exErr == nil {
			r.Count("doh:answered:h3")
		}
		h3s.Close()
		mu.Lock()
		oc := dohObs18{snis: append([]string(nil), o.snis...), hosts: append([]string(nil), o.hosts...)}
		mu.Unlock()
		r.judgeDoh18(a, rawHost, verified, exErr, oc, desc)
	}
}
