//go:build pC04 || pall

package main

import (
	"bytes"
	"fmt"
	"net/http"
	"net/http/httptest"
	"os"
	"path/filepath"
	"strings"

	"github.com/IrineSistiana/mosdns/v5/plugin/executable/cache"
	"github.com/miekg/dns"
)

// C04, cache lives: the entries of a cache plugin survive a restart (dump_file
// written by Close and loaded by NewCache) or move to another instance
// (GET /dump, POST /load_dump). The property does not stop at that border: after
// the reload an answer is still served only to the question it was stored for.
//
// The questions asked here are chosen so that their key bytes are adversarial for
// anything on the dump / load path that looks at a key and guesses its layout
// (an "upgrade" of keys written by an older version, a normalisation, a
// re-derivation): pairs of different questions (q1, q2) whose keys differ by
// k = 1..3 bytes inserted at one position p = 0..5 of the key header, i.e.
// key(q2) is what key(q1) would look like had it been written in a layout
// without those k bytes (and key(q1) what key(q2) looks like with them dropped).
// For that, one header byte of q1 (type low byte, class high or low byte) or
// one inserted byte has to equal the length byte of q2, len(q1.name)+k, and the
// header bytes of q1 that end up at the front of q2's name (class low byte, the
// length byte, ...) have to be name characters; e.g. p=3 k=2:
//
//	q1 = {name N (48 bytes), type A, class 0x3278}   key  f 00 01 32 78 30 N
//	q2 = {name "x0"+N,       type A, class IN}       key  f 00 01 00 01 32 78 30 N
//
// Every (p, k) x three fillings of the inserted bytes x {only q1, only q2, both}
// stored before the dump x {type < 256, any type} is enumerated, with seeded
// names, types, classes and flags; all names are checked to survive the wire
// (Pack / Unpack) unchanged and every key is the one the real getMsgKey returns.
//
// Oracle (the property's): a query that is answered from the cache (the upstream
// behind the cache plugin is not reached) gets an answer that was produced for a
// query asking the same question with the same AD/CD/DO. Whether a stored
// question still hits after the reload is not demanded.
// The store / hit events of each batch are replayed on the model's trace
// acceptor (`chain` line, one cache): dump and load keep the acceptor's records
// as they are, which is what Props.C04.reload_hit_same_question states for the
// load key function read from the source.

const alnum04 = "abcdefghijklmnopqrstuvwxyz0123456789ABCDEFGHIJKLMNOPQRSTUVWXYZ"

// nameOfLen04 returns a fully qualified name of exactly n (>= 2) presentation bytes.
func (r *Run) nameOfLen04(n int) string {
	var sb strings.Builder
	for rem := n; rem > 0; {
		ll := 1 + r.Rng.Intn(30)
		if ll >= rem-1 {
			ll = rem - 1
		} else if rem-(ll+1) == 1 {
			ll++
		}
		for j := 0; j < ll; j++ {
			sb.WriteByte(alnum04[r.Rng.Intn(len(alnum04))])
		}
		sb.WriteByte('.')
		rem -= ll + 1
	}
	return sb.String()
}

// q04FromKey reads a key in the layout of getMsgKey; the caller verifies the result with the real getMsgKey.
func (r *Run) q04FromKey(k []byte) (q04, bool) {
	if len(k) < 7 || k[0] > 7 || int(k[5]) != len(k)-6 {
		return q04{}, false
	}
	q := q04{nq: 1, ad: k[0]&1 != 0, cd: k[0]&2 != 0, do: k[0]&4 != 0, qtype: uint16(k[1])<<8 | uint16(k[2]), qclass: uint16(k[3])<<8 | uint16(k[4]), name: string(k[6:])}
	q.hasOpt = q.do || r.Rng.Intn(2) == 0
	return q, true
}

// onWire04 says whether q reaches the plugin from a client exactly as it is.
func onWire04(q q04) bool {
	if _, ok := dns.IsDomainName(q.name); !ok || !strings.HasSuffix(q.name, ".") {
		return false
	}
	m := q.msg()
	b, err := m.Pack()
	if err != nil {
		return false
	}
	m2 := new(dns.Msg)
	if err := m2.Unpack(b); err != nil || len(m2.Question) != 1 {
		return false
	}
	return m2.Question[0] == m.Question[0]
}

type pair04 struct {
	q1, q2 q04
	desc   string
	mode   int // stored before the dump: 0 only q1, 1 only q2, 2 both
}

// adversarialPair04: key(q2) = key(q1) with k bytes inserted at p.
func (r *Run) adversarialPair04(p, k, fill int, lowType bool) (pair04, string) {
	// the length byte of q1 becomes a character of q2's name
	const lens = "-0123456789ABCDEFGHIJKLMNOPQRSTUVWXYZ_abcdefghijklmnopqrstuvw"
	l1 := int(lens[r.Rng.Intn(len(lens))])
	n1 := r.nameOfLen04(l1)
	t1 := []uint16{1, 28, 5, 15, 16, 65, 2, 6, 12, 33, 255}[r.Rng.Intn(11)]
	if !lowType {
		t1 = r.U16()
	}
	c1 := r.U16()
	if r.Rng.Intn(2) == 0 {
		c1 = []uint16{1, 1, 3, 4, 254, 255}[r.Rng.Intn(6)]
	}
	k1 := append([]byte{byte(r.Rng.Intn(8)), byte(t1 >> 8), byte(t1), byte(c1 >> 8), byte(c1), byte(l1)}, n1...)
	ch := func() byte { return alnum04[r.Rng.Intn(len(alnum04))] }
	for i := 6 - k; i < 5; i++ { // header bytes of q1 that land in q2's name
		if i >= p {
			k1[i] = ch()
		}
	}
	ins := make([]byte, k)
	for j := range ins {
		switch pos := p + j; {
		case pos == 5:
			ins[j] = byte(l1 + k)
		case pos >= 6:
			ins[j] = ch()
		case pos == 0:
			ins[j] = byte(r.Rng.Intn(8))
		case fill == 0: // the inserted field reads 0x0001 (type A, class IN)
			ins[j] = byte((pos + 1) % 2)
		case fill == 1:
			ins[j] = 0
		default:
			ins[j] = byte(r.Rng.Intn(256))
		}
	}
	if p+k <= 5 {
		k1[5-k] = byte(l1 + k) // this byte of q1 is where q2 has its length byte
	}
	k2 := append(append(append([]byte{}, k1[:p]...), ins...), k1[p:]...)
	q1, ok1 := r.q04FromKey(k1)
	q2, ok2 := r.q04FromKey(k2)
	switch {
	case !ok1 || !ok2:
		return pair04{}, "not-a-key"
	case cache.VerifGetMsgKey(q1.msg()) != string(k1) || cache.VerifGetMsgKey(q2.msg()) != string(k2):
		return pair04{}, "getMsgKey-has-another-layout"
	case !onWire04(q1) || !onWire04(q2):
		return pair04{}, "name-not-wire-stable"
	case sameQuestion(q1, q2):
		return pair04{}, "same-question"
	}
	return pair04{q1: q1, q2: q2, desc: fmt.Sprintf("key(q2) = key(q1) with %d byte(s) %s inserted at offset %d", k, hx(ins), p)}, ""
}

// reload04 moves the entries of c1 into a new cache instance.
func reload04(route string, c1 *cache.Cache, dumpFile string) (*cache.Cache, error) {
	switch route {
	case "dump_file": // Close writes the dump, NewCache loads it
		if err := c1.Close(); err != nil {
			return nil, err
		}
		if st, err := os.Stat(dumpFile); err != nil || st.Size() == 0 {
			return nil, fmt.Errorf("no dump file after Close: %v", err)
		}
		return cache.NewCache(&cache.Args{Size: 1 << 16, DumpFile: dumpFile}, cache.Opts{}), nil
	case "api": // GET /dump of one instance, POST /load_dump of another
		rec := httptest.NewRecorder()
		c1.Api().ServeHTTP(rec, httptest.NewRequest(http.MethodGet, "/dump", nil))
		if rec.Code != http.StatusOK {
			return nil, fmt.Errorf("GET /dump: %d %s", rec.Code, rec.Body.String())
		}
		c2 := cache.NewCache(&cache.Args{Size: 1 << 16}, cache.Opts{})
		rec2 := httptest.NewRecorder()
		c2.Api().ServeHTTP(rec2, httptest.NewRequest(http.MethodPost, "/load_dump", bytes.NewReader(rec.Body.Bytes())))
		if rec2.Code != http.StatusOK {
			c2.Close()
			return nil, fmt.Errorf("POST /load_dump: %d %s", rec2.Code, rec2.Body.String())
		}
		return c2, nil
	default: // writeDump / readDump through the verif shims
		var dump bytes.Buffer
		if _, err := c1.VerifWriteDump(&dump); err != nil {
			return nil, err
		}
		c2 := cache.NewCache(&cache.Args{Size: 1 << 16}, cache.Opts{})
		if _, err := c2.VerifReadDump(bytes.NewReader(dump.Bytes())); err != nil {
			c2.Close()
			return nil, err
		}
		return c2, nil
	}
}

func reloadBatch04(r *Run, route string) {
	var pairs []pair04
	for p := 0; p <= 5; p++ {
		for k := 1; k <= 3; k++ {
			for fill := 0; fill < 3; fill++ {
				for mode := 0; mode < 3; mode++ {
					for _, lowType := range []bool{true, false} {
						pr, why := r.adversarialPair04(p, k, fill, lowType)
						if why != "" {
							r.Count("reload-pair-skipped:" + why)
							continue
						}
						pr.mode = mode
						pairs = append(pairs, pr)
					}
				}
			}
		}
	}
	r.Rng.Shuffle(len(pairs), func(i, j int) { pairs[i], pairs[j] = pairs[j], pairs[i] })

	dir, dumpFile := "", ""
	args := &cache.Args{Size: 1 << 16}
	if route == "dump_file" {
		d, err := os.MkdirTemp("", "verif-c04-")
		if err != nil {
			r.Note("C04 reload: no temporary directory: " + err.Error())
			return
		}
		dir, dumpFile = d, filepath.Join(d, "cache.dump")
		defer os.RemoveAll(dir)
		args.DumpFile = dumpFile
	}
	owner := map[int]string{}
	asker := map[int]q04{}
	var events []string
	ex := newExec04On(cache.NewCache(args, cache.Opts{}), owner, 0)
	// ask runs q and records what the probe positions of the chain scenarios would see: a store on a miss, a hit otherwise
	ask := func(e *exec04, q q04) (serial int, hit bool, ok bool) {
		before := e.ctr
		s, err := e.ask(q)
		if err != nil {
			r.Count("reload-ask-error")
			return 0, false, false
		}
		if e.ctr != before {
			asker[s] = q
			events = append(events, fmt.Sprintf("S 0 %s %d", identity04(q), s))
			return s, false, true
		}
		events = append(events, fmt.Sprintf("H 0 %s %d", identity04(q), s))
		return s, true, true
	}
	stored := map[string]bool{}
	for _, pr := range pairs {
		qs := []q04{pr.q1, pr.q2}
		switch pr.mode {
		case 0:
			qs = qs[:1]
		case 1:
			qs = qs[1:]
		default:
			if r.Rng.Intn(2) == 0 {
				qs[0], qs[1] = qs[1], qs[0]
			}
		}
		for _, q := range qs {
			r.Line(q.opLine(), hx([]byte(cache.VerifGetMsgKey(q.msg()))))
			if _, _, ok := ask(ex, q); ok {
				stored[q.opLine()] = true
			}
		}
	}
	c2, err := reload04(route, ex.c, dumpFile)
	if err != nil {
		r.Note("C04 reload (" + route + ") failed: " + err.Error())
		r.Fail("the dump of a cache filled through Cache.Exec, or loading it, failed, so the reload step could not run", map[string]any{"route": route, "error": err.Error()})
		if route != "dump_file" {
			ex.c.Close()
		}
		return
	}
	if route != "dump_file" {
		ex.c.Close()
	}
	defer c2.Close()
	r.meta.Dist["reload-"+route+":entries-loaded"] += c2.VerifLen()
	ex2 := newExec04On(c2, owner, 1<<22)
	reported := 0
	for _, pr := range pairs {
		qs := []q04{pr.q1, pr.q2}
		if r.Rng.Intn(2) == 0 {
			qs[0], qs[1] = qs[1], qs[0]
		}
		for _, q := range qs {
			s, hit, ok := ask(ex2, q)
			if !ok {
				continue
			}
			r.Eval("reload-pair:"+route+":"+q.opLine(), true)
			switch {
			case hit:
				r.Count("reload-" + route + ":hit")
			case stored[q.opLine()]:
				r.Count("reload-" + route + ":stored-question-missed") // not a C04 matter
			default:
				r.Count("reload-" + route + ":miss")
			}
			if o := owner[s]; hit && o != q.opLine() && reported < 3 {
				reported++
				var before []string
				for _, x := range []q04{pr.q1, pr.q2} {
					if stored[x.opLine()] {
						before = append(before, x.String())
					}
				}
				r.Fail("after a dump and load of the cache ("+route+"), a query was answered from the cache with an answer that was produced and stored for a different question",
					map[string]any{"served_to": q.String(), "answer_was_produced_for": asker[s].String(), "route": route, "asked_before_the_dump": before,
						"q1": pr.q1.String(), "q2": pr.q2.String(), "relation_of_the_keys": pr.desc, "key_q1": hx([]byte(cache.VerifGetMsgKey(pr.q1.msg()))), "key_q2": hx([]byte(cache.VerifGetMsgKey(pr.q2.msg()))),
						"served_to_op": q.opLine(), "produced_for_op": o})
			}
		}
	}
	r.Count("reload-batch:" + route)
	r.meta.Dist["reload-pairs"] += len(pairs)
	if len(events) > 0 {
		r.Line("chain "+strings.Join(events, " "), "accept")
	}
}

func runReload04(r *Run) {
	for round := 0; round < r.N(1, 8); round++ {
		for _, route := range []string{"hooks", "dump_file", "api"} {
			reloadBatch04(r, route)
		}
	}
}
