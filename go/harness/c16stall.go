//go:build pC16 || pall

package main

import (
	"bytes"
	"context"
	"encoding/binary"
	"errors"
	"fmt"
	"net"
	"sort"
	"strings"
	"sync"
	"time"

	"github.com/IrineSistiana/mosdns/v5/pkg/server"
	"github.com/miekg/dns"
)

// C16, server side of stream framing under read deadlines. The real server.ServeTCP runs with a short idle timeout
// on a connection that has real deadlines (loopback TCP or net.Pipe). The client sends whole frames, but cut into
// writes at arbitrary places - inside the length header, right after it, inside the body - and with pauses between
// writes that may be longer than the idle timeout, possibly while an earlier query of the connection is still being
// handled. Some messages carry, as opaque data at their end (an EDNS0 option, a TXT string), bytes that are
// themselves well-formed framed queries.
//
// Oracle (property statement: "every DNS message is transferred as one two-byte length followed by exactly that
// many bytes ... however the stream is chunked", "a short read ... yields an error"): whatever the timing, the
// messages the server hands to its handler are messages the client sent as frames, each at most as often as it was
// sent, and every complete frame the client receives is a reply to one of them. A read that the deadline cut short
// inside a frame is a short read: it may end the connection, it can never make bytes from inside a message a message.
// When no pause comes near a timeout, every frame must be handled and answered (chunking alone loses nothing).
// The client's stream and the places where the pauses fell are also replayed on Model.C16.serve (driver op `serve`).

type stallHandler16 struct {
	mu       sync.Mutex
	seen     []string
	slowName string
	release  chan struct{}
	sawSlow  chan struct{}
	slowOnce sync.Once
	ev       chan struct{}
}

func key16(m *dns.Msg) string {
	name := "<no question>"
	if len(m.Question) > 0 {
		name = m.Question[0].Name
	}
	return fmt.Sprintf("id=%d %s", m.Id, name)
}

func (h *stallHandler16) Handle(ctx context.Context, q *dns.Msg, meta server.QueryMeta, pack func(m *dns.Msg) (*[]byte, error)) *[]byte {
	k := key16(q)
	h.mu.Lock()
	h.seen = append(h.seen, k)
	h.mu.Unlock()
	select {
	case h.ev <- struct{}{}:
	default:
	}
	if len(q.Question) > 0 && q.Question[0].Name == h.slowName { // an upstream that takes its time
		h.slowOnce.Do(func() { close(h.sawSlow) })
		select {
		case <-h.release:
		case <-ctx.Done():
		}
	}
	m := new(dns.Msg)
	m.SetReply(q)
	b, err := pack(m)
	if err != nil {
		return nil
	}
	return b
}

func (h *stallHandler16) handled() []string {
	h.mu.Lock()
	defer h.mu.Unlock()
	return append([]string(nil), h.seen...)
}

type pipeListener16 struct {
	ch   chan net.Conn
	done chan struct{}
	once sync.Once
}

func (l *pipeListener16) Accept() (net.Conn, error) {
	select {
	case c := <-l.ch:
		return c, nil
	case <-l.done:
		return nil, errors.New("listener closed")
	}
}
func (l *pipeListener16) Close() error   { l.once.Do(func() { close(l.done) }); return nil }
func (l *pipeListener16) Addr() net.Addr { return &net.TCPAddr{IP: net.IPv4(127, 0, 0, 1), Port: 53} }

type write16 struct {
	b     []byte
	pause bool          // followed by a pause longer than the idle timeout
	gap   time.Duration // otherwise: a short gap
	wait  bool          // wait (bounded) until the handler has the slow query before going on
}

type stallPlan16 struct {
	rd       int
	viaPipe  bool
	stall    bool
	idle     time.Duration
	slow     bool
	slowName string
	stream   []byte
	writes   []write16
	sent     map[string]int // key -> how often the client framed it
	embedded []string       // keys of the framed queries that are data inside other messages
	frames   []string       // the client's frames, in order (for the description)
	cuts     []string       // where the stream was cut (for the description)
	segSpec  string
}

func frame16(wire []byte) []byte {
	return append([]byte{byte(len(wire) >> 8), byte(len(wire))}, wire...)
}

// plan16 draws one round from r.Rng (rounds run concurrently; all randomness is drawn up front).
func plan16(r *Run, rd int) *stallPlan16 {
	p := &stallPlan16{rd: rd, sent: map[string]int{}}
	p.stall = rd%4 != 3 // three rounds of four have pauses beyond the idle timeout
	p.viaPipe = r.Rng.Intn(2) == 0
	if p.stall {
		p.idle = time.Duration(80+r.Rng.Intn(80)) * time.Millisecond
	} else {
		p.idle = 5 * time.Second
	}
	p.slow = rd%4 == 0 || r.Rng.Intn(4) != 0
	id := uint16(1 + r.Rng.Intn(60000))
	nextID := func() uint16 { id++; return id }
	plain := func(label string) *dns.Msg {
		m := new(dns.Msg)
		m.SetQuestion(fmt.Sprintf("%s.r%d.c16.test.", label, rd), []uint16{dns.TypeA, dns.TypeAAAA, dns.TypeTXT}[r.Rng.Intn(3)])
		m.Id = nextID()
		return m
	}
	type fr struct {
		b          []byte
		innerStart int   // offset in b where the embedded frames begin (0: none)
		innerCuts  []int // offsets in b between embedded frames
		slow       bool
	}
	var frames []fr
	add := func(m *dns.Msg, slow bool) {
		w, err := m.Pack()
		if err != nil {
			return
		}
		frames = append(frames, fr{b: frame16(w), slow: slow})
		p.sent[key16(m)]++
		p.frames = append(p.frames, key16(m))
	}
	for i := r.Rng.Intn(3); i > 0; i-- {
		add(plain(fmt.Sprintf("fast%d", i)), false)
	}
	if p.slow {
		m := plain("slow")
		p.slowName = m.Question[0].Name
		add(m, true)
	}
	for c := 1 + r.Rng.Intn(2); c > 0; c-- {
		// a message whose last bytes are opaque data that happen to be framed queries
		var data []byte
		var cutsIn []int
		var keys []string
		kind := r.Rng.Intn(3)
		for j := 1 + r.Rng.Intn(3); j > 0; j-- {
			in := plain(fmt.Sprintf("embedded%d-%d", c, j))
			w, _ := in.Pack()
			if kind == 2 && len(data)+len(w)+2 > 255 {
				break
			}
			cutsIn = append(cutsIn, len(data))
			data = append(data, frame16(w)...)
			keys = append(keys, key16(in))
		}
		m := plain(fmt.Sprintf("carrier%d", c))
		switch kind {
		case 2: // a TXT record as the last record of the message
			m.Extra = append(m.Extra, &dns.TXT{Hdr: dns.RR_Header{Name: m.Question[0].Name, Rrtype: dns.TypeTXT, Class: dns.ClassINET, Ttl: 0}, Txt: []string{string(data)}})
		default: // an EDNS0 option (local use / padding-like payload) as the last option
			opt := &dns.OPT{Hdr: dns.RR_Header{Name: ".", Rrtype: dns.TypeOPT, Class: 1232}}
			if kind == 1 {
				opt.Option = append(opt.Option, &dns.EDNS0_COOKIE{Code: dns.EDNS0COOKIE, Cookie: "0123456789abcdef"})
			}
			opt.Option = append(opt.Option, &dns.EDNS0_LOCAL{Code: 65001, Data: data})
			m.Extra = append(m.Extra, opt)
		}
		w, err := m.Pack()
		if err != nil || !bytes.HasSuffix(w, data) {
			add(plain(fmt.Sprintf("plain%d", c)), false)
			continue
		}
		f := fr{b: frame16(w)}
		f.innerStart = len(f.b) - len(data)
		for _, o := range cutsIn[1:] {
			f.innerCuts = append(f.innerCuts, f.innerStart+o)
		}
		frames = append(frames, f)
		p.sent[key16(m)]++
		p.frames = append(p.frames, key16(m)+fmt.Sprintf(" [its last %d bytes: %d framed queries]", len(data), len(keys)))
		p.embedded = append(p.embedded, keys...)
	}
	for i := r.Rng.Intn(2); i > 0; i-- {
		add(plain(fmt.Sprintf("after%d", i)), false)
	}

	// cut the stream into writes
	gap := func() time.Duration { return time.Duration(r.Rng.Intn(3)) * time.Millisecond }
	cur := write16{}
	flush := func(pause, wait bool, why string) {
		if len(cur.b) == 0 {
			return
		}
		cur.pause, cur.wait, cur.gap = pause, wait, gap()
		p.writes = append(p.writes, cur)
		if pause {
			why += " + pause > idle timeout"
		}
		p.cuts = append(p.cuts, fmt.Sprintf("@%d %s", len(p.stream), why))
		cur = write16{}
	}
	emit := func(b []byte) {
		cur.b = append(cur.b, b...)
		p.stream = append(p.stream, b...)
	}
	for fi, f := range frames {
		if f.innerStart == 0 {
			if !f.slow && r.Rng.Intn(4) == 0 && len(f.b) > 4 { // an ordinary frame in two pieces
				k := 1 + r.Rng.Intn(len(f.b)-1)
				emit(f.b[:k])
				flush(false, false, "inside a plain frame")
				emit(f.b[k:])
			} else {
				emit(f.b)
			}
		} else {
			var k int
			var why string
			switch c := r.Rng.Intn(8); {
			case c < 4 || rd%4 == 0:
				k, why = f.innerStart, "where the embedded frames begin"
			case c == 4 && len(f.innerCuts) > 0:
				k, why = f.innerCuts[r.Rng.Intn(len(f.innerCuts))], "between two embedded frames"
			case c == 5:
				k, why = 1, "inside the length header"
			case c == 6:
				k, why = 2, "right after the length header"
			default:
				k, why = 3+r.Rng.Intn(len(f.b)-3), "inside the body"
			}
			emit(f.b[:k])
			flush(p.stall && (rd%4 == 0 || r.Rng.Intn(5) != 0), false, why)
			emit(f.b[k:])
		}
		switch {
		case f.slow:
			flush(false, p.stall, "after the slow query")
		case fi == len(frames)-1:
			flush(false, false, "end")
		case r.Rng.Intn(3) != 0:
			flush(p.stall && r.Rng.Intn(8) == 0, false, "frame boundary")
		}
	}
	flush(false, false, "end")
	var segs []string
	var cs []string
	for _, w := range p.writes {
		cs = append(cs, fmt.Sprint(len(w.b)))
		if w.pause {
			segs = append(segs, strings.Join(cs, ","))
			cs = nil
		}
	}
	if len(cs) > 0 {
		segs = append(segs, strings.Join(cs, ","))
	}
	p.segSpec = strings.Join(segs, "/")
	return p
}

type stallResult16 struct {
	handled    []string
	received   []byte
	connErr    string
	writePhase time.Duration
	lastWrite  string
	serverLeft bool
	maxStall   time.Duration
	setupErr   string
}

func runStall16(p *stallPlan16) (res stallResult16) {
	meter := startStallMeter()
	defer func() { res.maxStall = meter.Stop() }()
	h := &stallHandler16{slowName: p.slowName, release: make(chan struct{}), sawSlow: make(chan struct{}), ev: make(chan struct{}, 1)}
	var releaseOnce sync.Once
	release := func() { releaseOnce.Do(func() { close(h.release) }) }
	defer release()
	var cli net.Conn
	var l net.Listener
	if p.viaPipe {
		pl := &pipeListener16{ch: make(chan net.Conn, 1), done: make(chan struct{})}
		c, s := net.Pipe()
		pl.ch <- s
		cli, l = c, pl
	} else {
		tl, err := net.Listen("tcp", "127.0.0.1:0")
		if err != nil {
			res.setupErr = err.Error()
			return
		}
		l = tl
	}
	go server.ServeTCP(l, h, server.TCPServerOpts{IdleTimeout: p.idle})
	defer l.Close()
	if cli == nil {
		c, err := net.DialTimeout("tcp", l.Addr().String(), 2*time.Second)
		if err != nil {
			res.setupErr = err.Error()
			return
		}
		cli = c
	}
	defer cli.Close()

	// independent collector of what the server sends
	var rmu sync.Mutex
	var received []byte
	readerDone := make(chan struct{})
	go func() {
		defer close(readerDone)
		buf := make([]byte, 4096)
		for {
			n, err := cli.Read(buf)
			rmu.Lock()
			received = append(received, buf[:n]...)
			rmu.Unlock()
			if err != nil {
				return
			}
		}
	}()
	serverLeft := func() bool {
		select {
		case <-readerDone:
			return true
		default:
			return false
		}
	}
	foreign := func() bool {
		for _, k := range h.handled() {
			if p.sent[k] == 0 {
				return true
			}
		}
		return false
	}

	t0 := time.Now()
	for _, w := range p.writes {
		if foreign() {
			break // decided already
		}
		cli.SetWriteDeadline(time.Now().Add(3 * time.Second))
		if _, err := cli.Write(w.b); err != nil {
			res.lastWrite = err.Error()
			break
		}
		switch {
		case w.wait:
			select {
			case <-h.sawSlow:
			case <-readerDone:
			case <-time.After(time.Second):
			}
		case w.pause:
			select {
			case <-time.After(p.idle*5/2 + w.gap*10):
			case <-readerDone: // the server has given the connection up already
				time.Sleep(w.gap)
			}
		default:
			time.Sleep(w.gap)
		}
	}
	res.writePhase = time.Since(t0)
	if !p.stall {
		release() // nothing is expected to time out: let the slow answer go out too
	}
	// wait (event driven) until the round is decided: a message nobody framed was handled, the server left, or
	// everything framed was handled and answered
	want := 0
	for _, n := range p.sent {
		want += n
	}
	limit := time.After(p.idle + 1500*time.Millisecond)
	if !p.stall {
		limit = time.After(4 * time.Second)
	}
	tick := time.NewTicker(5 * time.Millisecond)
	defer tick.Stop()
wait:
	for {
		if foreign() || serverLeft() {
			break
		}
		if len(h.handled()) >= want {
			rmu.Lock()
			n := countFrames16(received)
			rmu.Unlock()
			if n >= want || p.stall && p.slow && n >= want-1 {
				break
			}
		}
		select {
		case <-h.ev:
		case <-readerDone:
		case <-tick.C:
		case <-limit:
			break wait
		}
	}
	if foreign() {
		time.Sleep(20 * time.Millisecond) // let the reply to it arrive as well
	}
	res.serverLeft = serverLeft()
	release()
	cli.SetReadDeadline(time.Now().Add(50 * time.Millisecond))
	select {
	case <-readerDone:
	case <-time.After(300 * time.Millisecond):
	}
	res.handled = h.handled()
	rmu.Lock()
	res.received = append([]byte(nil), received...)
	rmu.Unlock()
	return
}

func serveTCPStalls16(r *Run, rounds int) {
	const batch = 12
	for base := 0; base < rounds; base += batch {
		var plans []*stallPlan16
		for rd := base; rd < rounds && rd < base+batch; rd++ {
			plans = append(plans, plan16(r, rd))
		}
		results := make([]stallResult16, len(plans))
		var wg sync.WaitGroup
		for i := range plans {
			wg.Add(1)
			go func(i int) {
				defer wg.Done()
				results[i] = runStall16(plans[i])
			}(i)
		}
		wg.Wait()
		for i, p := range plans {
			judgeStall16(r, p, results[i])
		}
	}
}

func judgeStall16(r *Run, p *stallPlan16, res stallResult16) {
	kind := "no-pause"
	if p.stall {
		kind = "pauses>idle"
	}
	r.Eval(fmt.Sprintf("servetcp-stall/%d/%s/%s", p.rd, kind, p.segSpec), true)
	r.Count("servetcp-chunked:" + kind + map[bool]string{true: ":net.Pipe", false: ":loopback-tcp"}[p.viaPipe])
	r.Trace()
	if res.setupErr != "" {
		r.Count("servetcp-chunked:setup-failed")
		return
	}
	transport := "loopback TCP"
	if p.viaPipe {
		transport = "net.Pipe"
	}
	var ws []string
	for _, w := range p.writes {
		s := fmt.Sprintf("%dB", len(w.b))
		if w.pause {
			s += fmt.Sprintf("+pause %dms", (p.idle*5/2+w.gap*10)/time.Millisecond)
		}
		ws = append(ws, s)
	}
	desc := map[string]any{
		"server":            "server.ServeTCP, idle timeout " + p.idle.String() + ", " + transport,
		"client_frames":     p.frames,
		"client_writes":     strings.Join(ws, " "),
		"cuts":              p.cuts,
		"query_in_flight":   p.slow,
		"handled":           res.handled,
		"embedded_as_data":  p.embedded,
		"stream":            hx(p.stream[:min(len(p.stream), 600)]),
		"server_closed":     res.serverLeft,
		"write_phase_ms":    int(res.writePhase / time.Millisecond),
		"last_write_err":    res.lastWrite,
		"harness_stall_max": res.maxStall.String(),
	}
	// (a) what the handler was given
	seen := map[string]int{}
	nForeign := 0
	for _, k := range res.handled {
		seen[k]++
		if seen[k] > p.sent[k] {
			nForeign++
			if nForeign > 1 {
				continue
			}
			desc["handled_not_sent"] = k
			if p.sent[k] == 0 {
				r.Fail("ServeTCP handed its handler a message the client never sent as a frame ("+k+"): bytes from inside a frame were read as a frame after a read that was cut short", desc)
			} else {
				r.Fail("ServeTCP handed its handler a message more often than the client framed it ("+k+")", desc)
			}
		}
	}
	r.Line(fmt.Sprintf("serve %s %s", hx(p.stream), p.segSpec), fmt.Sprintf("foreign=%d", nForeign))
	// (b) what the client received: every complete frame is a reply to a frame it sent
	rest := res.received
	replied := map[string]int{}
	for len(rest) >= 2 {
		l := int(binary.BigEndian.Uint16(rest))
		if len(rest) < 2+l {
			break // cut off by the end of the connection
		}
		m := new(dns.Msg)
		if err := m.Unpack(rest[2 : 2+l]); err != nil {
			desc["reply_frame"] = hx(rest[:min(2+l, 80)])
			r.Fail("a frame the client received from ServeTCP is not a DNS message: "+err.Error(), desc)
			break
		}
		k := key16(m)
		replied[k]++
		if !m.Response || replied[k] > p.sent[k] {
			desc["reply"] = k
			r.Fail("the client received from ServeTCP a reply ("+k+") to a query it never sent as a frame", desc)
			break
		}
		rest = rest[2+l:]
	}
	// (c) chunking alone loses nothing
	if !p.stall {
		if res.writePhase > time.Second || res.maxStall > 500*time.Millisecond {
			r.Count("servetcp-chunked:no-pause:skipped-slow-machine")
			return
		}
		var missing []string
		for k, n := range p.sent {
			if seen[k] != n || replied[k] != n {
				missing = append(missing, k)
			}
		}
		sort.Strings(missing)
		if len(missing) > 0 {
			desc["not_handled_or_not_answered"] = missing
			r.Fail("frames sent in pieces (no pause anywhere near the idle timeout) were not all handled and answered exactly once by ServeTCP", desc)
		}
		return
	}
	if p.slow {
		for _, w := range p.writes {
			if w.pause {
				r.Count("servetcp-chunked:pause-inside-a-frame-with-query-in-flight")
				break
			}
		}
	}
}
