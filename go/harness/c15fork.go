//go:build pC03 || pC15 || pall

package main

import (
	"context"
	"errors"
	"fmt"
	"net"
	"strconv"
	"strings"
	"sync"
	"time"

	"github.com/IrineSistiana/mosdns/v5/coremain"
	"github.com/IrineSistiana/mosdns/v5/pkg/query_context"
	"github.com/IrineSistiana/mosdns/v5/pkg/server_handler"
	"github.com/IrineSistiana/mosdns/v5/plugin/executable/cache"
	"github.com/IrineSistiana/mosdns/v5/plugin/executable/dual_selector"
	"github.com/IrineSistiana/mosdns/v5/plugin/executable/ecs_handler"
	forward_edns0opt "github.com/IrineSistiana/mosdns/v5/plugin/executable/forward_edns0opt"
	"github.com/IrineSistiana/mosdns/v5/plugin/executable/sequence"
	"github.com/IrineSistiana/mosdns/v5/plugin/executable/sequence/fallback"
	"github.com/IrineSistiana/mosdns/v5/plugin/executable/ttl"
	"github.com/miekg/dns"
)

// C15, sub-queries on copies of the query context: one client exchange through EntryHandler.Handle and a chain in which
// option-forwarding plugins (forward_edns0opt, ecs_handler) sit INSIDE a plugin that runs the rest of the chain on copies
// of the context and throws some of them away: both branches of fallback, below dual_selector (reference query for the
// other address type / the original query), below a lazy cache holding an expired entry (background refresh). Every
// upstream call answers with EDNS0 options whose payloads are its own and with a marker record naming the call, so the
// upstream answer a reply was made from, and the call every option came from, can be read off the reply.
//
// Forced interleaving: every sub-chain starts with a probe that signals when the whole sub-chain (post-processing of
// the forwarding plugins included) has returned; a gate in front of the forking plugin lets Handle pack the reply only
// after every sub-query the scenario starts has returned; in the gated fallback scenarios the primary's upstream answers
// only after the secondary's sub-chain has returned (always_standby: the primary's answer is used, the secondary's is
// discarded; threshold 20 ms without always_standby: the secondary's answer is used, the slow primary's is discarded).
// All waits are event-driven and bounded; no oracle depends on time.
//
// Oracle (the statement): exactly one OPT in the reply iff the client's query had one, DO mirrored; "none of the
// upstream's EDNS options unless a plugin forwards them explicitly": an option of an upstream answer may be in the reply
// only if that answer is the one the reply was made from (not a discarded sub-query's, not the refresh's), its code is
// forwarded by a plugin on the path of that answer (client-subnet by ecs_handler only for a client that sent one), and
// not more often than there are such plugins; every upstream call is sent exactly one OPT, DO clear, with options of this
// client only.

type forkCall15 struct {
	role   string // P S U R (primary, secondary, the upstream below dual_selector / the lazy cache)
	qtype  uint16
	out    upOut15
	query  *dns.Msg
	marker int
}

type forkState15 struct {
	mu       sync.Mutex
	calls    []*forkCall15
	pay      int
	plan     func(role string, qtype uint16) upOut15
	started  int
	finished map[string]int
	changed  chan struct{} // closed and replaced on every change
}

func (st *forkState15) bump() {
	close(st.changed)
	st.changed = make(chan struct{})
}

// waitFor blocks until cond holds (checked under the lock after every change) or the bound passes.
func (st *forkState15) waitFor(cond func() bool, bound time.Duration) bool {
	deadline := time.NewTimer(bound)
	defer deadline.Stop()
	for {
		st.mu.Lock()
		ok, ch := cond(), st.changed
		st.mu.Unlock()
		if ok {
			return true
		}
		select {
		case <-ch:
		case <-deadline.C:
			return false
		}
	}
}

func (st *forkState15) total() int {
	n := 0
	for _, v := range st.finished {
		n += v
	}
	return n
}

// probe15 brackets one sub-chain.
type probe15 struct {
	st   *forkState15
	role string
}

func (p *probe15) Exec(ctx context.Context, qCtx *query_context.Context, next sequence.ChainWalker) error {
	p.st.mu.Lock()
	p.st.started++
	p.st.bump()
	p.st.mu.Unlock()
	err := next.ExecNext(ctx, qCtx)
	p.st.mu.Lock()
	p.st.finished[p.role]++
	p.st.bump()
	p.st.mu.Unlock()
	return err
}

// gate15 sits in front of the forking plugin: the reply is packed only after `expect` sub-chains have returned.
type gate15 struct {
	st       *forkState15
	expect   int
	timedOut bool
}

func (g *gate15) Exec(ctx context.Context, qCtx *query_context.Context, next sequence.ChainWalker) error {
	err := next.ExecNext(ctx, qCtx)
	if !g.st.waitFor(func() bool { return g.st.total() >= g.expect }, 3*time.Second) {
		g.timedOut = true
	}
	return err
}

// forkUp15 is the scripted upstream of a sub-chain.
type forkUp15 struct {
	st        *forkState15
	role      string
	afterRole string // answer only after a sub-chain of this role has returned ("" = at once)
}

func (u *forkUp15) Exec(_ context.Context, qCtx *query_context.Context) error {
	if qCtx.R() != nil {
		return nil // the walk of the parent that took the lazy cache's entry
	}
	if u.afterRole != "" {
		u.st.waitFor(func() bool { return u.st.finished[u.afterRole] > 0 }, 3*time.Second)
	}
	qtype := qCtx.QQuestion().Qtype
	u.st.mu.Lock()
	out := u.st.plan(u.role, qtype)
	call := &forkCall15{role: u.role, qtype: qtype, query: qCtx.Q().Copy(), marker: len(u.st.calls) + 1}
	if out.kind == "ans" && out.hasOpt {
		out.opts = append([]eopt15(nil), out.opts...)
		for i := range out.opts {
			u.st.pay++
			out.opts[i].pay = u.st.pay
		}
	}
	call.out = out
	u.st.calls = append(u.st.calls, call)
	u.st.mu.Unlock()
	switch out.kind {
	case "err":
		return errors.New("scripted upstream error")
	case "none":
		return nil
	}
	r := new(dns.Msg)
	r.SetReply(qCtx.Q())
	r.Rcode = out.rcode
	name := qCtx.QQuestion().Name
	for i := 0; i < out.nAns; i++ {
		r.Answer = append(r.Answer, answerRR15(name, qtype, i))
	}
	r.Extra = append(r.Extra, markerRR15(call.marker))
	if out.hasOpt {
		o := &dns.OPT{Hdr: dns.RR_Header{Name: ".", Rrtype: dns.TypeOPT}}
		o.SetUDPSize(1232)
		o.SetDo()
		for _, e := range out.opts {
			o.Option = append(o.Option, mkOpt15(e))
		}
		r.Extra = append(r.Extra, o)
		if out.glue {
			r.Extra = append(r.Extra, &dns.A{Hdr: dns.RR_Header{Name: "glue.example.", Rrtype: dns.TypeA, Class: 1, Ttl: 60}, A: net.IPv4(192, 0, 2, 200)})
		}
	}
	qCtx.SetResponse(r)
	return nil
}

func answerRR15(name string, qtype uint16, i int) dns.RR {
	if qtype == dns.TypeAAAA {
		return &dns.AAAA{Hdr: dns.RR_Header{Name: name, Rrtype: dns.TypeAAAA, Class: 1, Ttl: 300}, AAAA: net.ParseIP(fmt.Sprintf("2001:db8::%d", i+1))}
	}
	return &dns.A{Hdr: dns.RR_Header{Name: name, Rrtype: dns.TypeA, Class: 1, Ttl: 300}, A: net.IPv4(192, 0, 2, byte(i+1))}
}

func markerRR15(m int) dns.RR {
	return &dns.TXT{Hdr: dns.RR_Header{Name: "marker.example.", Rrtype: dns.TypeTXT, Class: 1, Ttl: 300}, Txt: []string{strconv.Itoa(m)}}
}

const staleMarker15 = 250

// sub15 is a sub-chain of forwarding plugins in front of a scripted upstream.
type sub15 struct {
	fwd    []map[uint16]bool // the codes of each forward_edns0opt
	ecsFwd int               // ecs_handler with forward
	ecsOwn map[int]bool
	desc   []string
	model  []string
	tags   []string
}

func (s *sub15) show() string {
	if len(s.desc) == 0 {
		return "(no plugin)"
	}
	return strings.Join(s.desc, " -> ")
}

func (s *sub15) modelChain() string {
	if len(s.model) == 0 {
		return "-"
	}
	return strings.Join(s.model, ",")
}

// nFwd: how many plugins of the sub-chain forward an upstream option with this code to the client
func (s *sub15) nFwd(code uint16, clientEcs bool) int {
	n := 0
	for _, f := range s.fwd {
		if f[code] {
			n++
		}
	}
	if code == dns.EDNS0SUBNET && clientEcs {
		n += s.ecsFwd
	}
	return n
}

var allCodes15 = []uint16{dns.EDNS0COOKIE, 65001, 65002, dns.EDNS0PADDING, dns.EDNS0SUBNET}

func buildSub15(r *Run, plugins map[string]any, prefix string, n int) (*sub15, error) {
	s := &sub15{ecsOwn: map[int]bool{}}
	for i := 0; i < n; i++ {
		tag := fmt.Sprintf("%s%d", prefix, i)
		switch r.Rng.Intn(5) {
		case 0, 1, 2:
			codes := map[uint16]bool{}
			var cs []string
			for _, c := range allCodes15 {
				if r.Rng.Intn(3) != 0 {
					codes[c] = true
					cs = append(cs, fmt.Sprint(c))
				}
			}
			p, err := forward_edns0opt.QuickSetup(nil, strings.Join(cs, " "))
			if err != nil {
				return nil, err
			}
			plugins[tag] = p
			s.fwd = append(s.fwd, codes)
			s.desc = append(s.desc, "forward_edns0opt("+strings.Join(cs, ",")+")")
			if len(cs) == 0 {
				cs = []string{"-"}
			}
			s.model = append(s.model, "f:"+strings.Join(cs, "+"))
		case 3:
			a, own := ecsArgs15(r)
			p, err := ecs_handler.NewHandler(a)
			if err != nil {
				return nil, err
			}
			plugins[tag] = p
			if a.Forward {
				s.ecsFwd++
			}
			if own >= 0 {
				s.ecsOwn[own] = true
			}
			s.desc = append(s.desc, fmt.Sprintf("ecs_handler(forward=%v,preset=%v,send=%v)", a.Forward, a.Preset != "", a.Send))
			s.model = append(s.model, ecsModel15(a, own))
		default:
			plugins[tag] = ttl.NewTTL(0, uint32(r.Rng.Intn(100)), uint32(100+r.Rng.Intn(1000)))
			s.desc = append(s.desc, "ttl")
			s.model = append(s.model, "t")
		}
		s.tags = append(s.tags, tag)
	}
	return s, nil
}

func (s *sub15) rules() []sequence.RuleArgs {
	var rs []sequence.RuleArgs
	for _, t := range s.tags {
		rs = append(rs, sequence.RuleArgs{Exec: "$" + t})
	}
	return rs
}

func genUpOut15(r *Run, kinds []string) upOut15 {
	out := upOut15{kind: kinds[r.Rng.Intn(len(kinds))]}
	if out.kind == "ans" {
		out.rcode = []int{0, 0, 0, 3}[r.Rng.Intn(4)]
		out.nAns = 1 + r.Rng.Intn(2)
		if out.rcode != 0 {
			out.nAns = 0
		}
		if out.hasOpt = r.Rng.Intn(6) != 0; out.hasOpt {
			for _, c := range allCodes15 {
				if r.Rng.Intn(3) != 0 {
					out.opts = append(out.opts, eopt15{c, 0})
				}
			}
			out.glue = r.Rng.Intn(3) == 0
		}
	}
	return out
}

func forkOpts15(r *Run, it int) {
	plugins := map[string]any{}
	m := coremain.NewTestMosdnsWithPlugins(plugins)
	st := &forkState15{finished: map[string]int{}, changed: make(chan struct{}), pay: 20 + r.Rng.Intn(20)}
	mode := []string{"fallback", "fallback", "dual_selector", "lazy_cache"}[r.Rng.Intn(4)]
	bq := sequence.NewBQ(m, m.Logger())
	fail := func(err error) { r.Note("forkOpts15: " + err.Error()) }

	// ---- the client's query
	name := fmt.Sprintf("fork%d.example.", r.Rng.Intn(100000))
	qtype := []uint16{dns.TypeA, dns.TypeAAAA}[r.Rng.Intn(2)]
	id := r.U16()
	q := new(dns.Msg)
	q.SetQuestion(name, qtype)
	q.Id, q.RecursionDesired = id, r.Rng.Intn(2) == 0
	var copts []eopt15
	clientEcs := false
	cOp, hasC, cDo := "-", r.Rng.Intn(7) != 0, false
	if hasC {
		o := &dns.OPT{Hdr: dns.RR_Header{Name: ".", Rrtype: dns.TypeOPT}}
		size := []uint16{0, 512, 1200, 1232, 4096, 65535}[r.Rng.Intn(6)]
		o.SetUDPSize(size)
		if cDo = r.Rng.Intn(2) == 0; cDo {
			o.SetDo()
		}
		for _, c := range allCodes15 {
			if r.Rng.Intn(2) == 0 {
				e := eopt15{c, 1 + len(copts)}
				copts = append(copts, e)
				o.Option = append(o.Option, mkOpt15(e))
				clientEcs = clientEcs || c == dns.EDNS0SUBNET
			}
		}
		q.Extra = append(q.Extra, o)
		cOp = fmt.Sprintf("%d:%s:%s", size, b01(cDo), showOpts15(copts))
	}

	// ---- the chain
	outer, err := buildSub15(r, plugins, "outer", []int{0, 0, 1, 2}[r.Rng.Intn(4)])
	if err != nil {
		fail(err)
		return
	}
	gate := &gate15{st: st, expect: 1}
	plugins["gate"] = gate
	rules := append([]sequence.RuleArgs{{Exec: "$gate"}}, outer.rules()...)
	subs := map[string]*sub15{}
	var closers []func()
	defer func() {
		for _, f := range closers {
			f()
		}
	}()
	variant := ""
	var chainDesc string
	switch mode {
	case "fallback":
		for _, role := range []string{"P", "S"} {
			s, err := buildSub15(r, plugins, "sub"+role, 1+r.Rng.Intn(2))
			if err != nil {
				fail(err)
				return
			}
			subs[role] = s
		}
		variant = []string{"standby-secondary-finishes-first", "slow-primary-finishes-last", "primary-fails", "primary-in-time", "standby"}[r.Rng.Intn(5)]
		args := &fallback.Args{Primary: "seqP", Secondary: "seqS", Threshold: 10000}
		upP, upS := &forkUp15{st: st, role: "P"}, &forkUp15{st: st, role: "S"}
		pKinds, sKinds := []string{"ans"}, []string{"ans"}
		switch variant {
		case "standby-secondary-finishes-first":
			args.AlwaysStandby, upP.afterRole, gate.expect = true, "S", 2
		case "slow-primary-finishes-last":
			args.Threshold, upP.afterRole, gate.expect = 20, "S", 2
		case "primary-fails":
			args.AlwaysStandby, gate.expect = r.Rng.Intn(2) == 0, 2
			pKinds, sKinds = []string{"err", "none"}, []string{"ans", "ans", "ans", "none", "err"}
		case "primary-in-time":
			gate.expect = 1
		case "standby":
			args.AlwaysStandby, gate.expect = true, 2
		}
		pOut, sOut := genUpOut15(r, pKinds), genUpOut15(r, sKinds)
		st.plan = func(role string, _ uint16) upOut15 {
			if role == "P" {
				return pOut
			}
			return sOut
		}
		plugins["upP"], plugins["upS"] = upP, upS
		for _, role := range []string{"P", "S"} {
			plugins["probe"+role] = &probe15{st: st, role: role}
			rs := append([]sequence.RuleArgs{{Exec: "$probe" + role}}, subs[role].rules()...)
			rs = append(rs, sequence.RuleArgs{Exec: "$up" + role})
			sq, err := sequence.NewSequence(bq, rs)
			if err != nil {
				fail(err)
				return
			}
			plugins["seq"+role] = sq
		}
		fb, err := fallback.Init(coremain.NewBP("fb", m), args)
		if err != nil {
			fail(err)
			return
		}
		plugins["fb"] = fb
		rules = append(rules, sequence.RuleArgs{Exec: "$fb"})
		chainDesc = fmt.Sprintf("%s => fallback(always_standby=%v, threshold=%dms){primary: %s -> upstream P; secondary: %s -> upstream S}", outer.show(), args.AlwaysStandby, args.Threshold, subs["P"].show(), subs["S"].show())
	case "dual_selector", "lazy_cache":
		s, err := buildSub15(r, plugins, "subU", 1+r.Rng.Intn(2))
		if err != nil {
			fail(err)
			return
		}
		subs["U"] = s
		plugins["probeU"] = &probe15{st: st, role: "U"}
		plugins["upU"] = &forkUp15{st: st, role: "U"}
		if mode == "dual_selector" {
			prefer := []uint16{dns.TypeA, dns.TypeAAAA}[r.Rng.Intn(2)]
			var sel *dual_selector.Selector
			if prefer == dns.TypeA {
				sel = dual_selector.NewPreferIpv4(bq)
			} else {
				sel = dual_selector.NewPreferIpv6(bq)
			}
			closers = append(closers, func() { sel.Close() })
			plugins["sel"] = sel
			rules = append(rules, sequence.RuleArgs{Exec: "$sel"})
			refOut := genUpOut15(r, []string{"ans", "ans", "ans", "none", "err"})
			if refOut.kind == "ans" && refOut.rcode == 0 && r.Rng.Intn(2) == 0 {
				refOut.nAns = 0 // the name has no record of the preferred type: the original query's answer is used
			}
			orgOut := genUpOut15(r, []string{"ans", "ans", "ans", "ans", "none", "err"})
			st.plan = func(_ string, qt uint16) upOut15 {
				if qt == prefer && qtype != prefer {
					return refOut
				}
				return orgOut
			}
			variant = "query-of-the-other-type"
			gate.expect = 2
			if qtype == prefer {
				variant, gate.expect = "query-of-the-preferred-type", 1
			}
			chainDesc = fmt.Sprintf("%s => prefer(type %d) -> %s -> upstream", outer.show(), prefer, s.show())
		} else {
			c := cache.NewCache(&cache.Args{Size: 1024, LazyCacheTTL: 3600}, cache.Opts{})
			closers = append(closers, func() { c.Close() })
			stored := new(dns.Msg)
			stored.SetReply(q)
			stored.Id = 0x7777
			stored.Answer = append(stored.Answer, answerRR15(name, qtype, 0))
			stored.Extra = append(stored.Extra, markerRR15(staleMarker15))
			now := time.Now()
			c.VerifInject(cache.VerifGetMsgKey(query_context.NewContext(q.Copy()).Q()), stored, now.Add(-2*time.Minute), now.Add(-time.Minute), now.Add(time.Hour))
			plugins["cache"] = c
			rules = append(rules, sequence.RuleArgs{Exec: "$cache"})
			refresh := genUpOut15(r, []string{"ans", "ans", "ans", "ans", "none", "err"})
			st.plan = func(string, uint16) upOut15 { return refresh }
			variant = "expired-entry-refresh-finishes-first"
			gate.expect = 2
			chainDesc = fmt.Sprintf("%s => cache(lazy, expired entry) -> %s -> upstream", outer.show(), s.show())
		}
		rules = append(rules, sequence.RuleArgs{Exec: "$probeU"})
		rules = append(rules, s.rules()...)
		rules = append(rules, sequence.RuleArgs{Exec: "$upU"})
	}
	sq, err := sequence.NewSequence(bq, rules)
	if err != nil {
		fail(err)
		return
	}
	h := server_handler.NewEntryHandler(server_handler.EntryHandlerOpts{Entry: sq})
	via := []string{"udp", "tcp", "doh-post"}[r.Rng.Intn(3)]
	payload, got := deliver03(h, via, q)

	st.mu.Lock()
	calls := append([]*forkCall15(nil), st.calls...)
	st.mu.Unlock()
	var callDesc []string
	for _, c := range calls {
		callDesc = append(callDesc, fmt.Sprintf("call %d: upstream %s, qtype %d, outcome %s", c.marker, c.role, c.qtype, c.out.op()))
	}
	fd := map[string]any{"chain": chainDesc, "scenario": mode + "/" + variant, "question": fmt.Sprintf("%s type %d", name, qtype), "client_opt": cOp, "arrived_via": via,
		"upstream_calls": callDesc, "format": "client OPT = size:DO:code.payload+...; outcome = a:rcode:answers:o=code.payload+...:followed-by-glue; every answer carries a TXT marker record with its call number"}
	r.Eval(fmt.Sprintf("fork|%s|%s|%s|%s", chainDesc, cOp, strings.Join(callDesc, ";"), via), true)
	r.Count("fork:" + mode + "/" + variant)
	if gate.timedOut {
		r.Count("fork:gate-timeout")
	}

	// ---- reply side
	impl := "drop"
	var adopted *forkCall15
	markerSeen := 0
	if !got {
		r.Fail("a well-formed query received no reply", fd)
	} else if rm := new(dns.Msg); rm.Unpack(payload) != nil {
		r.Fail("the reply is not a parsable DNS message", fd)
		impl = "unparsable"
	} else {
		side, nopt, do, es := optSide15(rm.Extra)
		fd["reply_opt"] = side
		impl = fmt.Sprintf("id=%d rc=%d opt=%s", rm.Id, rm.Rcode, side)
		for _, rr := range rm.Extra {
			if t, ok := rr.(*dns.TXT); ok && t.Hdr.Name == "marker.example." && len(t.Txt) == 1 {
				markerSeen, _ = strconv.Atoi(t.Txt[0])
			}
		}
		fd["reply_made_from"] = "no upstream answer"
		if markerSeen == staleMarker15 {
			fd["reply_made_from"] = "the expired cache entry"
		} else if markerSeen >= 1 && markerSeen <= len(calls) {
			adopted = calls[markerSeen-1]
			fd["reply_made_from"] = fmt.Sprintf("the answer of call %d", markerSeen)
		}
		want := 0
		if hasC {
			want = 1
		}
		if nopt != want {
			r.Fail("the reply must carry exactly one OPT iff the client's query had one", fd)
		} else if hasC && do != cDo {
			r.Fail("the reply's OPT does not mirror the client's DO bit", fd)
		}
		seen := map[eopt15]int{}
		for _, e := range es {
			seen[e]++
			if seen[e] > 1 {
				continue
			}
			var src *forkCall15
			for _, c := range calls {
				if c.out.kind == "ans" && c.out.hasOpt {
					for _, u := range c.out.opts {
						if u == e {
							src = c
						}
					}
				}
			}
			if src == nil {
				r.Count("fork:reply-option-of-no-upstream-call")
				continue
			}
			fd["option"] = fmt.Sprintf("%d.%d (from the answer of call %d)", e.code, e.pay, src.marker)
			if src != adopted {
				r.Fail("the reply carries an EDNS0 option of an upstream answer it was not made from: the option of a discarded sub-query (a copy of the query context) reached the client", fd)
			}
		}
		if adopted != nil {
			for e, n := range seen {
				// (fallback as it is adopts the branch's response only, not its response OPT, so no option gets through;
				// the statement would allow the ones forwarded inside the adopted branch, so they are not failures here)
				allowed := outer.nFwd(e.code, clientEcs) + subs[adopted.role].nFwd(e.code, clientEcs)
				isUp := false
				for _, u := range adopted.out.opts {
					isUp = isUp || u == e
				}
				if !isUp || !adopted.out.hasOpt {
					continue
				}
				fd["option"] = fmt.Sprintf("%d.%d x%d (from the answer of call %d)", e.code, e.pay, n, adopted.marker)
				if allowed == 0 {
					r.Fail("the reply carries an upstream EDNS0 option that no plugin on its path forwards explicitly", fd)
				} else if n > allowed {
					r.Fail("the reply carries an upstream EDNS0 option more often than there are plugins forwarding it", fd)
				}
			}
		}
		delete(fd, "option")
	}

	// ---- upstream side: every call was sent exactly one OPT, DO clear, options of this client forwarded explicitly
	for _, c := range calls {
		side, nopt, do, es := optSide15(c.query.Extra)
		fd["upstream_query_opt"] = fmt.Sprintf("call %d: %s", c.marker, side)
		if nopt != 1 {
			r.Fail("the query sent upstream does not carry exactly one OPT record", fd)
		} else if do {
			r.Fail("the query sent upstream carries the client's DO bit", fd)
		}
		sub := subs[c.role]
		for _, e := range es {
			mine := false
			for _, co := range copts {
				mine = mine || co == e
			}
			ok := (mine && outer.nFwd(e.code, true)+sub.nFwd(e.code, true) > 0) || (e.code == dns.EDNS0SUBNET && (outer.ecsOwn[e.pay] || sub.ecsOwn[e.pay]))
			if !ok {
				fd["option"] = fmt.Sprintf("%d.%d", e.code, e.pay)
				r.Fail("the query sent upstream carries an EDNS0 option that is not this client's, forwarded explicitly", fd)
				delete(fd, "option")
			}
		}
	}
	delete(fd, "upstream_query_opt")

	// ---- the same exchange on the model (Model.C15.fork), when nothing stands in front of the forking plugin
	if len(outer.tags) != 0 || !got || impl == "unparsable" || gate.timedOut {
		return
	}
	br := func(c *forkCall15) string { return subs[c.role].modelChain() + "@" + c.out.op() }
	winner, discarded := "-", []string{}
	mm := ""
	switch mode {
	case "fallback":
		mm = "fb"
		for _, c := range calls {
			if c == adopted {
				winner = br(c)
			} else {
				discarded = append(discarded, br(c))
			}
		}
		if adopted == nil && markerSeen != 0 {
			return
		}
	case "dual_selector":
		mm = "sel"
		var org, ref *forkCall15
		for _, c := range calls {
			if c.qtype == qtype && org == nil {
				org = c
			} else {
				ref = c
			}
		}
		blocked := ref != nil && ref.out.kind == "ans" && ref.out.nAns > 0
		if blocked {
			if markerSeen != 0 {
				r.Count("fork:reference-answer-late")
				return
			}
			if org != nil {
				discarded = append(discarded, br(org))
			}
			discarded = append(discarded, br(ref))
		} else {
			if org == nil {
				return
			}
			winner = br(org)
			if ref != nil {
				discarded = append(discarded, br(ref))
			}
		}
	case "lazy_cache":
		mm = "lazy"
		if markerSeen != staleMarker15 {
			return
		}
		winner = subs["U"].modelChain() + "@none"
		for _, c := range calls {
			discarded = append(discarded, br(c))
		}
	}
	ds := "-"
	if len(discarded) > 0 {
		ds = strings.Join(discarded, ";")
	}
	r.Line(fmt.Sprintf("fork %s %d/0/%s %s %s", mm, id, cOp, winner, ds), impl)
	r.Count("fork:model-replayed")
}
