//go:build pC03 || pC15 || pall

package main

import (
	"context"
	"fmt"
	"net"
	"sync"
	"time"

	"github.com/IrineSistiana/mosdns/v5/pkg/query_context"
	"github.com/IrineSistiana/mosdns/v5/pkg/server"
	"github.com/IrineSistiana/mosdns/v5/pkg/server_handler"
	"github.com/IrineSistiana/mosdns/v5/plugin/executable/sequence"
)

// C03, arrival over UDP through the real server: server.ServeUDP on a loopback socket in front of the real
// EntryHandler whose entry is the scripted last plugin of section (1), one outcome per query. Several client sockets
// send their datagrams back to back (so that they queue up on the server socket) and then collect what comes back.
//
// Oracle (from the property statement): on every client socket, every well-formed query is answered by exactly one
// datagram that carries that query's ID and question with QR and RA set and the rcode of the scripted outcome, within
// max(512, advertised size) bytes; malformed queries and datagrams that are no DNS message at all are answered by
// nothing; nothing else arrives on the socket. Each query is also a `reply 1 ...` line for the model driver.

const udpReplyWait03 = 4 * time.Second // a loopback reply takes microseconds; this only bounds a lost reply

type sent03 struct {
	q     q03
	out   outcome03
	reply []byte
	got   bool
}

type client03 struct {
	c     *net.UDPConn
	wait  map[uint16]*sent03 // well-formed queries of the current round that are still unanswered
	quiet map[uint16]*sent03 // malformed queries sent so far (must stay unanswered)
}

func key03(id uint16, name string, qtype, qclass uint16) string {
	return fmt.Sprintf("%d|%s|%d|%d", id, name, qtype, qclass)
}

// serveUDP03 runs one server with its clients for a number of bursts. It returns false when an oracle failed (the
// caller then stops starting further servers: every later failure would be the same one).
func serveUDP03(r *Run, i int) bool {
	// a listener on the unspecified address takes the control-message path of ServeUDP (the destination address of each
	// datagram is read from / written to out-of-band data), a listener on 127.0.0.1 the plain one
	anyAddr := r.Rng.Intn(3) == 0
	laddr := &net.UDPAddr{IP: net.IPv4(127, 0, 0, 1)}
	if anyAddr {
		laddr = &net.UDPAddr{IP: net.IPv4zero}
	}
	sc, err := net.ListenUDP("udp4", laddr)
	if err != nil {
		r.Note("serveudp: cannot listen on loopback: " + err.Error())
		r.Count("serveudp-skipped")
		return true
	}
	defer sc.Close()
	port := sc.LocalAddr().(*net.UDPAddr).Port

	var omu sync.RWMutex
	outcomes := map[string]outcome03{}
	entry := sequence.ExecutableFunc(func(ctx context.Context, qCtx *query_context.Context) error {
		qq := qCtx.Q()
		omu.RLock()
		out, ok := outcomes[key03(qq.Id, qq.Question[0].Name, qq.Question[0].Qtype, qq.Question[0].Qclass)]
		omu.RUnlock()
		if !ok {
			return nil // a query nobody sent: no answer (REFUSED)
		}
		return (&upstream03{out: out}).Exec(ctx, qCtx)
	})
	h := server_handler.NewEntryHandler(server_handler.EntryHandlerOpts{Entry: entry})
	go server.ServeUDP(sc, h, server.UDPServerOpts{})

	nc := 2 + r.Rng.Intn(7)
	clients := make([]*client03, 0, nc)
	for k := 0; k < nc; k++ {
		c, err := net.DialUDP("udp4", nil, &net.UDPAddr{IP: net.IPv4(127, 0, 0, 1), Port: port})
		if err != nil {
			r.Note("serveudp: cannot open a client socket: " + err.Error())
			r.Count("serveudp-skipped")
			return true
		}
		defer c.Close()
		clients = append(clients, &client03{c: c, wait: map[uint16]*sent03{}, quiet: map[uint16]*sent03{}})
	}
	listen := map[bool]string{true: "0.0.0.0 (control-message path)", false: "127.0.0.1"}[anyAddr]
	usedID := map[uint16]bool{}
	buf := make([]byte, 65536)
	meter := startStallMeter()
	stalled := func() bool { return meter.Stop() > 500*time.Millisecond }
	ok := true
	var written []string // "client <k>: <query op> -> <plugin outcome>" for the burst under way
	fail := func(what string, desc map[string]any, round int, k int) {
		desc["server"] = "server.ServeUDP on " + listen + " + EntryHandler + scripted last plugin"
		desc["clients"], desc["burst"], desc["client"] = nc, round, k
		desc["datagrams_of_this_burst_in_write_order"] = append([]string(nil), written...)
		r.Fail("UDP server under a burst of queries from several sockets: "+what, desc)
		ok = false
	}
	type dgram struct {
		k    int
		wire []byte
		s    *sent03
	}
	rounds := 4 + r.Rng.Intn(9)
	for round := 0; round < rounds && ok; round++ {
		// ---- what every client sends in this burst
		var burst []dgram
		var order []*sent03 // for the model lines, in generation order
		for k := range clients {
			for j, nq := 0, []int{1, 1, 1, 2, 3}[r.Rng.Intn(5)]; j < nq; j++ {
				if r.Rng.Intn(16) == 0 {
					// not a DNS message: a short datagram or a header announcing a question that is not there
					g := make([]byte, []int{1, 5, 11, 12, 13, 20}[r.Rng.Intn(6)])
					r.Rng.Read(g)
					if len(g) >= 12 {
						g[2] &= 0x7f
						g[4], g[5] = 0, 1
						for x := 12; x < len(g); x++ {
							g[x] = 63 // a label longer than what follows
						}
					}
					burst = append(burst, dgram{k: k, wire: g})
					r.Count("serveudp:not-a-message")
					continue
				}
				q := r.genQ03()
				for usedID[q.id] {
					q.id = uint16(r.Rng.Intn(65536))
				}
				usedID[q.id] = true
				wire, err := q.msg().Pack()
				if err != nil {
					continue
				}
				s := &sent03{q: q, out: r.genOutcome03(q)}
				omu.Lock()
				outcomes[key03(q.id, q.name, q.qtype, q.qclass)] = s.out
				omu.Unlock()
				if q.valid() {
					clients[k].wait[q.id] = s
				} else {
					clients[k].quiet[q.id] = s
				}
				burst = append(burst, dgram{k: k, wire: wire, s: s})
				order = append(order, s)
			}
		}
		r.Rng.Shuffle(len(burst), func(a, b int) { burst[a], burst[b] = burst[b], burst[a] })
		// ---- the burst: everything is written before anything is read
		written = written[:0]
		for _, d := range burst {
			if d.s != nil {
				written = append(written, fmt.Sprintf("client %d: %s -> %s", d.k, d.s.q.op(), d.s.out.op()))
			} else {
				written = append(written, fmt.Sprintf("client %d: not a DNS message: %s", d.k, hx(d.wire)))
			}
		}
		for _, d := range burst {
			if _, err := clients[d.k].c.Write(d.wire); err != nil {
				r.Note("serveudp: client write failed: " + err.Error())
				meter.Stop()
				return ok
			}
		}
		// ---- collect
		for k, cl := range clients {
			for len(cl.wait) > 0 && ok {
				cl.c.SetReadDeadline(time.Now().Add(udpReplyWait03))
				n, err := cl.c.Read(buf)
				if err != nil {
					if stalled() {
						r.Count("serveudp-stalled-skip")
						return true
					}
					meter = startStallMeter()
					for _, s := range cl.wait {
						desc := map[string]any{"query": s.q.op(), "arrived_via": "udp", "plugin_outcome": s.out.op(), "waited": udpReplyWait03.String()}
						fail("a well-formed query received no reply", desc, round, k)
						break
					}
					break
				}
				payload := append([]byte(nil), buf[:n]...)
				p, perr := parse03(payload)
				if perr != nil {
					fail("a client received a datagram that is not a parsable DNS message", map[string]any{"datagram": hx(payload), "parse_error": perr.Error()}, round, k)
					break
				}
				if s, is := cl.wait[p.id]; is {
					delete(cl.wait, p.id)
					s.reply, s.got = payload, true
					continue
				}
				var mine []string
				for _, s := range cl.wait {
					mine = append(mine, s.q.op())
				}
				desc := map[string]any{"received": showAny03(p), "unanswered_queries_of_this_client": mine}
				if s, is := cl.quiet[p.id]; is {
					desc["query"] = s.q.op()
					fail("a malformed query received a DNS reply", desc, round, k)
				} else {
					fail("a client received a reply that carries the ID of none of its unanswered queries (not exactly one reply with the query's own ID per query)", desc, round, k)
				}
			}
			for id := range cl.wait {
				delete(cl.wait, id)
			}
		}
		// ---- the property's predicate on every reply + the model line
		for _, s := range order {
			entryOp := s.out.entryOp()
			implOut := "drop"
			if s.got {
				if p, err := parse03(s.reply); err == nil {
					implOut = p.show(s.q.name)
				} else {
					implOut = "unparsable"
				}
			}
			if ok || s.got {
				// after a failure the burst was not collected to its end: only what did arrive is compared
				if s.q.valid() && s.got {
					desc := map[string]any{"query": s.q.op(), "arrived_via": "udp through server.ServeUDP on " + listen, "plugin_outcome": s.out.op(), "clients": nc, "burst": round}
					expect, nAns := s.out.expect()
					before := r.meta.Dist["ORACLE-FAIL"]
					oracle03(r, s.q, "udp", s.reply, true, desc, expect, nAns)
					if r.meta.Dist["ORACLE-FAIL"] != before {
						ok = false
					}
				}
				r.Line(fmt.Sprintf("reply 1 %s %s", s.q.op(), entryOp), implOut)
			}
			r.Eval("serveudp|"+s.q.op()+"|"+entryOp, s.q.valid())
			r.Count("via:udp-server")
			if !s.q.valid() {
				r.Count("malformed-query")
			}
		}
		r.Count("serveudp-burst")
	}
	// ---- nothing else may arrive: replies to malformed queries / to datagrams that are no message, second replies
	if ok {
		time.Sleep(10 * time.Millisecond)
		for k, cl := range clients {
			cl.c.SetReadDeadline(time.Now().Add(2 * time.Millisecond))
			n, err := cl.c.Read(buf)
			if err != nil {
				continue
			}
			desc := map[string]any{"datagram": hx(buf[:n])}
			what := "a client received a datagram although all its well-formed queries had been answered once (a second reply, or a reply to something that is no DNS message)"
			if p, perr := parse03(buf[:n]); perr == nil {
				desc["received"] = showAny03(p)
				if s, is := cl.quiet[p.id]; is {
					desc["query"] = s.q.op()
					what = "a malformed query received a DNS reply"
				}
			}
			fail(what, desc, rounds, k)
		}
	}
	meter.Stop()
	r.Trace()
	r.Count("serveudp-server:" + map[bool]string{true: "any-addr", false: "loopback-addr"}[anyAddr])
	_ = i
	return ok
}

// showAny03 prints a reply that is not (known to be) the answer to a particular query.
func showAny03(p reply03) string {
	name := ""
	if p.parsed != nil && len(p.parsed.Question) == 1 {
		name = p.parsed.Question[0].Name
	}
	return fmt.Sprintf("%s (question name %q)", p.show(name), name)
}
