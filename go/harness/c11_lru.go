//go:build pC11 || pall

package main

import (
	"fmt"
	"os"
	"strings"
	"sync"
	"sync/atomic"

	"github.com/IrineSistiana/mosdns/v5/pkg/concurrent_lru"
	"github.com/IrineSistiana/mosdns/v5/pkg/lru"
)

// C11 part 6: pkg/lru.LRU and pkg/concurrent_lru (anchors of the property).
//
// 6a: sequential histories of Add / Get / Del / PopOldest / Clean / Flush / Len on lru.LRU, ConcurrentLRU and
//     ShardedLRU with an onEvict hook that records its arguments; small key sets and maxima, and a bias towards
//     operating on the key of the previous operation (update of the newest key, refresh after a hit, ...). Every
//     history is replayed on the model (`lru <shards> <max> <ops>`: recency order, eviction order, onEvict
//     arguments, Len). Oracles: a hit returns the value most recently added under exactly that key (not one that
//     was overwritten or flushed before the lookup); Len() <= shards * max.
// 6b: concurrent histories on ConcurrentLRU / ShardedLRU with logical timestamps, checked per hit like part 2.

type lru11 interface {
	Add(hkey, int)
	Get(hkey) (int, bool)
	Del(hkey)
	Clean(func(hkey, int) bool) int
	Flush()
	Len() int
}

type lru11v interface {
	Add(hkey, val11)
	Get(hkey) (val11, bool)
	Del(hkey)
	Clean(func(hkey, val11) bool) int
	Flush()
	Len() int
}

func c11LruParts(r *Run) {
	raceOnly := os.Getenv("VERIF_RACE") == "1"
	// ------------------------------------------------------------------ 6a
	histories := r.N(40, 400)
	if raceOnly {
		histories = 0
	}
	for hi := 0; hi < histories; hi++ {
		shards := []int{1, 1, 2, 3, 8}[hi%5]
		max := 1 + r.Rng.Intn(5)
		var evicted []string
		onEvict := func(k hkey, v int) { evicted = append(evicted, fmt.Sprintf("%d=%d", uint64(k), v)) }
		var q lru11
		var plain *lru.LRU[hkey, int]
		kind := "lru.LRU"
		switch {
		case hi%5 == 0:
			plain = lru.NewLRU[hkey, int](max, onEvict)
			q = plain
		case hi%5 == 1:
			q = concurrent_lru.NewConecurrentLRU[hkey, int](max, onEvict)
			kind = "ConcurrentLRU"
		default:
			q = concurrent_lru.NewShardedLRU[hkey, int](shards, max, onEvict)
			kind = "ShardedLRU"
		}
		nkeys := shards*max + 1 + r.Rng.Intn(3)
		keyOf := func(i int) hkey { return hkey(uint64(i%shards)*1000 + uint64(i/shards)) }
		last := map[hkey]int{}    // the value most recently added under a key and not flushed since
		flushed := map[hkey]int{} // the value a key held when it was last flushed (and not added since)
		var ops, outs []string
		steps := 40 + r.Rng.Intn(110)
		k := keyOf(0)
		seq := 0
		for st := 0; st < steps; st++ {
			if r.Rng.Intn(3) > 0 { // else: the key of the previous operation again
				k = keyOf(r.Rng.Intn(nkeys))
			}
			evicted = evicted[:0]
			var op, out string
			switch x := r.Rng.Intn(100); {
			case x < 42:
				seq++
				q.Add(k, seq)
				last[k] = seq
				delete(flushed, k)
				op, out = fmt.Sprintf("a:%d:%d", uint64(k), seq), "ev:"+strings.Join(evicted, ".")
			case x < 74:
				v, ok := q.Get(k)
				op, out = fmt.Sprintf("g:%d", uint64(k)), "miss"
				if ok {
					out = fmt.Sprintf("hit:%d", v)
					desc := map[string]any{"type": kind, "shards": shards, "max_per_shard": max, "key": uint64(k), "lookup_returned": v, "history": strings.Join(append(ops, op), ",")}
					if want, stored := last[k]; stored && v != want {
						desc["most_recently_added_under_the_key"] = want
						r.Fail("an LRU lookup returned a value that had been overwritten before the lookup began (not the value most recently added under that key)", desc)
					} else if fv, was := flushed[k]; !stored && was && fv == v {
						r.Fail("an LRU lookup returned a value that had been flushed before the lookup began", desc)
					}
				}
			case x < 82:
				q.Del(k)
				op, out = fmt.Sprintf("d:%d", uint64(k)), "ev:"+strings.Join(evicted, ".")
			case x < 86 && plain != nil:
				pk, pv, ok := plain.PopOldest()
				op, out = "p", "ev:"
				if ok {
					out = fmt.Sprintf("ev:%d=%d", uint64(pk), pv)
				}
			case x < 91:
				m := 2 + r.Rng.Intn(3)
				rem := r.Rng.Intn(m)
				n := q.Clean(func(k hkey, v int) bool { return (int(uint64(k))+v)%m == rem })
				op, out = fmt.Sprintf("c:%d:%d", m, rem), "ev:"+strings.Join(evicted, ".")
				if n != len(evicted) {
					out += fmt.Sprintf("#removed=%d", n)
				}
			case x < 94:
				q.Flush()
				for kk, v := range last {
					flushed[kk] = v
				}
				last = map[hkey]int{}
				op, out = "f", "-"
			default:
				op, out = "l", fmt.Sprintf("len:%d", q.Len())
			}
			ops = append(ops, op)
			outs = append(outs, out)
			if n := q.Len(); n > shards*max {
				r.Fail("an LRU holds more entries than its capacity", map[string]any{"type": kind, "shards": shards, "max_per_shard": max, "len": n, "history": strings.Join(ops, ",")})
				break
			}
		}
		r.Line(fmt.Sprintf("lru %d %d %s", shards, max, strings.Join(ops, ",")), strings.Join(outs, ";"))
		r.Eval(fmt.Sprintf("lru-seq/%d", hi), true)
		r.Count("lru-sequential-histories-" + kind)
		r.Trace()
	}

	// ------------------------------------------------------------------ 6b
	rounds := r.N(6, 40)
	for rd := 0; rd < rounds; rd++ {
		shards := []int{1, 4, 16, 64, 3}[r.Rng.Intn(5)]
		max := []int{1, 2, 4, 16}[r.Rng.Intn(4)]
		nkeys := []int{6, 16, 40}[r.Rng.Intn(3)]
		var nEvicted int64
		onEvict := func(k hkey, v val11) { atomic.AddInt64(&nEvicted, 1) }
		var q lru11v
		if shards == 1 {
			q = concurrent_lru.NewConecurrentLRU[hkey, val11](max, onEvict)
		} else {
			q = concurrent_lru.NewShardedLRU[hkey, val11](shards, max, onEvict)
		}
		var clock int64
		tick := func() int64 { return atomic.AddInt64(&clock, 1) }
		type storeRec struct {
			key        hkey
			seq        int
			start, end int64
		}
		type flushRec struct{ start, end int64 }
		type getRec struct {
			key        hkey
			got        val11
			start, end int64
		}
		var mu sync.Mutex
		var stores []storeRec
		var flushes []flushRec
		var gets []getRec
		var lens []int
		var seq int64
		var wg sync.WaitGroup
		for w := 0; w < 8; w++ {
			wg.Add(1)
			go func(seed uint64) {
				defer wg.Done()
				x := seed
				rnd := func(n int) int { x = x*6364136223846793005 + 1442695040888963407; return int((x >> 33) % uint64(n)) }
				var ls []storeRec
				var lf []flushRec
				var lg []getRec
				var ll []int
				k := hkey(0)
				for i := 0; i < 1500; i++ {
					if rnd(4) > 0 { // else: the key of this goroutine's previous operation again
						j := rnd(nkeys)
						k = hkey(uint64(j%64)*1000 + uint64(j/64))
					}
					switch y := rnd(100); {
					case y < 36:
						s := int(atomic.AddInt64(&seq, 1))
						st := tick()
						q.Add(k, val11{k, s})
						ls = append(ls, storeRec{k, s, st, tick()})
					case y < 84:
						st := tick()
						v, ok := q.Get(k)
						en := tick()
						if ok {
							lg = append(lg, getRec{k, v, st, en})
						}
					case y < 89:
						q.Del(k)
					case y < 92:
						m := 2 + rnd(5)
						rem := rnd(m)
						q.Clean(func(k hkey, v val11) bool { return v.seq%m == rem })
					case y < 94:
						st := tick()
						q.Flush()
						lf = append(lf, flushRec{st, tick()})
					default:
						ll = append(ll, q.Len())
					}
				}
				mu.Lock()
				stores = append(stores, ls...)
				flushes = append(flushes, lf...)
				gets = append(gets, lg...)
				lens = append(lens, ll...)
				mu.Unlock()
			}(uint64(r.Rng.Int63()))
		}
		wg.Wait()
		bySeq := map[int]storeRec{}
		byKey := map[hkey][]storeRec{}
		for _, s := range stores {
			bySeq[s.seq] = s
			byKey[s.key] = append(byKey[s.key], s)
		}
		reported := 0
		for _, g := range gets {
			if reported >= 2 {
				break
			}
			desc := map[string]any{"key": uint64(g.key), "returned_value_of_add": g.got.seq, "shards": shards, "max_per_shard": max, "keys": nkeys}
			s, known := bySeq[g.got.seq]
			switch {
			case !known || s.key != g.key || g.got.key != g.key:
				r.Fail("an LRU lookup returned a value that was not stored under that key", desc)
				reported++
				continue
			case s.start > g.end:
				r.Fail("an LRU lookup returned a value whose store began after the lookup had returned", desc)
				reported++
				continue
			}
			bad := false
			for _, s2 := range byKey[g.key] {
				if s2.seq != s.seq && s2.start > s.end && s2.end < g.start {
					// a later Add of the same key began after this one had returned and returned before the lookup began
					desc["overwritten_by_add"] = s2.seq
					r.Fail("an LRU lookup returned a value that had been overwritten before the lookup began", desc)
					reported++
					bad = true
					break
				}
			}
			for _, f := range flushes {
				if !bad && f.start > s.end && f.end < g.start {
					r.Fail("an LRU lookup returned a value that had been flushed before the lookup began", desc)
					reported++
					break
				}
			}
		}
		for _, n := range lens {
			if n > shards*max {
				r.Fail("an LRU held more entries than its capacity", map[string]any{"len": n, "shards": shards, "max_per_shard": max})
				break
			}
		}
		r.Eval(fmt.Sprintf("lru-conc/%d", rd), len(gets) > 0)
		r.Count("lru-concurrent-rounds")
		r.meta.Dist["lru-concurrent-hits-checked"] += len(gets)
		r.Trace()
	}
}
