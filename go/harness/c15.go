//go:build pC03 || pC15 || pall

package main

import (
	"bytes"
	"context"
	"encoding/hex"
	"errors"
	"fmt"
	"net"
	"strings"
	"sync"
	"time"

	"github.com/IrineSistiana/mosdns/v5/coremain"
	"github.com/IrineSistiana/mosdns/v5/pkg/query_context"
	"github.com/IrineSistiana/mosdns/v5/pkg/server_handler"
	"github.com/IrineSistiana/mosdns/v5/plugin/executable/cache"
	"github.com/IrineSistiana/mosdns/v5/plugin/executable/ecs_handler"
	forward_edns0opt "github.com/IrineSistiana/mosdns/v5/plugin/executable/forward_edns0opt"
	"github.com/IrineSistiana/mosdns/v5/plugin/executable/sequence"
	"github.com/IrineSistiana/mosdns/v5/plugin/executable/ttl"
	"github.com/miekg/dns"
)

// C15, cache life: successive client exchanges for ONE question through EntryHandler.Handle and a chain of
// forward_edns0opt / ecs_handler / ttl plugins around one or two cache plugins in front of a scripted upstream. Every
// EDNS0 option in the scenario carries a payload of its own, so an option can be traced to the exchange it came from.
// After every exchange the cache entries are read back (and, at the end, a dump of each cache).
//
// Oracle (the statement): cached answers never contain an OPT; the reply has exactly one OPT iff the client's query
// had one, DO mirrored; an option in the reply must have been forwarded explicitly (code listed by a forward_edns0opt of
// the chain; the client-subnet option also by an ecs_handler with forward set, which forwards the CLIENT's option: only
// if this client's query carried one - the upstream's echo of the handler's own preset / send address is not for a client
// that sent none) from the OPT of the upstream's answer of THIS exchange; an option in the upstream query must be this
// client's and forwarded explicitly (or ecs_handler's preset / the client address with send).

type eopt15 struct {
	code uint16
	pay  int
}

// hdr15: what a client's OPT pseudo-record carries in its TTL field besides DO: the extended-rcode byte, VERSION and the
// Z bits. The statement speaks of "the client's query had one [OPT]": whatever these fields are, the record is one.
type hdr15 struct {
	ver, ext uint8
	z        uint16 // 15 bits
}

func genHdr15(r *Run) hdr15 {
	var h hdr15
	if r.Rng.Intn(2) == 0 {
		return h // the ordinary client: version 0, nothing else set
	}
	if r.Rng.Intn(3) != 0 {
		h.ver = []uint8{1, 1, 2, 255, uint8(r.Rng.Intn(256))}[r.Rng.Intn(5)]
	}
	if r.Rng.Intn(3) == 0 {
		h.ext = []uint8{1, 0xff, uint8(r.Rng.Intn(256))}[r.Rng.Intn(3)]
	}
	if r.Rng.Intn(3) == 0 {
		h.z = []uint16{1, 0x4000, 0x7fff, uint16(r.Rng.Intn(0x8000))}[r.Rng.Intn(4)]
	}
	return h
}

func (h hdr15) zero() bool { return h == hdr15{} }

// apply writes the fields into the OPT's TTL (RFC 6891 6.1.3: ext-rcode | version | DO | Z), leaving DO as it is
func (h hdr15) apply(o *dns.OPT) {
	o.Hdr.Ttl = o.Hdr.Ttl&0x8000 | uint32(h.ext)<<24 | uint32(h.ver)<<16 | uint32(h.z&0x7fff)
}

// op: "" for the ordinary header, else ":<version>:<ext-rcode byte>:<z>" (appended to the client OPT of an op line)
func (h hdr15) op() string {
	if h.zero() {
		return ""
	}
	return fmt.Sprintf(":%d:%d:%d", h.ver, h.ext, h.z)
}

func (h hdr15) String() string {
	return fmt.Sprintf("version=%d ext-rcode-byte=%#x z=%#x", h.ver, h.ext, h.z)
}

func mkOpt15(e eopt15) dns.EDNS0 {
	switch e.code {
	case dns.EDNS0SUBNET:
		return &dns.EDNS0_SUBNET{Code: dns.EDNS0SUBNET, Family: 1, SourceNetmask: 24, Address: net.IPv4(198, 51, byte(e.pay), 0).To4()}
	case dns.EDNS0COOKIE:
		return &dns.EDNS0_COOKIE{Code: dns.EDNS0COOKIE, Cookie: fmt.Sprintf("%016x", e.pay)}
	case dns.EDNS0PADDING:
		return &dns.EDNS0_PADDING{Padding: make([]byte, e.pay)}
	}
	return &dns.EDNS0_LOCAL{Code: e.code, Data: []byte{byte(e.pay)}}
}

func decOpt15(o dns.EDNS0) eopt15 {
	e := eopt15{code: o.Option(), pay: -1}
	switch v := o.(type) {
	case *dns.EDNS0_SUBNET:
		if ip := v.Address.To4(); ip != nil {
			e.pay = int(ip[2])
		}
	case *dns.EDNS0_COOKIE:
		if b, err := hex.DecodeString(v.Cookie); err == nil && len(b) == 8 {
			e.pay = int(b[7]) | int(b[6])<<8
		}
	case *dns.EDNS0_PADDING:
		e.pay = len(v.Padding)
	case *dns.EDNS0_LOCAL:
		if len(v.Data) == 1 {
			e.pay = int(v.Data[0])
		}
	}
	return e
}

func showOpts15(es []eopt15) string {
	if len(es) == 0 {
		return "-"
	}
	var p []string
	for _, e := range es {
		p = append(p, fmt.Sprintf("%d.%d", e.code, e.pay))
	}
	return strings.Join(p, "+")
}

// optSide15: "<count>:<do>:<options>" of the OPT records in an additional section
func optSide15(extra []dns.RR) (string, int, bool, []eopt15) {
	n, do := 0, false
	var es []eopt15
	for _, rr := range extra {
		if o, ok := rr.(*dns.OPT); ok {
			n++
			do = o.Do()
			for _, x := range o.Option {
				es = append(es, decOpt15(x))
			}
		}
	}
	if n != 1 {
		return fmt.Sprintf("%d:-:-", n), n, false, es
	}
	return fmt.Sprintf("1:%s:%s", b01(do), showOpts15(es)), n, do, es
}

type upOut15 struct {
	kind   string // ans none err
	rcode  int
	nAns   int
	hasOpt bool
	opts   []eopt15
	glue   bool
}

func (o upOut15) op() string {
	if o.kind != "ans" {
		return o.kind
	}
	uo := "-"
	if o.hasOpt {
		uo = "o=" + showOpts15(o.opts)
	}
	return fmt.Sprintf("a:%d:%d:%s:%s", o.rcode, o.nAns, uo, b01(o.glue && o.hasOpt))
}

type upstream15 struct {
	mu       sync.Mutex
	out      upOut15
	seen     []*dns.Msg
	answered bool
}

func (u *upstream15) Exec(_ context.Context, qCtx *query_context.Context) error {
	u.mu.Lock()
	defer u.mu.Unlock()
	u.seen = append(u.seen, qCtx.Q().Copy())
	if qCtx.R() != nil {
		return nil // answered from a cache
	}
	switch u.out.kind {
	case "err":
		return errors.New("scripted upstream error")
	case "none":
		return nil
	}
	r := new(dns.Msg)
	r.SetReply(qCtx.Q())
	r.Rcode = u.out.rcode
	name := qCtx.Q().Question[0].Name
	for i := 0; i < u.out.nAns; i++ {
		r.Answer = append(r.Answer, &dns.A{Hdr: dns.RR_Header{Name: name, Rrtype: dns.TypeA, Class: 1, Ttl: 300}, A: net.IPv4(192, 0, 2, byte(i))})
	}
	if u.out.hasOpt {
		o := &dns.OPT{Hdr: dns.RR_Header{Name: ".", Rrtype: dns.TypeOPT}}
		o.SetUDPSize(1232)
		o.SetDo()
		for _, e := range u.out.opts {
			o.Option = append(o.Option, mkOpt15(e))
		}
		r.Extra = append(r.Extra, o)
		if u.out.glue {
			r.Extra = append(r.Extra, &dns.A{Hdr: dns.RR_Header{Name: "glue.example.", Rrtype: dns.TypeA, Class: 1, Ttl: 60}, A: net.IPv4(192, 0, 2, 200)})
		}
	}
	u.answered = true
	qCtx.SetResponse(r)
	return nil
}

type cacheProbe15 struct {
	c    *cache.Cache
	desc string
	mu   sync.Mutex
	keys map[string]bool
	last string
}

// ecsArgs15 draws an ecs_handler configuration; own is the payload (third address byte) of the option the handler makes
// itself when it does not forward the client's: the preset address, else the client address (deliver03: 203.0.113.9)
// with send, else -1.
func ecsArgs15(r *Run) (ecs_handler.Args, int) {
	a, own := ecs_handler.Args{Forward: r.Rng.Intn(3) != 0, Send: r.Rng.Intn(2) == 0}, -1
	if a.Send {
		own = 113
	}
	if r.Rng.Intn(2) == 0 {
		a.Preset, own = "198.51.100.7", 100
	}
	return a, own
}

func ecsModel15(a ecs_handler.Args, own int) string {
	if own < 0 {
		return "e:" + b01(a.Forward) + ":-"
	}
	return fmt.Sprintf("e:%s:%d", b01(a.Forward), own)
}

func countOpt15(m *dns.Msg) int {
	n := 0
	for _, rr := range m.Extra {
		if rr.Header().Rrtype == dns.TypeOPT {
			n++
		}
	}
	return n
}

func cacheLife15(r *Run, it int) {
	t0 := time.Now()
	plugins := map[string]any{}
	m := coremain.NewTestMosdnsWithPlugins(plugins)
	up := &upstream15{}
	plugins["up"] = up
	allCodes := []uint16{dns.EDNS0COOKIE, 65001, 65002, dns.EDNS0PADDING, dns.EDNS0SUBNET}
	fwdCodes := map[uint16]bool{}
	ecsForward := false
	ecsOwn := map[int]bool{} // payloads (third address byte) of the client-subnet options ecs_handler may make itself
	var probes []*cacheProbe15
	var rules []sequence.RuleArgs
	var desc, modelChain []string
	n := 1 + r.Rng.Intn(4)
	kinds := make([]string, n)
	for i := range kinds {
		kinds[i] = []string{"cache", "fwd", "fwd", "ttl", "ecs"}[r.Rng.Intn(5)]
	}
	nCache := 0
	for _, k := range kinds {
		if k == "cache" {
			nCache++
		}
	}
	if nCache == 0 {
		kinds[r.Rng.Intn(n)] = "cache"
	}
	nCache = 0
	for i, k := range kinds {
		tag := fmt.Sprintf("%s%d", k, i)
		switch k {
		case "cache":
			if nCache == 2 {
				continue
			}
			nCache++
			lazy := 0
			if r.Rng.Intn(3) == 0 {
				lazy = 3600
			}
			c := cache.NewCache(&cache.Args{Size: 1024, LazyCacheTTL: lazy}, cache.Opts{})
			defer c.Close()
			p := &cacheProbe15{c: c, desc: fmt.Sprintf("cache#%d(lazy=%v)", nCache, lazy > 0), keys: map[string]bool{}}
			probes = append(probes, p)
			plugins[tag] = c
			plugins[tag+"probe"] = sequence.ExecutableFunc(func(_ context.Context, qCtx *query_context.Context) error {
				k := cache.VerifGetMsgKey(qCtx.Q())
				p.mu.Lock()
				p.keys[k], p.last = true, k
				p.mu.Unlock()
				return nil
			})
			rules = append(rules, sequence.RuleArgs{Exec: "$" + tag + "probe"})
			desc = append(desc, p.desc)
			modelChain = append(modelChain, "c")
		case "fwd":
			var cs, ms []string
			for _, c := range allCodes {
				if r.Rng.Intn(2) == 0 {
					cs, ms = append(cs, fmt.Sprint(c)), append(ms, fmt.Sprint(c))
					fwdCodes[c] = true
				}
			}
			p, err := forward_edns0opt.QuickSetup(nil, strings.Join(cs, " "))
			if err != nil {
				r.Note("cacheLife15: " + err.Error())
				return
			}
			plugins[tag] = p
			desc = append(desc, "forward_edns0opt("+strings.Join(cs, ",")+")")
			if len(ms) == 0 {
				ms = []string{"-"}
			}
			modelChain = append(modelChain, "f:"+strings.Join(ms, "+"))
		case "ttl":
			plugins[tag] = ttl.NewTTL(0, uint32(r.Rng.Intn(100)), uint32(100+r.Rng.Intn(1000)))
			desc = append(desc, "ttl")
			modelChain = append(modelChain, "t")
		case "ecs":
			a, own := ecsArgs15(r)
			ecsForward = ecsForward || a.Forward
			if own >= 0 {
				ecsOwn[own] = true
			}
			p, err := ecs_handler.NewHandler(a)
			if err != nil {
				r.Note("cacheLife15: " + err.Error())
				return
			}
			plugins[tag] = p
			desc = append(desc, fmt.Sprintf("ecs_handler(forward=%v,preset=%v,send=%v)", a.Forward, a.Preset != "", a.Send))
			modelChain = append(modelChain, ecsModel15(a, own))
		}
		rules = append(rules, sequence.RuleArgs{Exec: "$" + tag})
	}
	rules = append(rules, sequence.RuleArgs{Exec: "$up"})
	desc = append(desc, "upstream")
	sq, err := sequence.NewSequence(sequence.NewBQ(m, m.Logger()), rules)
	if err != nil {
		r.Note("cacheLife15: chain build failed: " + err.Error())
		return
	}
	h := server_handler.NewEntryHandler(server_handler.EntryHandlerOpts{Entry: sq})
	chainDesc := strings.Join(desc, " -> ")

	name := fmt.Sprintf("life%d.example.", r.Rng.Intn(100000))
	qtype := []uint16{dns.TypeA, dns.TypeA, dns.TypeAAAA, dns.TypeTXT}[r.Rng.Intn(4)]
	cd := r.Rng.Intn(4) == 0
	pay := 1 + r.Rng.Intn(12)
	next := func() int { pay++; return pay }
	ntx := 2 + r.Rng.Intn(r.N(3, 4))
	var txOps, txImpl, history []string
	for k := 0; k < ntx; k++ {
		// ---- the client's query
		id := r.U16()
		q := new(dns.Msg)
		q.SetQuestion(name, qtype)
		q.Id, q.CheckingDisabled, q.RecursionDesired = id, cd, r.Rng.Intn(2) == 0
		var copts []eopt15
		clientEcs := false
		cOp, hasC, cDo := "-", r.Rng.Intn(5) != 0, false
		if k == 0 && r.Rng.Intn(2) == 0 {
			hasC = true
		}
		if hasC {
			o := &dns.OPT{Hdr: dns.RR_Header{Name: ".", Rrtype: dns.TypeOPT}}
			size := []uint16{0, 512, 1200, 1232, 4096, 65535}[r.Rng.Intn(6)]
			o.SetUDPSize(size)
			if cDo = r.Rng.Intn(2) == 0; cDo {
				o.SetDo()
			}
			for _, c := range allCodes {
				if r.Rng.Intn(3) == 0 {
					e := eopt15{c, next()}
					copts = append(copts, e)
					o.Option = append(o.Option, mkOpt15(e))
				}
			}
			for _, e := range copts {
				clientEcs = clientEcs || e.code == dns.EDNS0SUBNET
			}
			hd := genHdr15(r)
			hd.apply(o)
			if hd.ver != 0 {
				r.Count("life:client-opt-version!=0")
			}
			q.Extra = append(q.Extra, o)
			cOp = fmt.Sprintf("%d:%s:%s%s", size, b01(cDo), showOpts15(copts), hd.op())
		}
		// ---- what the upstream will do if it is reached without a response
		out := upOut15{kind: []string{"ans", "ans", "ans", "ans", "ans", "ans", "none", "err"}[r.Rng.Intn(8)]}
		if k == 0 && r.Rng.Intn(2) == 0 {
			out.kind = "ans"
		}
		if out.kind == "ans" {
			out.rcode = []int{0, 0, 0, 0, 3, 5}[r.Rng.Intn(6)]
			out.nAns = 1 + r.Rng.Intn(3)
			if out.rcode != 0 {
				out.nAns = 0
			}
			if out.hasOpt = r.Rng.Intn(4) != 0; out.hasOpt {
				for _, c := range allCodes {
					if r.Rng.Intn(2) == 0 {
						out.opts = append(out.opts, eopt15{c, next()})
					}
				}
				out.glue = r.Rng.Intn(3) == 0
			}
		}
		up.mu.Lock()
		up.out, up.seen, up.answered = out, nil, false
		up.mu.Unlock()
		via := []string{"udp", "tcp", "doh-post"}[r.Rng.Intn(3)]
		payload, got := deliver03(h, via, q)
		up.mu.Lock()
		seen, answered := up.seen, up.answered
		up.mu.Unlock()
		op := fmt.Sprintf("%d/%s/%s/%s", id, b01(cd), cOp, out.op())
		txOps = append(txOps, op)
		history = append(history, fmt.Sprintf("exchange %d via %s: client OPT %s, upstream %s", k+1, via, cOp, out.op()))
		fd := map[string]any{"chain": chainDesc, "question": fmt.Sprintf("%s type %d cd=%v", name, qtype, cd), "exchanges_so_far": append([]string(nil), history...),
			"failing_exchange": k + 1, "upstream_answered_in_this_exchange": answered,
			"format": "client OPT = size:DO:code.payload+...[:version:ext-rcode-byte:z unless all 0]; upstream = a:rcode:answers:o=code.payload+...:followed-by-glue"}
		r.Eval(chainDesc+"|"+strings.Join(txOps, " "), hasC || out.hasOpt)
		r.Count("life:exchange")
		if answered {
			r.Count("life:answered-by-upstream")
		} else if got && out.kind == "ans" {
			r.Count("life:answered-from-cache")
		}
		// ---- reply side
		impl := "drop"
		if !got {
			r.Fail("a well-formed query received no reply", fd)
		} else if rm := new(dns.Msg); rm.Unpack(payload) != nil {
			r.Fail("the reply is not a parsable DNS message", fd)
			impl = "unparsable"
		} else {
			side, nopt, do, es := optSide15(rm.Extra)
			fd["reply_opt"] = side
			impl = fmt.Sprintf("id=%d rc=%d opt=%s", rm.Id, rm.Rcode, side)
			want := 0
			if hasC {
				want = 1
			}
			if nopt != want {
				r.Fail("the reply must carry exactly one OPT iff the client's query had one", fd)
			} else if hasC && do != cDo {
				r.Fail("the reply's OPT does not mirror the client's DO bit", fd)
			}
			for _, e := range es {
				fromUp := false
				if answered && out.hasOpt {
					for _, u := range out.opts {
						fromUp = fromUp || u == e
					}
				}
				explicit := fwdCodes[e.code] || (e.code == dns.EDNS0SUBNET && ecsForward && clientEcs)
				if !fromUp {
					fd["option"] = fmt.Sprintf("%d.%d", e.code, e.pay)
					r.Fail("the reply carries an EDNS0 option that is not from the upstream's answer of this exchange (an earlier exchange's option came back through the cache)", fd)
				} else if !explicit {
					fd["option"] = fmt.Sprintf("%d.%d", e.code, e.pay)
					if e.code == dns.EDNS0SUBNET && ecsForward {
						r.Fail("the reply carries the upstream's client-subnet option although the client's query had none (ecs_handler forward applies to the client's own option; no plugin forwards this one explicitly)", fd)
					} else {
						r.Fail("the reply carries an upstream EDNS0 option that no plugin forwards explicitly", fd)
					}
				}
			}
		}
		// ---- upstream side
		uqs := "-"
		if len(seen) != 1 {
			fd["upstream_calls"] = len(seen)
			r.Fail("the chain did not reach the scripted upstream plugin exactly once", fd)
		}
		for _, uq := range seen {
			side, nopt, do, es := optSide15(uq.Extra)
			uqs = side
			fd["upstream_query_opt"] = side
			if nopt != 1 {
				r.Fail("the query sent upstream does not carry exactly one OPT record", fd)
			} else if do {
				r.Fail("the query sent upstream carries the client's DO bit", fd)
			}
			for _, e := range es {
				mine := false
				for _, c := range copts {
					mine = mine || c == e
				}
				ok := (mine && (fwdCodes[e.code] || (e.code == dns.EDNS0SUBNET && ecsForward))) || (e.code == dns.EDNS0SUBNET && ecsOwn[e.pay])
				if !ok {
					fd["option"] = fmt.Sprintf("%d.%d", e.code, e.pay)
					r.Fail("the query sent upstream carries an EDNS0 option that is not this client's, forwarded explicitly", fd)
				}
			}
		}
		// ---- the cache entries: cached answers never contain an OPT
		st := "-"
		for _, p := range probes {
			p.mu.Lock()
			keys, last := p.keys, p.last
			p.mu.Unlock()
			for key := range keys {
				if sm, _, _, _, ok := p.c.VerifPeek(key); ok && sm != nil {
					c := countOpt15(sm)
					if key == last {
						st = fmt.Sprint(c)
					}
					if c != 0 {
						side, _, _, _ := optSide15(sm.Extra)
						fd["cache"], fd["cached_opt"] = p.desc, side
						r.Fail("a cached answer contains an OPT record (read back from the cache after Handle returned)", fd)
					}
				}
			}
		}
		txImpl = append(txImpl, fmt.Sprintf("%s st=%s uq=%s", impl, st, uqs))
	}
	// ---- a dump of each cache, loaded into a new cache
	if r.Rng.Intn(3) == 0 {
		for _, p := range probes {
			var buf bytes.Buffer
			if _, err := p.c.VerifWriteDump(&buf); err != nil {
				r.Fail("the cache could not be dumped", map[string]any{"chain": chainDesc, "exchanges": history, "error": err.Error()})
				continue
			}
			c2 := cache.NewCache(&cache.Args{Size: 1024}, cache.Opts{})
			if _, err := c2.VerifReadDump(&buf); err == nil {
				for key := range p.keys {
					if sm, _, _, _, ok := c2.VerifPeek(key); ok && sm != nil && countOpt15(sm) != 0 {
						side, _, _, _ := optSide15(sm.Extra)
						r.Fail("a cached answer written to a cache dump contains an OPT record", map[string]any{"chain": chainDesc, "exchanges": history, "cache": p.desc, "cached_opt": side})
					}
				}
			}
			c2.Close()
			r.Count("life:dump-checked")
		}
	}
	// ---- the same exchanges on the model (one cache; forwarders, ecs_handler and ttl; entries live 30 s or more)
	if len(probes) == 1 && time.Since(t0) < 3*time.Second {
		r.Line("life "+strings.Join(modelChain, ",")+" "+strings.Join(txOps, " "), strings.Join(txImpl, " ~ "))
		r.Count("life:model-replayed")
	}
	r.Count(fmt.Sprintf("life:caches=%d", len(probes)))
}
