//go:build pC11 || pall

package main

import (
	"fmt"
	"os"
	"sort"
	"strings"
	"sync"
	"sync/atomic"
	"time"

	"github.com/IrineSistiana/mosdns/v5/pkg/cache"
)

// C11: the cache store is safe, exact and bounded under concurrency.
//
// Part 1: sequential histories on the real pkg/cache.Cache with a key type whose
// hash puts chosen keys into the same shard; after every store the key set is
// read back (Range) to learn which entries the eviction chose, and the history
// is replayed on the model. Times are milliseconds since the start of the
// history; expiry times are kept well away from "now" except where the history
// sleeps across them.
// Part 2: concurrent histories with logical timestamps, checked per lookup.

func init() { props["C11"] = runC11 }

type hkey uint64

func (k hkey) Sum() uint64 { return uint64(k) / 1000 }

type val11 struct {
	key hkey
	seq int
}

func runC11(r *Run) {
	raceOnly := os.Getenv("VERIF_RACE") == "1" // second pass under the race detector: concurrent parts only
	// ------------------------------------------------------------------ part 1
	sizes := []int{-5, 0, 1, 63, 64, 100, 1024, 1025, 1100, 2048, 4097}
	histories := r.N(24, 200)
	if raceOnly {
		histories = 0
	}
	for hi := 0; hi < histories; hi++ {
		size := sizes[hi%len(sizes)]
		capacity := size
		if capacity < 1024 {
			capacity = 1024
		}
		c := cache.New[hkey, int](cache.Opts{Size: size, CleanerInterval: time.Hour})
		base := time.Now().Add(-100 * time.Second) // times are ms since base: never negative
		now := func() int { return int(time.Since(base) / time.Millisecond) }
		at := func(ms int) time.Time { return base.Add(time.Duration(ms) * time.Millisecond) }
		keys := map[hkey]bool{}
		expOf := map[hkey]int{}
		readKeys := func() map[hkey]bool {
			m := map[hkey]bool{}
			c.Range(func(k hkey, v int, e time.Time) error { m[k] = true; return nil })
			return m
		}
		var ops, outs []string
		hot := uint64(r.Rng.Intn(64)) // a shard that gets more keys than it can hold
		perShard := capacity / 64
		steps := 60 + r.Rng.Intn(200)
		if hi%4 == 0 {
			steps = 3*perShard + 50 // overflow the hot shard for sure
		}
		maxLen := 0
		for st := 0; st < steps; st++ {
			var k hkey
			if r.Rng.Intn(3) > 0 || hi%4 == 0 {
				k = hkey(hot*1000 + uint64(r.Rng.Intn(3*perShard+5))%1000)
			} else {
				k = hkey(uint64(r.Rng.Intn(64))*1000 + uint64(r.Rng.Intn(4)))
			}
			if len(keys) > 0 && r.Rng.Intn(2) == 0 { // aim lookups at keys that are (or were) stored
				for kk := range keys {
					k = kk
					break
				}
			}
			switch x := r.Rng.Intn(20); {
			case x < 11: // store
				t := now()
				exp := t + 600000
				switch r.Rng.Intn(6) {
				case 0:
					exp = t - 1000 // already expired: not stored
				case 1:
					exp = t + 25 // will expire during the history
				}
				v := r.Rng.Intn(1000000)
				c.Store(k, v, at(exp))
				if exp >= t {
					expOf[k] = exp
				}
				after := readKeys()
				var victims []string
				for old := range keys {
					if !after[old] && old != k {
						victims = append(victims, fmt.Sprint(uint64(old)))
					}
				}
				sort.Strings(victims)
				if len(victims) == 0 && keys[k] && exp >= t {
					// overwriting a key in a full shard evicts one entry first; if nothing else disappeared it was the key itself
					inShard := 0
					for old := range keys {
						if old.Sum()%64 == k.Sum()%64 {
							inShard++
						}
					}
					if inShard+1 > perShard {
						victims = []string{fmt.Sprint(uint64(k))}
					}
				}
				keys = after
				ops = append(ops, fmt.Sprintf("s:%d:%d:%d:%d:%s", k, v, exp, t, strings.Join(victims, ".")))
				outs = append(outs, "-")
			case x < 16: // get
				if r.Rng.Intn(8) == 0 {
					time.Sleep(30 * time.Millisecond) // step across the short expiries
				}
				if e, ok := expOf[k]; ok && now() > e-4 && now() < e+4 {
					time.Sleep(10 * time.Millisecond) // keep lookups away from the instant of expiry: ms resolution would make the expected answer ambiguous
				}
				t := now()
				v, e, ok := c.Get(k)
				out := "miss"
				if ok {
					out = fmt.Sprintf("hit:%d:%d", v, int(e.Sub(base)/time.Millisecond))
				}
				t2 := now()
				// an expiry between t and t2 would make the model's answer ambiguous: re-stamp with the later time
				ops = append(ops, fmt.Sprintf("g:%d:%d", k, t2))
				_ = t
				outs = append(outs, out)
				keys = readKeys()
			case x == 16:
				c.Flush()
				keys = map[hkey]bool{}
				ops = append(ops, "f")
				outs = append(outs, "-")
			default:
				n := c.Len()
				if n > maxLen {
					maxLen = n
				}
				ops = append(ops, "l")
				outs = append(outs, fmt.Sprintf("len:%d", n))
			}
			if n := c.Len(); n > capacity {
				r.Fail("the cache holds more entries than its capacity", map[string]any{"configured_size": size, "capacity": capacity, "len": n, "history": strings.Join(ops, ",")})
			}
		}
		c.Close()
		r.Line(fmt.Sprintf("cache %d %s", size, strings.Join(ops, ",")), strings.Join(outs, ";"))
		r.Eval(fmt.Sprintf("seq/%d", hi), true)
		r.Count(fmt.Sprintf("size:%d", size))
		r.Trace()
	}
	// expiry sweep: the cleaner removes what expired
	// small configured sizes must not turn the bound off: fill far beyond the minimum capacity
	// ... and sizes that are not a multiple of the shard count must not be rounded up
	for _, size := range []int{1, 33, 63, -1, 0, 700, 1025, 1087, 1100} {
		if raceOnly {
			break
		}
		fillCap := size
		if fillCap < 1024 {
			fillCap = 1024
		}
		nKeys := fillCap + 376
		c := cache.New[hkey, int](cache.Opts{Size: size, CleanerInterval: time.Hour})
		base := time.Now().Add(-100 * time.Second)
		var ops, outs []string
		keys := map[hkey]bool{}
		for i := 0; i < nKeys; i++ {
			k := hkey(uint64(i%64)*1000 + uint64(i/64))
			c.Store(k, i, base.Add(700*time.Second))
			after := map[hkey]bool{}
			c.Range(func(k hkey, v int, e time.Time) error { after[k] = true; return nil })
			var victims []string
			for old := range keys {
				if !after[old] && old != k {
					victims = append(victims, fmt.Sprint(uint64(old)))
				}
			}
			keys = after
			ops = append(ops, fmt.Sprintf("s:%d:%d:700000:100000:%s", k, i, strings.Join(victims, ".")))
			outs = append(outs, "-")
		}
		n := c.Len()
		ops = append(ops, "l")
		outs = append(outs, fmt.Sprintf("len:%d", n))
		if n > fillCap {
			r.Fail("the cache holds more entries than its capacity (the configured size, or the documented minimum of 1024 for a smaller one) after distinct keys were stored evenly across the shards", map[string]any{"configured_size": size, "capacity": fillCap, "len": n, "stored_distinct_keys": nKeys})
		}
		c.Close()
		r.Line(fmt.Sprintf("cache %d %s", size, strings.Join(ops, ",")), strings.Join(outs, ";"))
		r.Eval(fmt.Sprintf("fill/%d", size), true)
		r.Count("fill-histories")
		r.Trace()
	}
	for hi := 0; hi < r.N(4, 20); hi++ {
		if raceOnly {
			break
		}
		c := cache.New[hkey, int](cache.Opts{Size: 2048, CleanerInterval: 15 * time.Millisecond})
		base := time.Now()
		at := func(ms int) time.Time { return base.Add(time.Duration(ms) * time.Millisecond) }
		var ops, outs []string
		n := 20 + r.Rng.Intn(60)
		live := 0 // distinct keys stored with the far expiry
		for i := 0; i < n; i++ {
			k := hkey(uint64(r.Rng.Intn(64))*1000 + uint64(i))
			exp := 600000
			if r.Rng.Intn(2) == 0 {
				exp = 40
			}
			t := int(time.Since(base) / time.Millisecond)
			if t > 20 {
				break
			}
			c.Store(k, i, at(exp))
			if exp == 600000 {
				live++
			}
			ops = append(ops, fmt.Sprintf("s:%d:%d:%d:%d", k, i, exp, t))
			outs = append(outs, "-")
		}
		// wait for the cleaner's first pass after the short expiries (40 ms): event-driven, so that a cleaner goroutine that
		// is scheduled late on a loaded machine is waited for (a fixed 100 ms was not enough at load 30); gives up after 15 s
		time.Sleep(60 * time.Millisecond)
		for dl := time.Now().Add(15 * time.Second); c.Len() > live && time.Now().Before(dl); {
			time.Sleep(5 * time.Millisecond)
		}
		ops = append(ops, "gc:100", "l")
		outs = append(outs, "-", fmt.Sprintf("len:%d", c.Len()))
		c.Close()
		r.Line("cache 2048 "+strings.Join(ops, ","), strings.Join(outs, ";"))
		r.Eval(fmt.Sprintf("sweep/%d", hi), true)
		r.Count("sweep-histories")
		r.Trace()
	}

	// ------------------------------------------------------------------ part 2
	rounds := r.N(6, 40)
	for rd := 0; rd < rounds; rd++ {
		size := []int{0, 1024, 1100, 2048}[rd%4]
		capacity := size
		if capacity < 1024 {
			capacity = 1024
		}
		c := cache.New[hkey, val11](cache.Opts{Size: size, CleanerInterval: 5 * time.Millisecond})
		var clock int64
		tick := func() int64 { return atomic.AddInt64(&clock, 1) }
		type storeRec struct {
			key        hkey
			seq        int
			start, end int64
			exp        time.Time
			at         time.Time
		}
		type flushRec struct{ start, end int64 }
		type getRec struct {
			key        hkey
			got        val11
			ok         bool
			exp        time.Time
			start, end int64
			at         time.Time // taken before the call
		}
		var mu sync.Mutex
		var stores []storeRec
		var flushes []flushRec
		var gets []getRec
		var lens []int
		workers := 8
		nkeys := 40
		var wg sync.WaitGroup
		var seq int64
		for w := 0; w < workers; w++ {
			wg.Add(1)
			seed := r.Rng.Int63()
			go func(w int, seed int64) {
				defer wg.Done()
				x := uint64(seed)
				rnd := func(n int) int { x = x*6364136223846793005 + 1442695040888963407; return int((x >> 33) % uint64(n)) }
				var ls []storeRec
				var lf []flushRec
				var lg []getRec
				var ll []int
				for i := 0; i < 1500; i++ {
					k := hkey(uint64(rnd(3))*1000 + uint64(rnd(nkeys)))
					switch y := rnd(40); {
					case y < 15:
						s := int(atomic.AddInt64(&seq, 1))
						exp := time.Now().Add(time.Hour)
						if rnd(3) == 0 {
							exp = time.Now().Add(time.Duration(rnd(3000)) * time.Microsecond)
						}
						st := tick()
						c.Store(k, val11{k, s}, exp)
						ls = append(ls, storeRec{k, s, st, tick(), exp, time.Now()})
					case y < 36:
						at := time.Now()
						st := tick()
						v, e, ok := c.Get(k)
						lg = append(lg, getRec{k, v, ok, e, st, tick(), at})
					case y == 36:
						st := tick()
						c.Flush()
						lf = append(lf, flushRec{st, tick()})
					case y == 37:
						ll = append(ll, c.Len())
					default:
						n := 0
						c.Range(func(k hkey, v val11, e time.Time) error { n++; return nil })
						ll = append(ll, n)
					}
				}
				mu.Lock()
				stores = append(stores, ls...)
				flushes = append(flushes, lf...)
				gets = append(gets, lg...)
				lens = append(lens, ll...)
				mu.Unlock()
			}(w, seed)
		}
		wg.Wait()
		c.Close()
		bySeq := map[int]storeRec{}
		byKey := map[hkey][]storeRec{}
		for _, s := range stores {
			bySeq[s.seq] = s
			byKey[s.key] = append(byKey[s.key], s)
		}
		hits := 0
		for _, g := range gets {
			if !g.ok {
				continue
			}
			hits++
			desc := map[string]any{"key": uint64(g.key), "returned_value_of_store": g.got.seq, "configured_size": size}
			s, known := bySeq[g.got.seq]
			switch {
			case !known || s.key != g.key || g.got.key != g.key:
				r.Fail("a lookup returned a value that was not stored under that key", desc)
				continue
			case !s.exp.Equal(g.exp):
				r.Fail("a lookup returned a value with another entry's expiration time", desc)
				continue
			case s.start > g.end:
				r.Fail("a lookup returned a value whose store began after the lookup had returned", desc)
				continue
			case s.exp.Before(g.at):
				// the clock is monotonic and g.at was read before the lookup began: no margin needed, a stalled goroutine cannot make this fire
				r.Fail("a lookup returned a value that had expired before the lookup began", desc)
				continue
			}
			for _, s2 := range byKey[g.key] {
				if s2.seq != s.seq && s2.start > s.end && s2.end < g.start && s2.exp.After(s2.at.Add(time.Millisecond)) {
					// a later store of the same key (not expired on arrival, so it did replace the entry) completed before
					// the lookup began: whatever happened to it afterwards, the older value can never come back
					desc["overwritten_by_store"] = s2.seq
					r.Fail("a lookup returned a value that had been overwritten before the lookup began", desc)
					break
				}
			}
			for _, f := range flushes {
				if f.start > s.end && f.end < g.start {
					r.Fail("a lookup returned a value that had been flushed before the lookup began", desc)
					break
				}
			}
		}
		for _, n := range lens {
			if n > capacity {
				r.Fail("the cache held more entries than its capacity", map[string]any{"len": n, "capacity": capacity, "configured_size": size})
				break
			}
		}
		r.Eval(fmt.Sprintf("conc/%d", rd), hits > 0)
		r.Count("concurrent-rounds")
		r.meta.Dist["concurrent-hits-checked"] += hits
		r.Trace()
	}
	// ------------------------------------------------------------------ part 3
	// bursts of simultaneous lookups of one just-expired key (each removes it), with a sweep and stores in between,
	// followed by every operation that walks the entry again: none may crash and none may return the dead value
	bursts := r.N(400, 4000)
	{
		c := cache.New[hkey, int](cache.Opts{Size: 1024, CleanerInterval: time.Hour})
		crashed := ""
		guard := func(what string, f func()) {
			defer func() {
				if e := recover(); e != nil && crashed == "" {
					crashed = fmt.Sprintf("%s panicked: %v", what, e)
				}
			}()
			f()
		}
		var cmu sync.Mutex
		for b := 0; b < bursts && crashed == ""; b++ {
			k := hkey(uint64(b%64)*1000 + uint64(b%7))
			c.Store(k, b, time.Now().Add(300*time.Microsecond))
			time.Sleep(500 * time.Microsecond)
			start := make(chan struct{})
			var wg sync.WaitGroup
			hitDead := int32(0)
			for w := 0; w < 6; w++ {
				wg.Add(1)
				go func() {
					defer wg.Done()
					defer func() {
						if e := recover(); e != nil {
							cmu.Lock()
							if crashed == "" {
								crashed = fmt.Sprintf("concurrent Get of an expired key panicked: %v", e)
							}
							cmu.Unlock()
						}
					}()
					<-start
					if _, _, ok := c.Get(k); ok {
						atomic.AddInt32(&hitDead, 1)
					}
				}()
			}
			close(start)
			wg.Wait()
			if hitDead > 0 {
				r.Fail("a lookup returned a value that had expired", map[string]any{"key": uint64(k), "burst": b})
			}
			guard("Get after the burst", func() {
				if _, _, ok := c.Get(k); ok {
					r.Fail("a lookup returned a value that had expired", map[string]any{"key": uint64(k), "burst": b, "after_burst": true})
				}
			})
			if b%16 == 0 {
				guard("Range after the burst", func() { c.Range(func(hkey, int, time.Time) error { return nil }) })
				guard("Len after the burst", func() { c.Len() })
			}
			guard("Store after the burst", func() { c.Store(k, b, time.Now().Add(time.Hour)) })
			guard("Get of the fresh value", func() {
				if v, _, ok := c.Get(k); !ok || v != b {
					r.Fail("a value stored after its key's expired entry had been removed was not returned", map[string]any{"key": uint64(k), "burst": b, "got": v, "ok": ok})
				}
			})
		}
		if crashed != "" {
			r.Fail("the cache crashed after simultaneous lookups of one expired key", map[string]any{"what": crashed})
		}
		guard("Close", func() { c.Close() })
		r.Eval("expired-key-bursts", true)
		r.meta.Dist["expired-key-bursts"] += bursts
		r.Trace()
	}
	// ------------------------------------------------------------------ part 4
	c11SweepRounds(r)
	// ------------------------------------------------------------------ parts 5 and 6
	c11MapParts(r)
	c11LruParts(r)
	// ------------------------------------------------------------------ part 7
	c11FlushFillParts(r)
	// ------------------------------------------------------------------ part 8
	c11RefreshParts(r)
	r.Finish("part 1: sequential histories (60..260 operations, or enough to overflow a shard) of store / get / flush / len on pkg/cache.Cache for configured sizes {-5, 0, 1, 63, 64, 100, 1024, 1025, 1100, 2048, 4097} with keys hashed into one hot shard and across shards, expiry already past / 25 ms ahead / far ahead, eviction victims read back after every store; sweep histories with a 15 ms cleaner; part 2: 8 goroutines x 1500 operations (store / get / flush / len / range, short expiries, 5 ms cleaner) over 120 keys in 3 shards with logical timestamps: every hit is checked for foreign, expired, overwritten or flushed values, every Len / Range count against the capacity; part 3: bursts of 6 simultaneous lookups of one just-expired key followed by get / range / len / store / get on it; part 4 (exported API only): lookups in flight across the expiry sweep: 2..3 writers storing values that live 20 us .. 3 ms and carry key, store number and expiry, 3..40 readers, the cache's own cleaner every 1 us .. 1 ms, rounds with 24-byte values under forced collections and more goroutines than processors, and rounds with 16 / 64 / 256 KiB values whose every cache line repeats the value's stamp: every hit must be a value some store wrote (not zero, not a mixture), stored under the looked-up key, with the expiry it was stored with, not expired when the lookup began; part 5 (pkg/concurrent_map.Map directly): sequential histories of Set / Get / Del / TestAndSet / RangeDo with setting and deleting callbacks / Flush / Len replayed on the model, and forced overlaps: the callback of a RangeDo pass starts another goroutine's Set of the visited key / Set of a new key into a full shard (on all 64 shards) / TestAndSet / Flush on the shard being visited and lingers 300 us; when both have returned every key and Len are read and must be what 'pass, then the other operation' or the opposite order leaves (reference and model list both): a value derived from an overwritten one, a flushed entry that is back, or Len above the capacity is a failure, a lost entry is not; part 6 (pkg/lru, pkg/concurrent_lru): sequential histories of Add / Get / Del / PopOldest / Clean / Flush / Len on LRU, ConcurrentLRU and ShardedLRU (1..8 shards, maxima 1..5, one operation in three on the previous operation's key) with the onEvict arguments recorded, replayed on the model; every hit must be the value most recently added under that key and not flushed, Len <= shards * max; concurrent histories (8 goroutines x 1500 operations, 1..64 shards) with logical timestamps checked per hit for foreign, overwritten or flushed values; part 7 (the capacity across flushes): sequential histories of 1..3 rounds of [fill with distinct live keys below / up to / beyond the capacity, Flush, lookups of flushed keys] and then more distinct keys than the capacity, for configured sizes {-7, 0, 1, 63, 64, 100, 700, 1024, 1025, 1087, 1100, 1500, 2048 (3000, 4097 thorough)}, keys placed round-robin / at random / into three hot shards, Len() <= max(size, 1024) checked after every store and the history replayed on the model with victims read back; concurrent rounds: 4 goroutines store 2x the capacity in distinct live keys after and during 1..3 flushes while Len() and the entry count of a Range are sampled against the capacity; part 8 (refresh against removal): in every shard of a completely full map (sizes 64 .. 2048) a Set of a stored key, a Del of that key and a Set of a new key of the same shard are started from the callback of a RangeDo pass that is inside the shard, one after the other with time to queue up on the shard lock (1..3 refreshers, removal and new store by one goroutine or two; also released by a spin gate with no pass), and the same through the cache (Store of a stored key whose entry just expired, the lookup that removes it, Store of a new key, started from a Range callback): Len() <= capacity when all have returned and for every Len() sampled meanwhile; parts 2-8 run a second time under the race detector")
}
