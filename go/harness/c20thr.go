//go:build pC20 || pall

package main

import (
	"context"
	"fmt"
	"reflect"
	"strings"
	"sync/atomic"
	"time"

	"github.com/IrineSistiana/mosdns/v5/coremain"
	"github.com/IrineSistiana/mosdns/v5/pkg/query_context"
	"github.com/IrineSistiana/mosdns/v5/plugin/executable/sequence"
	"github.com/IrineSistiana/mosdns/v5/plugin/executable/sequence/fallback"
	"github.com/miekg/dns"
)

// C20, configured thresholds. "Within the threshold" in the property is the threshold the plugin was CONFIGURED
// with. The plugin is built through fallback.Init with thresholds around every plausible bound (1 ms ... a day) and
// the calls run in real time, all at once:
//
//	within: the primary finishes (answers, or fails) well inside the configured threshold - but, for the larger
//	        thresholds, later than the built-in default and than one second - with a secondary that would answer at
//	        once if it were started / released;
//	slower: the primary answers 300-450 ms after the configured threshold has passed, with such a secondary.
//
// Each call is judged by the property's own predicate and replayed on the model as a timed schedule (the model's
// timer must not fire before the regenerated Gen.fallbackThreshold of the configured value). In addition the
// duration the built plugin carries is compared with Gen.fallbackThreshold over boundary and random configurations.

type thr20case struct {
	thr      int // configured threshold (ms)
	standby  bool
	p, s     string
	within   bool
	pAt      time.Duration // when the primary finishes, from the start of the call
	deadline time.Duration // the caller's context deadline (0: none, the workers then give up after 5 s)
	// results
	result     string
	secStarted bool // sampled when the call returned
	took       time.Duration
	pDone      time.Duration // when primary.Exec really returned, from the start of the call
}

var thr20bounds = []int{1, 2, 5, 20, 100, 250, 499, 500, 501, 700, 999, 1000, 1001, 1500, 2000, 4999, 5000, 5001, 8000, 10000, 30000, 60000, 3600000, 86400000}

func thr20(r *Run) {
	outcomes := []string{"ans", "none", "err", "errans"}
	pick := func(mostly string) string {
		if r.Rng.Intn(5) == 0 {
			return outcomes[r.Rng.Intn(len(outcomes))]
		}
		return mostly
	}
	ms := func(n int) time.Duration { return time.Duration(n) * time.Millisecond }
	var cases []*thr20case
	within := func(thr int, standby bool) {
		c := &thr20case{thr: thr, standby: standby, within: true, p: pick("ans"), s: pick("ans")}
		switch {
		case thr >= 1500: // later than the default threshold and than a second
			c.pAt = ms(650 + r.Rng.Intn(500))
			if r.Thorough() && thr > 6200 && r.Rng.Intn(2) == 0 { // later than the workers' default timeout of 5 s
				c.pAt = ms(5200 + r.Rng.Intn(500))
				c.deadline = 30 * time.Second
			}
		default: // 450 <= thr < 1500
			c.pAt = ms(thr - 300 - r.Rng.Intn(100))
		}
		if c.deadline == 0 && r.Rng.Intn(2) == 0 {
			c.deadline = ms(10000 + r.Rng.Intn(20000))
		}
		cases = append(cases, c)
	}
	slower := func(thr int, standby bool) {
		c := &thr20case{thr: thr, standby: standby, p: pick("ans"), s: pick("ans")}
		c.pAt = ms(thr + 300 + r.Rng.Intn(150))
		if r.Rng.Intn(2) == 0 || c.pAt > 4*time.Second {
			c.deadline = ms(15000 + r.Rng.Intn(20000))
		}
		cases = append(cases, c)
	}
	maxSlower := r.N(700, 5001)
	for _, thr := range thr20bounds {
		for _, sb := range []bool{false, true} {
			if thr >= 450 {
				within(thr, sb)
			}
			if thr <= maxSlower {
				slower(thr, sb)
			}
		}
	}
	for i, n := 0, r.N(8, 40); i < n; i++ {
		// random thresholds: log-uniform between 450 ms and a day
		thr := 450
		for k, n := 0, r.Rng.Intn(18); k < n; k++ {
			thr = thr*2 + r.Rng.Intn(2)
		}
		if thr > 86400000 {
			thr = 86400000 - r.Rng.Intn(1000)
		}
		within(thr, r.Rng.Intn(2) == 0)
		slower(1+r.Rng.Intn(maxSlower), r.Rng.Intn(2) == 0)
	}

	meter := startStallMeter()
	done := make(chan struct{}, len(cases))
	for _, c := range cases {
		c := c
		go func() {
			defer func() { done <- struct{}{} }()
			runThr20(c)
		}()
	}
	for range cases {
		<-done
	}
	stall := meter.Stop()
	time.Sleep(5 * time.Millisecond)

	for _, c := range cases {
		judgeThr20(r, c, stall)
	}
	fieldThr20(r)
}

func runThr20(c *thr20case) {
	plugins := map[string]any{}
	m := coremain.NewTestMosdnsWithPlugins(plugins)
	prim, sec := newExec20("primary", c.p, false), newExec20("secondary", c.s, true)
	plugins["prim"], plugins["sec"] = prim, sec
	fb, err := fallback.Init(coremain.NewBP("fb", m), &fallback.Args{Primary: "prim", Secondary: "sec", Threshold: c.thr, AlwaysStandby: c.standby})
	if err != nil {
		fatal(err)
	}
	ctx, cancel := context.WithCancel(context.Background())
	if c.deadline > 0 {
		ctx, cancel = context.WithTimeout(context.Background(), c.deadline)
	}
	defer cancel()
	q := new(dns.Msg)
	q.SetQuestion("c20.example.", dns.TypeA)
	qCtx := query_context.NewContext(q)
	type ret struct {
		err        error
		took       time.Duration
		secStarted bool
	}
	retCh := make(chan ret, 1)
	t0 := time.Now()
	go func() {
		err := fb.(sequence.Executable).Exec(ctx, qCtx)
		retCh <- ret{err, time.Since(t0), atomic.LoadInt32(&sec.calls) > 0}
	}()
	time.Sleep(c.pAt)
	close(prim.gate)
	if waitCh(prim.done, 4*time.Second) {
		c.pDone = prim.doneAt.Sub(t0)
	}
	select {
	case got := <-retCh:
		c.result, c.took, c.secStarted = result20(got.err, qCtx), got.took, got.secStarted
	case <-time.After(4 * time.Second):
		c.result = "hang"
	}
}

func judgeThr20(r *Run, c *thr20case, stall time.Duration) {
	pAns, sAns := c.p == "ans", c.s == "ans"
	thr := time.Duration(c.thr) * time.Millisecond
	kind := "slower"
	if c.within {
		kind = "within"
	}
	desc := map[string]any{"scenario": "configured-threshold/" + kind, "threshold_ms": c.thr, "always_standby": c.standby, "primary": c.p, "secondary": c.s,
		"primary_finishes_after": c.pDone.String(), "secondary_finishes": "at once when started", "result": c.result, "secondary_started": c.secStarted,
		"took": c.took.String(), "caller_deadline": c.deadline.String(), "longest_stall_of_the_harness_process": stall.String()}
	cfg := fmt.Sprintf(" (configured threshold %d ms, always_standby=%v; the primary finished %s into the call)", c.thr, c.standby, c.pDone.Round(time.Millisecond))
	// ---- the property's own predicate
	if c.within {
		switch {
		case c.pDone == 0 || c.pDone > thr-250*time.Millisecond:
			// the harness process was held up: the primary did not finish well inside the threshold
			r.Count("timing-bound-not-asserted:machine-stalled")
		case pAns && c.result != "primary":
			r.Fail("the primary answered within the configured threshold but its answer was not returned"+cfg, desc)
		case pAns && !c.standby && c.secStarted:
			r.Fail("without always_standby the secondary was started although the primary answered within the configured threshold"+cfg, desc)
		case !pAns && sAns && c.result != "secondary":
			r.Fail("the primary failed and the secondary answered, but the secondary's answer was not returned"+cfg, desc)
		case !pAns && !sAns && c.result != "failed":
			r.Fail("both failed but the call did not report ErrFailed"+cfg, desc)
		}
	} else {
		stalled := stall > 100*time.Millisecond
		switch {
		case sAns && c.result == "secondary" && c.took <= thr+250*time.Millisecond:
		case sAns && stalled:
			r.Count("timing-bound-not-asserted:machine-stalled")
		case sAns:
			r.Fail("the primary was slower than the configured threshold and the secondary's answer was the first to arrive, but it was not returned when the threshold had passed"+cfg, desc)
		case !sAns && pAns && c.result != "primary":
			r.Fail("the secondary failed and the primary answered (late), but the primary's answer was not returned"+cfg, desc)
		case !sAns && !pAns && c.result != "failed":
			r.Fail("both failed but the call did not report ErrFailed"+cfg, desc)
		}
	}
	// ---- the same call on the model: a timed schedule (nominal times, ms)
	var ev []string
	at := func(t time.Duration, labels ...string) {
		for _, l := range labels {
			ev = append(ev, fmt.Sprintf("%d:%s", t.Milliseconds(), l))
		}
	}
	if c.within {
		if c.standby {
			at(0, "sStart", "sFinish")
			if !sAns {
				at(0, "sSend")
			}
		}
		at(c.pAt, "pFinish", "pOp", "pOp")
		switch {
		case c.standby && sAns && pAns:
			at(c.pAt, "sWaitDone")
		case c.standby && sAns:
			at(c.pAt, "sWaitFailed")
		case !c.standby && pAns:
			at(c.pAt, "sPickDone")
		case !c.standby:
			at(c.pAt, "sPickFailed", "sFinish", "sSend")
		}
		at(c.pAt, "mRecv", "mRecv")
	} else {
		if c.standby {
			at(0, "sStart", "sFinish")
			if !sAns {
				at(0, "sSend")
			}
			at(thr, "timerFire")
			if sAns {
				at(thr, "sWaitTimer")
			}
		} else {
			at(thr, "timerFire", "sPickTimer", "sFinish", "sSend")
		}
		if sAns {
			at(thr, "mRecv", "mRecv")
		} else {
			at(c.pAt, "pFinish", "pOp", "pOp", "mRecv", "mRecv")
		}
	}
	out := fmt.Sprintf("%s secStarted=%s", c.result, b01(c.secStarted))
	r.Line(fmt.Sprintf("tsched %d %s %s %s %s", c.thr, b01(pAns), b01(sAns), b01(c.standby), strings.Join(ev, ",")), out)
	r.Eval(fmt.Sprintf("thr/%s/%d/%v/%s/%s", kind, c.thr, c.standby, c.p, c.s), true)
	r.Count("scenario:threshold-" + kind)
	r.Trace()
}

// fieldThr20 compares the duration the built plugin carries (read, not written, through reflection: the field is
// unexported and there is no hook for it) with the regenerated Gen.fallbackThreshold, and - for a positive configured
// threshold - with the configured value.
func fieldThr20(r *Run) {
	vals := []int{0, -1, -500, -5000}
	for _, b := range thr20bounds {
		vals = append(vals, b)
	}
	for i, n := 0, r.N(150, 1500); i < n; i++ {
		switch r.Rng.Intn(4) {
		case 0:
			vals = append(vals, r.Rng.Intn(12000)-1000)
		case 1:
			b := []int{500, 1000, 5000, 10000, 60000, 1 << 10, 1 << 16, 1 << 20}[r.Rng.Intn(8)]
			vals = append(vals, b+r.Rng.Intn(5)-2)
		case 2:
			vals = append(vals, r.Rng.Intn(1<<uint(1+r.Rng.Intn(30))))
		default:
			vals = append(vals, 1000*(1+r.Rng.Intn(100)))
		}
	}
	for _, v := range vals {
		plugins := map[string]any{}
		m := coremain.NewTestMosdnsWithPlugins(plugins)
		plugins["prim"], plugins["sec"] = newExec20("primary", "ans", true), newExec20("secondary", "ans", true)
		fb, err := fallback.Init(coremain.NewBP("fb", m), &fallback.Args{Primary: "prim", Secondary: "sec", Threshold: v, AlwaysStandby: r.Rng.Intn(2) == 0})
		if err != nil {
			fatal(err)
		}
		rv := reflect.ValueOf(fb)
		if rv.Kind() == reflect.Pointer {
			rv = rv.Elem()
		}
		var f reflect.Value
		if rv.Kind() == reflect.Struct {
			f = rv.FieldByName("fastFallbackDuration")
		}
		if !f.IsValid() || f.Kind() != reflect.Int64 {
			r.Count("threshold-field-not-observable") // the T1 translation pins the field's name: it fails loudly then
			return
		}
		got := f.Int()
		if v > 0 && got != int64(v)*int64(time.Millisecond) {
			r.Fail("the plugin built by Init for a positive configured threshold does not use that threshold",
				map[string]any{"scenario": "configured-threshold/built-plugin", "threshold_ms": v, "fastFallbackDuration": time.Duration(got).String()})
		}
		r.Line(fmt.Sprintf("thr %d", v), fmt.Sprintf("%d", got))
		r.Eval(fmt.Sprintf("thr/built/%d", v), true)
		r.Count("scenario:threshold-built")
	}
}
