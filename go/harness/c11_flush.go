//go:build pC11 || pall

package main

import (
	"fmt"
	"os"
	"runtime"
	"sort"
	"strings"
	"sync"
	"sync/atomic"
	"time"

	"github.com/IrineSistiana/mosdns/v5/pkg/cache"
)

// C11 part 7: the capacity across flushes. The bound belongs to whatever map the cache is using at the moment, so it has
// to be looked at again after every Flush, with more distinct live keys than the capacity stored afterwards.
//
// 7a (sequential, replayed on the model: `cache <size> <ops>`): one to three rounds of
//     [fill with distinct live keys (below, up to, or beyond the capacity), Flush, lookups of keys stored before the flush]
//     followed by a last fill of more distinct keys than the capacity. Keys go to the shards evenly, at random, or into a
//     few hot shards (through the key type's hash: shard = (key / 1000) % 64). Len() is read after EVERY store (oracle);
//     the model line samples it now and then (a model Len walks all that happened since the last flush) and at the end,
//     with the eviction victims read back after every store.
// 7b (concurrent): writers store more distinct live keys than the capacity while another goroutine flushes a few times and
//     samplers read Len() and count the entries of a Range. Every shard is within its maximum at every instant, so any sum
//     of shard lengths, however torn, is within the capacity.
//
// Oracles (property statement): "The number of entries never exceeds the configured capacity (with the documented minimum
// of 1024)": Len() / the number of entries a Range visits <= max(size, 1024) at every sample, before and after flushes;
// "a lookup returns either nothing or a value that ... was not ... flushed before the lookup began": a key stored before a
// completed Flush and not stored since is not found.

func c11FlushKey(n int, shard uint64) hkey {
	// distinct for distinct n (n < 64000): the hash is shard + 64 * (n / 1000), the low part n % 1000
	return hkey((shard+64*uint64(n/1000))*1000 + uint64(n%1000))
}

func c11FlushFillParts(r *Run) {
	raceOnly := os.Getenv("VERIF_RACE") == "1"
	// ------------------------------------------------------------------ 7a
	all := []int{-7, 0, 1, 63, 64, 100, 700, 1024, 1025, 1087, 1100, 1500, 2048}
	if r.Thorough() {
		all = append(all, 3000, 4097)
	}
	nh := r.N(7, 30)
	if raceOnly {
		nh = 0
	}
	off := r.Rng.Intn(len(all))
	for hi := 0; hi < nh; hi++ {
		var size int
		switch hi {
		case 0:
			size = []int{-7, 0, 1, 63}[r.Rng.Intn(4)] // below the minimum: the capacity is the documented 1024
		case 1:
			size = []int{1025, 1087, 1100, 1500}[r.Rng.Intn(4)] // not a multiple of the shard count
		default:
			size = all[(off+hi)%len(all)]
		}
		capacity := size
		if capacity < 1024 {
			capacity = 1024
		}
		c := cache.New[hkey, int](cache.Opts{Size: size, CleanerInterval: time.Hour})
		base := time.Now().Add(-100 * time.Second)
		exp := base.Add(700 * time.Second)
		var ops, outs []string
		keys := map[hkey]bool{}
		nextKey := 0
		mode := r.Rng.Intn(3)
		hot := []uint64{uint64(r.Rng.Intn(64)), uint64(r.Rng.Intn(64)), uint64(r.Rng.Intn(64))}
		pick := func() hkey {
			n := nextKey
			nextKey++
			switch mode {
			case 0:
				return c11FlushKey(n, uint64(n%64))
			case 1:
				return c11FlushKey(n, uint64(r.Rng.Intn(64)))
			}
			if r.Rng.Intn(4) == 0 {
				return c11FlushKey(n, uint64(r.Rng.Intn(64)))
			}
			return c11FlushKey(n, hot[r.Rng.Intn(len(hot))])
		}
		flushes, maxLen, stored := 0, 0, 0
		failed := false
		lenOp := func() {
			n := c.Len()
			ops = append(ops, "l")
			outs = append(outs, fmt.Sprintf("len:%d", n))
		}
		store := func() hkey {
			k := pick()
			v := r.Rng.Intn(1000000)
			c.Store(k, v, exp)
			stored++
			after := map[hkey]bool{}
			c.Range(func(k hkey, v int, e time.Time) error { after[k] = true; return nil })
			var victims []string
			for old := range keys {
				if !after[old] && old != k {
					victims = append(victims, fmt.Sprint(uint64(old)))
				}
			}
			sort.Strings(victims)
			keys = after
			ops = append(ops, fmt.Sprintf("s:%d:%d:700000:100000:%s", uint64(k), v, strings.Join(victims, ".")))
			outs = append(outs, "-")
			n := c.Len()
			if n > maxLen {
				maxLen = n
			}
			if n > capacity && !failed {
				failed = true
				r.Fail("the cache holds more entries than its capacity (the configured size, or the documented minimum of 1024 for a smaller one); distinct live keys were stored one by one and Len() read after every store", map[string]any{
					"configured_size": size, "capacity": capacity, "len": n, "flushes_before": flushes,
					"distinct_keys_stored_since_last_flush": stored, "key_placement": []string{"round-robin over the shards", "random shards", "three hot shards"}[mode]})
			}
			return k
		}
		rounds := 1 + r.Rng.Intn(3)
		for rd := 0; rd < rounds; rd++ {
			// before the flush: nothing, a little, up to the capacity, or beyond it
			pre := []int{0, 1 + r.Rng.Intn(200), capacity, capacity + 1 + r.Rng.Intn(300)}[r.Rng.Intn(4)]
			if rd > 0 && pre > 300 {
				pre = r.Rng.Intn(300) // keep the history short: the long fills are the first and the last
			}
			var before []hkey
			for i := 0; i < pre; i++ {
				k := store()
				if len(before) < 4 || r.Rng.Intn(pre) < 4 {
					before = append(before, k)
				}
			}
			lenOp()
			c.Flush()
			flushes++
			stored = 0
			keys = map[hkey]bool{}
			ops = append(ops, "f")
			outs = append(outs, "-")
			lenOp()
			for _, k := range before {
				if len(before) > 8 && r.Rng.Intn(2) == 0 {
					continue
				}
				v, _, ok := c.Get(k)
				out := "miss"
				if ok {
					out = fmt.Sprintf("hit:%d:700000", v)
					r.Fail("a lookup returned a value that had been flushed before the lookup began", map[string]any{"configured_size": size, "key": uint64(k), "flushes_before": flushes})
				}
				ops = append(ops, fmt.Sprintf("g:%d:100000", uint64(k)))
				outs = append(outs, out)
			}
		}
		// after the last flush: more distinct keys than the capacity
		fill := capacity + 1 + r.Rng.Intn(400)
		nextSample := 1 + r.Rng.Intn(150)
		for i := 1; i <= fill; i++ {
			store()
			if i == nextSample || i == capacity+1 || i == fill {
				lenOp()
				nextSample = i + 40 + r.Rng.Intn(200)
			}
		}
		c.Close()
		r.Line(fmt.Sprintf("cache %d %s", size, strings.Join(ops, ",")), strings.Join(outs, ";"))
		r.Eval(fmt.Sprintf("flushfill/%d/%d/%d", size, mode, rounds), maxLen > 0)
		r.Count("fill-after-flush-histories")
		r.Count(fmt.Sprintf("fill-after-flush-size:%d", size))
		r.Trace()
	}
	// ------------------------------------------------------------------ 7b
	crounds := r.N(3, 16)
	for rd := 0; rd < crounds; rd++ {
		size := []int{0, 1100, 2048, 63, 1024, 1500}[(rd+int(r.Seed))%6]
		capacity := size
		if capacity < 1024 {
			capacity = 1024
		}
		c := cache.New[hkey, int](cache.Opts{Size: size, CleanerInterval: 10 * time.Millisecond})
		exp := time.Now().Add(time.Hour)
		writers := 4
		perWriter := (capacity*2)/writers + 100
		nFlush := 1 + r.Rng.Intn(3)
		var done int32
		var over atomic.Value // first offending sample
		var samples int64
		var wg, swg sync.WaitGroup
		c.Flush() // at least one flush has completed before the first store
		for w := 0; w < writers; w++ {
			wg.Add(1)
			seed := r.Rng.Int63()
			go func(w int, seed int64) {
				defer wg.Done()
				x := uint64(seed)
				for i := 0; i < perWriter; i++ {
					x = x*6364136223846793005 + 1442695040888963407
					n := w*perWriter + i
					c.Store(c11FlushKey(n, (x>>33)%64), n, exp)
				}
			}(w, seed)
		}
		// flushes early in the fill: what is stored after the last of them alone exceeds the capacity
		wg.Add(1)
		go func() {
			defer wg.Done()
			for i := 0; i < nFlush; i++ {
				c.Flush()
				time.Sleep(50 * time.Microsecond)
			}
		}()
		for s := 0; s < 2; s++ {
			swg.Add(1)
			go func(s int) {
				defer swg.Done()
				for atomic.LoadInt32(&done) == 0 {
					n, how := 0, "Len()"
					if s == 0 {
						n = c.Len()
					} else {
						how = "entries visited by one Range"
						c.Range(func(hkey, int, time.Time) error { n++; return nil })
					}
					atomic.AddInt64(&samples, 1)
					if n > capacity && over.Load() == nil {
						over.Store(map[string]any{"configured_size": size, "capacity": capacity, "count": n, "read_by": how, "writers": writers, "distinct_keys_per_writer": perWriter, "flushes_during_fill": nFlush})
					}
					runtime.Gosched()
				}
			}(s)
		}
		wg.Wait()
		atomic.StoreInt32(&done, 1)
		swg.Wait()
		final := c.Len()
		c.Close()
		if v := over.Load(); v != nil {
			r.Fail("the cache held more entries than its capacity while distinct live keys were stored by several goroutines after a flush", v)
		} else if final > capacity {
			r.Fail("the cache holds more entries than its capacity after several goroutines stored distinct live keys after a flush", map[string]any{"configured_size": size, "capacity": capacity, "len": final, "writers": writers, "distinct_keys_per_writer": perWriter, "flushes_during_fill": nFlush})
		}
		r.Eval(fmt.Sprintf("flushfill-conc/%d", rd), final > 0)
		r.Count("concurrent-fill-after-flush-rounds")
		r.meta.Dist["concurrent-fill-after-flush-len-samples"] += int(samples)
		r.Trace()
	}
}
