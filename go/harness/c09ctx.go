//go:build pC09 || pall

package main

import (
	"context"
	"crypto/tls"
	"encoding/binary"
	"fmt"
	"io"
	"net"
	"strings"
	"sync"
	"sync/atomic"
	"time"

	"github.com/IrineSistiana/mosdns/v5/pkg/upstream"
	"github.com/IrineSistiana/mosdns/v5/pkg/upstream/transport"
	"github.com/IrineSistiana/mosdns/v5/pkg/utils"
)

// C09, parts 9 and 10.
//
// Part 9: PipelineTransport with callers whose context has already ended
// (cancelled, or past its deadline) when they call: a history of such calls,
// mixed with ordinary ones, on an established connection and on a connection
// that is still dialing. Such a call is one more "failed / cancelled / withdrawn
// query" of the property: afterwards the live connection must admit its full
// limit again (a held burst of limit x live connections queries is carried
// without a further dial) and no later call may hang.
//
// Part 10: the limits as pkg/upstream.NewUpstream configures them. The real
// tcp+pipeline / tls+pipeline upstream against a pipelining server on loopback
// (the tls handshake is delayed, which holds the dial): a burst of up to the
// pipelining limit of concurrent queries, held by the server, must be carried by
// one connection, none of them refused; the same once the connection is
// quiescent again.

// pipeLimit09 is pkg/upstream.pipelineConcurrentLimit: what NewUpstream gives a pipelined tcp / tls
// connection and its queue while dialing (regenerated as Gen.Facts.c09UpstreamPipelineLimits; the guard pins the value).
const pipeLimit09 = 64

func deadCtx09(r *Run) (context.Context, context.CancelFunc, string) {
	if r.Rng.Intn(2) == 0 {
		ctx, cancel := context.WithCancel(context.Background())
		cancel()
		return ctx, cancel, "cancelled"
	}
	ctx, cancel := context.WithDeadline(context.Background(), time.Now().Add(-time.Second))
	return ctx, cancel, "past-deadline"
}

// ---------------------------------------------------------------- part 9

func doneContextCallers09(r *Run) {
	rounds := r.N(8, 80)
	for ri := 0; ri < rounds; ri++ {
		L := 1 + r.Rng.Intn(4) // limit of every connection = queue limit while dialing
		dialing := ri%2 == 1   // the done-context calls arrive while the first connection is dialing
		var mu sync.Mutex
		var srvs []*poolSrv09
		var dials int32
		gate := make(chan struct{})
		if !dialing {
			close(gate)
		}
		t := transport.NewPipelineTransport(transport.PipelineOpts{MaxConcurrentQueryWhileDialing: L, DialContext: func(ctx context.Context) (transport.DnsConn, error) {
			select {
			case <-gate:
			case <-ctx.Done():
				return nil, ctx.Err()
			}
			idx := int(atomic.AddInt32(&dials, 1)) - 1
			fc := newFakeConn(90000+ri*100+idx, true)
			s := newPoolSrv09(fc, true)
			mu.Lock()
			srvs = append(srvs, s)
			mu.Unlock()
			return transport.NewDnsConn(transport.TraditionalDnsConnOpts{WithLengthHeader: true, IdleTimeout: 10 * time.Second, MaxConcurrentQuery: L}, fc), nil
		}})
		live := func() []*poolSrv09 {
			mu.Lock()
			defer mu.Unlock()
			return append([]*poolSrv09(nil), srvs...)
		}
		tagBase := 900000 + ri*1000
		nextTag := 0
		startLive := func() *pcall09 {
			c := startPoolCall09(t.ExchangeContext, tagBase+nextTag)
			nextTag++
			return c
		}
		// a call whose context is already done; returns false if it did not come back
		deadCall := func() (kind string, err error, returned bool) {
			ctx, cancel, kind := deadCtx09(r)
			defer cancel()
			tag := tagBase + nextTag
			nextTag++
			done := make(chan error, 1)
			go func() {
				_, e := t.ExchangeContext(ctx, mkQuery(uint16(tag), tag))
				done <- e
			}()
			select {
			case e := <-done:
				return kind, e, true
			case <-time.After(5 * time.Second):
				return kind, nil, false
			}
		}
		giveUp := func(why string) {
			r.Count("done-ctx:skipped:" + why)
			select {
			case <-gate:
			default:
				close(gate)
			}
			closeT09(t)
		}
		meter := startStallMeter()
		var lbl []string // the history of connection no. 1 in the labels of the composed model
		var told []string
		nDead, nLive := 0, 0
		stuck := false
		if !dialing {
			// connection no. 1 is established by an ordinary query
			c := startLive()
			if !c.wait(5*time.Second) || c.err != nil || atomic.LoadInt32(&dials) != 1 {
				meter.Stop()
				giveUp("not-established")
				continue
			}
			lbl = append(lbl, "l.reserve", "l.enter", "l.dialOk", "l.proceed", "t.enter1", "t.reply", "t.exit0")
			told = append(told, "one answered query establishes connection no. 1")
			steps := L + r.Rng.Intn(2*L+1)
			for st := 0; st < steps && !stuck; st++ {
				if st > 0 && r.Rng.Intn(4) == 0 {
					c := startLive()
					if !c.wait(5*time.Second) || c.err != nil {
						stuck = true
						break
					}
					nLive++
					lbl = append(lbl, "l.reserve", "t.enter1", "t.reply", "t.exit0")
					told = append(told, "answered query")
					continue
				}
				kind, err, ret := deadCall()
				if !ret {
					stuck = true
					break
				}
				nDead++
				if err == nil { // the reply won the race against the context
					lbl = append(lbl, "l.reserve", "t.enter1", "t.reply", "t.exit0")
				} else {
					lbl = append(lbl, "l.reserve", "t.enter1", "t.exit1", "t.stray")
				}
				told = append(told, "query with a "+kind+" context")
				for _, s := range live() {
					s.fc.waitDrained(time.Second)
				}
			}
		} else {
			// the dial is held: some ordinary queries queue up, and calls with a done context come and go
			q := r.Rng.Intn(L) // ordinary queries queued behind the dial (< queue limit)
			var queued []*pcall09
			for i := 0; i < q; i++ {
				queued = append(queued, startLive())
			}
			if q > 0 {
				time.Sleep(time.Duration(1+r.Rng.Intn(3)) * time.Millisecond)
			}
			for i := 0; i < q; i++ {
				lbl = append(lbl, "l.reserve", "l.enter")
			}
			if q > 0 {
				told = append(told, fmt.Sprintf("%d ordinary queries queued while connection no. 1 is dialing", q))
			}
			steps := 1 + r.Rng.Intn(L+1)
			for st := 0; st < steps; st++ {
				kind, _, ret := deadCall()
				if !ret {
					stuck = true
					break
				}
				nDead++
				lbl = append(lbl, "l.reserve", "l.enter", "l.ctxDone")
				told = append(told, "query with a "+kind+" context while dialing")
			}
			close(gate)
			told = append(told, "the dial succeeds")
			lbl = append(lbl, "l.dialOk")
			if !stuck && !waitUntil09(5*time.Second, func() bool { return len(live()) >= 1 }) {
				meter.Stop()
				giveUp("dial-not-finished")
				continue
			}
			for _, c := range queued {
				if !c.wait(5*time.Second) || c.err != nil {
					stuck = true
				}
				lbl = append(lbl, "l.proceed", "t.enter1", "t.reply", "t.exit0")
			}
			// one ordinary query after the dial
			if !stuck {
				c := startLive()
				if !c.wait(5 * time.Second) {
					stuck = true
				} else if c.err == nil {
					nLive++
					lbl = append(lbl, "l.reserve", "t.enter1", "t.reply", "t.exit0")
				}
				told = append(told, "one ordinary query after the dial")
			}
		}
		history := strings.Join(told, "; ")
		desc := map[string]any{"transport": "pipeline", "connection_limit": L, "queue_limit_while_dialing": L, "history": history,
			"calls_with_a_done_context": nDead, "connections_dialed_by_the_history": int(atomic.LoadInt32(&dials))}
		if stuck {
			stall := meter.Stop()
			if stall > time.Second {
				giveUp("stalled")
				continue
			}
			r.Fail("a call did not return within 5 s (its server answers at once): after calls whose context was already done, a live connection below its limit admits nothing", desc)
			r.Count("done-ctx:hung")
			closeT09(t)
			r.Eval(fmt.Sprintf("done-ctx/%d", ri), true)
			r.Trace()
			continue
		}
		// every live connection is quiescent: a held burst of limit x live connections must be carried without a further dial
		lv := live()
		for _, s := range lv {
			s.fc.waitDrained(time.Second)
			s.setAuto(false)
		}
		dialsBefore := int(atomic.LoadInt32(&dials))
		N := L * len(lv)
		var burst []*pcall09
		for i := 0; i < N; i++ {
			burst = append(burst, startLive())
		}
		carried := func() (per []int, total int) {
			for _, s := range live() {
				n, _, _ := s.stats()
				per = append(per, n)
				total += n
			}
			return
		}
		reached := waitUntil09(time.Duration(r.N(3, 5))*time.Second, func() bool { _, tot := carried(); return tot >= N })
		per, tot := carried()
		dialsAfter := int(atomic.LoadInt32(&dials))
		stall := meter.Stop()
		worst := 0
		for _, s := range live() {
			if _, mx, _ := s.stats(); mx > worst {
				worst = mx
			}
		}
		desc["live_connections_before_the_burst"], desc["burst_queries"], desc["carried_per_connection"] = len(lv), N, per
		desc["burst_queries_that_reached_a_server"], desc["connections_dialed_for_the_burst"] = tot, dialsAfter-dialsBefore
		failed := false
		switch {
		case stall > time.Second:
			r.Count("done-ctx:not-judged(stall>1s)")
		case worst > L:
			desc["max_unanswered_on_one_connection"] = worst
			r.Fail("a connection carried more unanswered queries than its limit", desc)
			failed = true
		case dialsAfter > dialsBefore:
			r.Fail("capacity was lost: after calls whose context was already done, quiescent live connections admitted fewer queries than fresh ones (the burst needed an additional connection)", desc)
			failed = true
		case !reached:
			r.Fail("capacity was lost: after calls whose context was already done, quiescent live connections do not admit their limit (burst queries never reached a server; calls hang)", desc)
			failed = true
		}
		if stall <= time.Second && dialsAfter == 1 && len(per) == 1 {
			// the history of the only connection on the composed model; compared: what it admits at the end
			r.Line(fmt.Sprintf("sys %d %d %s", L, L, strings.Join(lbl, "+")), fmt.Sprintf("a:%d", per[0]))
		}
		for _, s := range live() {
			s.setAuto(true)
			s.answer(-1)
		}
		for end := time.Now().Add(time.Second); !failed && len(burst) > 0; {
			left := time.Until(end)
			if left <= 0 {
				break
			}
			if burst[0].wait(left) {
				burst = burst[1:]
			}
		}
		closeT09(t)
		r.Eval(fmt.Sprintf("done-ctx/%d", ri), true)
		r.Count(fmt.Sprintf("done-ctx:while-dialing:%v", dialing))
		r.Count(fmt.Sprintf("done-ctx:calls:%d", nDead))
		r.Trace()
	}
}

// ---------------------------------------------------------------- part 10

// slowConn09 delays the first read of an accepted connection (for tls: the handshake, which holds the client's dial).
type slowConn09 struct {
	net.Conn
	once  sync.Once
	delay time.Duration
}

func (c *slowConn09) Read(p []byte) (int, error) {
	c.once.Do(func() { time.Sleep(c.delay) })
	return c.Conn.Read(p)
}

// upSrv09 is a pipelining tcp / tls dns server on loopback: it keeps every query until `want` queries
// are unanswered (or maxHold has passed), counts unanswered queries per connection.
type upSrv09 struct {
	mu       sync.Mutex
	want     int
	maxHold  time.Duration
	all      chan struct{}
	conns    int
	inflight map[int]int
	maxSeen  map[int]int
	arrived  int
}

func (s *upSrv09) arm(want int) {
	s.mu.Lock()
	s.want, s.arrived, s.all = want, 0, make(chan struct{})
	s.maxSeen = map[int]int{}
	s.mu.Unlock()
}

func (s *upSrv09) serve(l net.Listener, wrap func(net.Conn) net.Conn) {
	for {
		c, err := l.Accept()
		if err != nil {
			return
		}
		s.mu.Lock()
		s.conns++
		no := s.conns
		s.mu.Unlock()
		go s.serveConn(no, wrap(c))
	}
}

func (s *upSrv09) serveConn(no int, c net.Conn) {
	defer c.Close()
	var wm sync.Mutex
	for {
		hdr := make([]byte, 2)
		if _, err := io.ReadFull(c, hdr); err != nil {
			return
		}
		q := make([]byte, binary.BigEndian.Uint16(hdr))
		if _, err := io.ReadFull(c, q); err != nil || len(q) < 12 {
			return
		}
		s.mu.Lock()
		s.arrived++
		s.inflight[no]++
		if s.inflight[no] > s.maxSeen[no] {
			s.maxSeen[no] = s.inflight[no]
		}
		all := s.all
		if s.arrived == s.want {
			close(all)
		}
		s.mu.Unlock()
		go func() {
			select {
			case <-all:
			case <-time.After(s.maxHold):
			}
			s.mu.Lock()
			s.inflight[no]--
			s.mu.Unlock()
			rp := mkReply(q, binary.BigEndian.Uint16(q))
			out := make([]byte, 2+len(rp))
			binary.BigEndian.PutUint16(out, uint16(len(rp)))
			copy(out[2:], rp)
			wm.Lock()
			defer wm.Unlock()
			c.Write(out)
		}()
	}
}

func upstreamPipelineLimits09(r *Run) {
	cert, err := utils.GenerateCertificate("c09.test")
	if err != nil {
		r.Count("upstream-limits:no-certificate")
		return
	}
	kinds := []string{"tls+pipeline", "tcp+pipeline", "tls", "tcp"} // the last two with Opt.EnablePipeline
	rounds := r.N(3, 16)
	for ri := 0; ri < rounds; ri++ {
		kind := kinds[(ri+r.Rng.Intn(2)*2)%len(kinds)]
		if ri < 2 {
			kind = kinds[ri]
		}
		isTLS := strings.HasPrefix(kind, "tls")
		delay := time.Duration(100+r.Rng.Intn(200)) * time.Millisecond // of the server's first read: the tls handshake
		B := pipeLimit09
		if ri >= 2 && r.Rng.Intn(2) == 0 {
			B = pipeLimit09/2 + 1 + r.Rng.Intn(pipeLimit09/2) // 33..64
		}
		inner, err := net.Listen("tcp", "127.0.0.1:0")
		if err != nil {
			r.Count("upstream-limits:no-listener")
			continue
		}
		srv := &upSrv09{maxHold: 3 * time.Second, inflight: map[int]int{}, maxSeen: map[int]int{}}
		srv.arm(B)
		go srv.serve(inner, func(c net.Conn) net.Conn {
			sc := &slowConn09{Conn: c, delay: delay}
			if isTLS {
				return tls.Server(sc, &tls.Config{Certificates: []tls.Certificate{cert}})
			}
			return sc
		})
		u, err := upstream.NewUpstream(kind+"://"+inner.Addr().String(), upstream.Opt{
			TLSConfig: &tls.Config{InsecureSkipVerify: true}, EnablePipeline: !strings.HasSuffix(kind, "+pipeline")})
		if err != nil {
			inner.Close()
			r.Fail("NewUpstream refused a loopback address", map[string]any{"addr": kind + "://" + inner.Addr().String(), "err": fmt.Sprint(err)})
			continue
		}
		burst := func(n, tagBase int) (failed []string, conns int, maxSeen []int, stall time.Duration) {
			meter := startStallMeter()
			ctx, cancel := context.WithTimeout(context.Background(), 10*time.Second)
			defer cancel()
			var wg sync.WaitGroup
			errs := make([]error, n)
			for i := 0; i < n; i++ {
				wg.Add(1)
				go func(i int) {
					defer wg.Done()
					_, errs[i] = u.ExchangeContext(ctx, mkQuery(uint16(i), tagBase+i))
				}(i)
			}
			wg.Wait()
			stall = meter.Stop()
			for _, e := range errs {
				if e != nil {
					failed = append(failed, fmt.Sprint(e))
				}
			}
			srv.mu.Lock()
			conns = srv.conns
			for no := 1; no <= srv.conns; no++ {
				maxSeen = append(maxSeen, srv.maxSeen[no])
			}
			srv.mu.Unlock()
			return
		}
		judge := func(phase string, n int, failed []string, conns int, maxSeen []int, stall time.Duration) bool {
			desc := map[string]any{"upstream": kind + "://127.0.0.1 (pkg/upstream.NewUpstream, Opt.EnablePipeline=" + fmt.Sprint(!strings.HasSuffix(kind, "+pipeline")) + ")",
				"pipelining_limit": pipeLimit09, "phase": phase, "concurrent_queries": n, "server_delays_its_first_read_by": delay.String(),
				"connections_seen_by_the_server": conns, "max_unanswered_per_connection_in_this_phase": maxSeen, "failed_queries": len(failed)}
			if len(failed) > 0 {
				desc["first_error"] = failed[0]
			}
			worst := 0
			for _, m := range maxSeen {
				if m > worst {
					worst = m
				}
			}
			switch {
			case stall > time.Second:
				r.Count("upstream-limits:not-judged(stall>1s)")
				return false
			case worst > pipeLimit09:
				r.Fail("a pipelined connection of the upstream carried more unanswered queries than the pipelining limit", desc)
			case len(failed) > 0:
				r.Fail("queries of a burst not larger than the pipelining limit failed (queued while the connection was dialing, refused once the dial succeeded)", desc)
			case conns != 1:
				r.Fail("a burst not larger than the pipelining limit was not carried by one connection: the connection refused queries below its limit (limit of the connection and limit while dialing as configured by NewUpstream differ)", desc)
			default:
				return true
			}
			return false
		}
		f, c, m, st := burst(B, 950000+ri*1000)
		ok := judge("first burst (the connection is being dialed)", B, f, c, m, st)
		if ok {
			// the connection is quiescent now: the full limit again, on the same connection
			srv.arm(pipeLimit09)
			f, c, m, st = burst(pipeLimit09, 950000+ri*1000+500)
			judge("burst of the pipelining limit on the quiescent connection", pipeLimit09, f, c, m, st)
		}
		u.Close()
		inner.Close()
		r.Eval(fmt.Sprintf("upstream-limits/%s/%d", kind, ri), true)
		r.Count("upstream-limits:" + kind)
		r.Trace()
	}
}
