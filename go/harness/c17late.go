//go:build pC17 || pall

package main

import (
	"bytes"
	"context"
	"encoding/binary"
	"fmt"
	"hash/fnv"
	"io"
	"net"
	"sort"
	"strings"
	"sync"
	"time"

	"github.com/IrineSistiana/mosdns/v5/pkg/upstream"
)

// C17, well-formed traffic: reply shapes and reply timing.
//
// The queries here are well-formed DNS queries (one question, optionally an
// OPT record). Two scenarios share one server type (srv17q, UDP+TCP on one
// loopback port):
//
//   - shapes: the UDP reply is one of the shapes real servers send: a bare
//     12-byte header (QDCOUNT=0), header + OPT (QDCOUNT=0), header + trailing
//     bytes, the question echoed (as is / 0x20 case flipped / with an answer
//     record). Every shape x TC set/clear x TCP side {ans, close}. The property
//     quantifies over all replies: a TC reply of any shape must lead to the TCP
//     retry, a reply without TC must come back unchanged with no TCP connection.
//
//   - late replies: sequences of truncated queries on one upstream in which the
//     TCP side holds the reply to a query back until the caller's context has
//     ended, and writes it only when the next query has arrived over TCP (or
//     after a pause before the next query). Every TCP reply of the server is a
//     function of the whole query (id, question, a checksum), so "the TCP reply
//     is what the caller gets" is checked as: the caller gets exactly the
//     server's TCP reply to ITS query, never the late reply to an earlier one.

type held17 struct {
	c     net.Conn
	frame []byte
	no    int
}

type srv17q struct {
	mu        sync.Mutex
	wmu       sync.Mutex
	udpConn   *net.UDPConn
	tcpL      net.Listener
	tag       byte
	shape     string
	f0, f1    byte
	tcpMode   string          // ans | close
	tcpSize   int             // 0: the natural TCP reply (tcpReply17); else a reply of exactly this many bytes (tcpReplySized17)
	lateFor   map[string]bool // queries (hex) whose TCP reply is held back
	held      []held17
	udpSeen   int
	tcpConns  int
	tcpSeen   [][]byte
	tcpConnOf []int // connection number each seen query arrived on
	all       []net.Conn
	qno       map[string]int   // query (hex) -> its number within the current upstream's history
	ev        map[int][]string // per connection number: t<k> query k read, g its caller gave up, r a reply written
}

func newSrv17q(tag byte) (*srv17q, string) {
	for try := 0; try < 50; try++ {
		l, err := net.Listen("tcp", "127.0.0.1:0")
		if err != nil {
			fatal(err)
		}
		port := l.Addr().(*net.TCPAddr).Port
		uc, err := net.ListenUDP("udp", &net.UDPAddr{IP: net.IPv4(127, 0, 0, 1), Port: port})
		if err != nil {
			l.Close()
			continue
		}
		s := &srv17q{udpConn: uc, tcpL: l, tag: tag, shape: "hdr", tcpMode: "ans", lateFor: map[string]bool{}, qno: map[string]int{}, ev: map[int][]string{}}
		go s.serveUDP()
		go s.serveTCP()
		return s, fmt.Sprintf("127.0.0.1:%d", port)
	}
	fatal(fmt.Errorf("cannot bind a UDP+TCP port pair"))
	return nil, ""
}

func (s *srv17q) close() {
	s.udpConn.Close()
	s.tcpL.Close()
	s.mu.Lock()
	for _, c := range s.all {
		c.Close()
	}
	s.mu.Unlock()
}

// questionEnd17 returns the offset behind the first question of m (0 if malformed).
func questionEnd17(m []byte) int {
	i := 12
	for i < len(m) && m[i] != 0 {
		i += int(m[i]) + 1
	}
	i += 5
	if i > len(m) {
		return 0
	}
	return i
}

var shapes17 = []string{"hdr", "hdr+opt", "hdr+pad", "echo", "echo-0x20", "echo+ans"}

// udpReply17 builds the UDP reply of the given shape to query q.
func udpReply17(q []byte, shape string, f0, f1 byte) []byte {
	r := make([]byte, 12, 64)
	copy(r, q[:2])
	r[2], r[3] = f0, f1
	qe := questionEnd17(q)
	switch shape {
	case "hdr":
	case "hdr+opt":
		r[11] = 1
		r = append(r, 0, 0, 41, 0x04, 0xd0, 0, 0, 0, 0, 0, 0)
	case "hdr+pad":
		r = append(r, 0xde, 0xad, 0xbe, 0xef, 0, 1, 2)
	case "echo", "echo-0x20", "echo+ans":
		r[5] = 1
		qs := append([]byte(nil), q[12:qe]...)
		if shape == "echo-0x20" {
			for i := 0; i < len(qs)-5; i++ {
				if c := qs[i] | 0x20; c >= 'a' && c <= 'z' {
					qs[i] ^= 0x20
				}
			}
		}
		r = append(r, qs...)
		if shape == "echo+ans" {
			r[7] = 1
			r = append(r, 0xc0, 12, 0, 1, 0, 1, 0, 0, 0, 60, 0, 4, 192, 0, 2, 1)
		}
	}
	return r
}

// tcpReply17 is the server's TCP reply to q: a function of the whole query.
func tcpReply17(q []byte, tag byte) []byte {
	qe := questionEnd17(q)
	if qe == 0 {
		qe = 12
	}
	h := fnv.New32a()
	h.Write(q)
	txt := fmt.Sprintf("tcp %c %08x", tag, h.Sum32())
	r := make([]byte, 12, 96)
	copy(r, q[:2])
	r[2], r[3] = 0x80|(q[2]&1), 0x80
	if qe > 12 {
		r[5] = 1
		r = append(r, q[12:qe]...)
	}
	r[7] = 1
	r = append(r, 0xc0, 12, 0, 16, 0, 1, 0, 0, 0, 1, 0, byte(len(txt)+1), byte(len(txt)))
	r = append(r, txt...)
	return r
}

// tcpReplySized17 is the server's TCP reply of exactly size bytes (12..65535) to q:
// the query's id, QR (+RD), the question and one NULL record whose RDATA fills the
// rest when there is room for them, else a header followed by bytes; every byte
// behind the header is a function of the whole query and of size.
func tcpReplySized17(q []byte, tag byte, size int) []byte {
	qe := questionEnd17(q)
	if qe == 0 {
		qe = 12
	}
	h := fnv.New32a()
	h.Write(q)
	h.Write([]byte{tag, byte(size >> 8), byte(size)})
	x := h.Sum32() | 1
	r := make([]byte, 12, size)
	copy(r, q[:2])
	r[2], r[3] = 0x80|(q[2]&1), 0x80
	if size >= qe+12 {
		r[5], r[7] = 1, 1
		r = append(r, q[12:qe]...)
		rd := size - qe - 12
		r = append(r, 0xc0, 12, 0, 10, 0, 1, 0, 0, 0, 1, byte(rd>>8), byte(rd))
	}
	for len(r) < size {
		x ^= x << 13
		x ^= x >> 17
		x ^= x << 5
		r = append(r, byte(x>>11))
	}
	return r
}

func (s *srv17q) serveUDP() {
	buf := make([]byte, 65535)
	for {
		n, addr, err := s.udpConn.ReadFromUDP(buf)
		if err != nil {
			return
		}
		if n < 12 || questionEnd17(buf[:n]) == 0 {
			continue
		}
		s.mu.Lock()
		s.udpSeen++
		r := udpReply17(buf[:n], s.shape, s.f0, s.f1)
		s.mu.Unlock()
		s.udpConn.WriteToUDP(r, addr)
	}
}

// release writes every held reply (in the order the queries arrived).
func (s *srv17q) release() int {
	s.mu.Lock()
	h := s.held
	s.held = nil
	s.mu.Unlock()
	s.wmu.Lock()
	for _, x := range h {
		s.mu.Lock()
		s.ev[x.no] = append(s.ev[x.no], "r")
		s.mu.Unlock()
		x.c.Write(x.frame)
	}
	s.wmu.Unlock()
	return len(h)
}

func (s *srv17q) serveTCP() {
	for {
		c, err := s.tcpL.Accept()
		if err != nil {
			return
		}
		s.mu.Lock()
		s.tcpConns++
		no := s.tcpConns
		s.all = append(s.all, c)
		s.mu.Unlock()
		go func() {
			defer c.Close()
			for {
				var h [2]byte
				if _, err := io.ReadFull(c, h[:]); err != nil {
					return
				}
				q := make([]byte, binary.BigEndian.Uint16(h[:]))
				if _, err := io.ReadFull(c, q); err != nil {
					return
				}
				if len(q) < 12 {
					return
				}
				s.mu.Lock()
				size := s.tcpSize
				s.mu.Unlock()
				r := tcpReply17(q, s.tag)
				if size != 0 {
					r = tcpReplySized17(q, s.tag, size)
				}
				frame := append([]byte{byte(len(r) >> 8), byte(len(r))}, r...)
				s.mu.Lock()
				s.tcpSeen = append(s.tcpSeen, q)
				s.tcpConnOf = append(s.tcpConnOf, no)
				if k, known := s.qno[hx(q)]; known {
					s.ev[no] = append(s.ev[no], fmt.Sprintf("t%d", k))
				}
				mode := s.tcpMode
				late := s.lateFor[hx(q)]
				if late {
					s.held = append(s.held, held17{c, frame, no})
				}
				s.mu.Unlock()
				if late {
					continue // the reply is owed; keep reading this connection
				}
				// a query whose reply is not held: everything owed is written first
				s.release()
				if mode == "close" {
					return
				}
				s.wmu.Lock()
				s.mu.Lock()
				s.ev[no] = append(s.ev[no], "r")
				s.mu.Unlock()
				c.Write(frame)
				s.wmu.Unlock()
			}
		}()
	}
}

func (s *srv17q) snapq() (udp, conns, seen int) {
	s.mu.Lock()
	defer s.mu.Unlock()
	return s.udpSeen, s.tcpConns, len(s.tcpSeen)
}

// query17 builds a well-formed query: one question, optionally an OPT record.
func query17(r *Run) []byte {
	q := make([]byte, 12, 80)
	binary.BigEndian.PutUint16(q, r.U16())
	q[2] = byte(r.Rng.Intn(2))      // RD
	q[3] = byte(r.Rng.Intn(4)) << 4 // AD / CD
	q[5] = 1
	for l, nl := 0, 1+r.Rng.Intn(4); l < nl; l++ {
		n := 1 + r.Rng.Intn(10)
		q = append(q, byte(n))
		for i := 0; i < n; i++ {
			c := byte('a' + r.Rng.Intn(26))
			if r.Rng.Intn(4) == 0 {
				c -= 0x20
			}
			q = append(q, c)
		}
	}
	q = append(q, 0, 0, []byte{1, 28, 16, 15, 65}[r.Rng.Intn(5)], 0, 1)
	if r.Rng.Intn(2) == 0 {
		q[11] = 1
		q = append(q, 0, 0, 41, 0x04, 0xd0, 0, 0, byte(r.Rng.Intn(2))<<7, 0, 0, 0)
	}
	return q
}

// classify17 says which of the server's replies resp is.
func classify17(q []byte, resp *[]byte, err error, s *srv17q, shape string, f0, f1 byte) string {
	switch {
	case err != nil || resp == nil:
		return "err"
	case bytes.Equal(*resp, tcpReply17(q, s.tag)):
		return "tcp"
	case bytes.Equal(*resp, udpReply17(q, shape, f0, f1)):
		return "udp"
	}
	return "other"
}

func runC17Shapes(r *Run) {
	srv, addr := newSrv17q('Q')
	defer srv.close()
	u, err := upstream.NewUpstream("udp://"+addr, upstream.Opt{})
	if err != nil {
		fatal(err)
	}
	defer u.Close()

	type kase struct {
		shape  string
		f0, f1 byte
		tcp    string
	}
	var cases []kase
	for rep, nrep := 0, r.N(1, 8); rep < nrep; rep++ {
		for _, sh := range shapes17 {
			for _, tc := range []bool{true, false} {
				for _, m := range []string{"ans", "close"} {
					if !tc && m == "close" && r.Rng.Intn(2) == 0 {
						continue
					}
					f0 := byte(r.Rng.Intn(256)) &^ 2
					if r.Rng.Intn(2) == 0 {
						f0 = 0x80 | f0&1 // the usual: QR (+RD), opcode 0
					}
					if tc {
						f0 |= 2
					}
					f1 := byte(r.Rng.Intn(256))
					if r.Rng.Intn(2) == 0 {
						f1 = []byte{0, 0x80, 0x85, 0x81, 0x84}[r.Rng.Intn(5)] // NOERROR / REFUSED / FORMERR / NOTIMP
					}
					cases = append(cases, kase{sh, f0, f1, m})
				}
			}
		}
	}
	r.Rng.Shuffle(len(cases), func(i, j int) { cases[i], cases[j] = cases[j], cases[i] })
	fails := 0
	for _, k := range cases {
		if fails >= 3 {
			break // every further case would wait for its context again
		}
		srv.mu.Lock()
		srv.shape, srv.f0, srv.f1, srv.tcpMode = k.shape, k.f0, k.f1, k.tcp
		srv.mu.Unlock()
		_, c0, n0 := srv.snapq()
		q := query17(r)
		q0 := append([]byte(nil), q...)
		ctx, cancel := context.WithTimeout(context.Background(), 3*time.Second)
		resp, err := u.ExchangeContext(ctx, q)
		cancel()
		udpN, c1, n1 := srv.snapq()
		srv.mu.Lock()
		seen := append([][]byte(nil), srv.tcpSeen[n0:]...)
		srv.mu.Unlock()
		what := classify17(q0, resp, err, srv, k.shape, k.f0, k.f1)
		tc := k.f0&2 != 0
		sameQ := false
		for _, b := range seen {
			sameQ = sameQ || bytes.Equal(b, q0)
		}
		tcpUsed := b01(c1 > c0 || n1 > n0)
		desc := map[string]any{"scenario": "reply shapes", "udp_reply_shape": k.shape, "udp_reply": hx(udpReply17(q0, k.shape, k.f0, k.f1)), "tcp_side": k.tcp,
			"query": hx(q0), "got": what, "err": fmt.Sprint(err), "udp_queries_seen_total": udpN, "tcp_saw_queries": len(seen), "tcp_new_conns": c1 - c0}
		if resp != nil && err == nil {
			desc["reply"] = hx(*resp)
		}
		nf := r.meta.Dist["ORACLE-FAIL"]
		switch {
		case tc && k.tcp == "ans":
			if what != "tcp" {
				r.Fail("UDP reply had TC set and TCP answers, but the caller did not get the TCP reply to its query", desc)
			} else if !sameQ {
				r.Fail("the query sent over TCP is not the same query", desc)
			}
		case tc:
			if what != "err" {
				r.Fail("UDP reply had TC set and the TCP exchange failed, but the caller got a reply instead of the error", desc)
			} else if !sameQ {
				r.Fail("UDP reply had TC set, but the same query did not arrive over TCP", desc)
			}
		default:
			if what != "udp" {
				r.Fail("UDP reply without TC was not returned to the caller as it is", desc)
			}
			if tcpUsed == "1" {
				r.Fail("a TCP connection was opened / used for a reply without TC", desc)
			}
		}
		if r.meta.Dist["ORACLE-FAIL"] > nf {
			fails++
		}
		m := "ans"
		if k.tcp != "ans" {
			m = "fail"
		}
		r.Line(fmt.Sprintf("xchg %02x%02x%02x%02x %s 1", q0[0], q0[1], k.f0, k.f1, m), what+" "+tcpUsed)
		r.Eval(fmt.Sprintf("shape/%s/%02x%02x/%s", k.shape, k.f0, k.f1, k.tcp), true)
		r.Count("shape:" + k.shape + ",tc=" + b01(tc))
	}
}

// runC17TcpSizes: the TCP reply to a truncated query has every legal size. A TCP
// frame announces its size in 16 bits, so replies of 13..65535 bytes can arrive;
// the property ("the TCP reply is what the caller gets", over replies of any
// size) asks for exactly those bytes back. Sizes: the boundaries around the
// header, the classic UDP limit, a page, the 16-bit maximum, and seeded ones.
func runC17TcpSizes(r *Run) {
	srv, addr := newSrv17q('Z')
	defer srv.close()
	opt := upstream.Opt{}
	if r.Rng.Intn(2) == 0 {
		opt.IdleTimeout = time.Duration(2+r.Rng.Intn(20)) * time.Second
	}
	u, err := upstream.NewUpstream("udp://"+addr, opt)
	if err != nil {
		fatal(err)
	}
	defer u.Close()
	sizes := []int{12, 13, 14, 511, 512, 513, 1232, 4095, 4096, 4097, 16383, 16384, 32767, 32768, 65533, 65534, 65535}
	for i, n := 0, r.N(8, 200); i < n; i++ {
		switch r.Rng.Intn(3) {
		case 0:
			sizes = append(sizes, 13+r.Rng.Intn(65535-12))
		case 1:
			sizes = append(sizes, 65535-r.Rng.Intn(64))
		default:
			sizes = append(sizes, 1<<uint(4+r.Rng.Intn(12))-1+r.Rng.Intn(3))
		}
	}
	r.Rng.Shuffle(len(sizes), func(i, j int) { sizes[i], sizes[j] = sizes[j], sizes[i] })
	fails := 0
	for _, size := range sizes {
		if fails >= 3 {
			break
		}
		shape := shapes17[r.Rng.Intn(len(shapes17))]
		f0, f1 := byte(0x82), byte(0)
		if r.Rng.Intn(3) == 0 {
			f0, f1 = byte(r.Rng.Intn(256))|2, byte(r.Rng.Intn(256))
		}
		srv.mu.Lock()
		srv.shape, srv.f0, srv.f1, srv.tcpMode, srv.tcpSize = shape, f0, f1, "ans", size
		n0 := len(srv.tcpSeen)
		c0 := srv.tcpConns
		srv.mu.Unlock()
		q := query17(r)
		q0 := append([]byte(nil), q...)
		ctx, cancel := context.WithTimeout(context.Background(), 5*time.Second)
		resp, err := u.ExchangeContext(ctx, q)
		cancel()
		srv.mu.Lock()
		seen := append([][]byte(nil), srv.tcpSeen[n0:]...)
		c1 := srv.tcpConns
		srv.mu.Unlock()
		want := tcpReplySized17(q0, srv.tag, size)
		what := "other"
		switch {
		case err != nil || resp == nil:
			what = "err"
		case bytes.Equal(*resp, want):
			what = "tcp"
		case bytes.Equal(*resp, udpReply17(q0, shape, f0, f1)):
			what = "udp"
		}
		sameQ := false
		for _, b := range seen {
			sameQ = sameQ || bytes.Equal(b, q0)
		}
		desc := map[string]any{"scenario": "TCP reply sizes", "tcp_reply_size": size, "udp_reply_shape": shape, "udp_reply": hx(udpReply17(q0, shape, f0, f1)),
			"query": hx(q0), "got": what, "err": fmt.Sprint(err), "tcp_saw_queries": len(seen), "tcp_new_conns": c1 - c0,
			"tcp_reply_head": hx(want[:min(len(want), 48)])}
		if resp != nil && err == nil {
			desc["reply_size"] = len(*resp)
			desc["reply_head"] = hx((*resp)[:min(len(*resp), 48)])
			for j := 0; j < len(*resp) && j < len(want); j++ {
				if (*resp)[j] != want[j] {
					desc["first_difference_at"] = j
					break
				}
			}
		}
		if size <= 12 {
			// a bare 12-byte header (e.g. FORMERR / REFUSED without a question) is a reply like any other;
			// the frame reader refused it until F18 was repaired
			r.Count("tcpsize:12->" + what)
		}
		nf := r.meta.Dist["ORACLE-FAIL"]
		if what != "tcp" {
			r.Fail(fmt.Sprintf("UDP reply had TC set and the TCP side answered with a reply of %d bytes, but the caller did not get that reply byte for byte", size), desc)
		} else if !sameQ {
			r.Fail("the query sent over TCP is not the same query", desc)
		}
		if r.meta.Dist["ORACLE-FAIL"] > nf {
			fails++
		}
		r.Line(fmt.Sprintf("xchg %02x%02x%02x%02x ans 1", q0[0], q0[1], f0, f1), what+" "+b01(c1 > c0 || len(seen) > 0))
		r.Eval(fmt.Sprintf("tcpsize/%d/%s", size, shape), true)
		switch {
		case size >= 65534:
			r.Count("tcpsize:65534..65535")
		case size > 4096:
			r.Count("tcpsize:4097..65533")
		default:
			r.Count("tcpsize:13..4096")
		}
	}
	srv.mu.Lock()
	srv.tcpSize = 0
	srv.mu.Unlock()
}

func runC17Late(r *Run) {
	srv, addr := newSrv17q('L')
	defer srv.close()
	nUp := r.N(6, 60)
	fails := 0
	for i := 0; i < nUp && fails < 3; i++ {
		opt := upstream.Opt{}
		if r.Rng.Intn(3) == 0 {
			opt.IdleTimeout = time.Duration(2+r.Rng.Intn(20)) * time.Second
		}
		u, err := upstream.NewUpstream("udp://"+addr, opt)
		if err != nil {
			fatal(err)
		}
		var hist []string
		owed := 0                 // held replies not yet released
		var qs [][]byte           // the queries of this upstream, by number
		got := map[int][]string{} // per connection: <k of the caller>:<k the reply it got answers>
		gaveUp := map[int]bool{}
		connLines := true // false when an event could not be placed in a connection's history
		srv.mu.Lock()
		srv.qno, srv.ev = map[string]int{}, map[int][]string{}
		srv.mu.Unlock()
		for x, nx := 0, 3+r.Rng.Intn(4); x < nx; x++ {
			// the first two steps are always "late, then a truncated query at once"
			late := x == 0 || (x > 1 && r.Rng.Intn(3) == 0)
			tc := late || x == 1 || r.Rng.Intn(4) != 0
			shape := shapes17[r.Rng.Intn(len(shapes17))]
			f0, f1 := byte(0x80), byte(0)
			if tc {
				f0 |= 2
			}
			q := query17(r)
			q0 := append([]byte(nil), q...)
			srv.mu.Lock()
			srv.shape, srv.f0, srv.f1, srv.tcpMode = shape, f0, f1, "ans"
			if late {
				srv.lateFor[hx(q0)] = true
			}
			srv.qno[hx(q0)] = x
			qs = append(qs, q0)
			n0 := len(srv.tcpSeen)
			c0 := srv.tcpConns
			srv.mu.Unlock()

			to := 4 * time.Second
			if late {
				to = time.Duration(150+r.Rng.Intn(200)) * time.Millisecond
			}
			ctx, cancel := context.WithTimeout(context.Background(), to)
			resp, err := u.ExchangeContext(ctx, q)
			cancel()

			srv.mu.Lock()
			seen := append([][]byte(nil), srv.tcpSeen[n0:]...)
			connOf := append([]int(nil), srv.tcpConnOf[n0:]...)
			c1 := srv.tcpConns
			nHeld := len(srv.held)
			myConn := 0
			for j, b := range seen {
				if bytes.Equal(b, q0) {
					myConn = connOf[j]
				}
			}
			switch {
			case !tc:
			case late && err != nil:
				gaveUp[x] = true // the caller stopped waiting; its query may have been written on several connections (retries)
			case !late && err == nil && resp != nil && myConn != 0:
				ans := "?"
				for k, qq := range qs {
					if bytes.Equal(*resp, tcpReply17(qq, srv.tag)) {
						ans = fmt.Sprint(k)
					}
				}
				got[myConn] = append(got[myConn], fmt.Sprintf("%d:%s", x, ans))
			default:
				connLines = false
			}
			srv.mu.Unlock()
			what := classify17(q0, resp, err, srv, shape, f0, f1)
			step := fmt.Sprintf("#%d %s tc=%s late=%s ctx=%s -> %s (tcp queries %d on conns %v, new conns %d, replies owed before %d)", x, hx(q0[:2]), b01(tc), b01(late), to, what, len(seen), connOf, c1-c0, owed)
			hist = append(hist, step)
			desc := map[string]any{"scenario": "late TCP replies", "upstream_no": i, "steps": append([]string(nil), hist...), "query": hx(q0), "udp_reply_shape": shape, "got": what, "err": fmt.Sprint(err)}
			if resp != nil && err == nil {
				desc["reply"] = hx(*resp)
				desc["tcp_reply_of_the_server_to_this_query"] = hx(tcpReply17(q0, srv.tag))
			}
			nf := r.meta.Dist["ORACLE-FAIL"]
			sameQ := false
			for _, b := range seen {
				sameQ = sameQ || bytes.Equal(b, q0)
			}
			switch {
			case late:
				// the caller's context ends before the server answers: an error is the
				// expected outcome; whatever is returned must not be a foreign reply
				if what == "other" || what == "udp" {
					r.Fail("UDP reply had TC set: the caller got something else than the TCP reply to its query", desc)
				}
			case tc:
				if what != "tcp" {
					r.Fail("UDP reply had TC set and TCP answers, but the caller did not get the TCP reply to its query (an earlier query's context had ended with its TCP reply outstanding)", desc)
				} else if !sameQ {
					r.Fail("the query sent over TCP is not the same query", desc)
				}
				r.Line(fmt.Sprintf("xchg %02x%02x%02x%02x ans 1", q0[0], q0[1], f0, f1), what+" "+b01(sameQ))
			default:
				if what != "udp" {
					r.Fail("UDP reply without TC was not returned to the caller as it is", desc)
				}
				// queries of earlier callers that gave up may still arrive over TCP now: only this query counts
				if sameQ {
					r.Fail("a TCP connection was used for a reply without TC", desc)
				}
				r.Line(fmt.Sprintf("xchg %02x%02x%02x%02x ans 1", q0[0], q0[1], f0, f1), what+" "+b01(sameQ))
			}
			if r.meta.Dist["ORACLE-FAIL"] > nf {
				fails++
			}
			r.Eval(fmt.Sprintf("late/%d/%d/%v/%v/%d", i, x, tc, late, owed), true)
			r.Count(fmt.Sprintf("late:tc=%s,late=%s,owed=%s", b01(tc), b01(late), b01(owed > 0)))
			owed = nHeld
			// a held reply is written when the next query arrives over TCP; sometimes it is
			// written now (followed by a pause or not), and always before a query that
			// will not reach the TCP side could leave it unwritten for ever
			if owed > 0 && x > 0 && r.Rng.Intn(3) == 0 {
				srv.release()
				owed = 0
				if r.Rng.Intn(2) == 0 {
					time.Sleep(time.Duration(5+r.Rng.Intn(40)) * time.Millisecond)
				}
			}
		}
		srv.release()
		u.Close()
		// ---- model lines: each connection's life as the server saw it, against the connection model
		if connLines {
			srv.mu.Lock()
			var nos []int
			for no := range srv.ev {
				nos = append(nos, no)
			}
			sort.Ints(nos)
			// a caller that gave up did so after its query was written and before the held reply was
			// written: its g follows its t on every connection the query was written on
			lines := map[int][]string{}
			where := map[string]int{}
			for _, no := range nos {
				for _, e := range srv.ev[no] {
					lines[no] = append(lines[no], e)
					if e[0] != 't' {
						continue
					}
					var k int
					fmt.Sscanf(e, "t%d", &k)
					if gaveUp[k] {
						lines[no] = append(lines[no], "g")
					} else if where[e]++; where[e] > 1 {
						connLines = false // a query that was answered was written on two connections: whose reply is whose is not observable
					}
				}
			}
			for _, no := range nos {
				if !connLines {
					break
				}
				out := "-"
				if len(got[no]) > 0 {
					out = strings.Join(got[no], ",")
				}
				r.Line("tcpconn "+strings.Join(lines[no], " "), out)
			}
			srv.mu.Unlock()
		} else {
			r.Count("late:connection-history-incomplete")
		}
	}
}
