//go:build pC17 || pall

package main

import (
	"bytes"
	"context"
	"encoding/binary"
	"fmt"
	"os"
	"strconv"
	"strings"
	"syscall"
	"time"

	"github.com/IrineSistiana/mosdns/v5/pkg/upstream"
)

// C17, fault sequences on the UDP side: "the same query is sent again over TCP".
//
// The upstream is the real one (NewUpstream("udp://...")) over kernel sockets
// on loopback. Between exchanges the harness makes the upstream's own
// connected UDP socket(s) unwritable: it finds them among the descriptors of
// this process (datagram sockets whose peer is the server's port) and calls
// shutdown(SHUT_WR) on them, after which the kernel fails every send on that
// socket (EPIPE) - what a connected datagram socket also does on a pending
// ICMP error, ENOBUFS, EPERM or ENETUNREACH. Reading is unaffected. The
// pipeline transport then repeats the query on a new socket; the reply to
// that retry has TC set or not. Whatever the UDP side went through, the oracle
// is the property's: a TC reply makes the caller's query (byte for byte, as it
// was handed in) arrive over TCP at the same server and the TCP reply (with the
// caller's id) is what the caller gets; a reply without TC is returned as it is
// with no TCP connection.

// udpClientSocks17 lists descriptors of this process that are datagram sockets
// connected to 127.0.0.1:port.
func udpClientSocks17(port int) []int {
	ents, err := os.ReadDir("/proc/self/fd")
	if err != nil {
		return nil
	}
	var fds []int
	for _, e := range ents {
		fd, err := strconv.Atoi(e.Name())
		if err != nil || fd < 3 {
			continue
		}
		if t, err := syscall.GetsockoptInt(fd, syscall.SOL_SOCKET, syscall.SO_TYPE); err != nil || t != syscall.SOCK_DGRAM {
			continue
		}
		sa, err := syscall.Getpeername(fd)
		if err != nil {
			continue
		}
		if a, ok := sa.(*syscall.SockaddrInet4); ok && a.Port == port && a.Addr == [4]byte{127, 0, 0, 1} {
			fds = append(fds, fd)
		}
	}
	return fds
}

func runC17WriteFault(r *Run) {
	nUp := r.N(10, 120)
	injected, retried := 0, 0
	for i := 0; i < nUp; i++ {
		srv, addr := newSrv17(true)
		srv.tag = 'F'
		port, _ := strconv.Atoi(addr[strings.LastIndexByte(addr, ':')+1:])
		url := addr
		if r.Rng.Intn(2) == 0 {
			url = "udp://" + addr
		}
		u, err := upstream.NewUpstream(url, upstream.Opt{})
		if err != nil {
			fatal(err)
		}
		var hist []string // what happened on this upstream so far (part of the failing input)
		sent := 0         // queries this upstream has been given so far
		for round, nRounds := 0, 1+r.Rng.Intn(3); round < nRounds; round++ {
			// ---- ordinary traffic: the socket becomes a reused one and its id counter moves on
			warm := r.Rng.Intn(6)
			if round == 0 && warm == 0 {
				warm = 1
			}
			okWarm := true
			for w := 0; w < warm; w++ {
				srv.mu.Lock()
				srv.flags, srv.size, srv.tcpMode = [2]byte{byte(r.Rng.Intn(256)) &^ 2, byte(r.Rng.Intn(256))}, 12+r.Rng.Intn(200), "ans"
				srv.mu.Unlock()
				q := make([]byte, 12+r.Rng.Intn(40))
				r.Rng.Read(q)
				q[2] &^= 0x80
				ctx, cancel := context.WithTimeout(context.Background(), 4*time.Second)
				_, err := u.ExchangeContext(ctx, q)
				cancel()
				sent++
				if err != nil {
					okWarm = false
				}
			}
			hist = append(hist, fmt.Sprintf("%d plain exchanges", warm))
			if !okWarm {
				r.Count("fault:warm-up-failed")
				break
			}
			// ---- the fault: sends on the upstream's UDP socket(s) fail from now on
			fault := r.Rng.Intn(8) != 0
			nSock := 0
			if fault {
				for _, fd := range udpClientSocks17(port) {
					if syscall.Shutdown(fd, syscall.SHUT_WR) == nil {
						nSock++
					}
				}
				hist = append(hist, fmt.Sprintf("shutdown(SHUT_WR) on %d connected UDP socket(s) of the upstream", nSock))
				if nSock > 0 {
					injected++
				}
			}
			// ---- the exchange under observation
			f0, f1 := byte(r.Rng.Intn(256)), byte(r.Rng.Intn(256))
			if r.Rng.Intn(4) != 0 {
				f0 |= 2
			} else {
				f0 &^= 2
			}
			tc := f0&2 != 0
			mode := "ans"
			if r.Rng.Intn(6) == 0 {
				mode = "close"
			}
			size := []int{12, 13, 100, 512, 1232}[r.Rng.Intn(5)]
			srv.mu.Lock()
			srv.flags, srv.size, srv.tcpMode = [2]byte{f0, f1}, size, mode
			srv.mu.Unlock()
			s0 := srv.snap()

			q := make([]byte, 12+r.Rng.Intn(40))
			r.Rng.Read(q)
			id := r.U16()
			if r.Rng.Intn(4) == 0 {
				id = uint16(r.Rng.Intn(8)) // ids in the range connection-local counters are in
			}
			binary.BigEndian.PutUint16(q, id)
			q[2] &^= 0x80
			orig := append([]byte(nil), q...)
			t0 := time.Now()
			ctx, cancel := context.WithTimeout(context.Background(), 4*time.Second)
			resp, err := u.ExchangeContext(ctx, q)
			cancel()
			took := time.Since(t0)
			sent++

			s1 := srv.snap()
			srv.mu.Lock()
			seen := append([][]byte(nil), srv.tcpSeen[s0.seen:]...)
			srv.mu.Unlock()
			if nSock > 0 && s1.udp > s0.udp {
				retried++
			}

			what := "err"
			if err == nil && resp != nil && len(*resp) >= 12 {
				switch string((*resp)[4:12]) {
				case "UDPREPLY":
					what = "udp"
				case "TCPREPLY":
					what = "tcp"
				default:
					what = "other"
				}
			}
			tcpUsed := s1.conns > s0.conns || len(seen) > 0
			var seenHex []string
			for _, b := range seen {
				seenHex = append(seenHex, hx(b))
			}
			respHex := ""
			if err == nil && resp != nil {
				respHex = hx(*resp)
			}
			desc := map[string]any{"upstream": url, "before": strings.Join(hist, "; "), "udp_reply_flags": fmt.Sprintf("%02x%02x", f0, f1), "udp_reply_size": size, "tcp_side": mode,
				"query": hx(orig), "query_buffer_after": hx(q), "got": what, "reply": respHex, "err": fmt.Sprint(err),
				"udp_queries_at_server": s1.udp - s0.udp, "tcp_new_conns": s1.conns - s0.conns, "tcp_saw": seenHex}
			r.Eval(fmt.Sprintf("fault/%d/%v/%02x%02x/%d/%s/%s", sent, nSock > 0, f0, f1, size, mode, hx(orig[:2])), true)
			r.Count(fmt.Sprintf("fault:write-fails=%s,tc=%s,tcp=%s", b01(nSock > 0), b01(tc), mode))

			// ---- oracle. The server answered a UDP query of this exchange iff s1.udp > s0.udp; every
			// reply it sent carried the flags above, so that is "the reply the upstream receives".
			gotUDPReply := s1.udp > s0.udp
			switch {
			case !gotUDPReply:
				// the UDP side never reached the server: the property says nothing (an error is the only
				// thing the caller can get, and TCP has no reason to be used)
				r.Count("fault:udp-side-did-not-reach-server")
				if what != "err" {
					r.Fail("the server received no UDP query, but the caller got a reply", desc)
				}
				continue
			case tc && mode == "ans":
				wantTCP := make([]byte, 40)
				copy(wantTCP, orig[:2])
				wantTCP[2] = 0x80
				copy(wantTCP[4:12], "TCPREPLY")
				wantTCP[12] = srv.tag
				if what != "tcp" {
					if took > 3*time.Second {
						r.Count("fault:slow-exchange-not-judged")
						continue
					}
					r.Fail("UDP reply had TC set and TCP answers, but the caller did not get the TCP reply", desc)
				} else if len(seen) != 1 || !bytes.Equal(seen[0], orig) {
					r.Fail("UDP reply had TC set, but what arrived over TCP is not the same query (the caller's query, byte for byte, once)", desc)
				} else if binary.BigEndian.Uint16(*resp) != id {
					r.Fail("the TCP reply given to the caller does not carry the caller's ID", desc)
				} else if !bytes.Equal(*resp, wantTCP) {
					r.Fail("the caller did not get the TCP reply as the server sent it", desc)
				}
			case tc:
				for _, b := range seen {
					if !bytes.Equal(b, orig) {
						r.Fail("UDP reply had TC set, but what arrived over TCP is not the same query (the caller's query, byte for byte)", desc)
						break
					}
				}
				if what != "err" {
					r.Fail("UDP reply had TC set and the TCP exchange failed, but the caller got a reply instead of the error", desc)
				}
			default:
				want := make([]byte, size)
				copy(want, orig[:2])
				want[2], want[3] = f0, f1
				copy(want[4:12], "UDPREPLY")
				for k := 12; k < len(want); k++ {
					want[k] = byte(k * 7)
				}
				if what != "udp" {
					if took > 3*time.Second {
						r.Count("fault:slow-exchange-not-judged")
						continue
					}
					r.Fail("UDP reply without TC was not returned to the caller", desc)
				} else if !bytes.Equal(*resp, want) {
					r.Fail("UDP reply without TC was altered (it must be the server's reply under the caller's ID)", desc)
				}
				if tcpUsed {
					r.Fail("a TCP connection was opened / used for a reply without TC", desc)
				}
			}
			// The query is the caller's buffer: the UDP side and the TCP retry are handed the same slice,
			// so a buffer that differs after the call means some (re)send did not carry the caller's query.
			if !bytes.Equal(q, orig) {
				r.Fail("the caller's query buffer was modified by the exchange: what is sent again is not the same query", desc)
			}
			// ---- model line: the caller's buffer as state, the failed sends as attempts (ids the dead
			// sockets would have assigned do not matter to a UDP side that only reads the query)
			m := "ans"
			if mode != "ans" {
				m = "fail"
			}
			nFail := 0
			if nSock > 0 {
				nFail = 1
			}
			same := "-"
			if len(seen) > 0 {
				same = "1"
				for _, b := range seen {
					if !bytes.Equal(b, orig) {
						same = "0"
					}
				}
			}
			idOK := "-"
			if what == "tcp" || what == "udp" {
				idOK = b01(binary.BigEndian.Uint16(*resp) == id)
			}
			r.Line(fmt.Sprintf("faultx %s %02x%02x %s %d %d", hx(orig), f0, f1, m, nFail, (sent-1)&0xffff),
				fmt.Sprintf("%s tcpq=%s buf=%s id=%s", what, same, b01(bytes.Equal(q, orig)), idOK))
		}
		u.Close()
		srv.close()
	}
	r.Note(fmt.Sprintf("C17 write faults: %d upstreams, send failure injected %d times, query seen again on a new UDP socket %d times", nUp, injected, retried))
	if injected == 0 || retried == 0 {
		r.Note("C17 write faults: the fault sequence was NOT reached on this platform (no connected UDP socket found / shutdown had no effect)")
	}
}
