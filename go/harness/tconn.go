//go:build pC01 || pC02 || pC07 || pC08 || pC09 || pC16 || pall

package main

import (
	"context"
	"encoding/binary"
	"errors"
	"io"
	"net"
	"os"
	"sync"
	"time"

	"github.com/IrineSistiana/mosdns/v5/pkg/upstream/transport"
)

// fakeConn is a transport.NetConn whose peer is the harness: every Write is
// handed to onWrite (which may block: a schedule point), Read blocks until the
// harness feeds bytes or an error, a deadline passes, or the connection is
// closed. Deadlines are implemented here, so liveness timeouts can be observed.
type fakeConn struct {
	id                   int
	stream               bool // length-prefixed stream (a Read may return part of a chunk) vs. datagrams
	mu                   sync.Mutex
	cond                 *sync.Cond
	rq                   [][]byte
	rerr                 error
	closed               bool
	rdl                  time.Time
	created              time.Time
	onWrite              func(c *fakeConn, p []byte) error
	writes               [][]byte
	readsBlk             int // readers currently blocked
	nReads               int // Read calls that returned data or error
	closeCnt             int
	rdlHist              []time.Duration // every SetReadDeadline, relative to the moment it was set
	rdlSetAt             []time.Time
	blockSetReadDeadline chan struct{} // if non-nil, SetReadDeadline blocks on it (schedule point)
	scale                int           // if > 1, deadlines are shortened by this factor (the recorded history keeps the requested durations)
	// gate: holds ONE SetReadDeadline call at its entry (armGate); it is let go as soon as another SetReadDeadline
	// call has been applied, or after gateMax (the unchanged code holds its queue lock across the call, so nobody
	// else can get there)
	gateArmed, gateHeld bool
	gateEntered         chan struct{}
	gateRelease         chan struct{}
	gateMax             time.Duration
	errWithData         bool // the Read that returns the last queued bytes also returns the pending error (n > 0, err != nil), as crypto/tls does for close_notify right behind the data
}

func newFakeConn(id int, stream bool) *fakeConn {
	c := &fakeConn{id: id, stream: stream, created: time.Now()}
	c.cond = sync.NewCond(&c.mu)
	return c
}

type timeoutErr struct{}

func (timeoutErr) Error() string   { return "i/o timeout (fake conn)" }
func (timeoutErr) Timeout() bool   { return true }
func (timeoutErr) Temporary() bool { return true }
func (timeoutErr) Unwrap() error   { return os.ErrDeadlineExceeded }

func (c *fakeConn) Read(p []byte) (int, error) {
	c.mu.Lock()
	defer c.mu.Unlock()
	for {
		if len(c.rq) > 0 {
			n := copy(p, c.rq[0])
			if c.stream && n < len(c.rq[0]) {
				c.rq[0] = c.rq[0][n:]
			} else {
				c.rq = c.rq[1:]
			}
			c.nReads++
			c.cond.Broadcast()
			if c.errWithData && len(c.rq) == 0 && c.rerr != nil {
				return n, c.rerr
			}
			return n, nil
		}
		if c.rerr != nil {
			c.nReads++
			c.cond.Broadcast()
			return 0, c.rerr
		}
		if c.closed {
			c.nReads++
			return 0, net.ErrClosed
		}
		if !c.rdl.IsZero() && !time.Now().Before(c.rdl) {
			c.nReads++
			c.cond.Broadcast()
			return 0, timeoutErr{}
		}
		c.readsBlk++
		c.cond.Broadcast()
		c.cond.Wait()
		c.readsBlk--
	}
}

func (c *fakeConn) Write(p []byte) (int, error) {
	c.mu.Lock()
	if c.closed {
		c.mu.Unlock()
		return 0, net.ErrClosed
	}
	cp := append([]byte(nil), p...)
	c.writes = append(c.writes, cp)
	f := c.onWrite
	c.mu.Unlock()
	if f != nil {
		if err := f(c, cp); err != nil {
			return 0, err
		}
	}
	return len(p), nil
}

func (c *fakeConn) Close() error {
	c.mu.Lock()
	c.closed = true
	c.closeCnt++
	c.cond.Broadcast()
	c.mu.Unlock()
	return nil
}

// armGate makes the next SetReadDeadline call wait at its entry; the returned channel is closed when it got there.
func (c *fakeConn) armGate(max time.Duration) <-chan struct{} {
	c.mu.Lock()
	defer c.mu.Unlock()
	c.gateArmed, c.gateMax = true, max
	c.gateEntered, c.gateRelease = make(chan struct{}), make(chan struct{})
	return c.gateEntered
}

func (c *fakeConn) setRdl(t time.Time) {
	if ch := c.blockSetReadDeadline; ch != nil {
		<-ch
	}
	c.mu.Lock()
	if c.gateArmed {
		c.gateArmed, c.gateHeld = false, true
		close(c.gateEntered)
		rel, max := c.gateRelease, c.gateMax
		c.mu.Unlock()
		select {
		case <-rel:
		case <-time.After(max):
		}
		c.mu.Lock()
		c.gateHeld = false
	} else if c.gateHeld {
		defer func(rel chan struct{}) {
			select {
			case <-rel:
			default:
				close(rel)
			}
		}(c.gateRelease)
	}
	now := time.Now()
	if !t.IsZero() {
		c.rdlHist = append(c.rdlHist, t.Sub(now))
		c.rdlSetAt = append(c.rdlSetAt, now)
		if c.scale > 1 {
			t = now.Add(t.Sub(now) / time.Duration(c.scale))
		}
	}
	c.rdl = t
	if !t.IsZero() {
		if d := t.Sub(now); d > 0 {
			time.AfterFunc(d+time.Millisecond, func() { c.mu.Lock(); c.cond.Broadcast(); c.mu.Unlock() })
		}
	}
	c.cond.Broadcast()
	c.mu.Unlock()
}

func (c *fakeConn) SetDeadline(t time.Time) error      { c.setRdl(t); return nil }
func (c *fakeConn) SetReadDeadline(t time.Time) error  { c.setRdl(t); return nil }
func (c *fakeConn) SetWriteDeadline(t time.Time) error { return nil }

// feed makes b readable (one datagram / one piece of the stream).
func (c *fakeConn) feed(b []byte) {
	c.mu.Lock()
	c.rq = append(c.rq, append([]byte(nil), b...))
	c.cond.Broadcast()
	c.mu.Unlock()
}

// feedErr makes the next Read (after the queued bytes) fail with err.
func (c *fakeConn) feedErr(err error) {
	c.mu.Lock()
	c.rerr = err
	c.cond.Broadcast()
	c.mu.Unlock()
}

// waitDrained waits until everything fed was consumed and the reader is blocked
// again or the connection was closed.
func (c *fakeConn) waitDrained(d time.Duration) bool {
	deadline := time.Now().Add(d)
	c.mu.Lock()
	defer c.mu.Unlock()
	for {
		if len(c.rq) == 0 && (c.readsBlk > 0 || c.closed) && (c.rerr == nil || c.closed) {
			return true
		}
		if time.Now().After(deadline) {
			return false
		}
		time.AfterFunc(2*time.Millisecond, func() { c.mu.Lock(); c.cond.Broadcast(); c.mu.Unlock() })
		c.cond.Wait()
	}
}

func (c *fakeConn) isClosed() bool { c.mu.Lock(); defer c.mu.Unlock(); return c.closed }

// payloadOf strips the 2-byte length header of a stream write.
func (c *fakeConn) payloadOf(w []byte) []byte {
	if c.stream {
		if len(w) < 2 {
			return nil
		}
		return w[2:]
	}
	return w
}

// frame adds the length header on stream connections.
func (c *fakeConn) frame(m []byte) []byte {
	if !c.stream {
		return m
	}
	b := make([]byte, 2+len(m))
	binary.BigEndian.PutUint16(b, uint16(len(m)))
	copy(b[2:], m)
	return b
}

// mkQuery builds a minimal query message: caller id, one question "q<tag>.test." A IN.
func mkQuery(id uint16, tag int) []byte {
	name := []byte{byte(len(itoa(tag)) + 1), 'q'}
	name = append(name, itoa(tag)...)
	name = append(name, 4, 't', 'e', 's', 't', 0)
	b := make([]byte, 12, 12+len(name)+4)
	binary.BigEndian.PutUint16(b, id)
	b[2] = 1 // RD
	b[5] = 1 // QDCOUNT
	b = append(b, name...)
	b = append(b, 0, 1, 0, 1)
	return b
}

func itoa(n int) []byte {
	if n == 0 {
		return []byte{'0'}
	}
	var d []byte
	for n > 0 {
		d = append([]byte{byte('0' + n%10)}, d...)
		n /= 10
	}
	return d
}

// tagOf extracts the tag from a query or reply built by mkQuery / mkReply (-1 if malformed).
func tagOf(m []byte) int {
	if len(m) < 15 || m[13] != 'q' {
		return -1
	}
	l := int(m[12])
	if 13+l > len(m) {
		return -1
	}
	n := 0
	for _, ch := range m[14 : 13+l] {
		if ch < '0' || ch > '9' {
			return -1
		}
		n = n*10 + int(ch-'0')
	}
	return n
}

// mkReply answers query payload q (as seen on the wire) with wire id `wid`.
func mkReply(q []byte, wid uint16) []byte {
	r := append([]byte(nil), q...)
	binary.BigEndian.PutUint16(r, wid)
	r[2] |= 0x80
	return r
}

var errFake = errors.New("injected fault")
var _ = io.EOF

// ---- callers on a reserved exchanger (shared by C07 and C09)

type call09 struct {
	tag    int
	id     uint16
	cancel context.CancelFunc
	done   chan struct{}
	resp   *[]byte
	err    error
	wireQ  []byte // the query as written on the connection
}

func (c *call09) wait(d time.Duration) bool {
	select {
	case <-c.done:
		return true
	case <-time.After(d):
		return false
	}
}

var tag09 int

func startCall09(rx transport.ReservedExchanger, dead bool) *call09 {
	tag09++
	c := &call09{tag: tag09, id: uint16(tag09*13 + 5), done: make(chan struct{})}
	ctx, cancel := context.WithTimeout(context.Background(), 5*time.Second)
	c.cancel = cancel
	if dead {
		cancel()
	}
	q := mkQuery(c.id, c.tag)
	go func() {
		c.resp, c.err = rx.ExchangeReserved(ctx, q)
		close(c.done)
	}()
	return c
}

// findWrite waits until the query with tag was written on fc (or the call ended).
func findWrite09(fc *fakeConn, c *call09, d time.Duration) bool {
	deadline := time.Now().Add(d)
	for {
		fc.mu.Lock()
		for _, w := range fc.writes {
			p := fc.payloadOf(w)
			if len(p) >= 12 && tagOf(p) == c.tag {
				c.wireQ = p
				fc.mu.Unlock()
				return true
			}
		}
		fc.mu.Unlock()
		select {
		case <-c.done:
			// one more look: the write may have happened right before the return
			fc.mu.Lock()
			for _, w := range fc.writes {
				p := fc.payloadOf(w)
				if len(p) >= 12 && tagOf(p) == c.tag {
					c.wireQ = p
				}
			}
			fc.mu.Unlock()
			return c.wireQ != nil
		default:
		}
		if time.Now().After(deadline) {
			return false
		}
		time.Sleep(100 * time.Microsecond)
	}
}

// probe09 counts how many reservations rsv admits right now and gives them back.
func probe09(rsv func() (transport.ReservedExchanger, bool)) int {
	var got []transport.ReservedExchanger
	for i := 0; i < 100; i++ {
		rx, _ := rsv()
		if rx == nil {
			break
		}
		got = append(got, rx)
	}
	for _, rx := range got {
		rx.WithdrawReserved()
	}
	return len(got)
}
