module verifharness

go 1.22.0

toolchain go1.23.5

require (
	github.com/IrineSistiana/mosdns/v5 v5.0.0
	github.com/klauspost/compress v1.17.11
	github.com/miekg/dns v1.1.62
	github.com/quic-go/quic-go v0.48.2
	google.golang.org/protobuf v1.35.2
)

require (
	github.com/IrineSistiana/go-bytes-pool v0.0.0-20230918115058-c72bd9761c57 // indirect
	github.com/beorn7/perks v1.0.1 // indirect
	github.com/cespare/xxhash/v2 v2.3.0 // indirect
	github.com/fsnotify/fsnotify v1.8.0 // indirect
	github.com/go-chi/chi/v5 v5.1.0 // indirect
	github.com/hashicorp/hcl v1.0.0 // indirect
	github.com/kardianos/service v1.2.2 // indirect
	github.com/magiconair/properties v1.8.9 // indirect
	github.com/mitchellh/mapstructure v1.5.0 // indirect
	github.com/munnerz/goautoneg v0.0.0-20191010083416-a7dc8b61c822 // indirect
	github.com/pelletier/go-toml/v2 v2.2.3 // indirect
	github.com/prometheus/client_golang v1.20.5 // indirect
	github.com/prometheus/client_model v0.6.1 // indirect
	github.com/prometheus/common v0.61.0 // indirect
	github.com/prometheus/procfs v0.15.1 // indirect
	github.com/quic-go/qpack v0.5.1 // indirect
	github.com/sagikazarmark/slog-shim v0.1.0 // indirect
	github.com/spf13/afero v1.11.0 // indirect
	github.com/spf13/cast v1.7.0 // indirect
	github.com/spf13/cobra v1.8.1 // indirect
	github.com/spf13/pflag v1.0.5 // indirect
	github.com/spf13/viper v1.19.0 // indirect
	github.com/subosito/gotenv v1.6.0 // indirect
	go.uber.org/multierr v1.11.0 // indirect
	go.uber.org/zap v1.27.0 // indirect
	golang.org/x/crypto v0.30.0 // indirect
	golang.org/x/exp v0.0.0-20241210194714-1829a127f884 // indirect
	golang.org/x/net v0.32.0 // indirect
	golang.org/x/sync v0.10.0 // indirect
	golang.org/x/sys v0.28.0 // indirect
	golang.org/x/text v0.21.0 // indirect
	gopkg.in/ini.v1 v1.67.0 // indirect
	gopkg.in/yaml.v3 v3.0.1 // indirect
)

replace github.com/IrineSistiana/mosdns/v5 => /repo
