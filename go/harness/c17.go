//go:build pC17 || pall

package main

import (
	"bytes"
	"context"
	"encoding/binary"
	"fmt"
	"io"
	"net"
	"sync"
	"time"

	"github.com/IrineSistiana/mosdns/v5/pkg/upstream"
)

// C17: truncated UDP replies are retried over TCP.
//
// The real upstream.NewUpstream("udp://127.0.0.1:p") talks to a harness
// server that listens on UDP and TCP on the same port. Every case fixes the
// two flag bytes and the size of the UDP reply and the behaviour of the TCP
// side; the harness observes what the caller gets and what the TCP side saw.

func init() { props["C17"] = runC17 }

type srv17 struct {
	mu       sync.Mutex
	flags    [2]byte
	size     int
	tcpMode  string // ans | close | half
	udpConn  *net.UDPConn
	tcpL     net.Listener
	tcpConns int
	tcpSeen  [][]byte
	udpSeen  int
}

func newSrv17(withTCP bool) (*srv17, string) {
	for try := 0; try < 50; try++ {
		s := &srv17{size: 12, tcpMode: "ans"}
		var port int
		if withTCP {
			l, err := net.Listen("tcp", "127.0.0.1:0")
			if err != nil {
				fatal(err)
			}
			s.tcpL = l
			port = l.Addr().(*net.TCPAddr).Port
		}
		uc, err := net.ListenUDP("udp", &net.UDPAddr{IP: net.IPv4(127, 0, 0, 1), Port: port})
		if err != nil {
			if s.tcpL != nil {
				s.tcpL.Close()
			}
			continue
		}
		if !withTCP {
			port = uc.LocalAddr().(*net.UDPAddr).Port
			// make sure nothing listens on the TCP port
			if c, err := net.DialTimeout("tcp", fmt.Sprintf("127.0.0.1:%d", port), 200*time.Millisecond); err == nil {
				c.Close()
				uc.Close()
				continue
			}
		}
		s.udpConn = uc
		go s.serveUDP()
		if withTCP {
			go s.serveTCP()
		}
		return s, fmt.Sprintf("127.0.0.1:%d", port)
	}
	fatal(fmt.Errorf("cannot bind a UDP+TCP port pair"))
	return nil, ""
}

func (s *srv17) serveUDP() {
	buf := make([]byte, 65535)
	for {
		n, addr, err := s.udpConn.ReadFromUDP(buf)
		if err != nil {
			return
		}
		if n < 12 {
			continue
		}
		s.mu.Lock()
		s.udpSeen++
		r := make([]byte, s.size)
		copy(r, buf[:2]) // echo the wire ID
		r[2], r[3] = s.flags[0], s.flags[1]
		copy(r[4:12], "UDPREPLY")
		for i := 12; i < len(r); i++ {
			r[i] = byte(i * 7)
		}
		s.mu.Unlock()
		s.udpConn.WriteToUDP(r, addr)
	}
}

func (s *srv17) serveTCP() {
	for {
		c, err := s.tcpL.Accept()
		if err != nil {
			return
		}
		s.mu.Lock()
		s.tcpConns++
		s.mu.Unlock()
		go func() {
			defer c.Close()
			for {
				var h [2]byte
				if _, err := io.ReadFull(c, h[:]); err != nil {
					return
				}
				q := make([]byte, binary.BigEndian.Uint16(h[:]))
				if _, err := io.ReadFull(c, q); err != nil {
					return
				}
				s.mu.Lock()
				s.tcpSeen = append(s.tcpSeen, q)
				mode := s.tcpMode
				s.mu.Unlock()
				r := make([]byte, 40)
				copy(r, q[:2])
				r[2] = 0x80
				copy(r[4:12], "TCPREPLY")
				frame := append([]byte{0, byte(len(r))}, r...)
				switch mode {
				case "ans":
					c.Write(frame)
				case "close":
					return
				case "half":
					c.Write(frame[:len(frame)/2])
					return
				}
			}
		}()
	}
}

func (s *srv17) close() {
	s.udpConn.Close()
	if s.tcpL != nil {
		s.tcpL.Close()
	}
}

func runC17(r *Run) {
	sT, addrT := newSrv17(true)
	defer sT.close()
	sU, addrU := newSrv17(false)
	defer sU.close()
	uT, err := upstream.NewUpstream("udp://"+addrT, upstream.Opt{})
	if err != nil {
		fatal(err)
	}
	defer uT.Close()
	uU, err := upstream.NewUpstream(addrU, upstream.Opt{}) // no scheme: defaults to udp
	if err != nil {
		fatal(err)
	}
	defer uU.Close()

	type kase struct {
		f0, f1 byte
		size   int
		tcp    string // ans | close | half | refuse
	}
	var cases []kase
	sizes := []int{12, 13, 100, 512, 1232, 4095}
	if r.Thorough() {
		for f0 := 0; f0 < 256; f0++ {
			for f1 := 0; f1 < 256; f1++ {
				cases = append(cases, kase{byte(f0), byte(f1), sizes[r.Rng.Intn(len(sizes))], "ans"})
			}
		}
	}
	for f0 := 0; f0 < 256; f0++ {
		for _, f1 := range []byte{0x00, 0x80, byte(r.Rng.Intn(256))} {
			cases = append(cases, kase{byte(f0), f1, sizes[r.Rng.Intn(len(sizes))], "ans"})
		}
		for _, m := range []string{"close", "half", "refuse"} {
			if f0&2 != 0 || r.Rng.Intn(4) == 0 {
				cases = append(cases, kase{byte(f0), byte(r.Rng.Intn(256)), sizes[r.Rng.Intn(len(sizes))], m})
			}
		}
	}
	r.Rng.Shuffle(len(cases), func(i, j int) { cases[i], cases[j] = cases[j], cases[i] })

	for _, k := range cases {
		s, u := sT, uT
		if k.tcp == "refuse" {
			s, u = sU, uU
		}
		s.mu.Lock()
		s.flags = [2]byte{k.f0, k.f1}
		s.size = k.size
		if k.tcp != "refuse" {
			s.tcpMode = k.tcp
		}
		conns0, seen0 := s.tcpConns, len(s.tcpSeen)
		s.mu.Unlock()

		q := make([]byte, 12+r.Rng.Intn(40))
		r.Rng.Read(q)
		id := r.U16()
		binary.BigEndian.PutUint16(q, id)
		q[2] &^= 0x80
		ctx, cancel := context.WithTimeout(context.Background(), 4*time.Second)
		resp, err := u.ExchangeContext(ctx, q)
		cancel()

		s.mu.Lock()
		conns1 := s.tcpConns
		seen := append([][]byte(nil), s.tcpSeen[seen0:]...)
		s.mu.Unlock()

		tc := k.f0&2 != 0
		what := "err"
		if err == nil && resp != nil && len(*resp) >= 12 {
			switch string((*resp)[4:12]) {
			case "UDPREPLY":
				what = "udp"
			case "TCPREPLY":
				what = "tcp"
			default:
				what = "other"
			}
		}
		tcpUsed := "0"
		if conns1 > conns0 || len(seen) > 0 {
			tcpUsed = "1"
		}
		if k.tcp == "refuse" {
			tcpUsed = "-" // a refused connection cannot be observed by the server side
		}
		desc := map[string]any{"udp_reply_flags": fmt.Sprintf("%02x%02x", k.f0, k.f1), "udp_reply_size": k.size, "tcp_side": k.tcp, "query": hx(q), "got": what, "err": fmt.Sprint(err), "tcp_saw_queries": len(seen), "tcp_new_conns": conns1 - conns0}
		// ---- oracle on the implementation
		switch {
		case tc && k.tcp == "ans":
			if what != "tcp" {
				r.Fail("UDP reply had TC set and TCP answers, but the caller did not get the TCP reply", desc)
			} else if len(seen) == 0 || !bytes.Equal(seen[len(seen)-1], q) {
				r.Fail("the query sent over TCP is not the same query", desc)
			} else if binary.BigEndian.Uint16(*resp) != id {
				r.Fail("TCP reply does not carry the caller's ID", desc)
			}
		case tc:
			if what != "err" {
				r.Fail("UDP reply had TC set and the TCP exchange failed, but the caller got a reply instead of the error", desc)
			}
		default:
			if what != "udp" {
				r.Fail("UDP reply without TC was not returned to the caller", desc)
			} else {
				want := make([]byte, k.size)
				copy(want, q[:2])
				want[2], want[3] = k.f0, k.f1
				copy(want[4:12], "UDPREPLY")
				for i := 12; i < len(want); i++ {
					want[i] = byte(i * 7)
				}
				if !bytes.Equal(*resp, want) {
					r.Fail("UDP reply without TC was altered", desc)
				}
			}
			if tcpUsed == "1" {
				r.Fail("a TCP connection was opened / used for a reply without TC", desc)
			}
		}
		// ---- model line: first 4 bytes of the UDP reply decide
		mode := "ans"
		if k.tcp != "ans" {
			mode = "fail"
		}
		obs := "0"
		if k.tcp != "refuse" {
			obs = "1"
		}
		r.Line(fmt.Sprintf("xchg %02x%02x%02x%02x %s %s", q[0], q[1], k.f0, k.f1, mode, obs), what+" "+tcpUsed)
		r.Eval(fmt.Sprintf("%02x%02x/%d/%s", k.f0, k.f1, k.size, k.tcp), tc || k.tcp != "ans")
		r.Count("tc=" + b01(tc) + ",tcp=" + k.tcp)
	}
	r.Finish("all 256 values of header byte 2 x {00,80,random} byte 3 x sizes {12,13,100,512,1232,4095} with TCP answering, plus TC-set (and 1/4 of TC-clear) replies with TCP side {close after query, half frame, connection refused}; thorough adds all 65536 flag combinations; non-trivial = TC set or TCP fault; distinct by flags/size/TCP mode")
}
