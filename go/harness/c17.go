//go:build pC17 || pall

package main

import (
	"bytes"
	"context"
	"crypto/tls"
	"encoding/binary"
	"fmt"
	"io"
	"net"
	"strings"
	"sync"
	"time"

	"github.com/IrineSistiana/mosdns/v5/pkg/upstream"
)

// C17: truncated UDP replies are retried over TCP.
//
// The real upstream.NewUpstream("udp://127.0.0.1:p") talks to a harness
// server that listens on UDP and TCP on the same port. Every case fixes the
// two flag bytes and the size of the UDP reply and the behaviour of the TCP
// side; the harness observes what the caller gets and what the TCP side saw.

func init() { props["C17"] = runC17 }

type srv17 struct {
	mu       sync.Mutex
	flags    [2]byte
	size     int
	tcpMode  string // ans | close | half
	udpConn  *net.UDPConn
	tcpL     net.Listener
	tcpConns int
	tcpSeen  [][]byte
	udpSeen  int
	tag      byte // byte 12 of every TCP reply: which server answered
}

func newSrv17(withTCP bool) (*srv17, string) {
	for try := 0; try < 50; try++ {
		s := &srv17{size: 12, tcpMode: "ans"}
		var port int
		if withTCP {
			l, err := net.Listen("tcp", "127.0.0.1:0")
			if err != nil {
				fatal(err)
			}
			s.tcpL = l
			port = l.Addr().(*net.TCPAddr).Port
		}
		uc, err := net.ListenUDP("udp", &net.UDPAddr{IP: net.IPv4(127, 0, 0, 1), Port: port})
		if err != nil {
			if s.tcpL != nil {
				s.tcpL.Close()
			}
			continue
		}
		if !withTCP {
			port = uc.LocalAddr().(*net.UDPAddr).Port
			// make sure nothing listens on the TCP port
			if c, err := net.DialTimeout("tcp", fmt.Sprintf("127.0.0.1:%d", port), 200*time.Millisecond); err == nil {
				c.Close()
				uc.Close()
				continue
			}
		}
		s.udpConn = uc
		go s.serveUDP()
		if withTCP {
			go s.serveTCP()
		}
		return s, fmt.Sprintf("127.0.0.1:%d", port)
	}
	fatal(fmt.Errorf("cannot bind a UDP+TCP port pair"))
	return nil, ""
}

func (s *srv17) serveUDP() {
	buf := make([]byte, 65535)
	for {
		n, addr, err := s.udpConn.ReadFromUDP(buf)
		if err != nil {
			return
		}
		if n < 12 {
			continue
		}
		s.mu.Lock()
		s.udpSeen++
		r := make([]byte, s.size)
		copy(r, buf[:2]) // echo the wire ID
		r[2], r[3] = s.flags[0], s.flags[1]
		copy(r[4:12], "UDPREPLY")
		for i := 12; i < len(r); i++ {
			r[i] = byte(i * 7)
		}
		s.mu.Unlock()
		s.udpConn.WriteToUDP(r, addr)
	}
}

func (s *srv17) serveTCP() {
	for {
		c, err := s.tcpL.Accept()
		if err != nil {
			return
		}
		s.mu.Lock()
		s.tcpConns++
		s.mu.Unlock()
		go func() {
			defer c.Close()
			for {
				var h [2]byte
				if _, err := io.ReadFull(c, h[:]); err != nil {
					return
				}
				q := make([]byte, binary.BigEndian.Uint16(h[:]))
				if _, err := io.ReadFull(c, q); err != nil {
					return
				}
				s.mu.Lock()
				s.tcpSeen = append(s.tcpSeen, q)
				mode := s.tcpMode
				s.mu.Unlock()
				r := make([]byte, 40)
				copy(r, q[:2])
				r[2] = 0x80
				copy(r[4:12], "TCPREPLY")
				r[12] = s.tag
				frame := append([]byte{0, byte(len(r))}, r...)
				switch mode {
				case "ans":
					c.Write(frame)
				case "close":
					return
				case "half":
					c.Write(frame[:len(frame)/2])
					return
				}
			}
		}()
	}
}

func (s *srv17) close() {
	s.udpConn.Close()
	if s.tcpL != nil {
		s.tcpL.Close()
	}
}

func runC17(r *Run) {
	sT, addrT := newSrv17(true)
	defer sT.close()
	sU, addrU := newSrv17(false)
	defer sU.close()
	uT, err := upstream.NewUpstream("udp://"+addrT, upstream.Opt{})
	if err != nil {
		fatal(err)
	}
	defer uT.Close()
	uU, err := upstream.NewUpstream(addrU, upstream.Opt{}) // no scheme: defaults to udp
	if err != nil {
		fatal(err)
	}
	defer uU.Close()

	type kase struct {
		f0, f1 byte
		size   int
		tcp    string // ans | close | half | refuse
	}
	var cases []kase
	sizes := []int{12, 13, 100, 512, 1232, 4095}
	if r.Thorough() {
		for f0 := 0; f0 < 256; f0++ {
			for f1 := 0; f1 < 256; f1++ {
				cases = append(cases, kase{byte(f0), byte(f1), sizes[r.Rng.Intn(len(sizes))], "ans"})
			}
		}
	}
	for f0 := 0; f0 < 256; f0++ {
		for _, f1 := range []byte{0x00, 0x80, byte(r.Rng.Intn(256))} {
			cases = append(cases, kase{byte(f0), f1, sizes[r.Rng.Intn(len(sizes))], "ans"})
		}
		for _, m := range []string{"close", "half", "refuse"} {
			if f0&2 != 0 || r.Rng.Intn(4) == 0 {
				cases = append(cases, kase{byte(f0), byte(r.Rng.Intn(256)), sizes[r.Rng.Intn(len(sizes))], m})
			}
		}
	}
	r.Rng.Shuffle(len(cases), func(i, j int) { cases[i], cases[j] = cases[j], cases[i] })

	for _, k := range cases {
		s, u := sT, uT
		if k.tcp == "refuse" {
			s, u = sU, uU
		}
		s.mu.Lock()
		s.flags = [2]byte{k.f0, k.f1}
		s.size = k.size
		if k.tcp != "refuse" {
			s.tcpMode = k.tcp
		}
		conns0, seen0 := s.tcpConns, len(s.tcpSeen)
		s.mu.Unlock()

		q := make([]byte, 12+r.Rng.Intn(40))
		r.Rng.Read(q)
		id := r.U16()
		binary.BigEndian.PutUint16(q, id)
		q[2] &^= 0x80
		ctx, cancel := context.WithTimeout(context.Background(), 4*time.Second)
		resp, err := u.ExchangeContext(ctx, q)
		cancel()

		s.mu.Lock()
		conns1 := s.tcpConns
		seen := append([][]byte(nil), s.tcpSeen[seen0:]...)
		s.mu.Unlock()

		tc := k.f0&2 != 0
		what := "err"
		if err == nil && resp != nil && len(*resp) >= 12 {
			switch string((*resp)[4:12]) {
			case "UDPREPLY":
				what = "udp"
			case "TCPREPLY":
				what = "tcp"
			default:
				what = "other"
			}
		}
		tcpUsed := "0"
		if conns1 > conns0 || len(seen) > 0 {
			tcpUsed = "1"
		}
		if k.tcp == "refuse" {
			tcpUsed = "-" // a refused connection cannot be observed by the server side
		}
		desc := map[string]any{"udp_reply_flags": fmt.Sprintf("%02x%02x", k.f0, k.f1), "udp_reply_size": k.size, "tcp_side": k.tcp, "query": hx(q), "got": what, "err": fmt.Sprint(err), "tcp_saw_queries": len(seen), "tcp_new_conns": conns1 - conns0}
		// ---- oracle on the implementation
		switch {
		case tc && k.tcp == "ans":
			if what != "tcp" {
				r.Fail("UDP reply had TC set and TCP answers, but the caller did not get the TCP reply", desc)
			} else if len(seen) == 0 || !bytes.Equal(seen[len(seen)-1], q) {
				r.Fail("the query sent over TCP is not the same query", desc)
			} else if binary.BigEndian.Uint16(*resp) != id {
				r.Fail("TCP reply does not carry the caller's ID", desc)
			}
		case tc:
			if what != "err" {
				r.Fail("UDP reply had TC set and the TCP exchange failed, but the caller got a reply instead of the error", desc)
			}
		default:
			if what != "udp" {
				r.Fail("UDP reply without TC was not returned to the caller", desc)
			} else {
				want := make([]byte, k.size)
				copy(want, q[:2])
				want[2], want[3] = k.f0, k.f1
				copy(want[4:12], "UDPREPLY")
				for i := 12; i < len(want); i++ {
					want[i] = byte(i * 7)
				}
				if !bytes.Equal(*resp, want) {
					r.Fail("UDP reply without TC was altered", desc)
				}
			}
			if tcpUsed == "1" {
				r.Fail("a TCP connection was opened / used for a reply without TC", desc)
			}
		}
		// ---- model line: first 4 bytes of the UDP reply decide
		mode := "ans"
		if k.tcp != "ans" {
			mode = "fail"
		}
		obs := "0"
		if k.tcp != "refuse" {
			obs = "1"
		}
		r.Line(fmt.Sprintf("xchg %02x%02x%02x%02x %s %s", q[0], q[1], k.f0, k.f1, mode, obs), what+" "+tcpUsed)
		r.Eval(fmt.Sprintf("%02x%02x/%d/%s", k.f0, k.f1, k.size, k.tcp), tc || k.tcp != "ans")
		r.Count("tc=" + b01(tc) + ",tcp=" + k.tcp)
	}
	runC17Routing(r)
	runC17WriteFault(r)
	runC17Shapes(r)
	runC17TcpSizes(r)
	runC17Late(r)
	r.Finish("all 256 values of header byte 2 x {00,80,random} byte 3 x sizes {12,13,100,512,1232,4095} with TCP answering, plus TC-set (and 1/4 of TC-clear) replies with TCP side {close after query, half frame, connection refused}; thorough adds all 65536 flag combinations; non-trivial = TC set or TCP fault; distinct by flags/size/TCP mode; routing: fresh upstreams built by NewUpstream with Opt = every subset of {Socks5 -> loopback observer, DialAddr -> the server with the URL naming a decoy server, Bootstrap -> decoy} and then random Opt (Socks5 -> loopback observer, DialAddr -> the server with the URL naming a decoy server, Bootstrap -> decoy, IdleTimeout, EnablePipeline, EnableHTTP3, TLSConfig) x {scheme written, omitted} x TC set/clear x TCP side {ans, close}: the TCP retry must arrive at the server that sent the truncated UDP reply, and nowhere else; UDP-side fault sequences on fresh upstreams (c17fault.go): 0-5 plain exchanges, then the upstream's connected UDP socket is made unwritable (shutdown(SHUT_WR) on the descriptor: every send fails) so that the query is repeated on a new socket, whose reply has TC set or clear x TCP side {ans, close}, 1-3 such rounds per upstream: exactly the caller's query bytes (taken before the call) must arrive over TCP, the reply must carry the caller's id and be the server's reply, the query buffer must be unchanged; replayed on the buffer-threading model (driver op faultx); well-formed queries (c17late.go): UDP reply shapes {bare 12-byte header, header+OPT, header+trailing bytes (all QDCOUNT=0), question echoed as is / 0x20-flipped / with an answer} x TC set/clear x random other flags and rcodes x TCP side {ans, close}: a TC reply of every shape must be followed by the same query over TCP and the TCP reply, a reply without TC must come back byte for byte with no TCP connection (replayed as xchg lines); TCP reply sizes: truncated queries whose TCP reply has exactly {12 (a bare header), 13, 14, 511..513, 1232, 4095..4097, 16383, 16384, 32767, 32768, 65533, 65534, 65535} and seeded sizes in 13..65535 bytes (near powers of two, the top 64 sizes, uniform): the caller must get that reply byte for byte; late TCP replies: per fresh upstream 3-6 queries where the TCP side holds the reply to a truncated query until the caller's context (150-350 ms) has ended and writes it when the next query arrives over TCP (or earlier, with or without a pause): every TCP reply is a function of the whole query (id, question, checksum) and the caller of the next truncated query must get exactly the server's TCP reply to its own query")
}

// ---- routing: "sent again over TCP to the same server" ----------------------
//
// The upstream is built by the real NewUpstream with every Opt field set that
// could send the TCP half somewhere else than the UDP half. Three places can
// see traffic: the server (UDP+TCP on one port), a decoy server (UDP+TCP on
// another port; it is what the URL names when DialAddr is set, and what
// Bootstrap points at) and an observer that plays "the socks5 address": it
// completes the SOCKS5 greeting, records the CONNECT target and hangs up (it
// never relays). "The server" of an exchange is the one that received the UDP
// query and sent the UDP reply; the oracle asks that the TCP retry shows up
// there, with the same query, and that no other place sees a TCP connection.

type obs17 struct {
	l       net.Listener
	mu      sync.Mutex
	conns   int
	targets []string
}

func newObs17() *obs17 {
	l, err := net.Listen("tcp", "127.0.0.1:0")
	if err != nil {
		fatal(err)
	}
	o := &obs17{l: l}
	go func() {
		for {
			c, err := l.Accept()
			if err != nil {
				return
			}
			o.mu.Lock()
			o.conns++
			o.mu.Unlock()
			go o.serve(c)
		}
	}()
	return o
}

func (o *obs17) serve(c net.Conn) {
	defer c.Close()
	c.SetDeadline(time.Now().Add(2 * time.Second))
	note := func(s string) {
		o.mu.Lock()
		o.targets = append(o.targets, s)
		o.mu.Unlock()
	}
	var h [2]byte
	if _, err := io.ReadFull(c, h[:]); err != nil {
		note("closed-before-greeting")
		return
	}
	if h[0] != 5 {
		note(fmt.Sprintf("not-socks5:%02x%02x", h[0], h[1]))
		return
	}
	if _, err := io.ReadFull(c, make([]byte, h[1])); err != nil {
		return
	}
	c.Write([]byte{5, 0})
	var req [4]byte
	if _, err := io.ReadFull(c, req[:]); err != nil {
		return
	}
	var host string
	switch req[3] {
	case 1:
		var a [4]byte
		io.ReadFull(c, a[:])
		host = net.IP(a[:]).String()
	case 4:
		var a [16]byte
		io.ReadFull(c, a[:])
		host = net.IP(a[:]).String()
	case 3:
		var n [1]byte
		io.ReadFull(c, n[:])
		d := make([]byte, n[0])
		io.ReadFull(c, d)
		host = string(d)
	}
	var p [2]byte
	io.ReadFull(c, p[:])
	note(fmt.Sprintf("CONNECT %s:%d", host, binary.BigEndian.Uint16(p[:])))
	// hang up: this observer is not a relay
}

func (o *obs17) snap() (int, []string) {
	o.mu.Lock()
	defer o.mu.Unlock()
	return o.conns, append([]string(nil), o.targets...)
}

type snap17 struct{ udp, conns, seen int }

func (s *srv17) snap() snap17 {
	s.mu.Lock()
	defer s.mu.Unlock()
	return snap17{s.udpSeen, s.tcpConns, len(s.tcpSeen)}
}

func runC17Routing(r *Run) {
	srv, srvAddr := newSrv17(true)
	defer srv.close()
	srv.tag = 'S'
	decoy, decoyAddr := newSrv17(true)
	defer decoy.close()
	decoy.tag = 'D'
	obs := newObs17()
	defer obs.l.Close()
	obsAddr := obs.l.Addr().String()

	nUp := r.N(24, 240)
	for i := 0; i < nUp; i++ {
		// ---- a configuration: first every redirecting field alone and in pairs, then random mixes
		var opt upstream.Opt
		var optDesc []string
		url := srvAddr
		pick := func(bit, odds int) bool {
			if i < 8 {
				return i&bit != 0
			}
			return r.Rng.Intn(odds) != 0
		}
		if pick(1, 3) {
			opt.Socks5 = obsAddr
			optDesc = append(optDesc, "Socks5="+obsAddr)
		}
		if pick(2, 2) {
			url = decoyAddr
			opt.DialAddr = srvAddr
			optDesc = append(optDesc, "DialAddr="+srvAddr)
		}
		if pick(4, 2) {
			opt.Bootstrap = decoyAddr
			opt.BootstrapVer = []int{0, 4, 6}[r.Rng.Intn(3)]
			optDesc = append(optDesc, fmt.Sprintf("Bootstrap=%s/v%d", decoyAddr, opt.BootstrapVer))
		}
		if i >= 8 && r.Rng.Intn(2) == 0 {
			opt.IdleTimeout = time.Duration(1+r.Rng.Intn(20)) * time.Second
			optDesc = append(optDesc, "IdleTimeout="+opt.IdleTimeout.String())
		}
		if i >= 8 && r.Rng.Intn(3) == 0 {
			opt.EnablePipeline = true
			optDesc = append(optDesc, "EnablePipeline")
		}
		if i >= 8 && r.Rng.Intn(4) == 0 {
			opt.EnableHTTP3 = true
			optDesc = append(optDesc, "EnableHTTP3")
		}
		if i >= 8 && r.Rng.Intn(3) == 0 {
			opt.TLSConfig = &tls.Config{ServerName: "c17.test"}
			optDesc = append(optDesc, "TLSConfig{ServerName:c17.test}")
		}
		if r.Rng.Intn(2) == 0 {
			url = "udp://" + url
		}
		u, err := upstream.NewUpstream(url, opt)
		if err != nil {
			r.Fail("NewUpstream refused a plain-UDP configuration", map[string]any{"addr": url, "opt": strings.Join(optDesc, " "), "err": err.Error()})
			continue
		}
		// ---- a few exchanges on it
		for x, nx := 0, 1+r.Rng.Intn(3); x < nx; x++ {
			f0, f1 := byte(r.Rng.Intn(256)), byte(r.Rng.Intn(256))
			if r.Rng.Intn(3) != 0 || (i < 8 && x == 0) {
				f0 |= 2
			}
			tc := f0&2 != 0
			mode := "ans"
			if r.Rng.Intn(5) == 0 && !(i < 8 && x == 0) {
				mode = "close"
			}
			size := []int{12, 100, 512, 1232}[r.Rng.Intn(4)]
			for _, s := range []*srv17{srv, decoy} {
				s.mu.Lock()
				s.flags, s.size, s.tcpMode = [2]byte{f0, f1}, size, mode
				s.mu.Unlock()
			}
			s0, d0 := srv.snap(), decoy.snap()
			o0, tg0 := obs.snap()

			q := make([]byte, 12+r.Rng.Intn(40))
			r.Rng.Read(q)
			id := r.U16()
			binary.BigEndian.PutUint16(q, id)
			q[2] &^= 0x80
			ctx, cancel := context.WithTimeout(context.Background(), 4*time.Second)
			resp, err := u.ExchangeContext(ctx, q)
			cancel()

			s1, d1 := srv.snap(), decoy.snap()
			o1, targets := obs.snap()

			what, from := "err", byte(0)
			if err == nil && resp != nil && len(*resp) >= 13 && string((*resp)[4:12]) == "TCPREPLY" {
				what, from = "tcp", (*resp)[12]
			} else if err == nil && resp != nil && len(*resp) >= 12 && string((*resp)[4:12]) == "UDPREPLY" {
				what = "udp"
			} else if err == nil {
				what = "other"
			}
			// the server of this exchange = whoever got the UDP query
			var the, other *srv17
			var theName string
			var t0, t1, x0, x1 snap17
			switch {
			case s1.udp > s0.udp && d1.udp == d0.udp:
				the, other, theName, t0, t1, x0, x1 = srv, decoy, "server "+srvAddr, s0, s1, d0, d1
			case d1.udp > d0.udp && s1.udp == s0.udp:
				the, other, theName, t0, t1, x0, x1 = decoy, srv, "decoy "+decoyAddr, d0, d1, s0, s1
			}
			_ = other
			desc := map[string]any{"addr": url, "opt": strings.Join(optDesc, " "), "exchange_no": x, "udp_reply_flags": fmt.Sprintf("%02x%02x", f0, f1), "udp_reply_size": size,
				"tcp_side": mode, "query": hx(q), "got": what, "err": fmt.Sprint(err), "udp_query_received_by": theName,
				"server": srvAddr, "decoy": decoyAddr, "socks5_observer": obsAddr,
				"tcp_at_server":          fmt.Sprintf("%d new conns, %d queries", s1.conns-s0.conns, s1.seen-s0.seen),
				"tcp_at_decoy":           fmt.Sprintf("%d new conns, %d queries", d1.conns-d0.conns, d1.seen-d0.seen),
				"tcp_at_socks5_observer": fmt.Sprintf("%d new conns %v", o1-o0, targets[len(tg0):])}
			r.Eval(fmt.Sprintf("route/%s/%v/%s", strings.Join(optDesc, ","), tc, mode), true)
			r.Count(fmt.Sprintf("route:tc=%s,socks5=%s,dialaddr=%s", b01(tc), b01(opt.Socks5 != ""), b01(opt.DialAddr != "")))
			if the == nil {
				// the UDP query reached neither or both: which address a configuration means is C18's
				// subject; without a server of the exchange there is nothing to say here
				r.Count("route:no-single-udp-receiver")
				continue
			}
			var where []string
			if t1.conns > t0.conns || t1.seen > t0.seen {
				where = append(where, "server")
			}
			if x1.conns > x0.conns || x1.seen > x0.seen {
				where = append(where, "other")
			}
			if o1 > o0 {
				where = append(where, "proxy")
			}
			if len(where) == 0 {
				where = []string{"none"}
			}
			// ---- oracle
			elsewhere := x1.conns > x0.conns || x1.seen > x0.seen || o1 > o0
			switch {
			case tc:
				the.mu.Lock()
				seen := append([][]byte(nil), the.tcpSeen[t0.seen:]...)
				the.mu.Unlock()
				sameQ := false
				for _, b := range seen {
					sameQ = sameQ || bytes.Equal(b, q)
				}
				if elsewhere {
					r.Fail("UDP reply had TC set: the TCP retry opened a connection to another place than the server that sent the UDP reply", desc)
				} else if !sameQ {
					r.Fail("UDP reply had TC set, but the same query did not arrive over TCP at the server that sent the UDP reply", desc)
				} else if mode == "ans" && (what != "tcp" || from != the.tag || binary.BigEndian.Uint16(*resp) != id) {
					r.Fail("UDP reply had TC set and the server answers over TCP, but the caller did not get that TCP reply", desc)
				} else if mode != "ans" && what != "err" {
					r.Fail("UDP reply had TC set and the TCP exchange failed, but the caller got a reply instead of the error", desc)
				}
			default:
				if what != "udp" {
					r.Fail("UDP reply without TC was not returned to the caller", desc)
				}
				if elsewhere || where[0] != "none" {
					r.Fail("a TCP connection was opened for a reply without TC", desc)
				}
			}
			// ---- model line (the model has one server and, when Socks5 is set, one proxy)
			m := "ans"
			if mode != "ans" {
				m = "fail"
			}
			r.Line(fmt.Sprintf("route %02x%02x%02x%02x %s %s", q[0], q[1], f0, f1, m, b01(opt.Socks5 != "")), what+" "+strings.Join(where, "+"))
		}
		u.Close()
	}
}
