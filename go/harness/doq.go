//go:build pC01 || pC02 || pC16 || pall

package main

import (
	"bytes"
	"context"
	"encoding/binary"
	"errors"
	"fmt"
	"io"
	"math/rand"
	"sync"
	"time"

	"github.com/IrineSistiana/mosdns/v5/pkg/upstream/transport"
	"github.com/quic-go/quic-go"
)

// DoQ (RFC 9250) exchanges of the real transport.QuicDnsConn over an in-memory quic.Connection: one
// bidirectional stream per query. The fake stream records what is written, serves scripted reply chunks,
// implements deadlines and CancelRead itself, and lets a scenario choose what Close (the FIN) returns.
// Shared by C01 (own reply, id restored), C02 (a reply that arrived is not lost) and C16 (framing).

type fqStream struct {
	quic.Stream // nil: every method the transport calls is overridden below
	id          int
	mu          sync.Mutex
	cond        *sync.Cond
	written     []byte
	writes      int
	finSent     bool
	closeErr    error // what Close() (sending the FIN) reports
	writeErr    error
	rd          [][]byte // chunks readable
	rdErr       error    // delivered after the chunks
	rdl         time.Time
	canceledRd  bool
	canceledWr  bool
	onWrite     func(s *fqStream, total []byte) // called with everything written so far, outside the lock
	deadlineSet bool
}

func newFqStream(id int) *fqStream {
	s := &fqStream{id: id}
	s.cond = sync.NewCond(&s.mu)
	return s
}

func (s *fqStream) StreamID() quic.StreamID { return quic.StreamID(s.id * 4) }

func (s *fqStream) Write(p []byte) (int, error) {
	s.mu.Lock()
	if s.canceledWr || s.finSent {
		s.mu.Unlock()
		return 0, errors.New("write on closed stream (fake)")
	}
	if s.writeErr != nil {
		err := s.writeErr
		s.mu.Unlock()
		return 0, err
	}
	s.written = append(s.written, p...)
	s.writes++
	total := append([]byte(nil), s.written...)
	cb := s.onWrite
	s.mu.Unlock()
	if cb != nil {
		cb(s, total)
	}
	return len(p), nil
}

func (s *fqStream) Close() error {
	s.mu.Lock()
	defer s.mu.Unlock()
	if s.closeErr != nil {
		return s.closeErr
	}
	s.finSent = true
	return nil
}

func (s *fqStream) feed(b []byte) {
	s.mu.Lock()
	s.rd = append(s.rd, append([]byte(nil), b...))
	s.mu.Unlock()
	s.cond.Broadcast()
}

func (s *fqStream) feedErr(err error) {
	s.mu.Lock()
	s.rdErr = err
	s.mu.Unlock()
	s.cond.Broadcast()
}

func (s *fqStream) Read(p []byte) (int, error) {
	s.mu.Lock()
	defer s.mu.Unlock()
	for {
		if s.canceledRd {
			return 0, errors.New("read on canceled stream (fake)")
		}
		if len(s.rd) > 0 {
			n := copy(p, s.rd[0])
			if n == len(s.rd[0]) {
				s.rd = s.rd[1:]
			} else {
				s.rd[0] = s.rd[0][n:]
			}
			return n, nil
		}
		if s.rdErr != nil {
			return 0, s.rdErr
		}
		if !s.rdl.IsZero() {
			d := time.Until(s.rdl)
			if d <= 0 {
				return 0, timeoutErr{}
			}
			t := time.AfterFunc(d, s.cond.Broadcast)
			s.cond.Wait()
			t.Stop()
			continue
		}
		s.cond.Wait()
	}
}

func (s *fqStream) CancelRead(quic.StreamErrorCode) {
	s.mu.Lock()
	s.canceledRd = true
	s.mu.Unlock()
	s.cond.Broadcast()
}
func (s *fqStream) CancelWrite(quic.StreamErrorCode) {
	s.mu.Lock()
	s.canceledWr = true
	s.mu.Unlock()
}
func (s *fqStream) SetDeadline(t time.Time) error {
	s.mu.Lock()
	s.rdl = t
	s.deadlineSet = true
	s.mu.Unlock()
	s.cond.Broadcast()
	return nil
}
func (s *fqStream) SetReadDeadline(t time.Time) error  { return s.SetDeadline(t) }
func (s *fqStream) SetWriteDeadline(t time.Time) error { return nil }
func (s *fqStream) Context() context.Context           { return context.Background() }

type fqConn struct {
	quic.Connection
	mu      sync.Mutex
	streams []*fqStream
	ctx     context.Context
	cancel  context.CancelFunc
	prep    func(s *fqStream) // configures every new stream
}

func newFqConn(prep func(s *fqStream)) *fqConn {
	c := &fqConn{prep: prep}
	c.ctx, c.cancel = context.WithCancel(context.Background())
	return c
}

func (c *fqConn) Context() context.Context { return c.ctx }
func (c *fqConn) OpenStream() (quic.Stream, error) {
	c.mu.Lock()
	s := newFqStream(len(c.streams))
	c.streams = append(c.streams, s)
	c.mu.Unlock()
	if c.prep != nil {
		c.prep(s)
	}
	return s, nil
}
func (c *fqConn) CloseWithError(quic.ApplicationErrorCode, string) error { c.cancel(); return nil }

// chunks16 cuts b into pieces: 0 one chunk, 1 single bytes, 2 header split, 3 random.
func chunksDoq(rnd *rand.Rand, b []byte, how int) [][]byte {
	switch how {
	case 1:
		var out [][]byte
		for i := range b {
			out = append(out, b[i:i+1])
		}
		return out
	case 2:
		if len(b) > 1 {
			return [][]byte{b[:1], b[1:]}
		}
	case 3:
		var out [][]byte
		for len(b) > 0 {
			n := 1 + rnd.Intn(len(b))
			out = append(out, b[:n])
			b = b[n:]
		}
		return out
	}
	return [][]byte{b}
}

// doqScenarios runs n DoQ exchanges, each on its own stream, several concurrently on one connection.
// what: "C01" (own reply / id), "C02" (reply that arrived is not lost), "C16" (framing). Every scenario checks
// all three aspects; `what` only selects the failure texts' wording and the counters.
func doqScenarios(r *Run, what string, n int) {
	for i := 0; i < n; i++ {
		early := r.Rng.Intn(3)    // 0: reply after the FIN; 1: reply as soon as the whole query is written (before the FIN); 2: ... and the FIN then fails (peer sent STOP_SENDING)
		chunking := r.Rng.Intn(4) // how the reply is cut
		tail := r.Rng.Intn(3)     // after the reply: 0 EOF, 1 nothing (stream stays open), 2 a reset error
		callers := 1 + r.Rng.Intn(4)
		var mu sync.Mutex
		served := map[int][]byte{} // stream -> query frame seen
		conn := newFqConn(nil)
		base := r.Rng.Int63()
		ids := make([]uint16, callers)
		for c := range ids {
			ids[c] = uint16([]int{0, 1, 0xffff, 0x1234, r.Rng.Intn(65536)}[(i+c)%5])
		}
		conn.prep = func(s *fqStream) {
			rnd := rand.New(rand.NewSource(base + int64(s.id)))
			answer := func(s *fqStream, total []byte) {
				if len(total) < 2 || len(total) < 2+int(binary.BigEndian.Uint16(total)) {
					return // query frame incomplete
				}
				mu.Lock()
				_, done := served[s.id]
				if !done {
					served[s.id] = total
				}
				mu.Unlock()
				if done {
					return
				}
				q := total[2:]
				rep := mkReply(q, binary.BigEndian.Uint16(q)) // echoes the id on the wire (0 on DoQ) and the tag
				f := make([]byte, 2+len(rep))
				binary.BigEndian.PutUint16(f, uint16(len(rep)))
				copy(f[2:], rep)
				for _, ch := range chunksDoq(rnd, f, chunking) {
					s.feed(ch)
				}
				switch tail {
				case 0:
					s.feedErr(io.EOF)
				case 2:
					s.feedErr(errors.New("stream reset by peer (injected, after the complete reply)"))
				}
			}
			if early >= 1 {
				s.onWrite = answer
				if early == 2 {
					s.closeErr = errors.New("close called for canceled stream (fake: the peer's STOP_SENDING was processed first)")
				}
			} else {
				// reply only once the FIN has been sent: poll from a goroutine
				go func() {
					for k := 0; k < 4000; k++ {
						s.mu.Lock()
						fin, w := s.finSent, append([]byte(nil), s.written...)
						cancelled := s.canceledRd
						s.mu.Unlock()
						if cancelled {
							return
						}
						if fin {
							answer(s, w)
							return
						}
						time.Sleep(250 * time.Microsecond)
					}
				}()
			}
		}
		dc := transport.NewQuicDnsConn(conn)
		type res struct {
			q    []byte
			resp *[]byte
			err  error
		}
		out := make([]res, callers)
		var wg sync.WaitGroup
		for c := 0; c < callers; c++ {
			wg.Add(1)
			go func(c int) {
				defer wg.Done()
				q := mkQuery(ids[c], 400000+i*10+c)
				rx, closed := dc.ReserveNewQuery()
				if rx == nil {
					out[c] = res{q: q, err: fmt.Errorf("cannot reserve (closed=%v)", closed)}
					return
				}
				ctx, cancel := context.WithTimeout(context.Background(), 3*time.Second)
				defer cancel()
				resp, err := rx.ExchangeReserved(ctx, q)
				out[c] = res{q: q, resp: resp, err: err}
			}(c)
		}
		wg.Wait()
		dc.Close()
		desc := map[string]any{"transport": "doq", "callers": callers, "reply_sent": []string{"after the FIN", "as soon as the query was complete", "as soon as the query was complete; the FIN then fails (STOP_SENDING processed first)"}[early],
			"reply_chunking": []string{"one chunk", "single bytes", "header split", "random"}[chunking], "after_reply": []string{"EOF", "stream stays open", "reset"}[tail]}
		for c, o := range out {
			desc["caller"] = c
			desc["err"] = fmt.Sprint(o.err)
			if o.err != nil || o.resp == nil {
				r.Fail("a DoQ reply was completely received on the query's stream well before the caller's deadline, but the exchange failed", desc)
				continue
			}
			got := *o.resp
			if len(got) < 12 || tagOf(got) != tagOf(o.q) {
				r.Fail("a DoQ exchange returned a reply that is not the server's reply to its own query", desc)
			} else if binary.BigEndian.Uint16(got) != binary.BigEndian.Uint16(o.q) {
				desc["id"] = fmt.Sprintf("%d, want %d", binary.BigEndian.Uint16(got), binary.BigEndian.Uint16(o.q))
				r.Fail("a DoQ exchange did not restore the caller's message id", desc)
			}
		}
		// what went over each stream: exactly one frame = 2-byte length + the query with id 0
		conn.mu.Lock()
		streams := append([]*fqStream(nil), conn.streams...)
		conn.mu.Unlock()
		for _, s := range streams {
			s.mu.Lock()
			w := append([]byte(nil), s.written...)
			s.mu.Unlock()
			desc["stream"] = s.id
			if len(w) < 2 || int(binary.BigEndian.Uint16(w))+2 != len(w) {
				r.Fail("what was written on a DoQ stream is not exactly one frame (2-byte length + message)", desc)
				continue
			}
			if binary.BigEndian.Uint16(w[2:]) != 0 {
				r.Fail("a DoQ query was sent with a non-zero message id", desc)
			}
			match := false
			for _, o := range out {
				if len(o.q) == len(w)-2 && bytes.Equal(o.q[2:], w[4:]) {
					match = true
				}
			}
			if !match {
				r.Fail("the message framed on a DoQ stream is not one of the callers' queries (id aside)", desc)
			}
		}
		r.Eval(fmt.Sprintf("doq/%s/%d/%d/%d/%d", what, early, chunking, tail, callers), true)
		r.Count("doq:" + []string{"reply-after-fin", "reply-before-fin", "reply-before-fin+fin-fails"}[early])
		r.Trace()
	}
}
