//go:build pC16 || pall

package main

import (
	"bytes"
	"context"
	"encoding/binary"
	"errors"
	"fmt"
	"io"
	"math/rand"
	"strconv"
	"strings"
	"sync"
	"time"

	"github.com/IrineSistiana/mosdns/v5/pkg/dnsutils"
	"github.com/IrineSistiana/mosdns/v5/pkg/pool"
	"github.com/IrineSistiana/mosdns/v5/pkg/upstream/transport"
	"github.com/miekg/dns"
)

// C16: stream framing is exact in both directions.

func init() { props["C16"] = runC16 }

func gen16(l, seed int) []byte {
	b := make([]byte, l)
	for i := range b {
		b[i] = byte((seed + 131*i) % 251)
	}
	return b
}

func sum16(b []byte) string { return fmt.Sprintf("%d %d", len(b), fnv16(b)) }

// chunkReader hands out the stream in the given chunk sizes; each Read returns
// at most the rest of the current chunk (a 0-sized chunk is an empty read).
type chunkReader struct {
	chunks [][]byte
}

func newChunkReader(b []byte, sizes []int) *chunkReader {
	cr := &chunkReader{}
	for _, n := range sizes {
		if n > len(b) {
			n = len(b)
		}
		cr.chunks = append(cr.chunks, b[:n])
		b = b[n:]
	}
	if len(b) > 0 {
		cr.chunks = append(cr.chunks, b)
	}
	return cr
}

func (c *chunkReader) Read(p []byte) (int, error) {
	if len(c.chunks) == 0 {
		return 0, io.EOF
	}
	n := copy(p, c.chunks[0])
	if n == len(c.chunks[0]) {
		c.chunks = c.chunks[1:]
	} else {
		c.chunks[0] = c.chunks[0][n:]
	}
	return n, nil
}

func (c *chunkReader) remaining() int {
	n := 0
	for _, ch := range c.chunks {
		n += len(ch)
	}
	return n
}

type countWriter struct {
	bytes.Buffer
	writes int
}

func (w *countWriter) Write(p []byte) (int, error) { w.writes++; return w.Buffer.Write(p) }

func errKind16(err error) string {
	switch {
	case err == io.EOF:
		return "err:eof"
	case errors.Is(err, io.ErrUnexpectedEOF):
		return "err:unexpectedEOF"
	case errors.Is(err, dnsutils.ErrPayloadTooSmall):
		return "err:tooSmall"
	}
	return "err:other:" + err.Error()
}

func sizesStr(s []int) string {
	if len(s) == 0 {
		return "-"
	}
	var p []string
	for _, n := range s {
		p = append(p, strconv.Itoa(n))
	}
	return strings.Join(p, ",")
}

func (r *Run) chunking16(total int) []int {
	switch r.Rng.Intn(6) {
	case 0:
		return nil // one chunk
	case 1: // 1-byte reads for the first bytes, then the rest
		n := 1 + r.Rng.Intn(40)
		s := make([]int, n)
		for i := range s {
			s[i] = 1
		}
		return s
	case 2: // split header
		return []int{1, r.Rng.Intn(4), 1 + r.Rng.Intn(20)}
	case 3: // all 1-byte
		if total > 3000 {
			total = 3000
		}
		s := make([]int, total)
		for i := range s {
			s[i] = 1
		}
		return s
	default:
		var s []int
		for left := total; left > 0 && len(s) < 200; {
			n := r.Rng.Intn(1 + r.Rng.Intn(2000))
			s = append(s, n)
			left -= n
		}
		return s
	}
}

func protect(f func()) (panicked any) {
	defer func() { panicked = recover() }()
	f()
	return nil
}

func runC16(r *Run) {
	// DoQ streams whose handler / whose reply write outlasts the 2 s stream deadline: started now, run beside
	// everything below (mostly waiting), judged at the end (servedoq.go)
	slowDoQ := startSlowDoQ16(r)
	lens := []int{0, 1, 11, 12, 13, 14, 255, 256, 257, 511, 512, 4095, 4096, 8188, 8189, 8190, 8191, 8192, 65533, 65534, 65535, 65536, 65537, 70000}
	for i := r.N(150, 3000); i > 0; i-- {
		lens = append(lens, 13+r.Rng.Intn(3000))
		if i%10 == 0 {
			lens = append(lens, r.Rng.Intn(66000))
		}
	}
	// ---- write side: WriteRawMsgToTCP / copyMsgWithLenHdr vs model, and the oracle "one Write, header = length"
	for _, l := range lens {
		seed := r.Rng.Intn(1000)
		m := gen16(l, seed)
		w := &countWriter{}
		_, err := dnsutils.WriteRawMsgToTCP(w, m)
		out := "refused"
		if err == nil {
			out = "ok " + sum16(w.Bytes())
		}
		r.Line(fmt.Sprintf("write gen:%d:%d", l, seed), out)
		bp, err2 := transport.VerifCopyMsgWithLenHdr(m)
		out2 := "refused"
		if err2 == nil {
			out2 = "ok " + sum16(*bp)
		}
		r.Line(fmt.Sprintf("write gen:%d:%d", l, seed), out2)
		r.Eval(fmt.Sprintf("write:%d:%d", l, seed), l >= 12 && l <= 65535)
		r.Count("write:" + map[bool]string{true: "in-range", false: "out-of-range"}[l <= 65535])
		desc := map[string]any{"len": l, "seed": seed}
		if l > 65535 {
			if err == nil || w.Len() > 0 || err2 == nil {
				r.Fail("a message longer than 65535 bytes was framed instead of refused", desc)
			}
			continue
		}
		want := append([]byte{byte(l >> 8), byte(l)}, m...)
		if err != nil || !bytes.Equal(w.Bytes(), want) {
			r.Fail("WriteRawMsgToTCP did not write length header + message", desc)
		}
		if w.writes != 1 {
			r.Fail(fmt.Sprintf("WriteRawMsgToTCP used %d Write calls for one message", w.writes), desc)
		}
		if err2 != nil || !bytes.Equal(*bp, want) {
			r.Fail("copyMsgWithLenHdr did not build length header + message", desc)
		}
		// round trip under a chunking, with trailing bytes (12 bytes = a bare DNS header is a message too: F18)
		if l >= 12 {
			trail := r.Rng.Intn(30)
			stream := append(append([]byte{}, want...), gen16(trail, 7)...)
			sizes := r.chunking16(len(stream))
			cr := newChunkReader(stream, sizes)
			var got *[]byte
			var rerr error
			if p := protect(func() { got, rerr = dnsutils.ReadRawMsgFromTCP(cr) }); p != nil {
				r.Fail(fmt.Sprintf("ReadRawMsgFromTCP panicked: %v", p), desc)
				continue
			}
			desc["chunking"] = sizesStr(sizes)
			if rerr != nil || !bytes.Equal(*got, m) || cr.remaining() != trail {
				r.Fail("write then read did not return the message unchanged (or consumed bytes of the next frame)", desc)
			}
			r.Eval(fmt.Sprintf("roundtrip:%d:%d:%s", l, seed, sizesStr(sizes)), true)
			r.Count("roundtrip")
		}
	}

	// ---- read side vs model: well-formed, short, small and arbitrary streams
	nread := r.N(1500, 40000)
	for i := 0; i < nread; i++ {
		var stream []byte
		kind := ""
		switch k := r.Rng.Intn(10); {
		case k < 4: // valid frame(s) + tail
			kind = "valid"
			for j := 1 + r.Rng.Intn(3); j > 0; j-- {
				l := 13 + r.Rng.Intn(600)
				stream = append(stream, byte(l>>8), byte(l))
				stream = append(stream, gen16(l, r.Rng.Intn(250))...)
			}
			stream = append(stream, gen16(r.Rng.Intn(4), 3)...)
		case k < 6: // announced length too small
			kind = "small"
			l := r.Rng.Intn(13)
			stream = append([]byte{0, byte(l)}, gen16(r.Rng.Intn(40), 9)...)
		case k < 8: // truncated
			kind = "short"
			l := 13 + r.Rng.Intn(3000)
			have := r.Rng.Intn(l)
			stream = append([]byte{byte(l >> 8), byte(l)}, gen16(have, 1)...)
			if r.Rng.Intn(5) == 0 {
				stream = stream[:r.Rng.Intn(2)]
			}
		default: // arbitrary garbage
			kind = "garbage"
			stream = make([]byte, r.Rng.Intn(300))
			r.Rng.Read(stream)
		}
		sizes := r.chunking16(len(stream))
		op := "read"
		if r.Rng.Intn(3) == 0 {
			op = "readall"
		}
		line := fmt.Sprintf("%s %s %s", op, hx(stream), sizesStr(sizes))
		cr := newChunkReader(stream, sizes)
		var out string
		p := protect(func() {
			if op == "read" {
				b, err := dnsutils.ReadRawMsgFromTCP(cr)
				if err != nil {
					out = errKind16(err)
				} else {
					out = fmt.Sprintf("ok %s rest=%d", sum16(*b), cr.remaining())
					if len(*b) < 12 || len(*b) != int(binary.BigEndian.Uint16(stream)) {
						r.Fail("ReadRawMsgFromTCP returned a buffer whose size is not the announced length", map[string]any{"stream": hx(stream), "chunking": sizesStr(sizes), "got_len": len(*b)})
					}
				}
				return
			}
			var parts []string
			tail := "end"
			for cr.remaining() > 0 {
				b, err := dnsutils.ReadRawMsgFromTCP(cr)
				if err != nil {
					tail = errKind16(err)
					break
				}
				parts = append(parts, sum16(*b))
			}
			out = strings.Join(parts, ";") + " " + tail
		})
		if p != nil {
			r.Fail(fmt.Sprintf("ReadRawMsgFromTCP panicked: %v", p), map[string]any{"stream": hx(stream), "chunking": sizesStr(sizes)})
			out = "panic"
		}
		r.Line(line, out)
		r.Eval(line, kind != "valid" || len(sizes) > 0)
		r.Count("read:" + kind)
	}

	// ---- PackTCPBuffer / WriteMsgToTCP: frame = header + independently packed message
	for _, target := range []int{13, 100, 512, 4000, 8100, 8180, 8185, 8187, 8188, 8189, 8190, 8191, 8192, 8200, 9000, 16384, 40000, 65000, 65535, 65600, 70000} {
		m := new(dns.Msg)
		m.SetQuestion("big.example.", dns.TypeTXT)
		m.Response = true
		base, _ := m.Pack()
		for len(base) < target {
			need := target - len(base)
			// one TXT RR: 2(name ptr? no compression set) ... grow by trial
			chunk := need - 24
			if chunk > 255 {
				chunk = 255
			}
			if chunk < 1 {
				chunk = 1
			}
			m.Answer = append(m.Answer, &dns.TXT{Hdr: dns.RR_Header{Name: "big.example.", Rrtype: dns.TypeTXT, Class: dns.ClassINET, Ttl: 1}, Txt: []string{strings.Repeat("x", chunk)}})
			nb, err := m.Pack()
			if err != nil {
				break
			}
			base = nb
		}
		wire, perr := m.Pack()
		w := &countWriter{}
		var werr error
		if p := protect(func() { _, werr = dnsutils.WriteMsgToTCP(w, m) }); p != nil {
			r.Fail(fmt.Sprintf("WriteMsgToTCP panicked: %v", p), map[string]any{"packed_len": len(wire)})
			continue
		}
		r.Eval(fmt.Sprintf("packtcp:%d", len(wire)), true)
		r.Count("packtcp")
		desc := map[string]any{"packed_len": len(wire), "frame_len": w.Len(), "err": fmt.Sprint(werr)}
		if perr != nil {
			continue
		}
		if len(wire) > 65535 {
			if werr == nil || w.Len() > 0 {
				r.Fail("PackTCPBuffer framed a message longer than 65535 bytes", desc)
			}
			outP := "refused"
			if bp, err := pool.PackTCPBuffer(m); err == nil {
				outP = "ok " + sum16(*bp)
			}
			r.Line("packtcp "+hx(wire), outP)
			continue
		}
		want := append([]byte{byte(len(wire) >> 8), byte(len(wire))}, wire...)
		if werr != nil || !bytes.Equal(w.Bytes(), want) {
			r.Fail("WriteMsgToTCP/PackTCPBuffer did not produce length header + packed message", desc)
		}
		if w.writes > 1 {
			r.Fail("WriteMsgToTCP used more than one Write", desc)
		}
		bp, err := pool.PackTCPBuffer(m)
		if err != nil || !bytes.Equal(*bp, want) {
			r.Fail("PackTCPBuffer did not produce length header + packed message", desc)
		}
		// the same packed bytes through the regenerated packTCPBuffer / packBuffer of the model
		outP := "refused"
		if err == nil {
			outP = "ok " + sum16(*bp)
		}
		r.Line("packtcp "+hx(wire), outP)
		if ub, uerr := pool.PackBuffer(m); uerr == nil {
			r.Line("packudp "+hx(wire), "ok "+sum16(*ub))
			if !bytes.Equal(*ub, wire) {
				r.Fail("PackBuffer did not hand out the packed message unchanged", desc)
			}
		}
	}

	// ---- ServeTCP: concurrent replies on one (non-*net.TCPConn) connection must arrive as intact frames
	rounds := r.N(6, 60)
	for round := 0; round < rounds; round++ {
		serveTCP16(r, 6+r.Rng.Intn(10))
	}
	// ---- ServeTCP with real read deadlines: frames in pieces, pauses beyond the idle timeout, queries in flight,
	// messages whose tail is itself framed queries (c16stall.go)
	serveTCPStalls16(r, r.N(8, 120))
	// ---- the transports' own read loops under adversarial chunking of several frames
	clientReadLoops16(r, r.N(40, 600))
	// ---- ... and with a frame announcing less than a DNS header between the reply frames
	clientRuntFrames16(r, r.N(40, 500))
	// ---- frames written by retries of the non-pipelined transport
	reuseRetryFrames16(r, r.N(25, 300))
	// ---- the real DoQ server over quic-go on loopback
	serveDoQ16(r, r.N(6, 60))
	// ---- DoQ streams carry exactly one frame per direction (RFC 9250 4.2)
	doqScenarios(r, "C16", r.N(40, 400))
	finishSlowDoQ16(r, slowDoQ)
	r.Finish("boundary lengths {0..14,255..257,511,512,4095,4096,8188..8192,65533..65537,70000} + seeded lengths; every in-range write is read back under a seeded chunking (single chunk, 1-byte reads, split header, random, empty reads); read side: 40% valid frames, 20% announced 0..12 (12 = a bare header: a valid frame since the repair of F18, below it an error), 20% truncated, 20% random bytes, each under a chunking; packed messages around the 8191-byte scratch buffer; concurrent ServeTCP replies on a wrapped connection; the pipelined client connection (TraditionalDnsConn) with 2-8 queries in flight fed reply bursts under adversarial cuts, and bursts holding a frame that announces 1..11 bytes (random body, or a body that reads as header + id of a query in flight at a wrong offset) between the reply frames: every successful exchange returns exactly its frame, nothing framed behind the short frame is handed out (also replayed on Model.C16.decodeAll, op readall); ServeTCP over loopback TCP / net.Pipe with an 80-160 ms idle timeout fed frames cut inside the header / body / at embedded framed data, with pauses beyond the timeout while a query is in flight (only framed messages may reach the handler; also replayed on Model.C16.serve) and, with a 5 s timeout, without pauses (every frame handled and answered); the real ServeDoQ over quic-go: one frame per stream, and with handlers returning 2.25-2.9 s after the stream was accepted (beyond the 2 s stream deadline), replies of 9-50 KB against a 1-8 KiB client stream window and clients that start reading 2.3-2.8 s late, all in flight together: every reply the handler returned arrives as exactly one frame before FIN (also replayed on Model.C16.doqStream); non-trivial = not (valid frame in one chunk)")
}

// clientReadLoops16: the client side of stream framing inside the transports. N queries are in flight on one
// pipelined length-prefixed connection (TraditionalDnsConn), the server answers all of them in one burst whose
// byte stream is cut adversarially (all frames in one chunk, a frame plus half of the next, single bytes, random
// cuts); every caller must get exactly the bytes the server framed for it.
func clientReadLoops16(r *Run, rounds int) {
	for rd := 0; rd < rounds; rd++ {
		n := 2 + r.Rng.Intn(7)
		how := r.Rng.Intn(4)
		fc := newFakeConn(rd, true)
		var mu sync.Mutex
		var seen [][]byte
		want := map[int][]byte{} // tag -> reply message as framed by the server
		pad := make([]int, n)
		for i := range pad {
			pad[i] = []int{0, 0, 1, 200, 480, 481, 482, 483, 510, 511, 512, 513, 1500}[r.Rng.Intn(13)]
		}
		base := r.Rng.Int63()
		fc.onWrite = func(c *fakeConn, w []byte) error {
			q := c.payloadOf(w)
			if len(q) < 12 {
				return nil
			}
			mu.Lock()
			seen = append(seen, append([]byte(nil), q...))
			all := len(seen) == n
			var qs [][]byte
			if all {
				qs = append(qs, seen...)
			}
			mu.Unlock()
			if !all {
				return nil
			}
			rnd := rand.New(rand.NewSource(base))
			rnd.Shuffle(len(qs), func(i, j int) { qs[i], qs[j] = qs[j], qs[i] })
			var stream []byte
			var bounds []int
			for i, q := range qs {
				rep := mkReply(q, binary.BigEndian.Uint16(q))
				for k := 0; k < pad[i]; k++ {
					rep = append(rep, byte(rnd.Intn(256)))
				}
				mu.Lock()
				want[tagOf(q)] = rep
				mu.Unlock()
				stream = append(stream, c.frame(rep)...)
				bounds = append(bounds, len(stream))
			}
			var chunks [][]byte
			switch how {
			case 0: // everything in one chunk
				chunks = [][]byte{stream}
			case 1: // each frame together with the first half of the next one
				prev := 0
				for i, b := range bounds {
					end := b
					if i+1 < len(bounds) {
						end = b + (bounds[i+1]-b)/2
					}
					chunks = append(chunks, stream[prev:end])
					prev = end
				}
			case 2: // single bytes
				for i := range stream {
					chunks = append(chunks, stream[i:i+1])
				}
			default:
				rest := stream
				for len(rest) > 0 {
					k := 1 + rnd.Intn(len(rest))
					chunks = append(chunks, rest[:k])
					rest = rest[k:]
				}
			}
			go func() {
				for _, ch := range chunks {
					c.feed(ch)
				}
			}()
			return nil
		}
		dc := transport.NewDnsConn(transport.TraditionalDnsConnOpts{WithLengthHeader: true, IdleTimeout: 10 * time.Second, MaxConcurrentQuery: 64}, fc)
		type res struct {
			tag  int
			id   uint16
			resp *[]byte
			err  error
		}
		out := make([]res, n)
		var wg sync.WaitGroup
		for i := 0; i < n; i++ {
			tag := 160000 + rd*16 + i
			id := uint16(r.Rng.Intn(65536))
			out[i] = res{tag: tag, id: id}
			wg.Add(1)
			go func(i int) {
				defer wg.Done()
				rx, _ := dc.ReserveNewQuery()
				if rx == nil {
					out[i].err = errors.New("cannot reserve")
					return
				}
				ctx, cancel := context.WithTimeout(context.Background(), 4*time.Second)
				defer cancel()
				out[i].resp, out[i].err = rx.ExchangeReserved(ctx, mkQuery(out[i].id, out[i].tag))
			}(i)
		}
		wg.Wait()
		dc.Close()
		desc := map[string]any{"transport": "pipelined connection with length header", "queries_in_flight": n, "reply_sizes_beyond_the_question": fmt.Sprint(pad),
			"reply_stream_cut": []string{"all frames in one chunk", "each frame with the first half of the next", "single bytes", "random cuts"}[how]}
		for _, o := range out {
			desc["query_tag"] = o.tag
			mu.Lock()
			w := want[o.tag]
			mu.Unlock()
			if o.err != nil || o.resp == nil {
				desc["err"] = fmt.Sprint(o.err)
				r.Fail("a reply frame sent by the server on a pipelined stream connection did not reach its caller", desc)
				continue
			}
			got := append([]byte(nil), *o.resp...)
			if len(got) >= 2 && len(w) >= 2 && binary.BigEndian.Uint16(got) == o.id {
				copy(got[:2], w[:2]) // the caller's id is restored over the wire id
			}
			if !bytes.Equal(got, w) {
				desc["got_len"], desc["want_len"] = len(got), len(w)
				r.Fail("a message read from a chunked stream differs from the message the server framed", desc)
			}
		}
		r.Eval(fmt.Sprintf("clientread/%d/%d/%d", how, n, rd), true)
		r.Count("client-read-loop:" + []string{"one-chunk", "frame+half", "single-bytes", "random"}[how])
		r.Trace()
	}
}

// clientRuntFrames16: a pipelined length-prefixed connection whose server puts a frame announcing 1..11 bytes (with
// that many body bytes) between valid reply frames, the whole stream cut adversarially. "A length announcing less
// than a DNS header ... yields an error, never a buffer of another size": every successful exchange must return
// exactly the frame the server sent for it, and nothing framed after the short frame may be handed out (the read
// yields an error, the stream is not re-framed). The body of the short frame is random or written so that a reader
// which goes on at a wrong offset finds a plausible header + the id of a query in flight. The outcome of the
// callers is also replayed on the model (driver op `readall`: Model.C16.decodeAll on the same stream and chunks).
func clientRuntFrames16(r *Run, rounds int) {
	for rd := 0; rd < rounds; rd++ {
		n := 2 + r.Rng.Intn(6)
		pre := r.Rng.Intn(n) // replies framed before the short frame; at least one comes after it
		L := 1 + r.Rng.Intn(11) // less than a DNS header
		crafted := r.Rng.Intn(10) < 7
		if crafted {
			L = 4 + r.Rng.Intn(8) // 4..11
		}
		how := r.Rng.Intn(4)
		fc := newFakeConn(rd, true)
		var mu sync.Mutex
		var seen [][]byte
		want := map[int][]byte{} // tag -> reply message as framed by the server
		var order []int          // tags in stream order
		var stream, runt []byte
		var sizes []int
		pad := make([]int, n)
		for i := range pad {
			pad[i] = []int{0, 0, 1, 7, 60, 200, 481, 512}[r.Rng.Intn(8)]
		}
		base := r.Rng.Int63()
		fc.onWrite = func(c *fakeConn, w []byte) error {
			q := c.payloadOf(w)
			if len(q) < 12 {
				return nil
			}
			mu.Lock()
			defer mu.Unlock()
			seen = append(seen, append([]byte(nil), q...))
			if len(seen) != n {
				return nil
			}
			qs := append([][]byte(nil), seen...)
			rnd := rand.New(rand.NewSource(base))
			rnd.Shuffle(len(qs), func(i, j int) { qs[i], qs[j] = qs[j], qs[i] })
			for i, q := range qs {
				if i == pre {
					body := make([]byte, L)
					rnd.Read(body)
					if crafted {
						victim := qs[pre+rnd.Intn(n-pre)]
						m := 13 + rnd.Intn(12)
						body[0], body[1] = byte(m>>8), byte(m)
						body[2], body[3] = victim[0], victim[1]
					}
					runt = append([]byte{0, byte(L)}, body...)
					stream = append(stream, runt...)
				}
				rep := mkReply(q, binary.BigEndian.Uint16(q))
				for k := 0; k < pad[i]; k++ {
					rep = append(rep, byte(rnd.Intn(256)))
				}
				want[tagOf(q)] = rep
				order = append(order, tagOf(q))
				stream = append(stream, c.frame(rep)...)
			}
			switch how {
			case 0: // everything in one chunk
				sizes = []int{len(stream)}
			case 1: // single bytes
				for range stream {
					sizes = append(sizes, 1)
				}
			case 2: // cuts right behind the header of the short frame and inside its body
				at := 0
				for i := 0; i < pre; i++ {
					at += 2 + len(want[order[i]])
				}
				cut := 1 + rnd.Intn(L)
				sizes = []int{at + 2, cut, len(stream) - at - 2 - cut}
			default:
				for left := len(stream); left > 0; {
					k := 1 + rnd.Intn(left)
					sizes = append(sizes, k)
					left -= k
				}
			}
			chunks := make([][]byte, 0, len(sizes))
			rest := stream
			for _, k := range sizes {
				chunks = append(chunks, rest[:k])
				rest = rest[k:]
			}
			go func() {
				for _, ch := range chunks {
					if len(ch) > 0 {
						c.feed(ch)
					}
				}
				c.feedErr(io.EOF) // the server closes behind its last frame
			}()
			return nil
		}
		dc := transport.NewDnsConn(transport.TraditionalDnsConnOpts{WithLengthHeader: true, IdleTimeout: 10 * time.Second, MaxConcurrentQuery: 64}, fc)
		type res struct {
			tag  int
			id   uint16
			resp *[]byte
			err  error
		}
		out := make([]res, n)
		var wg sync.WaitGroup
		for i := 0; i < n; i++ {
			out[i] = res{tag: 165000 + rd*16 + i, id: uint16(r.Rng.Intn(65536))}
			wg.Add(1)
			go func(i int) {
				defer wg.Done()
				rx, _ := dc.ReserveNewQuery()
				if rx == nil {
					out[i].err = errors.New("cannot reserve")
					return
				}
				ctx, cancel := context.WithTimeout(context.Background(), 4*time.Second)
				defer cancel()
				out[i].resp, out[i].err = rx.ExchangeReserved(ctx, mkQuery(out[i].id, out[i].tag))
			}(i)
		}
		wg.Wait()
		dc.Close()
		mu.Lock()
		desc := map[string]any{"transport": "pipelined connection with length header", "queries_in_flight": n,
			"server_stream": fmt.Sprintf("%d reply frames, then a frame announcing %d bytes: %s, then %d reply frames, then EOF", pre, L, hx(runt), n-pre),
			"short_frame_body": map[bool]string{true: "a length 13..24 + the wire id of a query in flight + random bytes", false: "random bytes"}[crafted],
			"reply_sizes_beyond_the_question": fmt.Sprint(pad), "reply_stream_chunks": sizesStr(sizes[:min(len(sizes), 40)])}
		pos := map[int]int{}
		for i, t := range order {
			pos[t] = i
		}
		byTag := map[int]res{}
		for _, o := range out {
			byTag[o.tag] = o
		}
		var parts []string
		tail := "end"
		for _, t := range order {
			o, w := byTag[t], want[t]
			desc["query_tag"] = t
			if o.err != nil || o.resp == nil {
				if o.err != nil {
					tail = errKind16(errors.Unwrap(o.err))
					if errors.Unwrap(o.err) == nil {
						tail = errKind16(o.err)
					}
				}
				continue
			}
			got := append([]byte(nil), *o.resp...)
			if len(got) >= 2 && len(w) >= 2 && binary.BigEndian.Uint16(got) == o.id {
				copy(got[:2], w[:2]) // back to the wire id
			}
			parts = append(parts, sum16(got))
			if !bytes.Equal(got, w) {
				desc["got_len"], desc["want_len"], desc["got"] = len(got), len(w), hx(got[:min(len(got), 48)])
				r.Fail("a caller of a pipelined stream connection was handed bytes the server never sent as one frame (the stream held a frame announcing less than a DNS header)", desc)
				delete(desc, "got_len")
				delete(desc, "want_len")
				delete(desc, "got")
			} else if pos[t] >= pre {
				r.Fail("a frame announcing less than a DNS header did not yield an error: the connection went on handing out what follows it on the stream", desc)
			}
		}
		if len(order) == n {
			r.Line(fmt.Sprintf("readall %s %s", hx(stream), sizesStr(sizes)), strings.Join(parts, ";")+" "+tail)
		} else {
			r.Fail("not every query of the round was written to the connection", desc)
		}
		mu.Unlock()
		r.Eval(fmt.Sprintf("clientrunt/%d/%d/%d/%d", how, n, L, rd), true)
		r.Count("client-read-loop-short-frame:" + []string{"one-chunk", "single-bytes", "cut-in-short-frame", "random"}[how])
		r.Trace()
	}
}

// reuseRetryFrames16: what goes over the wire when a non-pipelined transport retries. Idle connections die (their
// next Write fails), the exchange is retried on the next idle one and finally on a fresh connection; released pool
// buffers are overwritten at once (as a concurrent user of the pool would). Every Write on every connection must
// be exactly one frame: 2-byte length + the caller's query.
func reuseRetryFrames16(r *Run, rounds int) {
	orig := pool.ReleaseBuf
	pool.ReleaseBuf = func(b *[]byte) {
		if b != nil {
			for i := range *b {
				(*b)[i] = 0xEE
			}
		}
		orig(b)
	}
	defer func() { pool.ReleaseBuf = orig }()
	for rd := 0; rd < rounds; rd++ {
		dead := 1 + r.Rng.Intn(3)
		var mu sync.Mutex
		var conns []*fakeConn
		failing := map[int]bool{}
		dial := func(ctx context.Context) (transport.NetConn, error) {
			mu.Lock()
			defer mu.Unlock()
			c := newFakeConn(len(conns), true)
			c.onWrite = func(c *fakeConn, w []byte) error {
				mu.Lock()
				bad := failing[c.id]
				mu.Unlock()
				if bad {
					return errFake
				}
				q := c.payloadOf(w)
				if len(q) >= 12 {
					c.feed(c.frame(mkReply(q, binary.BigEndian.Uint16(q))))
				}
				return nil
			}
			conns = append(conns, c)
			return c, nil
		}
		t := transport.NewReuseConnTransport(transport.ReuseConnOpts{DialContext: dial})
		// open `dead` connections by running that many exchanges at once, let them become idle
		var wg sync.WaitGroup
		for i := 0; i < dead; i++ {
			wg.Add(1)
			go func(i int) {
				defer wg.Done()
				ctx, cancel := context.WithTimeout(context.Background(), 3*time.Second)
				defer cancel()
				t.ExchangeContext(ctx, mkQuery(uint16(i), 170000+rd*16+i))
			}(i)
		}
		wg.Wait()
		time.Sleep(2 * time.Millisecond)
		mu.Lock()
		for _, c := range conns {
			failing[c.id] = true // every pooled connection is dead from now on
		}
		nBefore := len(conns)
		mu.Unlock()
		tag := 170000 + rd*16 + 9
		id := uint16(r.Rng.Intn(65536))
		q := mkQuery(id, tag)
		ctx, cancel := context.WithTimeout(context.Background(), 3*time.Second)
		resp, err := t.ExchangeContext(ctx, q)
		cancel()
		t.Close()
		desc := map[string]any{"transport": "reuse (non-pipelined)", "dead_idle_connections": nBefore, "query_tag": tag, "err": fmt.Sprint(err)}
		frames := map[string]bool{}
		addFrame := func(m []byte) { frames[string(append([]byte{byte(len(m) >> 8), byte(len(m))}, m...))] = true }
		addFrame(q)
		for i := 0; i < dead; i++ {
			addFrame(mkQuery(uint16(i), 170000+rd*16+i))
		}
		mu.Lock()
		cs := append([]*fakeConn(nil), conns...)
		mu.Unlock()
		for _, c := range cs {
			c.mu.Lock()
			ws := append([][]byte(nil), c.writes...)
			c.mu.Unlock()
			for wi, w := range ws {
				if !frames[string(w)] {
					desc["connection"], desc["write_no"] = c.id, wi
					desc["written"] = hx(w[:min(len(w), 48)])
					r.Fail("a Write on a connection of the non-pipelined transport (first attempt or retry) is not exactly one frame: 2-byte length + one of the callers' queries", desc)
				}
			}
		}
		if err == nil && resp != nil && (tagOf(*resp) != tag || binary.BigEndian.Uint16(*resp) != id) {
			r.Fail("the retried exchange returned something other than the reply to its query", desc)
		}
		r.Eval(fmt.Sprintf("reuse-retry/%d/%d", dead, rd), true)
		r.Count("reuse-retry-frames")
		r.Trace()
	}
}
