//go:build pC20 || pall

package main

import (
	"context"
	"fmt"
	"runtime"
	"runtime/debug"
	"strings"
	"sync/atomic"
	"time"

	"github.com/IrineSistiana/mosdns/v5/coremain"
	"github.com/IrineSistiana/mosdns/v5/pkg/query_context"
	"github.com/IrineSistiana/mosdns/v5/pkg/verifpoint"
	"github.com/IrineSistiana/mosdns/v5/plugin/executable/sequence"
	"github.com/IrineSistiana/mosdns/v5/plugin/executable/sequence/fallback"
	"github.com/IrineSistiana/mosdns/v5/plugin/executable/sleep"
	"github.com/miekg/dns"
)

// The threshold timer of a fallback call comes from pkg/pool, and fallback is not the pool's only client: the
// sleep plugin borrows its timer there too. What any client does to the pool decides which timer a later
// fallback call gets - in particular whether two calls that overlap in time get two different timers.
//
// share20: on one P (so that the pool hands out what was released last) and with the collector off (it empties
// sync.Pools), real sleep steps run first - to completion, with a context that is already over, with a context
// that ends mid-sleep (cancel / deadline) - then one or two fallback calls go past their threshold (the
// secondary started by the timer and still working) and, while those are still running, a call B starts whose
// primary is slower than B's threshold and whose secondary answers at once when started or released. The earlier
// calls' secondaries finish inside B's threshold window. B is judged by the property's own sentence: the primary
// is slower than the threshold, so the secondary's answer (the first to arrive) is the result - the call may not
// still be waiting when the primary finishes 1.5 s after the threshold. Every fallback call is replayed on the model.

func sleepStep20(r *Run, kind string) string {
	d := "10000"
	if kind == "runs-to-completion" {
		d = fmt.Sprint(1 + r.Rng.Intn(4))
	}
	sl, err := sleep.QuickSetup(nil, d)
	if err != nil {
		fatal(err)
	}
	q := new(dns.Msg)
	q.SetQuestion("c20.example.", dns.TypeA)
	qCtx := query_context.NewContext(q)
	ctx, cancel := context.WithCancel(context.Background())
	defer cancel()
	switch kind {
	case "context-already-over":
		cancel()
	case "deadline-mid-sleep":
		var c2 context.CancelFunc
		ctx, c2 = context.WithTimeout(ctx, time.Duration(1+r.Rng.Intn(4))*time.Millisecond)
		defer c2()
	}
	done := make(chan error, 1)
	go func() { done <- sl.(sequence.Executable).Exec(ctx, qCtx) }()
	if kind == "cancelled-mid-sleep" {
		for i := 0; i < 8; i++ {
			runtime.Gosched() // one P: the step is inside its wait now
		}
		time.Sleep(time.Duration(1+r.Rng.Intn(4)) * time.Millisecond)
		cancel()
	}
	res := "hang"
	select {
	case err := <-done:
		res = "nil"
		if err != nil {
			res = "error"
		}
	case <-time.After(8 * time.Second):
	}
	return fmt.Sprintf("sleep(%s ms, %s) -> %s", d, kind, res)
}

var sleepKinds20 = []string{"runs-to-completion", "context-already-over", "cancelled-mid-sleep", "deadline-mid-sleep"}

func share20(r *Run, i int) (ok bool) {
	ok = true
	outcomes := []string{"ans", "none", "err", "errans"}
	procs := runtime.GOMAXPROCS(1)
	defer runtime.GOMAXPROCS(procs)
	defer debug.SetGCPercent(debug.SetGCPercent(-1))
	verifpoint.Set(nil)
	settle := func() {
		for k := 0; k < 16; k++ {
			runtime.Gosched() // one P: every runnable goroutine gets to its next blocking point
		}
		time.Sleep(3 * time.Millisecond)
		for k := 0; k < 16; k++ {
			runtime.Gosched()
		}
	}
	build := func(prim, sec *exec20, threshold int, standby bool) sequence.Executable {
		plugins := map[string]any{"prim": prim, "sec": sec}
		m := coremain.NewTestMosdnsWithPlugins(plugins)
		fb, err := fallback.Init(coremain.NewBP("fb", m), &fallback.Args{Primary: "prim", Secondary: "sec", Threshold: threshold, AlwaysStandby: standby})
		if err != nil {
			fatal(err)
		}
		return fb.(sequence.Executable)
	}
	type ret struct {
		err error
		at  time.Time
	}
	call := func(fb sequence.Executable, ctx context.Context) (*query_context.Context, chan ret) {
		q := new(dns.Msg)
		q.SetQuestion("c20.example.", dns.TypeA)
		qCtx := query_context.NewContext(q)
		ch := make(chan ret, 1)
		go func() {
			err := fb.Exec(ctx, qCtx)
			ch <- ret{err, time.Now()}
		}()
		return qCtx, ch
	}
	ctx, cancelAll := context.WithCancel(context.Background())
	defer cancelAll()

	// ---- other clients of the timer pool
	nSleep := 1 + r.Rng.Intn(3)
	forced := -1
	if i%3 != 2 {
		forced = r.Rng.Intn(nSleep) // most sequences have at least one step whose context ends mid-sleep
	}
	for k := 0; k < nSleep; k++ {
		kind := sleepKinds20[r.Rng.Intn(len(sleepKinds20))]
		if k == forced {
			kind = []string{"cancelled-mid-sleep", "deadline-mid-sleep"}[r.Rng.Intn(2)]
		}
		hist20 = append(hist20, sleepStep20(r, kind)+fmt.Sprintf(" gomaxprocs=%d", runtime.GOMAXPROCS(0)))
		r.Count("scenario:sleep-step")
	}

	// ---- one or two calls that go past their threshold and keep running
	type callA struct {
		prim, sec *exec20
		standby   bool
		p, s      string
		qCtx      *query_context.Context
		ch        chan ret
		what      string
		earlier   []string
	}
	var as []*callA
	nA := 1
	if r.Rng.Intn(3) == 0 {
		nA = 2
	}
	const thrA = 15
	for k := 0; k < nA; k++ {
		a := &callA{standby: k > 0 && r.Rng.Intn(2) == 0, p: outcomes[r.Rng.Intn(4)], s: "ans"}
		if r.Rng.Intn(3) == 0 {
			a.s = outcomes[r.Rng.Intn(4)]
		}
		a.prim, a.sec = newExec20("primary", a.p, false), newExec20("secondary", a.s, false)
		a.what = fmt.Sprintf("past-threshold(always_standby=%v threshold_ms=%d primary=%s-later secondary=%s-working-until-the-next-call-has-started) gomaxprocs=1", a.standby, thrA, a.p, a.s)
		a.earlier = earlier20()
		hist20 = append(hist20, a.what)
		a.qCtx, a.ch = call(build(a.prim, a.sec, thrA, a.standby), ctx)
		// event-driven: the threshold has passed when the secondary has been started by it
		for w := 0; w < 5000 && atomic.LoadInt32(&a.sec.calls) == 0; w++ {
			time.Sleep(time.Millisecond)
		}
		if a.standby {
			time.Sleep(3 * thrA * time.Millisecond)
		}
		settle()
		as = append(as, a)
	}

	// ---- call B: primary slower than the threshold, secondary answers at once
	standbyB := r.Rng.Intn(2) == 0
	pB := outcomes[r.Rng.Intn(4)]
	thrB := 300 + r.Rng.Intn(100)
	const slower = 1500 * time.Millisecond
	primB, secB := newExec20("primary", pB, false), newExec20("secondary", "ans", true)
	fbB := build(primB, secB, thrB, standbyB)
	whatB := fmt.Sprintf("slow-primary(always_standby=%v threshold_ms=%d primary=%s-after-threshold+%v secondary=ans-at-once), started while %d earlier call(s) past their threshold were still running; their secondaries finish inside this call's threshold gomaxprocs=1",
		standbyB, thrB, pB, slower, nA)
	earlierB := earlier20()
	hist20 = append(hist20, whatB)
	meter := startStallMeter()
	t0 := time.Now()
	qB, chB := call(fbB, ctx)
	for w := 0; w < 5000 && atomic.LoadInt32(&primB.calls) == 0; w++ {
		time.Sleep(500 * time.Microsecond)
	}
	settle() // B's secondary worker has borrowed and armed its timer
	armedAfter := time.Since(t0)

	// ---- the earlier calls complete (inside B's threshold window when the machine is not stalled)
	for _, a := range as {
		close(a.sec.gate)
		waitCh(a.sec.done, 3*time.Second)
		settle()
		if a.s != "ans" {
			close(a.prim.gate)
		}
		var got ret
		res := "hang"
		select {
		case got = <-a.ch:
			res = result20(got.err, a.qCtx)
		case <-time.After(4 * time.Second):
		}
		secStarted := atomic.LoadInt32(&a.sec.calls) > 0
		var labels []string
		sAns, pAns := a.s == "ans", a.p == "ans"
		if a.standby {
			labels = append(labels, "sStart", "timerFire", "sFinish")
			if sAns {
				labels = append(labels, "sWaitTimer")
			} else {
				labels = append(labels, "sSend")
			}
		} else {
			labels = append(labels, "timerFire", "sPickTimer", "sFinish", "sSend")
		}
		if !sAns {
			labels = append(labels, "pFinish", "pOp", "pOp")
		}
		labels = append(labels, "mRecv", "mRecv")
		desc := map[string]any{"scenario": a.what, "result": res, "secondary_started": secStarted, "schedule": strings.Join(labels, ","), "with_earlier_calls_in_this_process": a.earlier}
		switch {
		case sAns && res != "secondary":
			r.Fail("the primary was slower than the threshold and the secondary answered first, but its answer was not returned", desc)
			ok = false
		case !sAns && pAns && res != "primary":
			r.Fail("the secondary failed and the primary answered (late), but the primary's answer was not returned", desc)
			ok = false
		case !sAns && !pAns && res != "failed":
			r.Fail("both failed but the call did not report ErrFailed", desc)
			ok = false
		}
		r.Line(fmt.Sprintf("sched %s %s %s %s", b01(pAns), b01(sAns), b01(a.standby), strings.Join(labels, ",")), fmt.Sprintf("%s secStarted=%s", res, b01(secStarted)))
		r.Eval(fmt.Sprintf("past-threshold-overlapped/%v/%s/%s", a.standby, a.p, a.s), true)
		r.Count("scenario:past-threshold-overlapped")
		select {
		case <-a.prim.gate:
		default:
			close(a.prim.gate)
		}
		settle() // its workers wind down (and release their timer)
	}
	othersDoneAfter := time.Since(t0)

	// ---- B
	var got ret
	res, endedBeforePrimary := "hang", false
	select {
	case got = <-chB:
		res, endedBeforePrimary = result20(got.err, qB), true
	case <-time.After(time.Until(t0.Add(time.Duration(thrB)*time.Millisecond + slower))):
		close(primB.gate)
		select {
		case got = <-chB:
			res = result20(got.err, qB)
		case <-time.After(4 * time.Second):
			got.at = time.Now()
		}
	}
	stall := meter.Stop()
	secStarted := atomic.LoadInt32(&secB.calls) > 0
	var labels []string
	if standbyB {
		labels = append(labels, "sStart", "sFinish", "timerFire", "sWaitTimer")
	} else {
		labels = append(labels, "timerFire", "sPickTimer", "sFinish", "sSend")
	}
	labels = append(labels, "mRecv", "mRecv")
	desc := map[string]any{"scenario": whatB, "result": res, "secondary_started": secStarted, "took": got.at.Sub(t0).String(),
		"call_ended_before_the_primary_finished": endedBeforePrimary, "schedule": strings.Join(labels, ","),
		"its_timer_was_armed_within": armedAfter.String(), "earlier_calls_had_completed_after": othersDoneAfter.String(),
		"with_earlier_calls_in_this_process": earlierB}
	switch {
	case !endedBeforePrimary && stall > 500*time.Millisecond:
		r.Count("timing-bound-not-asserted:machine-stalled") // the harness process itself was held up
	case res != "secondary" || !endedBeforePrimary:
		r.Fail("the primary was slower than the threshold and the secondary answers as soon as it is started or released, but the secondary's answer was not returned when the threshold passed (the call was still waiting 1.5 s after it)", desc)
		ok = false
	}
	out := fmt.Sprintf("%s secStarted=%s", res, b01(secStarted))
	if !endedBeforePrimary && res == "secondary" {
		out = "secondary-only-after-the-primary-finished secStarted=" + b01(secStarted)
	}
	r.Line(fmt.Sprintf("sched %s 1 %s %s", b01(pB == "ans"), b01(standbyB), strings.Join(labels, ",")), out)
	r.Eval(fmt.Sprintf("slow-primary-overlapping/%v/%s", standbyB, pB), true)
	r.Count("scenario:slow-primary-overlapping")
	select {
	case <-primB.gate:
	default:
		close(primB.gate)
	}
	settle()
	cancelAll()
	settle()
	r.Count("sequence:other-pool-clients")
	r.Trace()
	return ok
}
