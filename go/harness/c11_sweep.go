//go:build pC11 || pall

package main

import (
	"fmt"
	"os"
	"runtime"
	"runtime/debug"
	"sync"
	"sync/atomic"
	"time"

	"github.com/IrineSistiana/mosdns/v5/pkg/cache"
)

// C11 part 4: lookups in flight across the expiry sweep.
//
// Only the exported API of pkg/cache.Cache is driven. Entries live for a few
// hundred microseconds and the cache's own cleaner runs every 10 us .. 1 ms, so
// at every moment of a round some entries that readers are looking up are being
// swept, and writers keep storing other keys right behind the sweep. Every
// value carries its key, the number of its store and the expiry it was stored
// with, so each hit is checked on the spot:
//   - the value is one that a store wrote (not the zero value, not a mixture of two values),
//   - it was stored under exactly the key that was looked up,
//   - the expiry handed back is the one that value was stored with,
//   - that expiry had not passed when the lookup began (taken before the call:
//     no margin needed, the clock is monotonic),
//   - (after the round) that key / store number / expiry triple is one a writer did store.
// Two kinds of rounds:
//   - small values, more spinning goroutines than processors and a forced
//     collection every millisecond: goroutines are stopped at arbitrary
//     instructions and stay parked while others run, which is what a loaded
//     server does to a lookup in flight;
//   - values of 16 .. 256 KiB (the cache is generic in its value type) over a
//     handful of keys: handing such a value out takes microseconds, so that a
//     lookup is in flight at almost every expiry, and every word of the value
//     repeats its stamp: a value changed while it is handed out shows.
// The goroutines of a round share nothing but the cache (no common counter or
// lock), so under the race detector no ordering is introduced that the cache
// itself does not provide.

type val11s struct {
	key hkey
	seq int64
	exp int64 // UnixNano of the expiry it was stored with
}

type val11b[A comparable] struct {
	val11s
	fill A // every word: stamp11(key, seq, exp)
}

func stamp11(v val11s) uint64 {
	return (uint64(v.key)*0x9E3779B97F4A7C15 ^ uint64(v.seq)*0xC2B2AE3D27D4EB4F ^ uint64(v.exp)) | 1
}

type sweepCfg struct {
	size       int
	interval   time.Duration
	keys       int
	minLifeUs  int
	maxLifeUs  int
	writers    int
	readers    int
	forceGC    bool
	gcPercent  int
	valueBytes int
	round      int
	dur        time.Duration
	seeds      []uint64
}

// c11SweepRound runs one round; mk builds a value, look takes one apart (head, all words consistent with the head).
func c11SweepRound[V comparable](r *Run, cf sweepCfg, mk func(val11s) V, look func(*V) (val11s, bool)) (failed bool) {
	if cf.gcPercent > 0 {
		defer debug.SetGCPercent(debug.SetGCPercent(cf.gcPercent))
	}
	c := cache.New[hkey, V](cache.Opts{Size: cf.size, CleanerInterval: cf.interval})
	keyOf := func(x uint64) hkey {
		n := x % uint64(cf.keys)
		return hkey((n*37%64)*1000 + n/64 + 1) // spread over the shards, several keys per shard once there are more than 64
	}
	var stop atomic.Bool
	var mu sync.Mutex
	var wg sync.WaitGroup
	logs := make([][]val11s, cf.writers) // logs[w][i-1] is the store numbered w<<40|i
	var hits []val11s
	nHits, nLookups, nStores := 0, 0, 0
	type bad struct {
		what string
		desc map[string]any
	}
	var bads []bad
	cfg := func(m map[string]any) map[string]any {
		m["configured_size"] = cf.size
		m["cleaner_interval"] = cf.interval.String()
		m["lifetime_us"] = fmt.Sprintf("%d..%d", cf.minLifeUs, cf.minLifeUs+cf.maxLifeUs)
		m["keys"] = cf.keys
		m["value_bytes"] = cf.valueBytes
		m["writers"], m["readers"] = cf.writers, cf.readers
		m["forced_collections"] = cf.forceGC
		m["round"] = cf.round
		return m
	}
	var zero V
	for w := 0; w < cf.writers; w++ {
		wg.Add(1)
		go func(w int, seed uint64) {
			defer wg.Done()
			x := seed
			rnd := func(n int) int { x = x*6364136223846793005 + 1442695040888963407; return int((x >> 33) % uint64(n)) }
			var log []val11s
			for i := int64(1); !stop.Load(); i++ {
				k := keyOf(uint64(rnd(1 << 20)))
				life := time.Duration(cf.minLifeUs+rnd(cf.maxLifeUs)) * time.Microsecond
				if rnd(16) == 0 {
					life = time.Hour
				}
				exp := time.Now().Add(life)
				h := val11s{k, int64(w)<<40 | i, exp.UnixNano()}
				c.Store(k, mk(h), exp)
				log = append(log, h)
			}
			mu.Lock()
			logs[w] = log
			nStores += len(log)
			mu.Unlock()
		}(w, cf.seeds[w])
	}
	for g := 0; g < cf.readers; g++ {
		wg.Add(1)
		go func(seed uint64) {
			defer wg.Done()
			x := seed
			rnd := func(n int) int { x = x*6364136223846793005 + 1442695040888963407; return int((x >> 33) % uint64(n)) }
			var lh []val11s
			var lb []bad
			n, nh := 0, 0
			for !stop.Load() && len(lb) == 0 {
				k := keyOf(uint64(rnd(1 << 20)))
				before := time.Now()
				v, e, ok := c.Get(k)
				n++
				if !ok {
					continue
				}
				nh++
				h, intact := look(&v)
				desc := map[string]any{"looked_up_key": uint64(k), "returned_value_carries_key": uint64(h.key), "returned_value_of_store": h.seq,
					"returned_expiry_unixnano": e.UnixNano(), "expiry_the_value_was_stored_with_unixnano": h.exp}
				switch {
				case h == (val11s{}) && (intact || v == zero):
					lb = append(lb, bad{"a lookup returned a hit with a value that no store ever wrote (the zero value) while the expiry sweep and stores of other keys were running", desc})
				case !intact:
					lb = append(lb, bad{"a lookup returned a value that no store ever wrote (its words do not belong to one stored value: it was changed while it was handed out) while the expiry sweep and stores of other keys were running", desc})
				case h.key != k:
					lb = append(lb, bad{"a lookup returned a value that was stored under another key while the expiry sweep and stores of other keys were running", desc})
				case e.UnixNano() != h.exp:
					lb = append(lb, bad{"a lookup returned a value with another entry's expiration time", desc})
				case e.Before(before):
					desc["lookup_began_unixnano"] = before.UnixNano()
					lb = append(lb, bad{"a lookup returned a value that had expired before the lookup began", desc})
				default:
					if len(lh) < 1<<15 {
						lh = append(lh, h)
					}
				}
			}
			mu.Lock()
			hits = append(hits, lh...)
			bads = append(bads, lb...)
			nHits += nh
			nLookups += n
			mu.Unlock()
			if len(lb) > 0 {
				stop.Store(true)
			}
		}(cf.seeds[cf.writers+g])
	}
	if cf.forceGC {
		// scheduler pressure: every collection stops all goroutines wherever they are
		wg.Add(1)
		go func() {
			defer wg.Done()
			for !stop.Load() {
				runtime.GC()
				time.Sleep(time.Millisecond)
			}
		}()
	}
	maxLen := 0
	for t0 := time.Now(); time.Since(t0) < cf.dur && !stop.Load(); {
		if n := c.Len(); n > maxLen {
			maxLen = n
		}
		time.Sleep(time.Millisecond)
	}
	stop.Store(true)
	wg.Wait()
	c.Close()
	capacity := cf.size
	if capacity < 1024 {
		capacity = 1024
	}
	if maxLen > capacity {
		r.Fail("the cache held more entries than its capacity", cfg(map[string]any{"len": maxLen, "capacity": capacity}))
	}
	for i, b := range bads {
		if i < 2 {
			r.Fail(b.what, cfg(b.desc))
		}
		failed = true
	}
	for _, h := range hits {
		w, i := int(h.seq>>40), int(h.seq&(1<<40-1))
		if w < 0 || w >= cf.writers || i < 1 || i > len(logs[w]) || logs[w][i-1] != h {
			r.Fail("a lookup returned a value that was not stored under that key", cfg(map[string]any{"looked_up_key": uint64(h.key), "returned_value_of_store": h.seq, "returned_expiry_unixnano": h.exp}))
			failed = true
			break
		}
	}
	kind := "small"
	if cf.valueBytes > 64 {
		kind = "large"
	}
	r.Eval(fmt.Sprintf("sweep-conc/%s/%d", kind, cf.round), nHits > 0)
	r.Count("sweep-concurrent-rounds-" + kind + "-values")
	r.meta.Dist["sweep-concurrent-hits-checked-"+kind] += nHits
	r.meta.Dist["sweep-concurrent-lookups-"+kind] += nLookups
	r.meta.Dist["sweep-concurrent-stores-"+kind] += nStores
	r.Trace()
	return failed
}

func mkBig[A comparable](fill func(*A, uint64)) func(val11s) val11b[A] {
	return func(h val11s) val11b[A] {
		v := val11b[A]{val11s: h}
		fill(&v.fill, stamp11(h))
		return v
	}
}

func fillWords(ws []uint64, s uint64) {
	for i := range ws {
		ws[i] = s
	}
}

// intactWords looks at one word of every cache line and at the last word.
func intactWords(ws []uint64, s uint64) bool {
	for i := 0; i < len(ws); i += 8 {
		if ws[i] != s {
			return false
		}
	}
	return ws[len(ws)-1] == s
}

type (
	arr11a = [2 << 10]uint64  // 16 KiB
	arr11b = [8 << 10]uint64  // 64 KiB
	arr11c = [32 << 10]uint64 // 256 KiB
)

func c11SweepRounds(r *Run) {
	rounds := r.N(6, 60)
	procs := runtime.GOMAXPROCS(0)
	underRaceDetector := os.Getenv("VERIF_RACE") == "1" // the detector does not need the damage to show, only the unordered accesses to happen: short rounds
	for rd := 0; rd < rounds; rd++ {
		cf := sweepCfg{
			size:    []int{0, 1024, 1100, 4096, 63}[r.Rng.Intn(5)],
			writers: 2 + r.Rng.Intn(2),
			round:   rd,
		}
		large := rd%2 == 0
		if large {
			// few readers per key, or the readers' own removal of an expired entry always comes before the sweep;
			// a cleaner that never rests (the interval is shorter than one pass over the shards)
			cf.readers = 3 + r.Rng.Intn(4)
			cf.keys = cf.readers * (4 + r.Rng.Intn(4))
			cf.interval = []time.Duration{time.Microsecond, 2 * time.Microsecond, 5 * time.Microsecond, 20 * time.Microsecond}[r.Rng.Intn(4)]
			cf.minLifeUs = 100 // building and storing a value of this size takes tens of microseconds
			cf.maxLifeUs = []int{300, 600, 1000}[r.Rng.Intn(3)]
			cf.gcPercent = 400 // values of this size are garbage after one store: collect less often, the round is about the cache
			cf.forceGC = r.Rng.Intn(2) == 0
			cf.dur = 300 * time.Millisecond // the first 100 ms go into growing heap and stacks
			if underRaceDetector {
				cf.dur = 100 * time.Millisecond
			}
		} else {
			cf.keys = 64 * (2 + r.Rng.Intn(10))
			cf.readers = 8 + r.Rng.Intn(2*procs)
			cf.interval = []time.Duration{20 * time.Microsecond, 50 * time.Microsecond, 200 * time.Microsecond, time.Millisecond}[r.Rng.Intn(4)]
			cf.minLifeUs = 20
			cf.maxLifeUs = []int{150, 400, 1000, 3000}[r.Rng.Intn(4)]
			cf.forceGC = true
			cf.dur = 100 * time.Millisecond
		}
		for i := 0; i < cf.writers+cf.readers; i++ {
			cf.seeds = append(cf.seeds, uint64(r.Rng.Int63()))
		}
		failed := false
		switch which := r.Rng.Intn(6); {
		case !large:
			cf.valueBytes = 24
			failed = c11SweepRound(r, cf, func(h val11s) val11s { return h }, func(v *val11s) (val11s, bool) { return *v, true })
		case which == 0:
			cf.valueBytes = 24 + 16<<10
			failed = c11SweepRound(r, cf, mkBig(func(a *arr11a, s uint64) { fillWords(a[:], s) }),
				func(v *val11b[arr11a]) (val11s, bool) { return v.val11s, intactWords(v.fill[:], stamp11(v.val11s)) })
		case which == 1:
			cf.valueBytes = 24 + 64<<10
			failed = c11SweepRound(r, cf, mkBig(func(a *arr11b, s uint64) { fillWords(a[:], s) }),
				func(v *val11b[arr11b]) (val11s, bool) { return v.val11s, intactWords(v.fill[:], stamp11(v.val11s)) })
		default:
			cf.valueBytes = 24 + 256<<10
			failed = c11SweepRound(r, cf, mkBig(func(a *arr11c, s uint64) { fillWords(a[:], s) }),
				func(v *val11b[arr11c]) (val11s, bool) { return v.val11s, intactWords(v.fill[:], stamp11(v.val11s)) })
		}
		if failed {
			break // one concrete failing lookup is enough; the rounds that follow would repeat it
		}
	}
}
