//go:build pC08 || pall

package main

import (
	"context"
	"encoding/binary"
	"errors"
	"fmt"
	"io"
	"strings"
	"sync"
	"sync/atomic"
	"syscall"
	"time"

	"github.com/IrineSistiana/mosdns/v5/pkg/upstream/transport"
)

// C08: failures of reused connections are retried, fresh ones reported.
//
// The harness is the server: every connection the transport dials is a fake
// connection whose behaviour on the next write is scripted (answer, hold the
// answer, accept the write and close, reset on write, stay silent). Pools of
// idle connections are built by bursts of queries whose answers are held, and
// then killed on a script. For every query the harness records the
// connections its bytes were written on and gives the model the environment it
// enforced (or, in concurrent cases, observed) as a list of turns.

func init() { props["C08"] = runC08 }

var errDial08 = errors.New("dial refused (injected)")

type srv08 struct {
	mu        sync.Mutex
	cond      *sync.Cond
	stream    bool
	conns     []*fakeConn
	born      map[int]time.Time
	mode      map[int]string // per connection: what happens on the next write
	defMode   string         // mode of newly dialed connections
	dialFail  bool
	held      []func()
	nwrites   int
	replied   map[string]bool // "<conn>/<tag>" -> the server answered (or will answer) that write
	order     map[int][]int   // tag -> connection ids in write order
	nextID    int
	gate      chan struct{} // if non-nil, a dial waits here (a slow handshake) until the harness lets it finish
	gateIn    int           // dials that reached the gate
	viaGate   map[int]bool  // connections whose dial was held at the gate
	gateMode  []string      // behaviour of the connections whose dial was held (taken in turn); empty: defMode
	slowClose time.Duration // Close() of a connection dialed from now on takes that long (a TLS close_notify over a stalled link)
}

// slowClose08 is a connection whose Close takes a while.
type slowClose08 struct {
	*fakeConn
	d time.Duration
}

func (c slowClose08) Close() error { time.Sleep(c.d); return c.fakeConn.Close() }

func (s *srv08) wrap(c *fakeConn) transport.NetConn {
	s.mu.Lock()
	d := s.slowClose
	s.mu.Unlock()
	if d > 0 {
		return slowClose08{c, d}
	}
	return c
}

func newSrv08() *srv08 {
	s := &srv08{stream: true, born: map[int]time.Time{}, mode: map[int]string{}, defMode: "answer", replied: map[string]bool{}, order: map[int][]int{}, viaGate: map[int]bool{}}
	s.cond = sync.NewCond(&s.mu)
	return s
}

func (s *srv08) dial() (*fakeConn, error) {
	s.mu.Lock()
	defer s.mu.Unlock()
	asked := time.Now() // a connection is "opened for" the call that asked for the dial, however long the dial takes
	held := false
	if g := s.gate; g != nil {
		held = true
		s.gateIn++
		s.cond.Broadcast()
		s.mu.Unlock()
		<-g
		s.mu.Lock()
	}
	if s.dialFail {
		return nil, errDial08
	}
	s.nextID++
	c := newFakeConn(s.nextID, s.stream)
	s.conns = append(s.conns, c)
	s.born[c.id] = asked
	s.mode[c.id] = s.defMode
	if held {
		if len(s.gateMode) > 0 {
			s.mode[c.id] = s.gateMode[len(s.viaGate)%len(s.gateMode)]
		}
		s.viaGate[c.id] = true
	}
	c.onWrite = s.onWrite
	return c, nil
}

// holdDials makes every dial from now on wait (a slow handshake) until letDialsFinish.
func (s *srv08) holdDials() { s.mu.Lock(); s.gate = make(chan struct{}); s.gateIn = 0; s.mu.Unlock() }

func (s *srv08) letDialsFinish() {
	s.mu.Lock()
	if s.gate != nil {
		close(s.gate)
		s.gate = nil
	}
	s.mu.Unlock()
}

// waitHeldDials waits until n dials are waiting at the gate.
func (s *srv08) waitHeldDials(n int, d time.Duration) bool {
	deadline := time.Now().Add(d)
	s.mu.Lock()
	defer s.mu.Unlock()
	for s.gateIn < n {
		if time.Now().After(deadline) {
			return false
		}
		time.AfterFunc(2*time.Millisecond, func() { s.mu.Lock(); s.cond.Broadcast(); s.mu.Unlock() })
		s.cond.Wait()
	}
	return true
}

// waitConns waits until n connections exist and the transport is reading from each of them (or has closed it).
func (s *srv08) waitConns(n int, d time.Duration) bool {
	deadline := time.Now().Add(d)
	for {
		s.mu.Lock()
		cs := append([]*fakeConn(nil), s.conns...)
		s.mu.Unlock()
		if len(cs) >= n {
			ok := true
			for _, c := range cs {
				ok = ok && c.waitDrained(time.Until(deadline))
			}
			return ok
		}
		if time.Now().After(deadline) {
			return false
		}
		time.Sleep(200 * time.Microsecond)
	}
}

func (s *srv08) onWrite(c *fakeConn, w []byte) error {
	q := c.payloadOf(w)
	if len(q) < 12 {
		return nil
	}
	tag := tagOf(q)
	reply := c.frame(mkReply(q, binary.BigEndian.Uint16(q)))
	s.mu.Lock()
	mode := s.mode[c.id]
	s.nwrites++
	s.order[tag] = append(s.order[tag], c.id)
	key := fmt.Sprintf("%d/%d", c.id, tag)
	var err error
	switch mode {
	case "answer":
		s.replied[key] = true
		c.feed(reply)
	case "answer-then-eof":
		s.replied[key] = true
		c.feed(reply)
		c.feedErr(io.EOF)
	case "hold":
		s.replied[key] = true
		s.held = append(s.held, func() { c.feed(reply) })
	case "eof-after-write":
		c.feedErr(io.EOF)
	case "reset-on-write":
		err = syscall.ECONNRESET
	case "silent":
	}
	s.cond.Broadcast()
	s.mu.Unlock()
	return err
}

func (s *srv08) waitWrites(n int, d time.Duration) bool {
	deadline := time.Now().Add(d)
	s.mu.Lock()
	defer s.mu.Unlock()
	for s.nwrites < n {
		if time.Now().After(deadline) {
			return false
		}
		time.AfterFunc(2*time.Millisecond, func() { s.mu.Lock(); s.cond.Broadcast(); s.mu.Unlock() })
		s.cond.Wait()
	}
	return true
}

func (s *srv08) writes() int { s.mu.Lock(); defer s.mu.Unlock(); return s.nwrites }

func (s *srv08) release() {
	s.mu.Lock()
	h := s.held
	s.held = nil
	s.mu.Unlock()
	for _, f := range h {
		f()
	}
}

func (s *srv08) setAll(mode string) {
	s.mu.Lock()
	for _, c := range s.conns {
		s.mode[c.id] = mode
	}
	s.mu.Unlock()
}

func (s *srv08) setDefault(mode string) { s.mu.Lock(); s.defMode = mode; s.mu.Unlock() }

func (s *srv08) live() []*fakeConn {
	s.mu.Lock()
	defer s.mu.Unlock()
	var out []*fakeConn
	for _, c := range s.conns {
		if !c.isClosed() {
			out = append(out, c)
		}
	}
	return out
}

// killIdle makes the server close every live connection while it is idle and
// waits until the transport has noticed.
func (s *srv08) killIdle() bool {
	ok := true
	for _, c := range s.live() {
		c.feedErr(io.EOF)
	}
	for _, c := range s.live() {
		deadline := time.Now().Add(2 * time.Second)
		for !c.isClosed() {
			if time.Now().After(deadline) {
				ok = false
				break
			}
			time.Sleep(200 * time.Microsecond)
		}
	}
	return ok
}

type tr08 struct {
	kind  string
	ex    func(ctx context.Context, q []byte) (*[]byte, error)
	close func()
	armed *atomic.Bool // pipeline: the next successful reservation on a pooled connection is followed by the server closing it
	extra *int32       // attempts that ended before anything was written (armed reservations)
	// pipeline: if set (before the first query), every dialed connection passes through it (idx = 0 for the first dial)
	wrapDc func(idx int, dc transport.DnsConn) transport.DnsConn
	dials  int32
}

// gateDnsConn08 is the connection a (slow) dial returns: the first ReserveNewQuery call on it is
// descheduled at its entry (a legal schedule) until `need` further calls have returned, or maxHold
// has passed. That is the moment "the dial has just finished": the queries that queued up behind
// the dial are on their way to the dialed connection, and other callers arrive.
type gateDnsConn08 struct {
	inner   transport.DnsConn
	need    int
	maxHold time.Duration

	mu        sync.Mutex
	calls     int
	completed int
	firstIn   chan struct{}
	release   chan struct{}
}

func newGateDnsConn08(inner transport.DnsConn, need int, maxHold time.Duration) *gateDnsConn08 {
	return &gateDnsConn08{inner: inner, need: need, maxHold: maxHold, firstIn: make(chan struct{}), release: make(chan struct{})}
}

func (g *gateDnsConn08) ReserveNewQuery() (transport.ReservedExchanger, bool) {
	g.mu.Lock()
	g.calls++
	first := g.calls == 1 && g.need > 0
	g.mu.Unlock()
	if first {
		close(g.firstIn)
		tm := time.NewTimer(g.maxHold)
		select {
		case <-g.release:
		case <-tm.C:
		}
		tm.Stop()
	}
	rx, cl := g.inner.ReserveNewQuery()
	if !first {
		g.mu.Lock()
		g.completed++
		if g.completed == g.need {
			close(g.release)
		}
		g.mu.Unlock()
	}
	return rx, cl
}

func (g *gateDnsConn08) Close() error { return g.inner.Close() }

// armDnsConn wraps the real TraditionalDnsConn: when armed, the server closes
// the connection right after a slot was reserved on it and before the query is written.
type armDnsConn struct {
	inner *transport.TraditionalDnsConn
	fake  *fakeConn
	armed *atomic.Bool
	extra *int32
}

func (c *armDnsConn) ReserveNewQuery() (transport.ReservedExchanger, bool) {
	rx, closed := c.inner.ReserveNewQuery()
	if rx != nil && c.armed.CompareAndSwap(true, false) {
		c.fake.feedErr(io.EOF)
		deadline := time.Now().Add(2 * time.Second)
		for !c.inner.IsClosed() && time.Now().Before(deadline) {
			time.Sleep(200 * time.Microsecond)
		}
		atomic.AddInt32(c.extra, 1)
	}
	return rx, closed
}
func (c *armDnsConn) Close() error { return c.inner.Close() }

func mk08(kind string, s *srv08, maxq int) *tr08 {
	t := &tr08{kind: kind, armed: new(atomic.Bool), extra: new(int32)}
	if kind == "reuse" {
		tp := transport.NewReuseConnTransport(transport.ReuseConnOpts{DialContext: func(ctx context.Context) (transport.NetConn, error) {
			c, err := s.dial()
			if err != nil {
				return nil, err
			}
			return s.wrap(c), nil
		}})
		t.ex, t.close = tp.ExchangeContext, func() { tp.Close() }
		return t
	}
	if kind == "pipeline-udp" { // the pipeline over datagram sockets, as the plain udp upstream is built
		s.mu.Lock()
		s.stream = false
		s.mu.Unlock()
	}
	tp := transport.NewPipelineTransport(transport.PipelineOpts{MaxConcurrentQueryWhileDialing: maxq, DialContext: func(ctx context.Context) (transport.DnsConn, error) {
		c, err := s.dial()
		if err != nil {
			return nil, err
		}
		dc := transport.NewDnsConn(transport.TraditionalDnsConnOpts{WithLengthHeader: kind != "pipeline-udp", IdleTimeout: 10 * time.Second, MaxConcurrentQuery: maxq}, s.wrap(c))
		var out transport.DnsConn = &armDnsConn{inner: dc, fake: c, armed: t.armed, extra: t.extra}
		idx := int(atomic.AddInt32(&t.dials, 1)) - 1
		if t.wrapDc != nil {
			out = t.wrapDc(idx, out)
		}
		return out, nil
	}})
	t.ex, t.close = tp.ExchangeContext, func() { tp.Close() }
	return t
}

type res08 struct {
	tag      int
	err      error
	ok, own  bool
	started  time.Time
	took     time.Duration
	ctxEnded bool
}

var tag08 int

func (t *tr08) query(ctx context.Context) res08 {
	return t.queryTag(ctx, nextTag08())
}

var tagMu08 sync.Mutex

func nextTag08() int { tagMu08.Lock(); defer tagMu08.Unlock(); tag08++; return tag08 }

func (t *tr08) queryTag(ctx context.Context, tag int) res08 {
	id := uint16(tag * 31)
	q := mkQuery(id, tag)
	r := res08{tag: tag, started: time.Now()}
	resp, err := t.ex(ctx, q)
	r.took = time.Since(r.started)
	r.err = err
	r.ok = err == nil && resp != nil
	r.ctxEnded = ctx.Err() != nil
	if r.ok {
		r.own = tagOf(*resp) == tag && binary.BigEndian.Uint16(*resp) == id
	}
	return r
}

// burst builds a pool: n queries in flight at once (each on its own
// connection: non-pipelined, or pipelined with one query per connection),
// answered only when all of them were written.
func (t *tr08) burst(s *srv08, n int) []res08 {
	s.setDefault("hold")
	s.setAll("hold")
	base := s.writes()
	out := make([]res08, n)
	var wg sync.WaitGroup
	for i := 0; i < n; i++ {
		wg.Add(1)
		go func(i int) {
			defer wg.Done()
			ctx, cancel := context.WithTimeout(context.Background(), 3*time.Second)
			defer cancel()
			out[i] = t.query(ctx)
		}(i)
		s.waitWrites(base+i+1, 2*time.Second)
	}
	s.release()
	wg.Wait()
	s.setDefault("answer")
	s.setAll("answer")
	return out
}

// classify turns what the harness saw into the result line.
func classify08(kind string, s *srv08, r res08, extra int, poolAtStart int) (string, int) {
	s.mu.Lock()
	ord := append([]int(nil), s.order[r.tag]...)
	var lastFresh bool
	if len(ord) > 0 {
		lastFresh = !s.born[ord[len(ord)-1]].Before(r.started)
	}
	s.mu.Unlock()
	seen := map[int]bool{}
	n := 0
	for _, id := range ord {
		if !seen[id] {
			seen[id] = true
			n++
		}
	}
	n += extra
	var out string
	switch {
	case r.ok && r.own:
		out = "ok"
	case r.ok:
		out = "foreign-reply"
	case errors.Is(r.err, transport.ErrClosedTransport):
		out = "errClosed"
	case errors.Is(r.err, errDial08):
		out = "errDial"
	case errors.Is(r.err, transport.ErrNewConnCannotReserveQueryExchanger):
		out = "errReserve"
	case kind == "reuse" && r.ctxEnded && n < 4 && n >= poolAtStart:
		out = "errDial" // every idle connection was tried; the dial is abandoned because the context ended
	case lastFresh && extra == 0:
		out = "errFresh"
	default:
		out = "errGaveUp"
		if r.ctxEnded {
			out += " ctx"
		}
	}
	if strings.HasPrefix(out, "errGaveUp") {
		return fmt.Sprintf("%s attempts=%d%s", "errGaveUp", n, strings.TrimPrefix(out, "errGaveUp")), n
	}
	return fmt.Sprintf("%s attempts=%d", out, n), n
}

// parked08 runs one "gave up during the dial" scenario (see P in runC08): p callers whose contexts are cancelled
// while their dials are held, k0 connections that answered a query, then one query against what is in the pool.
func parked08(r *Run, check func(string, res08, string, int, map[string]any, int, bool, bool), kind string, p, k0 int, fate string, join bool) {
	mkind := kind
	if kind == "pipeline-udp" {
		mkind = "pipeline"
	}
	kills := []string{"eof-after-write", "reset-on-write"}
	for try := 0; try < 3; try++ {
		s := newSrv08()
		t := mk08(kind, s, 1)
		// k0 queries in flight, answered later: their connections carry a query and are idle afterwards
		s.setDefault("hold")
		var wg sync.WaitGroup
		setup := true
		for i := 0; i < k0; i++ {
			wg.Add(1)
			go func() {
				defer wg.Done()
				ctx, cancel := context.WithTimeout(context.Background(), 3*time.Second)
				defer cancel()
				t.query(ctx)
			}()
			setup = s.waitWrites(i+1, 2*time.Second) && setup
		}
		// what the server will do on the next write to those k0 connections (their held replies are not affected)
		s.mu.Lock()
		for _, c := range s.conns {
			m := fate
			if fate == "random" {
				m = []string{"answer", "eof-after-write", "reset-on-write", "eof-after-write", "answer-then-eof"}[r.Rng.Intn(5)]
			} else if fate == "idle-eof" {
				m = "answer"
			}
			s.mode[c.id] = m
		}
		s.mu.Unlock()
		// what the server will do with the connections whose handshake is slow, and with a connection dialed later
		gm := make([]string, p)
		for i := range gm {
			switch fate {
			case "random":
				gm[i] = []string{"answer", "eof-after-write", "reset-on-write", "answer-then-eof"}[r.Rng.Intn(4)]
			case "idle-eof":
				gm[i] = "answer"
			default:
				gm[i] = fate
			}
		}
		freshMode := "answer"
		if fate == "random" && r.Rng.Intn(4) == 0 {
			freshMode = kills[r.Rng.Intn(2)]
		}
		s.mu.Lock()
		s.gateMode = gm
		s.mu.Unlock()
		// p callers give up while their connection is being dialed
		s.holdDials()
		aRes := make([]res08, p)
		cancels := make([]context.CancelFunc, p)
		var awg sync.WaitGroup
		for i := 0; i < p; i++ {
			ctx, cancel := context.WithTimeout(context.Background(), 3*time.Second)
			cancels[i] = cancel
			awg.Add(1)
			go func(i int) { defer awg.Done(); aRes[i] = t.query(ctx) }(i)
			setup = s.waitHeldDials(i+1, 2*time.Second) && setup
		}
		for _, c := range cancels {
			c()
		}
		awg.Wait()
		s.setDefault(freshMode)
		var joined chan res08
		if join { // pipeline: the next query arrives while the abandoned dial is still going on and waits for that connection
			joined = make(chan res08, 1)
			go func() {
				ctx, cancel := context.WithTimeout(context.Background(), 3*time.Second)
				defer cancel()
				joined <- t.query(ctx)
			}()
			time.Sleep(time.Duration(r.Rng.Intn(3)) * time.Millisecond)
		}
		s.letDialsFinish()
		setup = s.waitConns(k0+p, 2*time.Second) && setup
		if !join {
			time.Sleep(2 * time.Millisecond) // reuse: the dial goroutine parks the connection right after starting its reader (no event to wait for)
		}
		s.release()
		wg.Wait()
		noticed := true
		if fate == "idle-eof" {
			noticed = s.killIdle()
		}
		pool := len(s.live())
		var res res08
		if join {
			res = <-joined
		} else {
			ctx, cancel := context.WithTimeout(context.Background(), 3*time.Second)
			res = t.query(ctx)
			cancel()
		}
		line, n := classify08(kind, s, res, 0, pool)
		s.mu.Lock()
		var turns []string
		stale := 0
		picked := false
		for _, id := range s.order[res.tag] {
			ok := s.replied[fmt.Sprintf("%d/%d", id, res.tag)]
			if s.born[id].Before(res.started) { // its dial was asked for before this query existed
				turns = append(turns, "pooled"+b01(ok))
				if !ok {
					stale++
				}
				picked = picked || s.viaGate[id]
			} else {
				turns = append(turns, "fresh"+b01(ok))
			}
		}
		s.mu.Unlock()
		if errors.Is(res.err, errDial08) {
			turns = append(turns, "dialFail")
		}
		if len(turns) == 0 {
			turns = []string{"stuck"}
		}
		if !picked && k0 == 0 && fate != "idle-eof" && try < 2 && setup {
			// the connection was not in the pool yet when the query looked: not the situation aimed at, once more
			r.Count(kind + ":gave-up-during-dial:not-picked")
			t.close()
			continue
		}
		if !setup {
			r.Note(fmt.Sprintf("C08 P/%s/%d/%d/%s: the scenario could not be set up within its time limits", kind, p, k0, fate))
		}
		// the callers that gave up: their context ended, nothing was transmitted
		for i, a := range aRes {
			al, an := classify08(kind, s, a, 0, 0)
			ad := map[string]any{"transport": kind, "scenario": "gave-up-during-dial: the caller that gave up", "caller": i}
			check(kind, a, al, an, ad, -1, false, false)
			if kind == "reuse" {
				r.Line("loop reuse dialFail", al)
			}
		}
		desc := map[string]any{"transport": kind, "scenario": "gave-up-during-dial: callers cancelled while their connections were being dialed, the dials finish afterwards, the server drops or keeps those connections, next query",
			"cancelled_callers": p, "idle_connections_that_answered_a_query": k0, "server_does_to_the_late_connections": strings.Join(gm, ","), "fate": fate, "fresh_connection": freshMode,
			"next_query_arrives_during_the_dial": join, "pool_size_before": pool, "late_connection_was_picked": picked, "transport_noticed_idle_close": noticed, "observed_environment": strings.Join(turns, ",")}
		check(kind, res, line, n, desc, stale, freshMode == "answer", false)
		r.Line(fmt.Sprintf("loop %s %s", mkind, strings.Join(turns, ",")), line)
		r.Eval(fmt.Sprintf("P/%s/%d/%d/%s/%v/%s", kind, p, k0, fate, join, strings.Join(turns, ",")), picked)
		r.Count(kind + ":gave-up-during-dial")
		if picked {
			r.Count(kind + ":gave-up-during-dial:late-connection-picked")
		}
		r.Trace()
		t.close()
		return
	}
}

// lateAtDial08: nothing fails anywhere. n queries queue up behind a slow dial (a held handshake) of a pipeline
// connection that takes L queries at a time (queue limit while dialing = L as well); the first of them opened the
// connection. The dial succeeds; one queued query is descheduled on its way into the dialed connection, and at that
// moment k further queries arrive. The server answers every query it receives (after all of them were written or
// returned), no connection is ever closed, contexts are long, the transport stays open: none of the four reasons the
// statement admits for a failure exists, so every query must return its own reply.
func lateAtDial08(r *Run, kind string, L, n, k int, hold time.Duration, idx int) {
	s := newSrv08()
	t := mk08(kind, s, L)
	var gd atomic.Pointer[gateDnsConn08]
	t.wrapDc = func(i int, dc transport.DnsConn) transport.DnsConn {
		if i != 0 {
			return dc
		}
		g := newGateDnsConn08(dc, n, hold) // released when the other queued queries and one late caller are through
		gd.Store(g)
		return g
	}
	s.setDefault("hold")
	s.holdDials()
	total := n + k
	results := make([]res08, total)
	var finished int32
	var wg sync.WaitGroup
	start := func(i int) {
		wg.Add(1)
		go func() {
			defer wg.Done()
			ctx, cancel := context.WithTimeout(context.Background(), 6*time.Second)
			defer cancel()
			results[i] = t.query(ctx)
			atomic.AddInt32(&finished, 1)
		}()
	}
	meter := startStallMeter()
	start(0) // opens the connection
	setup := s.waitHeldDials(1, 3*time.Second)
	for i := 1; i < n; i++ {
		start(i)
	}
	time.Sleep(time.Duration(1+r.Rng.Intn(3)) * time.Millisecond) // they queue up on the dialing connection
	s.letDialsFinish()
	firstSeen := false
	deadline := time.Now().Add(3 * time.Second)
	for time.Now().Before(deadline) {
		if g := gd.Load(); g != nil {
			select {
			case <-g.firstIn:
				firstSeen = true
			case <-time.After(time.Until(deadline)):
			}
			break
		}
		time.Sleep(100 * time.Microsecond)
	}
	for i := 0; i < k; i++ { // the late callers
		start(n + i)
	}
	settled := false
	deadline = time.Now().Add(5 * time.Second)
	for time.Now().Before(deadline) {
		if s.writes()+int(atomic.LoadInt32(&finished)) >= total {
			settled = true
			break
		}
		time.Sleep(200 * time.Microsecond)
	}
	s.setDefault("answer")
	s.setAll("answer")
	s.release()
	wg.Wait()
	stall := meter.Stop()
	nconns := len(s.live())
	valid := setup
	for _, res := range results {
		valid = valid && !res.ctxEnded
	}
	sched := "the first call into ReserveNewQuery of the dialed connection is held at its entry until " + fmt.Sprint(n) + " other calls are through (at most " + hold.String() + "); the late queries start when it got there"
	refused := 0 // queued queries that came back with an error and were never transmitted
	for i, res := range results {
		role := "late caller"
		if i == 0 {
			role = "opened the connection"
		} else if i < n {
			role = "queued while dialing"
		}
		line, cnt := classify08(kind, s, res, 0, 0)
		s.mu.Lock()
		ord := append([]int(nil), s.order[res.tag]...)
		answered, fresh := 0, false
		for _, id := range ord {
			if s.replied[fmt.Sprintf("%d/%d", id, res.tag)] {
				answered++
			}
			fresh = !s.born[id].Before(res.started)
		}
		s.mu.Unlock()
		desc := map[string]any{"transport": kind, "scenario": "late-caller-at-dial-completion: no fault anywhere; queries queued behind a held dial, the dial succeeds, further queries arrive at that moment",
			"connection_limit": L, "queue_limit_while_dialing": L, "queued_queries": n, "late_queries": k, "this_query": i, "role": role, "schedule": sched,
			"connections_written_on": fmt.Sprint(ord), "of_which_the_server_answered": answered, "connections_alive_at_the_end": nconns, "hold_seen": firstSeen, "settled": settled,
			"result": line, "err": fmt.Sprint(res.err), "took": res.took.String()}
		if cnt > 4 {
			r.Fail("a query was transmitted on more than 4 connections", desc)
		}
		if res.ok && !res.own {
			r.Fail("the exchange returned something other than the reply to its own query", desc)
		}
		if !res.ok && !res.ctxEnded && !errors.Is(res.err, transport.ErrClosedTransport) && answered == len(ord) {
			// nothing it was transmitted on failed (or nothing was transmitted at all)
			r.Fail("an exchange reported failure although no connection failed, no attempt for it failed (the server answers every query it receives; this one was transmitted "+fmt.Sprint(len(ord))+" time(s)), its context is alive and the transport is open", desc)
			r.Count(kind + ":late-at-dial:failed-without-a-failed-attempt")
		}
		if i < n && !res.ok && len(ord) == 0 {
			refused++
		}
		if valid {
			turn := "pooled1"
			if i == 0 || (len(ord) > 0 && fresh) {
				turn = "fresh1"
			}
			r.Line("loop pipeline "+turn, line)
		}
		r.Eval(fmt.Sprintf("L/%s/%d/%d/%d/%d/%d", kind, L, n, k, idx, i), i == 0 || i >= n)
		r.Trace()
	}
	if valid { // the hand-over model (Model.C08.Handoff) under the same schedule: how many queued queries find no slot
		r.Line(fmt.Sprintf("handoff %d %d %d", n, L, k), fmt.Sprintf("refused=%d", refused))
	}
	r.Count(kind + ":late-at-dial")
	r.Count(fmt.Sprintf("late-at-dial:queue-full:%v", n == L))
	if !valid || !firstSeen || !settled || stall > time.Second {
		r.Count(fmt.Sprintf("late-at-dial:note(setup=%v,valid=%v,hold-seen=%v,settled=%v,stall>1s=%v)", setup, valid, firstSeen, settled, stall > time.Second))
	}
	t.close()
}

// idleDuringDial08 runs one "a connection goes idle while another query is dialing" scenario (see Q in runC08):
// j queries are in flight on their own connections (replies held), d further queries find nothing idle and dial
// (handshakes held); the j replies arrive, so j connections that carried a query are idle while the d dials are
// still going on; the server drops those j connections silently (seen on the next write), right after the reply,
// while idle, or keeps them; then the handshakes finish. Each of the d queries has a connection that was opened
// for it: if that one works the query must succeed, whatever the transport does with the idle ones.
func idleDuringDial08(r *Run, check func(string, res08, string, int, map[string]any, int, bool, bool), kind string, j, d int, fate string, idx int) {
	mkind := kind
	if kind == "pipeline-udp" {
		mkind = "pipeline"
	}
	kills := []string{"eof-after-write", "reset-on-write"}
	s := newSrv08()
	t := mk08(kind, s, 1)
	s.setDefault("hold")
	var wg sync.WaitGroup
	setup := true
	for i := 0; i < j; i++ {
		wg.Add(1)
		go func() {
			defer wg.Done()
			ctx, cancel := context.WithTimeout(context.Background(), 3*time.Second)
			defer cancel()
			t.query(ctx)
		}()
		setup = s.waitWrites(i+1, 2*time.Second) && setup
	}
	// what the server does on the NEXT write to those j connections (the held replies are not affected)
	var fates []string
	s.mu.Lock()
	for _, c := range s.conns {
		m := fate
		if fate == "random" {
			m = []string{"answer", "eof-after-write", "reset-on-write", "eof-after-write", "answer-then-eof"}[r.Rng.Intn(5)]
		} else if fate == "idle-eof" {
			m = "answer"
		}
		s.mode[c.id] = m
		fates = append(fates, m)
	}
	s.mu.Unlock()
	// the connections opened for the d dialing queries: all of them work, or (sometimes) all of them fail
	ownMode := "answer"
	if fate == "random" && r.Rng.Intn(4) == 0 {
		ownMode = kills[r.Rng.Intn(2)]
	}
	s.mu.Lock()
	s.gateMode = []string{ownMode}
	s.mu.Unlock()
	s.holdDials()
	dRes := make([]res08, d)
	var dwg sync.WaitGroup
	for i := 0; i < d; i++ {
		dwg.Add(1)
		go func(i int) {
			defer dwg.Done()
			ctx, cancel := context.WithTimeout(context.Background(), 4*time.Second)
			defer cancel()
			dRes[i] = t.query(ctx)
		}(i)
		setup = s.waitHeldDials(i+1, 2*time.Second) && setup
	}
	// the j queries are answered: their connections are idle now, during the dials
	s.release()
	wg.Wait()
	noticed := true
	if fate == "idle-eof" {
		noticed = s.killIdle()
	}
	s.setDefault(ownMode)
	time.Sleep(time.Duration(r.Rng.Intn(3)) * time.Millisecond)
	s.letDialsFinish()
	dwg.Wait()
	if !setup {
		r.Note(fmt.Sprintf("C08 Q/%s/%d/%d/%s: the scenario could not be set up within its time limits", kind, j, d, fate))
	}
	for i, res := range dRes {
		line, n := classify08(kind, s, res, 0, 0)
		s.mu.Lock()
		var turns []string
		stale := 0
		for _, id := range s.order[res.tag] {
			ok := s.replied[fmt.Sprintf("%d/%d", id, res.tag)]
			if s.born[id].Before(res.started) { // its dial was asked for before this query existed: it carried another query
				turns = append(turns, "pooled"+b01(ok))
				if !ok {
					stale++
				}
			} else {
				turns = append(turns, "fresh"+b01(ok))
			}
		}
		s.mu.Unlock()
		if errors.Is(res.err, errDial08) {
			turns = append(turns, "dialFail")
		}
		if len(turns) == 0 {
			turns = []string{"stuck"}
		}
		desc := map[string]any{"transport": kind, "scenario": "idle-during-dial: queries in flight on their own connections, further queries find nothing idle and dial (held handshakes), the first replies arrive and those connections go idle during the dials, the server drops or keeps them, the handshakes finish",
			"connections_that_went_idle_during_the_dial": j, "server_does_to_them_on_the_next_write": strings.Join(fates, ","), "fate": fate, "dialing_queries": d, "this_dialing_query": i,
			"connection_opened_for_it": ownMode, "transport_noticed_idle_close": noticed, "observed_environment": strings.Join(turns, ",")}
		check(kind, res, line, n, desc, stale, ownMode == "answer", false)
		r.Line(fmt.Sprintf("loop %s %s", mkind, strings.Join(turns, ",")), line)
		if kind == "reuse" { // the dialing branch over the regenerated fact about getNewConn (Model.C08.DialHandOver)
			idle := "1"
			for _, f := range fates {
				if f != "answer" {
					idle = "0"
				}
			}
			if fate == "idle-eof" && noticed {
				idle = "none"
			}
			r.Line(fmt.Sprintf("dialed %s %s", idle, b01(ownMode == "answer")), line)
		}
		r.Eval(fmt.Sprintf("Q/%s/%d/%d/%s/%d/%d", kind, j, d, fate, idx, i), true)
		r.Count(kind + ":idle-during-dial")
		r.Trace()
	}
	t.close()
}

func rep08(turn string, n int) []string {
	out := make([]string, n)
	for i := range out {
		out[i] = turn
	}
	return out
}

func runC08(r *Run) {
	bound := map[string]int{"reuse": 4, "pipeline": 3, "pipeline-udp": 3}
	// check applies the property's own predicate to one finished query.
	check := func(kind string, res res08, line string, n int, desc map[string]any, staleKnown int, freshWorks bool, closedT bool) {
		desc["result"] = line
		desc["err"] = fmt.Sprint(res.err)
		desc["took"] = res.took.String()
		if n > 4 {
			r.Fail("a query was transmitted on more than 4 connections", desc)
		}
		if res.ok && !res.own {
			r.Fail("the exchange returned something other than the reply to its own query", desc)
		}
		if staleKnown >= 0 && freshWorks && !closedT && !res.ctxEnded && staleKnown < bound[kind] && !res.ok {
			r.Fail("a query that failed only on reused (dead) connections was not retried to success although a fresh connection works", desc)
		}
		if !res.ok && !closedT && !res.ctxEnded && strings.HasPrefix(line, "errGaveUp") && n < bound[kind] {
			r.Fail("the exchange reported failure although its last attempt was on a reused connection, fewer attempts than the bound were made, its context is alive and the transport is open", desc)
		}
	}

	// ---- the same over datagram sockets (pipeline as the plain udp upstream builds it): a socket whose writes fail
	// (route gone, ICMP error) or that reports an error on read is dead as well
	for rep := 0; rep < r.N(1, 6); rep++ {
		kind := "pipeline-udp"
		// ---- A/C/D: k silently dead pooled connections, then a fresh one that works / fails / cannot be dialed
		for k := 0; k <= 6; k++ {
			for _, kill := range []string{"eof-after-write", "reset-on-write"} {
				for _, fresh := range []string{"works", "fails", "dialfail"} {
					s := newSrv08()
					t := mk08(kind, s, 1)
					if k > 0 {
						t.burst(s, k)
					}
					pool := len(s.live())
					s.setAll(kill)
					switch fresh {
					case "works":
						s.setDefault("answer")
					case "fails":
						s.setDefault(kill)
					case "dialfail":
						s.mu.Lock()
						s.dialFail = true
						s.mu.Unlock()
					}
					ctx, cancel := context.WithTimeout(context.Background(), 3*time.Second)
					res := t.query(ctx)
					cancel()
					line, n := classify08(kind, s, res, 0, pool)
					turns := rep08("pooled0", k)
					turns = append(turns, map[string]string{"works": "fresh1", "fails": "fresh0", "dialfail": "dialFail"}[fresh])
					desc := map[string]any{"transport": kind, "scenario": "stale-pool", "dead_pooled_connections": k, "kill": kill, "fresh_connection": fresh, "pool_size_before": pool}
					check(kind, res, line, n, desc, k, fresh == "works", false)
					r.Line(fmt.Sprintf("loop %s %s", "pipeline", strings.Join(turns, ",")), line)
					r.Eval(fmt.Sprintf("A/%s/%d/%s/%s", kind, k, kill, fresh), true)
					r.Count(kind + ":stale-pool:" + fresh)
					r.Trace()
					t.close()
				}
			}
		}
	}
	kinds := []string{"reuse", "pipeline"}
	reps := r.N(2, 12)
	for rep := 0; rep < reps; rep++ {
		for _, kind := range kinds {
			// ---- A/C/D: k silently dead pooled connections, then a fresh one that works / fails / cannot be dialed
			for k := 0; k <= 6; k++ {
				for _, kill := range []string{"eof-after-write", "reset-on-write"} {
					for _, fresh := range []string{"works", "fails", "dialfail"} {
						s := newSrv08()
						t := mk08(kind, s, 1)
						if k > 0 {
							t.burst(s, k)
						}
						pool := len(s.live())
						s.setAll(kill)
						switch fresh {
						case "works":
							s.setDefault("answer")
						case "fails":
							s.setDefault(kill)
						case "dialfail":
							s.mu.Lock()
							s.dialFail = true
							s.mu.Unlock()
						}
						ctx, cancel := context.WithTimeout(context.Background(), 3*time.Second)
						res := t.query(ctx)
						cancel()
						line, n := classify08(kind, s, res, 0, pool)
						turns := rep08("pooled0", k)
						turns = append(turns, map[string]string{"works": "fresh1", "fails": "fresh0", "dialfail": "dialFail"}[fresh])
						desc := map[string]any{"transport": kind, "scenario": "stale-pool", "dead_pooled_connections": k, "kill": kill, "fresh_connection": fresh, "pool_size_before": pool}
						check(kind, res, line, n, desc, k, fresh == "works", false)
						r.Line(fmt.Sprintf("loop %s %s", kind, strings.Join(turns, ",")), line)
						r.Eval(fmt.Sprintf("A/%s/%d/%s/%s", kind, k, kill, fresh), true)
						r.Count(kind + ":stale-pool:" + fresh)
						r.Trace()
						t.close()
					}
				}
			}
			// ---- B: the server closes pooled connections while they are idle / right after a reply: they leave the pool
			for k := 1; k <= 5; k++ {
				for _, how := range []string{"idle-eof", "eof-right-after-reply"} {
					s := newSrv08()
					t := mk08(kind, s, 1)
					t.burst(s, k)
					if how == "eof-right-after-reply" {
						// one more round on the pooled connections, each answered and closed at once
						s.setAll("answer-then-eof")
						ctx, cancel := context.WithTimeout(context.Background(), 3*time.Second)
						t.query(ctx)
						cancel()
					}
					okKill := s.killIdle()
					s.setDefault("answer")
					ctx, cancel := context.WithTimeout(context.Background(), 3*time.Second)
					res := t.query(ctx)
					cancel()
					line, n := classify08(kind, s, res, 0, 0)
					desc := map[string]any{"transport": kind, "scenario": "closed-while-idle", "pooled_connections": k, "how": how, "transport_noticed": okKill}
					check(kind, res, line, n, desc, 0, true, false)
					r.Line(fmt.Sprintf("loop %s fresh1", kind), line)
					r.Eval(fmt.Sprintf("B/%s/%d/%s", kind, k, how), true)
					r.Count(kind + ":closed-while-idle")
					r.Trace()
					t.close()
				}
			}
			// ---- E: the transport was closed
			for k := 0; k <= 2; k++ {
				s := newSrv08()
				t := mk08(kind, s, 1)
				if k > 0 {
					t.burst(s, k)
				}
				t.close()
				ctx, cancel := context.WithTimeout(context.Background(), time.Second)
				res := t.query(ctx)
				cancel()
				line, n := classify08(kind, s, res, 0, 0)
				desc := map[string]any{"transport": kind, "scenario": "transport-closed", "pooled_connections": k}
				check(kind, res, line, n, desc, -1, false, true)
				r.Line(fmt.Sprintf("loop %s closed", kind), line)
				r.Eval(fmt.Sprintf("E/%s/%d", kind, k), true)
				r.Count(kind + ":transport-closed")
				r.Trace()
			}
			// ---- F: pooled connections that never answer; the caller's context ends
			for k := 1; k <= 5; k++ {
				s := newSrv08()
				t := mk08(kind, s, 1)
				t.burst(s, k)
				pool := len(s.live())
				s.setAll("silent")
				s.setDefault("silent")
				ctx, cancel := context.WithTimeout(context.Background(), 40*time.Millisecond)
				res := t.query(ctx)
				cancel()
				line, n := classify08(kind, s, res, 0, pool)
				var turns []string
				if kind == "pipeline" {
					turns = []string{"pooled0c"}
				} else {
					turns = append(rep08("pooled0c", k), "dialFail")
				}
				desc := map[string]any{"transport": kind, "scenario": "context-ends", "silent_pooled_connections": k}
				check(kind, res, line, n, desc, -1, false, false)
				r.Line(fmt.Sprintf("loop %s %s", kind, strings.Join(turns, ",")), line)
				r.Eval(fmt.Sprintf("F/%s/%d", kind, k), true)
				r.Count(kind + ":context-ends")
				r.Trace()
				t.close()
			}
		}
		// ---- G: pipeline: the server closes a connection with j queries in flight
		for _, opener := range []bool{false, true} {
			for j := 1; j <= r.N(6, 20); j += 1 + rep%3 {
				s := newSrv08()
				slow := j%2 == 1
				if slow { // closing the dying connection takes a while: the woken queries are retried while it is still being closed
					s.slowClose = 3 * time.Millisecond
				}
				t := mk08("pipeline", s, 64)
				var results []res08
				var turns [][]string
				var wg sync.WaitGroup
				var mu sync.Mutex
				run := func(tl []string) {
					wg.Add(1)
					go func() {
						defer wg.Done()
						ctx, cancel := context.WithTimeout(context.Background(), 3*time.Second)
						defer cancel()
						res := t.query(ctx)
						mu.Lock()
						results = append(results, res)
						turns = append(turns, tl)
						mu.Unlock()
					}()
				}
				if opener {
					// the query that opens the connection is itself still in flight when the server closes it
					s.setDefault("silent")
					run([]string{"fresh0"})
					s.waitWrites(1, 2*time.Second)
				} else {
					ctx, cancel := context.WithTimeout(context.Background(), 3*time.Second)
					t.query(ctx)
					cancel()
					s.setAll("silent")
				}
				base := s.writes()
				for i := 0; i < j; i++ {
					run([]string{"pooled0", "pooled1"})
				}
				s.waitWrites(base+j, 2*time.Second)
				s.setDefault("answer")
				first := s.live()
				for _, c := range first {
					c.feedErr(io.EOF)
				}
				wg.Wait()
				for i, res := range results {
					line, n := classify08("pipeline", s, res, 0, 1)
					desc := map[string]any{"transport": "pipeline", "scenario": "closed-with-queries-in-flight", "in_flight": j, "opener_in_flight": opener, "slow_close": slow, "environment": strings.Join(turns[i], ",")}
					stale := 1
					if turns[i][0] == "fresh0" {
						stale = -1
					}
					check("pipeline", res, line, n, desc, stale, true, false)
					r.Line("loop pipeline "+strings.Join(turns[i], ","), line)
					r.Eval(fmt.Sprintf("G/%v/%d/%d", opener, j, i), true)
					r.Count("pipeline:closed-in-flight")
					r.Trace()
				}
				t.close()
			}
		}
		// ---- I: pipeline: a pooled connection dies between the reservation and the write
		for k := 1; k <= 3; k++ {
			s := newSrv08()
			t := mk08("pipeline", s, 1)
			t.burst(s, k)
			t.armed.Store(true)
			ctx, cancel := context.WithTimeout(context.Background(), 3*time.Second)
			res := t.query(ctx)
			cancel()
			line, n := classify08("pipeline", s, res, int(atomic.LoadInt32(t.extra)), k)
			desc := map[string]any{"transport": "pipeline", "scenario": "dies-between-reservation-and-write", "pooled_connections": k}
			check("pipeline", res, line, n, desc, 1, true, false)
			r.Line("loop pipeline pooled0,pooled1", line)
			r.Eval(fmt.Sprintf("I/%d", k), true)
			r.Count("pipeline:dies-after-reservation")
			r.Trace()
			t.close()
		}
		// ---- P: callers give up while their connections are still being dialed (slow handshake); the dials finish
		// afterwards and the connections stay in the pool without ever having carried a query; the server drops them
		// (silently: seen on the next write; or while idle) or keeps them; the next query finds them in the pool,
		// next to k0 idle connections that did carry a query
		pkinds := []string{"reuse", "pipeline"}
		if r.Thorough() || rep == 0 {
			pkinds = append(pkinds, "pipeline-udp")
		}
		for _, kind := range pkinds {
			for p := 1; p <= 3; p++ {
				for _, fate := range []string{"eof-after-write", "reset-on-write", "idle-eof", "random"} {
					k0 := 0
					if rep > 0 || fate == "random" {
						k0 = r.Rng.Intn(3)
					}
					join := kind != "reuse" && fate != "idle-eof" && r.Rng.Intn(3) == 0
					parked08(r, check, kind, p, k0, fate, join)
				}
			}
		}
		// ---- Q: connections go idle WHILE other queries are dialing (pool empty when they looked, handshakes held);
		// the server drops the idle ones silently / right after the reply / while idle, or keeps them; the handshakes
		// finish: every dialing query has a connection that was opened for it, and succeeds if that one works
		qkinds := []string{"reuse", "pipeline"}
		if r.Thorough() {
			qkinds = append(qkinds, "pipeline-udp")
		}
		for _, kind := range qkinds {
			for qi, fate := range []string{"eof-after-write", "reset-on-write", "answer-then-eof", "idle-eof", "random", "random"} {
				j, d := 1, 1
				if rep > 0 || qi >= 4 {
					j, d = 1+r.Rng.Intn(3), 1+r.Rng.Intn(3)
				}
				idleDuringDial08(r, check, kind, j, d, fate, rep*10+qi)
			}
		}
		// ---- H: reuse: j concurrent queries over k silently dead idle connections
		for k := 1; k <= 6; k++ {
			j := 1 + r.Rng.Intn(4)
			s := newSrv08()
			t := mk08("reuse", s, 1)
			t.burst(s, k)
			s.setAll("eof-after-write")
			s.setDefault("answer")
			deadIDs := map[int]bool{}
			for _, c := range s.live() {
				deadIDs[c.id] = true
			}
			results := make([]res08, j)
			var wg sync.WaitGroup
			for i := 0; i < j; i++ {
				wg.Add(1)
				go func(i int) {
					defer wg.Done()
					ctx, cancel := context.WithTimeout(context.Background(), 3*time.Second)
					defer cancel()
					results[i] = t.query(ctx)
				}(i)
			}
			wg.Wait()
			for i, res := range results {
				line, n := classify08("reuse", s, res, 0, k)
				s.mu.Lock()
				var turns []string
				for _, id := range s.order[res.tag] {
					switch {
					case deadIDs[id]:
						turns = append(turns, "pooled0")
					case s.born[id].Before(res.started) || !s.replied[fmt.Sprintf("%d/%d", id, res.tag)]:
						turns = append(turns, "pooled"+b01(s.replied[fmt.Sprintf("%d/%d", id, res.tag)]))
					default:
						turns = append(turns, "fresh1")
					}
				}
				s.mu.Unlock()
				if len(turns) == 0 {
					turns = []string{"dialFail"}
				}
				desc := map[string]any{"transport": "reuse", "scenario": "concurrent-over-dead-pool", "dead_idle_connections": k, "concurrent_queries": j, "observed_environment": strings.Join(turns, ",")}
				stale := 0
				for _, tn := range turns {
					if tn == "pooled0" {
						stale++
					}
				}
				check("reuse", res, line, n, desc, stale, true, false)
				alt := line
				if strings.HasPrefix(line, "ok") { // a connection dialed by a concurrent query and idle again counts as pooled: same result
					alt = line
				}
				r.Line("loop reuse "+strings.Join(turns, ","), alt)
				r.Eval(fmt.Sprintf("H/%d/%d/%d", k, j, i), true)
				r.Count("reuse:concurrent-dead-pool")
				r.Trace()
			}
			t.close()
		}
		// ---- K: sequential streams against a server that kills connections on a random script
		for _, kind := range kinds {
			s := newSrv08()
			t := mk08(kind, s, 1)
			steps := r.N(25, 120)
			for st := 0; st < steps; st++ {
				switch r.Rng.Intn(5) {
				case 0:
					t.burst(s, 1+r.Rng.Intn(5))
					continue
				case 1:
					s.killIdle()
				}
				liveBefore := s.live()
				pool := len(liveBefore)
				// script: each live connection gets its own behaviour; so does the next fresh one
				modes := []string{"answer", "eof-after-write", "reset-on-write", "eof-after-write", "answer-then-eof"}
				s.mu.Lock()
				for _, c := range liveBefore {
					s.mode[c.id] = modes[r.Rng.Intn(len(modes))]
				}
				s.defMode = []string{"answer", "answer", "answer", "eof-after-write", "reset-on-write"}[r.Rng.Intn(5)]
				s.dialFail = r.Rng.Intn(12) == 0
				s.mu.Unlock()
				ctx, cancel := context.WithTimeout(context.Background(), 3*time.Second)
				res := t.query(ctx)
				cancel()
				line, n := classify08(kind, s, res, 0, pool)
				s.mu.Lock()
				var turns []string
				stale := 0
				for _, id := range s.order[res.tag] {
					ok := s.replied[fmt.Sprintf("%d/%d", id, res.tag)]
					if s.born[id].Before(res.started) {
						turns = append(turns, "pooled"+b01(ok))
						if !ok {
							stale++
						}
					} else {
						turns = append(turns, "fresh"+b01(ok))
					}
				}
				freshWorks := s.defMode == "answer" && !s.dialFail
				s.dialFail = false
				s.mu.Unlock()
				if errors.Is(res.err, errDial08) {
					turns = append(turns, "dialFail")
				}
				if len(turns) == 0 {
					turns = []string{"stuck"}
				}
				desc := map[string]any{"transport": kind, "scenario": "random-sequential-stream", "step": st, "pool_size_before": pool, "observed_environment": strings.Join(turns, ",")}
				check(kind, res, line, n, desc, stale, freshWorks, false)
				r.Line(fmt.Sprintf("loop %s %s", kind, strings.Join(turns, ",")), line)
				r.Eval(fmt.Sprintf("K/%s/%d/%d", kind, rep, st), len(turns) > 1)
				r.Count(kind + ":stream")
				r.Count(fmt.Sprintf("stream-attempts:%d", n))
				r.Trace()
				// leave the pool in a state where answered connections stay usable
				s.setAll("answer")
				s.setDefault("answer")
			}
			t.close()
		}
		// ---- L: nothing fails: a full (or partly filled) queue behind a slow dial, late callers at the moment the dial succeeds
		lkinds := []string{"pipeline"}
		if r.Thorough() || rep == 0 {
			lkinds = append(lkinds, "pipeline-udp")
		}
		for _, kind := range lkinds {
			for li := 0; li < r.N(3, 6); li++ {
				L := 1
				if r.Rng.Intn(2) == 0 {
					L = 2 + r.Rng.Intn(2)
				}
				n := L
				if r.Rng.Intn(4) == 0 {
					n = 1 + r.Rng.Intn(L)
				}
				lateAtDial08(r, kind, L, n, 1+r.Rng.Intn(2), time.Duration(r.N(60, 100))*time.Millisecond, rep*100+li)
			}
		}
	}
	r.Finish("transports {ReuseConnTransport, PipelineTransport over TraditionalDnsConn} x server scripts {k = 0..6 pooled connections silently dead (write accepted then closed / reset on write) followed by a fresh connection that works / fails / cannot be dialed; closed while idle; closed right after a reply; transport closed; silent pooled connections + caller's context ends; closed with j queries in flight (with and without the opener among them, Close() of the connection fast or slow); dies between reservation and write; j concurrent queries over k dead idle connections; p = 1..3 callers cancelled while their connections are being dialed (held handshake), the dials finish afterwards and leave connections that never carried a query in the pool next to k0 that did, the server drops them on the next write / while idle / keeps them (fixed or random per connection), then a query (pipeline: also one that arrives during the dial); j = 1..3 connections go idle (their replies arrive) while d = 1..3 other queries, which found nothing idle, are dialing (held handshakes), the server drops the idle ones on the next write / right after the reply / while idle or keeps them, the handshakes finish: each dialing query must succeed if the connection opened for it works (reuse: also replayed on Model.C08.DialHandOver over the regenerated fact about getNewConn); random sequential streams with bursts; no fault at all: n <= L queries queued behind a held dial of a pipeline connection (tcp framing and datagram) that takes L = 1..3 queries, the first of them opened it, the dial succeeds, one queued query is descheduled on its way into the dialed connection and 1..2 further queries arrive at that moment, replies held until every query was written or returned: every query must return its own reply (replayed on the loop model as fresh1 / pooled1 and on the hand-over model Model.C08.Handoff)}; per query: connections its bytes were written on, result class; the model runs on the enforced (or observed) environment")
}
