package main

import (
	"bufio"
	"encoding/hex"
	"encoding/json"
	"fmt"
	"math/rand"
	"os"
	"path/filepath"
	"sort"
	"strings"
	"sync/atomic"
	"time"
)

// Run collects what one harness invocation produces:
//
//	ops.txt   one model-driver operation per line
//	impl.txt  the implementation's canonical result for the same line
//	meta.json counts, input distribution, samples, oracle failures
type Run struct {
	Prop   string
	Seed   int64
	Tier   string
	Dir    string
	Rng    *rand.Rand
	ops    *bufio.Writer
	impl   *bufio.Writer
	opsF   *os.File
	implF  *os.File
	meta   Meta
	nontrv map[string]struct{}
}

type OracleFail struct {
	What   string `json:"what"`   // which clause of the property failed
	Replay any    `json:"replay"` // concrete input / history that fails on the implementation
}

type Meta struct {
	Prop               string         `json:"property_id"`
	Seed               int64          `json:"seed"`
	Tier               string         `json:"tier"`
	Lines              int            `json:"lines"`       // driver operations emitted
	Evaluations        int            `json:"evaluations"` // cases run against the implementation
	DistinctNontrivial int            `json:"distinct_nontrivial"`
	Rule               string         `json:"rule"`
	Dist               map[string]int `json:"distribution"`
	Samples            []string       `json:"samples"`
	OracleFails        []OracleFail   `json:"oracle_fails"`
	Notes              []string       `json:"notes"`
	Traces             int            `json:"traces_validated_against_impl"`
}

func NewRun(prop string, seed int64, tier, dir string) *Run {
	if err := os.MkdirAll(dir, 0o755); err != nil {
		fatal(err)
	}
	of, err := os.Create(filepath.Join(dir, "ops.txt"))
	if err != nil {
		fatal(err)
	}
	inf, err := os.Create(filepath.Join(dir, "impl.txt"))
	if err != nil {
		fatal(err)
	}
	return &Run{
		Prop: prop, Seed: seed, Tier: tier, Dir: dir,
		Rng:  rand.New(rand.NewSource(seed)),
		ops:  bufio.NewWriterSize(of, 1<<20),
		impl: bufio.NewWriterSize(inf, 1<<20),
		opsF: of, implF: inf,
		meta:   Meta{Prop: prop, Seed: seed, Tier: tier, Dist: map[string]int{}},
		nontrv: map[string]struct{}{},
	}
}

func fatal(err error) {
	fmt.Fprintln(os.Stderr, "harness:", err)
	os.Exit(2)
}

func (r *Run) Thorough() bool { return r.Tier == "thorough" }

// N picks the quick or thorough count.
func (r *Run) N(quick, thorough int) int {
	if r.Thorough() {
		return thorough
	}
	return quick
}

// Line emits one driver operation together with the implementation's result.
func (r *Run) Line(op, implOut string) {
	if strings.ContainsAny(op, "\n\r") || strings.ContainsAny(implOut, "\n\r") {
		fatal(fmt.Errorf("newline in protocol line: %q / %q", op, implOut))
	}
	if strings.HasSuffix(op, " ") {
		// a history in which no operation took place (every random choice was inapplicable): nothing to compare;
		// the line-splitting model driver would read the empty last field as a malformed line
		r.Count("empty-history-skipped")
		return
	}
	r.ops.WriteString(r.Prop + " " + op + "\n")
	r.impl.WriteString(implOut + "\n")
	r.meta.Lines++
	if len(r.meta.Samples) < 6 && r.Rng.Intn(4) == 0 || r.meta.Lines == 1 {
		r.meta.Samples = append(r.meta.Samples, op+" => "+implOut)
	}
}

// Eval counts one case run against the implementation. key identifies the
// case for distinctness; nontrivial says whether it took a non-default path.
func (r *Run) Eval(key string, nontrivial bool) {
	r.meta.Evaluations++
	if nontrivial {
		r.nontrv[key] = struct{}{}
	}
}

func (r *Run) Count(bucket string) { r.meta.Dist[bucket]++ }

func (r *Run) Sample(s string) {
	if len(r.meta.Samples) < 12 {
		r.meta.Samples = append(r.meta.Samples, s)
	}
}

func (r *Run) Note(s string) { r.meta.Notes = append(r.meta.Notes, s) }

func (r *Run) Trace() { r.meta.Traces++ }

func (r *Run) Fail(what string, replay any) {
	if len(r.meta.OracleFails) < 20 {
		r.meta.OracleFails = append(r.meta.OracleFails, OracleFail{What: what, Replay: replay})
	}
	r.Count("ORACLE-FAIL")
}

func (r *Run) Finish(rule string) {
	r.ops.Flush()
	r.impl.Flush()
	r.opsF.Close()
	r.implF.Close()
	r.meta.Rule = rule
	r.meta.DistinctNontrivial = len(r.nontrv)
	if r.meta.Samples == nil {
		r.meta.Samples = []string{}
	}
	if r.meta.OracleFails == nil {
		r.meta.OracleFails = []OracleFail{}
	}
	js, _ := json.MarshalIndent(r.meta, "", " ")
	if err := os.WriteFile(filepath.Join(r.Dir, "meta.json"), append(js, '\n'), 0o644); err != nil {
		fatal(err)
	}
	keys := make([]string, 0, len(r.meta.Dist))
	for k := range r.meta.Dist {
		keys = append(keys, k)
	}
	sort.Strings(keys)
	fmt.Printf("harness %s: %d evaluations, %d distinct non-trivial, %d lines, %d oracle failures\n",
		r.Prop, r.meta.Evaluations, r.meta.DistinctNontrivial, r.meta.Lines, len(r.meta.OracleFails))
}

func hx(b []byte) string {
	if len(b) == 0 {
		return "-"
	}
	return hex.EncodeToString(b)
}

func b01(b bool) string {
	if b {
		return "1"
	}
	return "0"
}

// boundary 16-bit values every generator mixes in.
var u16Boundary = []uint16{0, 1, 2, 12, 13, 28, 41, 255, 256, 257, 258, 511, 512, 513, 1024, 4095, 4096, 32767, 32768, 65280, 65534, 65535}

func (r *Run) U16() uint16 {
	if r.Rng.Intn(3) == 0 {
		return u16Boundary[r.Rng.Intn(len(u16Boundary))]
	}
	return uint16(r.Rng.Intn(65536))
}

// Name generates a presentation-format domain name (fully qualified) with
// 1..n labels, mixed case, occasionally long.
func (r *Run) Name() string {
	const alpha = "abcdefghijklmnopqrstuvwxyzABCDEFGHIJKLMNOPQRSTUVWXYZ0123456789-_"
	nl := 1 + r.Rng.Intn(4)
	maxLabel := 8
	switch r.Rng.Intn(12) {
	case 0: // names of 250..254 presentation characters (the 255-octet limit)
		last := 57 + r.Rng.Intn(5)
		var sb strings.Builder
		for i, ll := range []int{63, 63, 63, last} {
			for j := 0; j < ll; j++ {
				sb.WriteByte(alpha[(i*7+j*3+r.Rng.Intn(3))%len(alpha)])
			}
			sb.WriteByte('.')
		}
		return sb.String()
	case 1:
		nl, maxLabel = 1, 1
	}
	var sb strings.Builder
	for i := 0; i < nl; i++ {
		ll := 1 + r.Rng.Intn(maxLabel)
		if maxLabel == 63 {
			ll = 55 + r.Rng.Intn(8)
		}
		for j := 0; j < ll; j++ {
			sb.WriteByte(alpha[r.Rng.Intn(len(alpha))])
		}
		sb.WriteByte('.')
	}
	s := sb.String()
	if len(s) > 253 {
		s = s[len(s)-253:]
		if s[0] == '.' {
			s = "a" + s[1:]
		}
	}
	return s
}

// stallMeter measures how late a 2 ms sleeper wakes up: the scheduling noise of
// the machine while a timing-sensitive scenario runs. Oracles that assert a
// wall-clock bound skip the bound (and say so in the distribution) when the
// process itself was stalled for longer than the margin of the bound.
type stallMeter struct {
	max  int64 // ns
	stop chan struct{}
	done chan struct{}
}

func startStallMeter() *stallMeter {
	m := &stallMeter{stop: make(chan struct{}), done: make(chan struct{})}
	go func() {
		defer close(m.done)
		last := time.Now()
		for {
			select {
			case <-m.stop:
				return
			case <-time.After(2 * time.Millisecond):
			}
			now := time.Now()
			if gap := int64(now.Sub(last)) - int64(2*time.Millisecond); gap > atomic.LoadInt64(&m.max) {
				atomic.StoreInt64(&m.max, gap)
			}
			last = now
		}
	}()
	return m
}

// Stop ends the measurement and returns the longest stall seen.
func (m *stallMeter) Stop() time.Duration {
	close(m.stop)
	<-m.done
	return time.Duration(atomic.LoadInt64(&m.max))
}
