//go:build pC04 || pall

package main

import (
	"context"
	"fmt"
	"net"
	"runtime"
	"strconv"
	"strings"
	"sync"
	"time"

	"github.com/IrineSistiana/mosdns/v5/coremain"
	"github.com/IrineSistiana/mosdns/v5/pkg/query_context"
	"github.com/IrineSistiana/mosdns/v5/plugin/executable/cache"
	"github.com/IrineSistiana/mosdns/v5/plugin/executable/dual_selector"
	"github.com/IrineSistiana/mosdns/v5/plugin/executable/redirect"
	"github.com/IrineSistiana/mosdns/v5/plugin/executable/sequence"
	"github.com/miekg/dns"
)

// C04, chains: several cache plugins in one sequence (distinct instances or one
// instance referenced twice, inline or behind jump / goto), with plugins between
// them that change the question the next cache plugin sees while the query
// context, or a Copy() of it, stays the same: the real prefer_ipv4 /
// prefer_ipv6 (reference query of the other type on a copy, concurrently), the
// real redirect (name rewritten in place and restored), and a harness plugin
// that runs a sub-query on a copy, or rewrites in place, with a changed type,
// name, class, AD, CD or DO.
//
// Observation: a probe directly behind every cache plugin. A context that
// arrives there with a response was answered by that cache (a hit: the probe
// ends the walk like the usual `has_resp -> accept` rule); one that arrives
// without is a miss, and whatever response the rest of the chain attaches is
// what that cache is about to store as the answer of the question it was handed.
//
// Oracle (the property's): a cache instance serves an answer only to a question
// (name, type, class, AD, CD, DO) for which this instance stored that very
// answer. The same events are replayed on the model's trace acceptor.

func q04FromMsg(m *dns.Msg) q04 {
	q := q04{resp: m.Response, opcode: m.Opcode, nq: len(m.Question), ad: m.AuthenticatedData, cd: m.CheckingDisabled}
	if opt := m.IsEdns0(); opt != nil {
		q.hasOpt = true
		q.do = opt.Do()
	}
	if len(m.Question) > 0 {
		q.name, q.qtype, q.qclass = m.Question[0].Name, m.Question[0].Qtype, m.Question[0].Qclass
	}
	return q
}

// identity04 is the part of a query the property talks about (plus the bypass attributes).
func identity04(q q04) string { return strings.TrimPrefix(q.opLine(), "key ") }

type obs04 struct {
	mu       sync.Mutex
	closed   bool
	produced map[int]map[int][]q04 // cache instance -> answer serial -> questions this instance was handed when it stored that answer
	events   []string
	hits     int
	stores   int
	fails    []map[string]any
	serial   int
	upSaw    map[int]string // answer serial -> question the upstream answered
}

func (o *obs04) store(inst int, q q04, serial int) {
	o.mu.Lock()
	defer o.mu.Unlock()
	if o.closed {
		return
	}
	if o.produced[inst] == nil {
		o.produced[inst] = map[int][]q04{}
	}
	o.produced[inst][serial] = append(o.produced[inst][serial], q)
	o.events = append(o.events, fmt.Sprintf("S %d %s %d", inst, identity04(q), serial))
	o.stores++
}

func (o *obs04) hit(inst, pos int, q q04, serial int) {
	o.mu.Lock()
	defer o.mu.Unlock()
	if o.closed {
		return
	}
	o.events = append(o.events, fmt.Sprintf("H %d %s %d", inst, identity04(q), serial))
	o.hits++
	ok := false
	var forQ []string
	for _, p := range o.produced[inst][serial] {
		if sameQuestion(p, q) && p.cacheable() && q.cacheable() {
			ok = true
		}
		forQ = append(forQ, p.String())
	}
	if !ok {
		o.fails = append(o.fails, map[string]any{
			"cache_position": pos, "cache_instance": inst, "served_to": q.String(), "answer_serial": serial,
			"this_cache_stored_that_answer_for": forQ, "upstream_produced_it_for": o.upSaw[serial],
		})
	}
}

// probe04 sits directly behind a cache plugin.
type probe04 struct {
	o         *obs04
	inst, pos int
}

func (p *probe04) Exec(ctx context.Context, qCtx *query_context.Context, next sequence.ChainWalker) error {
	q := q04FromMsg(qCtx.Q())
	if r := qCtx.R(); r != nil {
		p.o.hit(p.inst, p.pos, q, serial04(r))
		return nil
	}
	err := next.ExecNext(ctx, qCtx)
	if r := qCtx.R(); r != nil {
		p.o.store(p.inst, q, serial04(r))
	}
	return err
}

// up04 answers every question with a fresh, numbered answer. Negative answers
// (neg 1: NXDOMAIN for every name, 2: NODATA for every name, 3: NXDOMAIN, NODATA
// or a positive answer depending on the name) carry the number in the serial of
// an SOA record in the authority section, so that a negative answer that is
// served from a cache can be traced to the question it was produced for, too.
type up04 struct {
	o   *obs04
	neg int
}

// negKind04: 0 positive answer, 1 NXDOMAIN, 2 NODATA.
func (u *up04) negKind04(name string) int {
	switch u.neg {
	case 1, 2:
		return u.neg
	case 3:
		h := 0
		for i := 0; i < len(name); i++ {
			h += int(name[i] | 0x20)
		}
		return h % 3
	}
	return 0
}

func negDesc04(neg int) string {
	return []string{"a positive answer to every question", "NXDOMAIN (+SOA) to every question", "NODATA (+SOA) to every question",
		"NXDOMAIN, NODATA or a positive answer, depending on the name"}[neg]
}

// pickNeg04 draws the kind of upstream of a seeded sequence.
func pickNeg04(r *Run) int {
	if r.Rng.Intn(3) != 0 {
		return 0
	}
	return 1 + r.Rng.Intn(3)
}

func (u *up04) Exec(_ context.Context, qCtx *query_context.Context) error {
	if qCtx.R() != nil {
		return nil
	}
	q := qCtx.Q()
	u.o.mu.Lock()
	u.o.serial++
	s := u.o.serial
	u.o.upSaw[s] = q04FromMsg(q).String()
	u.o.mu.Unlock()
	m := new(dns.Msg)
	m.SetReply(q)
	name := q.Question[0].Name
	if k := u.negKind04(name); k != 0 {
		if k == 1 {
			m.Rcode = dns.RcodeNameError
		}
		m.Ns = append(m.Ns, &dns.SOA{Hdr: dns.RR_Header{Name: "chain.test.", Rrtype: dns.TypeSOA, Class: dns.ClassINET, Ttl: 3600},
			Ns: "ns.chain.test.", Mbox: "c04-serial.chain.test.", Serial: uint32(s), Refresh: 3600, Retry: 600, Expire: 86400, Minttl: 3600})
		qCtx.SetResponse(m)
		return nil
	}
	switch q.Question[0].Qtype {
	case dns.TypeA:
		m.Answer = append(m.Answer, &dns.A{Hdr: dns.RR_Header{Name: name, Rrtype: dns.TypeA, Class: dns.ClassINET, Ttl: 3600}, A: net.IPv4(10, byte(s>>16), byte(s>>8), byte(s))})
	case dns.TypeAAAA:
		ip := net.ParseIP("fd00:c04::")
		ip[13], ip[14], ip[15] = byte(s>>16), byte(s>>8), byte(s)
		m.Answer = append(m.Answer, &dns.AAAA{Hdr: dns.RR_Header{Name: name, Rrtype: dns.TypeAAAA, Class: dns.ClassINET, Ttl: 3600}, AAAA: ip})
	default:
		m.Answer = append(m.Answer, &dns.TXT{Hdr: dns.RR_Header{Name: name, Rrtype: dns.TypeTXT, Class: dns.ClassINET, Ttl: 3600}, Txt: []string{"c04-serial=" + strconv.Itoa(s)}})
	}
	qCtx.SetResponse(m)
	return nil
}

// serial04 finds the upstream's number in a response; 0 for a response that was
// made up by a plugin (prefer_ipv4's empty reply).
func serial04(r *dns.Msg) int {
	for _, rr := range r.Answer {
		switch x := rr.(type) {
		case *dns.A:
			if ip := x.A.To4(); ip != nil && ip[0] == 10 {
				return int(ip[1])<<16 | int(ip[2])<<8 | int(ip[3])
			}
		case *dns.AAAA:
			if ip := x.AAAA.To16(); ip != nil && ip[0] == 0xfd {
				return int(ip[13])<<16 | int(ip[14])<<8 | int(ip[15])
			}
		case *dns.TXT:
			if len(x.Txt) == 1 && strings.HasPrefix(x.Txt[0], "c04-serial=") {
				n, _ := strconv.Atoi(strings.TrimPrefix(x.Txt[0], "c04-serial="))
				return n
			}
		}
	}
	for _, rr := range r.Ns {
		if x, ok := rr.(*dns.SOA); ok && x.Mbox == "c04-serial.chain.test." {
			return int(x.Serial)
		}
	}
	return 0
}

// rewr04 changes one attribute of the question for the rest of the chain.
type rewr04 struct {
	attr  string // type, name, class, ad, cd, do
	mode  int    // 0: sub-query on a Copy() before the original; 1: after it; 2: in place, restored afterwards
	typ   uint16
	class uint16
	name  string
}

func (w *rewr04) String() string {
	arg := ""
	switch w.attr {
	case "type":
		arg = "=" + strconv.Itoa(int(w.typ))
	case "class":
		arg = "=" + strconv.Itoa(int(w.class))
	case "name":
		arg = "=" + w.name
	}
	return "rewrite(" + w.attr + arg + "," + []string{"sub-query on Copy() first", "sub-query on Copy() afterwards", "in place, restored"}[w.mode] + ")"
}

func (w *rewr04) apply(qCtx *query_context.Context) (undo func()) {
	m := qCtx.Q()
	old, oldAD, oldCD := m.Question[0], m.AuthenticatedData, m.CheckingDisabled
	opt := qCtx.QOpt()
	oldTTL := opt.Hdr.Ttl
	switch w.attr {
	case "type":
		m.Question[0].Qtype = w.typ
	case "class":
		m.Question[0].Qclass = w.class
	case "name":
		m.Question[0].Name = w.name
	case "ad":
		m.AuthenticatedData = !oldAD
	case "cd":
		m.CheckingDisabled = !oldCD
	case "do":
		opt.Hdr.Ttl ^= 1 << 15
	}
	return func() {
		m.Question[0], m.AuthenticatedData, m.CheckingDisabled = old, oldAD, oldCD
		opt.Hdr.Ttl = oldTTL
	}
}

func (w *rewr04) Exec(ctx context.Context, qCtx *query_context.Context, next sequence.ChainWalker) error {
	switch w.mode {
	case 0:
		c := qCtx.Copy()
		w.apply(c)
		if err := next.ExecNext(ctx, c); err != nil {
			return err
		}
		return next.ExecNext(ctx, qCtx)
	case 1:
		c := qCtx.Copy()
		w.apply(c)
		if err := next.ExecNext(ctx, qCtx); err != nil {
			return err
		}
		return next.ExecNext(ctx, c)
	default:
		undo := w.apply(qCtx)
		defer undo()
		return next.ExecNext(ctx, qCtx)
	}
}

type chain04 struct {
	entries []*sequence.Sequence // entries[0]: the whole chain; entries[k]: the chain from the k-th cache plugin on
	desc    []string
	closers []func()
	names   []string
	types   []uint16
	neg     int // kind of upstream (up04.neg)
}

func buildChain04(r *Run, o *obs04) (*chain04, error) {
	plugins := map[string]any{}
	m := coremain.NewTestMosdnsWithPlugins(plugins)
	bq := sequence.NewBQ(m, m.Logger())
	ch := &chain04{names: []string{"h0.chain.test.", "h1.chain.test.", "t.chain.test."}}
	ch.types = []uint16{dns.TypeA, dns.TypeAAAA, dns.TypeA, dns.TypeAAAA, dns.TypeTXT, 257, r.U16()}
	up := &up04{o: o, neg: pickNeg04(r)}
	plugins["up"] = up
	ch.neg = up.neg

	nCache := 2
	if r.Rng.Intn(4) == 0 {
		nCache = 3
	}
	var caches []*cache.Cache
	inst := make([]int, nCache)
	for k := 0; k < nCache; k++ {
		if k > 0 && r.Rng.Intn(4) == 0 { // one tagged cache referenced twice
			inst[k] = inst[r.Rng.Intn(k)]
			continue
		}
		c := cache.NewCache(&cache.Args{Size: 1024}, cache.Opts{})
		ch.closers = append(ch.closers, func() { c.Close() })
		inst[k] = len(caches)
		caches = append(caches, c)
	}
	for i, c := range caches {
		plugins[fmt.Sprintf("cache%d", i)] = c
	}
	newRewriter := func(tag string) string {
		switch r.Rng.Intn(8) {
		case 0, 1:
			p := dual_selector.NewPreferIpv4(bq)
			ch.closers = append(ch.closers, func() { p.Close() })
			plugins[tag] = p
			return "prefer_ipv4"
		case 2:
			p := dual_selector.NewPreferIpv6(bq)
			ch.closers = append(ch.closers, func() { p.Close() })
			plugins[tag] = p
			return "prefer_ipv6"
		case 3, 4:
			rule := []string{"full:h0.chain.test t.chain.test", "full:h0.chain.test h1.chain.test", "domain:chain.test t.chain.test"}[r.Rng.Intn(3)]
			p, err := redirect.NewRedirect(&redirect.Args{Rules: []string{rule}})
			if err != nil {
				plugins[tag] = &rewr04{attr: "ad", mode: 2}
				return "redirect-failed:" + err.Error()
			}
			plugins[tag] = p
			return "redirect(" + rule + ")"
		default:
			w := &rewr04{attr: []string{"type", "type", "type", "name", "name", "class", "ad", "cd", "do"}[r.Rng.Intn(9)], mode: r.Rng.Intn(3)}
			w.typ = ch.types[r.Rng.Intn(len(ch.types))]
			w.class = []uint16{dns.ClassCHAOS, dns.ClassINET, dns.ClassANY, r.U16()}[r.Rng.Intn(4)]
			w.name = ch.names[r.Rng.Intn(len(ch.names))]
			plugins[tag] = w
			return w.String()
		}
	}
	// rules of the part of the chain that starts at the k-th cache plugin
	segs := make([][]sequence.RuleArgs, nCache)
	segDesc := make([][]string, nCache)
	for k := 0; k < nCache; k++ {
		ptag := fmt.Sprintf("probe%d", k)
		plugins[ptag] = &probe04{o: o, inst: inst[k], pos: k}
		segs[k] = append(segs[k], sequence.RuleArgs{Exec: fmt.Sprintf("$cache%d", inst[k])}, sequence.RuleArgs{Exec: "$" + ptag})
		segDesc[k] = append(segDesc[k], fmt.Sprintf("cache#%d", inst[k]), "[has_resp]accept")
		if k == nCache-1 {
			if r.Rng.Intn(3) == 0 {
				tag := fmt.Sprintf("rw%d_last", k)
				segDesc[k] = append(segDesc[k], newRewriter(tag))
				segs[k] = append(segs[k], sequence.RuleArgs{Exec: "$" + tag})
			}
			segs[k] = append(segs[k], sequence.RuleArgs{Exec: "$up"})
			segDesc[k] = append(segDesc[k], "upstream")
			break
		}
		for j, n := 0, 1+r.Rng.Intn(2); j < n; j++ {
			tag := fmt.Sprintf("rw%d_%d", k, j)
			segDesc[k] = append(segDesc[k], newRewriter(tag))
			segs[k] = append(segs[k], sequence.RuleArgs{Exec: "$" + tag})
		}
	}
	// the tails first (they are jump / goto targets and entry points of their own), then the whole chain
	ch.entries = make([]*sequence.Sequence, nCache)
	descFrom := make([]string, nCache)
	for k := nCache - 1; k >= 0; k-- {
		rules := append([]sequence.RuleArgs{}, segs[k]...)
		d := append([]string{}, segDesc[k]...)
		if k < nCache-1 {
			switch link := r.Rng.Intn(4); link {
			case 0, 1:
				rules = append(rules, sequence.RuleArgs{Exec: fmt.Sprintf("%s tail%d", []string{"jump", "goto"}[link], k+1)})
				d = append(d, fmt.Sprintf("%s{%s}", []string{"jump", "goto"}[link], descFrom[k+1]))
			default: // inline: the same plugin instances, referenced again
				for kk := k + 1; kk < nCache; kk++ {
					rules = append(rules, segs[kk]...)
					d = append(d, segDesc[kk]...)
				}
			}
		}
		sq, err := sequence.NewSequence(bq, rules)
		if err != nil {
			return ch, err
		}
		plugins[fmt.Sprintf("tail%d", k)] = sq
		ch.entries[k] = sq
		descFrom[k] = strings.Join(d, " -> ")
	}
	ch.desc = descFrom
	return ch, nil
}

func runChains04(r *Run) {
	n := r.N(200, 3000)
	for i := 0; i < n; i++ {
		runChain04(r, i)
	}
}

func runChain04(r *Run, i int) {
	o := &obs04{produced: map[int]map[int][]q04{}, upSaw: map[int]string{}}
	ch, err := buildChain04(r, o)
	defer func() {
		o.mu.Lock()
		o.closed = true
		o.mu.Unlock()
		for _, f := range ch.closers {
			f()
		}
	}()
	if err != nil {
		r.Note("C04 chain build failed: " + err.Error())
		r.Count("chain-build-failed")
		return
	}
	r.Count(fmt.Sprintf("chain:caches=%d", len(ch.entries)))
	r.Count(fmt.Sprintf("chain:upstream-kind=%d", ch.neg))
	for _, kind := range []string{"prefer_ipv", "redirect(", "rewrite(type", "rewrite(name", "rewrite(class", "rewrite(ad", "rewrite(cd", "rewrite(do", "jump{", "goto{"} {
		if strings.Contains(ch.desc[0], kind) {
			r.Count("chain-has:" + strings.TrimRight(kind, "({"))
		}
	}
	// a few base questions, asked repeatedly and in their A / AAAA and flag variants, at the head of the chain
	// and straight at the later cache plugins
	nq := 4 + r.Rng.Intn(7)
	pool := make([]q04, 1+r.Rng.Intn(2))
	for k := range pool {
		pool[k] = q04{nq: 1, qclass: dns.ClassINET, hasOpt: true, name: ch.names[r.Rng.Intn(2)], qtype: ch.types[r.Rng.Intn(len(ch.types))],
			ad: r.Rng.Intn(4) == 0, cd: r.Rng.Intn(4) == 0, do: r.Rng.Intn(3) == 0}
	}
	var history []string
	reported := false
	for k := 0; k < nq && !reported; k++ {
		q := pool[r.Rng.Intn(len(pool))]
		switch r.Rng.Intn(8) {
		case 0:
			q.qtype = dns.TypeA
		case 1:
			q.qtype = dns.TypeAAAA
		case 2:
			q.name = ch.names[r.Rng.Intn(len(ch.names))]
		case 3:
			q.do = !q.do
		case 4:
			if r.Rng.Intn(3) == 0 {
				q.qclass = dns.ClassCHAOS
			} else if r.Rng.Intn(4) == 0 {
				q.opcode = dns.OpcodeStatus // bypasses every cache plugin
			}
		}
		entry := 0
		if r.Rng.Intn(3) == 0 {
			entry = r.Rng.Intn(len(ch.entries))
		}
		history = append(history, fmt.Sprintf("entry=%d %s", entry, q.String()))
		msg := q.msg()
		qCtx := query_context.NewContext(msg)
		if q.do {
			qCtx.QOpt().SetDo()
		}
		base := runtime.NumGoroutine()
		o.mu.Lock()
		h0 := o.hits
		o.mu.Unlock()
		err := ch.entries[entry].Exec(context.Background(), qCtx)
		// prefer_ipv4 / prefer_ipv6 may return while the sub-query they started is still walking the chain
		quiet := false
		for dl := time.Now().Add(5 * time.Second); time.Now().Before(dl); time.Sleep(50 * time.Microsecond) {
			if runtime.NumGoroutine() <= base {
				quiet = true
				break
			}
		}
		if !quiet {
			r.Count("chain-query:sub-queries-still-running-after-5s")
		}
		o.mu.Lock()
		hit := o.hits > h0
		fails := o.fails
		o.fails = nil
		o.mu.Unlock()
		r.Eval(fmt.Sprintf("chain:%d:%s|%s", i, ch.desc[0], strings.Join(history, ";")), true)
		switch {
		case err != nil:
			r.Count("chain-query:error")
		case hit:
			r.Count("chain-query:some-cache-hit")
		default:
			r.Count("chain-query:all-miss")
		}
		for _, f := range fails {
			f["chain"] = ch.desc[0]
			f["chain_entries"] = ch.desc
			f["upstream_answers"] = negDesc04(ch.neg)
			f["queries_in_order"] = append([]string{}, history...)
			r.Fail("in a chain with several cache plugins, a cache plugin served an answer to a question for which it had not stored that answer (the question was changed between two cache plugins while the query context, or a copy of it, stayed the same; or an answer - positive, NXDOMAIN or NODATA - stored for one question was found under another question's key)", f)
			reported = true
			break
		}
	}
	o.mu.Lock()
	evs := append([]string{}, o.events...)
	o.closed = true
	o.mu.Unlock()
	if len(evs) > 0 {
		r.Line("chain "+strings.Join(evs, " "), "accept")
	}
}
