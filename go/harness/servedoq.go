//go:build pC16 || pall

package main

import (
	"bytes"
	"context"
	"crypto/ecdsa"
	"crypto/elliptic"
	"crypto/rand"
	"crypto/tls"
	"crypto/x509"
	"crypto/x509/pkix"
	"encoding/binary"
	"encoding/hex"
	"errors"
	"fmt"
	"io"
	"math/big"
	mrand "math/rand"
	"strings"
	"sync"
	"time"

	"github.com/IrineSistiana/mosdns/v5/pkg/server"
	"github.com/miekg/dns"
	"github.com/quic-go/quic-go"
)

// The real DoQ server (pkg/server.ServeDoQ) on a loopback QUIC listener (quic-go, self-signed certificate made at run
// time), driven by a real quic-go client: one stream per query, the query frame written in adversarial pieces, several
// streams in flight on one connection. C16: what comes back on a stream is exactly one frame (2-byte length + the
// reply) and nothing else; a stream carrying garbage or a too-short frame gets nothing.

type echoHandler16 struct {
	mu      sync.Mutex
	handled []string
}

func (h *echoHandler16) Handle(ctx context.Context, q *dns.Msg, meta server.QueryMeta, pack func(m *dns.Msg) (*[]byte, error)) *[]byte {
	h.mu.Lock()
	if len(q.Question) == 1 {
		h.handled = append(h.handled, q.Question[0].Name)
	}
	h.mu.Unlock()
	r := new(dns.Msg)
	r.SetReply(q)
	// reply size chosen by the first label: pNNN -> NNN bytes of TXT payload
	if len(q.Question) == 1 {
		var n int
		fmt.Sscanf(q.Question[0].Name, "p%d.", &n)
		for n > 0 {
			k := n
			if k > 200 {
				k = 200
			}
			r.Answer = append(r.Answer, &dns.TXT{Hdr: dns.RR_Header{Name: q.Question[0].Name, Rrtype: dns.TypeTXT, Class: 1, Ttl: 1}, Txt: []string{strings.Repeat("x", k)}})
			n -= k
		}
	}
	b, err := pack(r)
	if err != nil {
		return nil
	}
	return b
}

func selfSigned16() (tls.Certificate, error) {
	key, err := ecdsa.GenerateKey(elliptic.P256(), rand.Reader)
	if err != nil {
		return tls.Certificate{}, err
	}
	tmpl := &x509.Certificate{SerialNumber: big.NewInt(1), Subject: pkix.Name{CommonName: "doq.test"}, NotBefore: time.Now().Add(-time.Hour), NotAfter: time.Now().Add(24 * time.Hour),
		DNSNames: []string{"doq.test"}, KeyUsage: x509.KeyUsageDigitalSignature, ExtKeyUsage: []x509.ExtKeyUsage{x509.ExtKeyUsageServerAuth}}
	der, err := x509.CreateCertificate(rand.Reader, tmpl, tmpl, &key.PublicKey, key)
	if err != nil {
		return tls.Certificate{}, err
	}
	return tls.Certificate{Certificate: [][]byte{der}, PrivateKey: key}, nil
}

func serveDoQ16(r *Run, rounds int) {
	cert, err := selfSigned16()
	if err != nil {
		r.Note("doq server scenario skipped: " + err.Error())
		return
	}
	l, err := quic.ListenAddr("127.0.0.1:0", &tls.Config{Certificates: []tls.Certificate{cert}, NextProtos: []string{"doq"}}, &quic.Config{MaxIdleTimeout: 10 * time.Second})
	if err != nil {
		r.Note("doq server scenario skipped (cannot listen): " + err.Error())
		r.Count("doq-server:skipped")
		return
	}
	h := &echoHandler16{}
	go server.ServeDoQ(l, h, server.DoQServerOpts{IdleTimeout: 5 * time.Second})
	defer l.Close()
	for rd := 0; rd < rounds; rd++ {
		ctx, cancel := context.WithTimeout(context.Background(), 8*time.Second)
		c, err := quic.DialAddr(ctx, l.Addr().String(), &tls.Config{InsecureSkipVerify: true, NextProtos: []string{"doq"}, ServerName: "doq.test"}, &quic.Config{MaxIdleTimeout: 10 * time.Second})
		if err != nil {
			cancel()
			r.Note("doq server scenario: dial failed: " + err.Error())
			r.Count("doq-server:dial-failed")
			return
		}
		n := 1 + r.Rng.Intn(6)
		type job struct {
			kind   string // ok short garbage
			name   string
			id     uint16
			cut    int
			seed   int64
			got    []byte
			rerr   error
			packed []byte
		}
		jobs := make([]*job, n)
		for i := range jobs {
			j := &job{kind: []string{"ok", "ok", "ok", "ok", "short", "garbage"}[r.Rng.Intn(6)], id: uint16(r.Rng.Intn(65536)), cut: r.Rng.Intn(4), seed: r.Rng.Int63()}
			j.name = fmt.Sprintf("p%d.r%d-%d.doq.test.", []int{0, 1, 100, 480, 1100, 1300, 3000, 9000}[r.Rng.Intn(8)], rd, i)
			jobs[i] = j
		}
		var wg sync.WaitGroup
		for _, j := range jobs {
			wg.Add(1)
			go func(j *job) {
				defer wg.Done()
				s, err := c.OpenStreamSync(ctx)
				if err != nil {
					j.rerr = err
					return
				}
				q := new(dns.Msg)
				q.SetQuestion(j.name, dns.TypeTXT)
				q.Id = j.id
				p, _ := q.Pack()
				j.packed = p
				var frame []byte
				switch j.kind {
				case "ok":
					frame = append([]byte{byte(len(p) >> 8), byte(len(p))}, p...)
				case "short": // announces fewer bytes than a DNS header
					frame = []byte{0, 5, 1, 2, 3, 4, 5}
				default:
					frame = []byte{0xff, 0xff, 1, 2, 3}
				}
				rnd := mrand.New(mrand.NewSource(j.seed))
				rest := frame
				for len(rest) > 0 {
					k := len(rest)
					switch j.cut {
					case 1:
						k = 1
					case 2:
						if len(rest) == len(frame) {
							k = 1 // split the header
						}
					case 3:
						k = 1 + rnd.Intn(len(rest))
					}
					if _, err := s.Write(rest[:k]); err != nil {
						j.rerr = err
						return
					}
					rest = rest[k:]
					if j.cut != 0 {
						time.Sleep(time.Duration(rnd.Intn(300)) * time.Microsecond)
					}
				}
				s.Close() // FIN
				s.SetReadDeadline(time.Now().Add(6 * time.Second))
				j.got, j.rerr = io.ReadAll(s)
			}(j)
		}
		wg.Wait()
		c.CloseWithError(0, "")
		cancel()
		for _, j := range jobs {
			desc := map[string]any{"server": "DoQ", "stream_kind": j.kind, "query_name": j.name, "query_frame_cut": []string{"one write", "single bytes", "header split", "random"}[j.cut], "streams_in_flight": n, "read_error": fmt.Sprint(j.rerr), "bytes_received": len(j.got)}
			if j.kind != "ok" {
				if len(j.got) > 0 {
					r.Fail("the DoQ server answered a stream that did not carry a well-formed frame", desc)
				}
				continue
			}
			if len(j.got) < 2 || int(binary.BigEndian.Uint16(j.got))+2 != len(j.got) {
				r.Fail("what the DoQ server wrote on a stream is not exactly one frame (2-byte length + message)", desc)
				continue
			}
			m := new(dns.Msg)
			if err := m.Unpack(j.got[2:]); err != nil {
				desc["unpack_error"] = err.Error()
				r.Fail("the frame the DoQ server wrote does not contain a DNS message", desc)
				continue
			}
			if m.Id != j.id || len(m.Question) != 1 || m.Question[0].Name != j.name || !m.Response {
				r.Fail("the reply on a DoQ stream is not the reply to the query sent on that stream", desc)
			}
		}
		r.Eval(fmt.Sprintf("doq-server/%d/%d", rd, n), true)
		r.Count("doq-server:connections")
		r.Trace()
	}
}

// ---- slow handlers and late readers -------------------------------------------------------------------------------
//
// ServeDoQ arms one deadline per stream when it accepts the stream (2 s, "avoid fragmentation attack"). It bounds the
// READ of the query frame. The reply is written whenever the handler is done (mosdns' upstream timeouts are 5 s) and
// for as long as the client's flow control makes the Write wait. C16 for that direction: once the handler has returned
// a reply for a well-formed query, what arrives on the stream is that reply as exactly one frame, whatever the handler
// took and however late the client drains the stream. The streams of this scenario therefore have
//   - handlers that return after 0 / 0.3-1.5 s / 2.25-2.9 s (beyond the stream deadline),
//   - replies of up to ~60 KB, on connections whose client grants a stream window of 1-8 KiB only, and
//   - a client that starts reading its stream 0 / 2.3-2.8 s after it sent the query,
// all in flight at the same time; the whole scenario runs beside the other scenarios of the check (it is mostly
// waiting) and is evaluated at the end. The plan is drawn from its own generator (seeded from the run seed) so that it
// does not disturb the inputs of the other scenarios.
//
// Oracle (per stream, only if the handler has returned a reply for the query of that stream AND the stream ended with
// a clean FIN): the bytes received are exactly one frame, 2-byte length + the reply to that query. Streams that end in
// an error on the client side (our own generous read deadline, a closed connection) are counted as inconclusive. The
// same streams are replayed on Model.C16.doqStream (driver op `doq`), which says how many bytes a Write bounded / not
// bounded by the stream deadline (regenerated fact c16DoqStreamDeadlineReadOnly) delivers.

type slowHandler16 struct {
	echoHandler16
	rmu      sync.Mutex
	returned map[string][]byte // query name -> copy of the reply frame handed back to ServeDoQ
}

func (h *slowHandler16) Handle(ctx context.Context, q *dns.Msg, meta server.QueryMeta, pack func(m *dns.Msg) (*[]byte, error)) *[]byte {
	name := ""
	if len(q.Question) == 1 {
		name = q.Question[0].Name
		var n, d int
		if k, _ := fmt.Sscanf(name, "p%d.d%d.", &n, &d); k == 2 && d > 0 {
			time.Sleep(time.Duration(d) * time.Millisecond)
		}
	}
	b := h.echoHandler16.Handle(ctx, q, meta, pack)
	if b != nil && name != "" {
		h.rmu.Lock()
		h.returned[name] = append([]byte(nil), *b...)
		h.rmu.Unlock()
	}
	return b
}

type slowJob16 struct {
	name      string
	id        uint16
	delayMs   int // handler
	replyPay  int // TXT payload bytes of the reply
	readAfter int // ms between the end of the query and the client's first Read
	cut       int
	seed      int64
	got       []byte
	rerr      error
	openErr   error
	took      time.Duration
}

type slowConn16 struct {
	window  int // client stream receive window, 0 = quic-go default (512 KiB)
	jobs    []*slowJob16
	dialErr error
}

type slowDoQ16 struct {
	conns    []*slowConn16
	h        *slowHandler16
	done     chan struct{}
	setupErr string
	maxStall time.Duration
}

// startSlowDoQ16 plans the scenario and starts it in the background; finishSlowDoQ16 waits for it and judges.
func startSlowDoQ16(r *Run) *slowDoQ16 {
	rng := mrand.New(mrand.NewSource(r.Seed*7919 + 1616))
	sc := &slowDoQ16{h: &slowHandler16{returned: map[string][]byte{}}, done: make(chan struct{})}
	slow := func() int { return 2250 + rng.Intn(650) }
	nconn := r.N(2, 6)
	for ci := 0; ci < nconn; ci++ {
		c := &slowConn16{}
		narrow := ci%2 == 1
		if narrow {
			c.window = 1024 << rng.Intn(4) // 1, 2, 4, 8 KiB
		}
		n := 3 + rng.Intn(3)
		for i := 0; i < n; i++ {
			j := &slowJob16{id: uint16(rng.Intn(65536)), cut: rng.Intn(4), seed: rng.Int63()}
			j.replyPay = []int{0, 1, 100, 480, 1100, 3000}[rng.Intn(6)]
			switch rng.Intn(3) {
			case 0:
				j.delayMs = 300 + rng.Intn(1200)
			case 1:
				j.delayMs = slow()
			}
			if narrow {
				switch rng.Intn(4) {
				case 0, 1: // larger than the window, drained late
					j.replyPay = 9000 + rng.Intn(40000)
					j.readAfter = 2300 + rng.Intn(500)
					if rng.Intn(3) != 0 {
						j.delayMs = 0
					}
				case 2: // larger than the window, drained at once
					j.replyPay = 9000 + rng.Intn(40000)
				}
			}
			// every connection has at least one stream that is still being served when the stream deadline passes
			if i == 0 {
				if narrow {
					j.replyPay, j.readAfter, j.delayMs = 9000+rng.Intn(40000), 2300+rng.Intn(500), 0
				} else {
					j.delayMs = slow()
				}
			}
			j.name = fmt.Sprintf("p%d.d%d.s%d-%d.doq.test.", j.replyPay, j.delayMs, ci, i)
			c.jobs = append(c.jobs, j)
		}
		sc.conns = append(sc.conns, c)
	}
	go sc.run()
	return sc
}

func (sc *slowDoQ16) run() {
	defer close(sc.done)
	meter := startStallMeter()
	defer func() { sc.maxStall = meter.Stop() }()
	cert, err := selfSigned16()
	if err != nil {
		sc.setupErr = err.Error()
		return
	}
	l, err := quic.ListenAddr("127.0.0.1:0", &tls.Config{Certificates: []tls.Certificate{cert}, NextProtos: []string{"doq"}}, &quic.Config{MaxIdleTimeout: 40 * time.Second})
	if err != nil {
		sc.setupErr = "cannot listen: " + err.Error()
		return
	}
	defer l.Close()
	// IdleTimeout: ServeDoQ closes a connection on which no new stream arrived for that long, served or not
	go server.ServeDoQ(l, sc.h, server.DoQServerOpts{IdleTimeout: 30 * time.Second})
	var cwg sync.WaitGroup
	for _, c := range sc.conns {
		cwg.Add(1)
		go func(c *slowConn16) {
			defer cwg.Done()
			ctx, cancel := context.WithTimeout(context.Background(), 40*time.Second)
			defer cancel()
			conf := &quic.Config{MaxIdleTimeout: 40 * time.Second}
			if c.window > 0 {
				conf.InitialStreamReceiveWindow = uint64(c.window)
				conf.MaxStreamReceiveWindow = uint64(c.window)
			}
			qc, err := quic.DialAddr(ctx, l.Addr().String(), &tls.Config{InsecureSkipVerify: true, NextProtos: []string{"doq"}, ServerName: "doq.test"}, conf)
			if err != nil {
				c.dialErr = err
				return
			}
			defer qc.CloseWithError(0, "")
			var wg sync.WaitGroup
			for _, j := range c.jobs {
				wg.Add(1)
				go func(j *slowJob16) {
					defer wg.Done()
					t0 := time.Now()
					defer func() { j.took = time.Since(t0) }()
					s, err := qc.OpenStreamSync(ctx)
					if err != nil {
						j.openErr = err
						return
					}
					q := new(dns.Msg)
					q.SetQuestion(j.name, dns.TypeTXT)
					q.Id = j.id
					p, _ := q.Pack()
					frame := append([]byte{byte(len(p) >> 8), byte(len(p))}, p...)
					rnd := mrand.New(mrand.NewSource(j.seed))
					for rest := frame; len(rest) > 0; {
						k := len(rest)
						switch j.cut {
						case 1:
							k = 1
						case 2:
							if len(rest) == len(frame) {
								k = 1
							}
						case 3:
							k = 1 + rnd.Intn(len(rest))
						}
						if _, err := s.Write(rest[:k]); err != nil {
							j.openErr = err
							return
						}
						rest = rest[k:]
						if j.cut != 0 {
							time.Sleep(time.Duration(rnd.Intn(300)) * time.Microsecond)
						}
					}
					s.Close() // FIN
					if j.readAfter > 0 {
						time.Sleep(time.Duration(j.readAfter) * time.Millisecond)
					}
					s.SetReadDeadline(time.Now().Add(25 * time.Second))
					j.got, j.rerr = io.ReadAll(s) // nil error = the server finished the stream (FIN)
				}(j)
			}
			wg.Wait()
		}(c)
	}
	cwg.Wait()
}

func finishSlowDoQ16(r *Run, sc *slowDoQ16) {
	<-sc.done
	if sc.setupErr != "" {
		r.Note("doq slow-handler / late-reader scenario skipped: " + sc.setupErr)
		r.Count("doq-slow:skipped")
		return
	}
	const streamDeadlineMs = 2000
	for _, c := range sc.conns {
		if c.dialErr != nil {
			r.Note("doq slow-handler / late-reader scenario: dial failed: " + c.dialErr.Error())
			r.Count("doq-slow:dial-failed")
			continue
		}
		r.Count("doq-slow:connections")
		for _, j := range c.jobs {
			sc.h.rmu.Lock()
			replyFrame, returned := sc.h.returned[j.name]
			sc.h.rmu.Unlock()
			replyLen := len(replyFrame)
			win := c.window
			if win == 0 {
				win = 512 * 1024
			}
			desc := map[string]any{"server": "DoQ", "query_name": j.name, "handler_delay_ms": j.delayMs, "reply_frame_bytes": replyLen,
				"client_stream_window": win, "client_reads_after_ms": j.readAfter, "streams_on_connection": len(c.jobs),
				"query_frame_cut": []string{"one write", "single bytes", "header split", "random"}[j.cut],
				"stream_ended": "FIN", "bytes_received": len(j.got), "stream_took_ms": j.took.Milliseconds(), "harness_max_stall_ms": sc.maxStall.Milliseconds()}
			r.Eval("doq-slow/"+j.name, true)
			class := "quick"
			if j.delayMs > streamDeadlineMs {
				class = "handler-beyond-deadline"
			} else if j.readAfter > streamDeadlineMs && replyLen > win {
				class = "write-blocked-beyond-deadline"
			}
			r.Count("doq-slow:" + class)
			if j.openErr != nil || !returned {
				// the query never got to the handler (e.g. it took the loaded machine more than the 2 s read deadline to
				// deliver the query frame): nothing was to be transferred on this stream
				r.Count("doq-slow:inconclusive(query not served)")
				continue
			}
			if j.rerr != nil {
				var se *quic.StreamError
				if errors.As(j.rerr, &se) {
					desc["stream_ended"] = "reset: " + j.rerr.Error()
				} else {
					desc["stream_ended"] = "client read error: " + j.rerr.Error()
				}
				r.Note(fmt.Sprintf("doq slow-handler / late-reader scenario: stream %s not finished by the server: %v (%d bytes received)", j.name, j.rerr, len(j.got)))
				r.Count("doq-slow:inconclusive(no FIN)")
				continue
			}
			// replay on the model: credit = the window at once, everything else from the moment the client reads
			grants := fmt.Sprintf("0:%d,%d:%d", win, j.readAfter, 1<<20)
			if replyLen > 2 {
				r.Line(fmt.Sprintf("doq %d %d %s %s", streamDeadlineMs, j.delayMs, grants, hex.EncodeToString(replyFrame[2:])), "delivered "+sum16(j.got))
			}
			if len(j.got) < 2 || int(binary.BigEndian.Uint16(j.got))+2 != len(j.got) {
				if len(j.got) >= 2 {
					desc["announced_length"] = int(binary.BigEndian.Uint16(j.got))
				}
				r.Fail("the handler returned a reply but what the DoQ server transferred on the stream before FIN is not exactly one frame (2-byte length + message): no / a truncated frame", desc)
				continue
			}
			if !bytes.Equal(j.got, replyFrame) {
				r.Fail("the frame the DoQ server wrote is not the reply the handler returned for that stream", desc)
				continue
			}
			m := new(dns.Msg)
			if err := m.Unpack(j.got[2:]); err != nil {
				desc["unpack_error"] = err.Error()
				r.Fail("the frame the DoQ server wrote does not contain a DNS message", desc)
				continue
			}
			if m.Id != j.id || len(m.Question) != 1 || m.Question[0].Name != j.name || !m.Response {
				r.Fail("the reply on a DoQ stream is not the reply to the query sent on that stream", desc)
				continue
			}
			r.Count("doq-slow:intact")
		}
		r.Trace()
	}
}
