//go:build pC16 || pall

package main

import (
	"context"
	"crypto/ecdsa"
	"crypto/elliptic"
	"crypto/rand"
	"crypto/tls"
	"crypto/x509"
	"crypto/x509/pkix"
	"encoding/binary"
	"fmt"
	"io"
	"math/big"
	mrand "math/rand"
	"strings"
	"sync"
	"time"

	"github.com/IrineSistiana/mosdns/v5/pkg/server"
	"github.com/miekg/dns"
	"github.com/quic-go/quic-go"
)

// The real DoQ server (pkg/server.ServeDoQ) on a loopback QUIC listener (quic-go, self-signed certificate made at run
// time), driven by a real quic-go client: one stream per query, the query frame written in adversarial pieces, several
// streams in flight on one connection. C16: what comes back on a stream is exactly one frame (2-byte length + the
// reply) and nothing else; a stream carrying garbage or a too-short frame gets nothing.

type echoHandler16 struct {
	mu      sync.Mutex
	handled []string
}

func (h *echoHandler16) Handle(ctx context.Context, q *dns.Msg, meta server.QueryMeta, pack func(m *dns.Msg) (*[]byte, error)) *[]byte {
	h.mu.Lock()
	if len(q.Question) == 1 {
		h.handled = append(h.handled, q.Question[0].Name)
	}
	h.mu.Unlock()
	r := new(dns.Msg)
	r.SetReply(q)
	// reply size chosen by the first label: pNNN -> NNN bytes of TXT payload
	if len(q.Question) == 1 {
		var n int
		fmt.Sscanf(q.Question[0].Name, "p%d.", &n)
		for n > 0 {
			k := n
			if k > 200 {
				k = 200
			}
			r.Answer = append(r.Answer, &dns.TXT{Hdr: dns.RR_Header{Name: q.Question[0].Name, Rrtype: dns.TypeTXT, Class: 1, Ttl: 1}, Txt: []string{strings.Repeat("x", k)}})
			n -= k
		}
	}
	b, err := pack(r)
	if err != nil {
		return nil
	}
	return b
}

func selfSigned16() (tls.Certificate, error) {
	key, err := ecdsa.GenerateKey(elliptic.P256(), rand.Reader)
	if err != nil {
		return tls.Certificate{}, err
	}
	tmpl := &x509.Certificate{SerialNumber: big.NewInt(1), Subject: pkix.Name{CommonName: "doq.test"}, NotBefore: time.Now().Add(-time.Hour), NotAfter: time.Now().Add(24 * time.Hour),
		DNSNames: []string{"doq.test"}, KeyUsage: x509.KeyUsageDigitalSignature, ExtKeyUsage: []x509.ExtKeyUsage{x509.ExtKeyUsageServerAuth}}
	der, err := x509.CreateCertificate(rand.Reader, tmpl, tmpl, &key.PublicKey, key)
	if err != nil {
		return tls.Certificate{}, err
	}
	return tls.Certificate{Certificate: [][]byte{der}, PrivateKey: key}, nil
}

func serveDoQ16(r *Run, rounds int) {
	cert, err := selfSigned16()
	if err != nil {
		r.Note("doq server scenario skipped: " + err.Error())
		return
	}
	l, err := quic.ListenAddr("127.0.0.1:0", &tls.Config{Certificates: []tls.Certificate{cert}, NextProtos: []string{"doq"}}, &quic.Config{MaxIdleTimeout: 10 * time.Second})
	if err != nil {
		r.Note("doq server scenario skipped (cannot listen): " + err.Error())
		r.Count("doq-server:skipped")
		return
	}
	h := &echoHandler16{}
	go server.ServeDoQ(l, h, server.DoQServerOpts{IdleTimeout: 5 * time.Second})
	defer l.Close()
	for rd := 0; rd < rounds; rd++ {
		ctx, cancel := context.WithTimeout(context.Background(), 8*time.Second)
		c, err := quic.DialAddr(ctx, l.Addr().String(), &tls.Config{InsecureSkipVerify: true, NextProtos: []string{"doq"}, ServerName: "doq.test"}, &quic.Config{MaxIdleTimeout: 10 * time.Second})
		if err != nil {
			cancel()
			r.Note("doq server scenario: dial failed: " + err.Error())
			r.Count("doq-server:dial-failed")
			return
		}
		n := 1 + r.Rng.Intn(6)
		type job struct {
			kind   string // ok short garbage
			name   string
			id     uint16
			cut    int
			seed   int64
			got    []byte
			rerr   error
			packed []byte
		}
		jobs := make([]*job, n)
		for i := range jobs {
			j := &job{kind: []string{"ok", "ok", "ok", "ok", "short", "garbage"}[r.Rng.Intn(6)], id: uint16(r.Rng.Intn(65536)), cut: r.Rng.Intn(4), seed: r.Rng.Int63()}
			j.name = fmt.Sprintf("p%d.r%d-%d.doq.test.", []int{0, 1, 100, 480, 1100, 1300, 3000, 9000}[r.Rng.Intn(8)], rd, i)
			jobs[i] = j
		}
		var wg sync.WaitGroup
		for _, j := range jobs {
			wg.Add(1)
			go func(j *job) {
				defer wg.Done()
				s, err := c.OpenStreamSync(ctx)
				if err != nil {
					j.rerr = err
					return
				}
				q := new(dns.Msg)
				q.SetQuestion(j.name, dns.TypeTXT)
				q.Id = j.id
				p, _ := q.Pack()
				j.packed = p
				var frame []byte
				switch j.kind {
				case "ok":
					frame = append([]byte{byte(len(p) >> 8), byte(len(p))}, p...)
				case "short": // announces fewer bytes than a DNS header
					frame = []byte{0, 5, 1, 2, 3, 4, 5}
				default:
					frame = []byte{0xff, 0xff, 1, 2, 3}
				}
				rnd := mrand.New(mrand.NewSource(j.seed))
				rest := frame
				for len(rest) > 0 {
					k := len(rest)
					switch j.cut {
					case 1:
						k = 1
					case 2:
						if len(rest) == len(frame) {
							k = 1 // split the header
						}
					case 3:
						k = 1 + rnd.Intn(len(rest))
					}
					if _, err := s.Write(rest[:k]); err != nil {
						j.rerr = err
						return
					}
					rest = rest[k:]
					if j.cut != 0 {
						time.Sleep(time.Duration(rnd.Intn(300)) * time.Microsecond)
					}
				}
				s.Close() // FIN
				s.SetReadDeadline(time.Now().Add(6 * time.Second))
				j.got, j.rerr = io.ReadAll(s)
			}(j)
		}
		wg.Wait()
		c.CloseWithError(0, "")
		cancel()
		for _, j := range jobs {
			desc := map[string]any{"server": "DoQ", "stream_kind": j.kind, "query_name": j.name, "query_frame_cut": []string{"one write", "single bytes", "header split", "random"}[j.cut], "streams_in_flight": n, "read_error": fmt.Sprint(j.rerr), "bytes_received": len(j.got)}
			if j.kind != "ok" {
				if len(j.got) > 0 {
					r.Fail("the DoQ server answered a stream that did not carry a well-formed frame", desc)
				}
				continue
			}
			if len(j.got) < 2 || int(binary.BigEndian.Uint16(j.got))+2 != len(j.got) {
				r.Fail("what the DoQ server wrote on a stream is not exactly one frame (2-byte length + message)", desc)
				continue
			}
			m := new(dns.Msg)
			if err := m.Unpack(j.got[2:]); err != nil {
				desc["unpack_error"] = err.Error()
				r.Fail("the frame the DoQ server wrote does not contain a DNS message", desc)
				continue
			}
			if m.Id != j.id || len(m.Question) != 1 || m.Question[0].Name != j.name || !m.Response {
				r.Fail("the reply on a DoQ stream is not the reply to the query sent on that stream", desc)
			}
		}
		r.Eval(fmt.Sprintf("doq-server/%d/%d", rd, n), true)
		r.Count("doq-server:connections")
		r.Trace()
	}
}
