//go:build pC05 || pall

package main

import (
	"context"
	"fmt"
	"sort"
	"strings"
	"time"

	"github.com/IrineSistiana/mosdns/v5/coremain"
	"github.com/IrineSistiana/mosdns/v5/pkg/query_context"
	"github.com/IrineSistiana/mosdns/v5/plugin/executable/cache"
	"github.com/IrineSistiana/mosdns/v5/plugin/executable/sequence"
	"github.com/IrineSistiana/mosdns/v5/plugin/executable/ttl"
	"github.com/miekg/dns"
)

// C05, replies post-processed after the cache plugin returned.
//
// The reply of a miss travels on through the query context after Cache.Exec stored it, and so does the reply
// of every hit. Whoever holds it then may rewrite its TTLs in place: a `ttl` plugin that follows
// `exec: $cached_forward` in the calling sequence, a wrapper plugin in front of the cache that post-processes
// after its continuation returned. (A `ttl` behind the cache in the SAME sequence runs inside the cache's
// continuation, i.e. before the store: then the rewritten TTLs are the stored ones. Both placements are generated.)
//
// Observation: a probe directly behind the cache plugin sees what a hit serves (the context arrives there with a
// response) before any other plugin touches it; an observer at the point where Cache.Exec returns (right behind
// `exec: $sub`, or in the wrapper right after its continuation) sees the answer as it was when it was stored.
//
// Oracle (the property's): a fresh hit carries, record by record, the TTL the answer had when it was stored,
// lowered by the whole seconds elapsed since (floor 1). Entries are aged by re-storing the very same item object
// with all three times shifted; the age at each query is k + 0.5 s, checked against the clock before and after.

type rw05 struct {
	kind string // fix | mm (min-max) | aff (ttl := a*ttl + b)
	a, b uint32
}

func (w *rw05) op() string {
	if w.kind == "fix" {
		return fmt.Sprintf("fix.%d", w.a)
	}
	return fmt.Sprintf("%s.%d.%d", w.kind, w.a, w.b)
}

// rule is the sequence rule that runs this rewrite: the real ttl plugin through its quick setup, or the harness plugin `tag`.
func (w *rw05) rule(tag string) string {
	switch w.kind {
	case "fix":
		return fmt.Sprintf("ttl %d", w.a)
	case "mm":
		return fmt.Sprintf("ttl %d-%d", w.a, w.b)
	}
	return "$" + tag
}

func (w *rw05) String() string {
	if w.kind == "aff" {
		return fmt.Sprintf("every record's ttl := %d*ttl+%d", w.a, w.b)
	}
	return w.rule("")
}

func (w *rw05) Exec(ctx context.Context, qCtx *query_context.Context) error {
	switch w.kind {
	case "fix":
		return ttl.NewTTL(w.a, 0, 0).Exec(ctx, qCtx)
	case "mm":
		return ttl.NewTTL(0, w.a, w.b).Exec(ctx, qCtx)
	}
	if m := qCtx.R(); m != nil {
		for _, sec := range [][]dns.RR{m.Answer, m.Ns, m.Extra} {
			for _, rr := range sec {
				if h := rr.Header(); h.Rrtype != dns.TypeOPT {
					h.Ttl = w.a*h.Ttl + w.b
				}
			}
		}
	}
	return nil
}

func (r *Run) genRw05() *rw05 {
	lo := []uint32{60, 600, 3600, uint32(1 + r.Rng.Intn(5000))}[r.Rng.Intn(4)]
	hi := []uint32{1, 5, 30, 300, uint32(1 + r.Rng.Intn(5000))}[r.Rng.Intn(5)]
	switch r.Rng.Intn(5) {
	case 0:
		return &rw05{kind: "fix", a: []uint32{1, 5, 30, 600, 3600, 86400, uint32(1 + r.Rng.Intn(100000))}[r.Rng.Intn(7)]}
	case 1:
		return &rw05{kind: "mm", a: lo}
	case 2:
		return &rw05{kind: "mm", b: hi}
	case 3:
		if lo > hi {
			lo, hi = hi, lo
		}
		return &rw05{kind: "mm", a: lo, b: hi}
	}
	return &rw05{kind: "aff", a: uint32(r.Rng.Intn(4)), b: uint32(r.Rng.Intn(5000))}
}

func snap05(m *dns.Msg) []rr05 {
	var out []rr05
	for i, sec := range [][]dns.RR{m.Answer, m.Ns, m.Extra} {
		for _, rr := range sec {
			out = append(out, rr05{"ane"[i], rr.Header().Rrtype == dns.TypeOPT, rr.Header().Ttl})
		}
	}
	return out
}

func ttls05(rrs []rr05) string {
	var p []string
	for _, x := range rrs {
		p = append(p, fmt.Sprint(x.ttl))
	}
	if len(p) == 0 {
		return "-"
	}
	return strings.Join(p, ",")
}

// probe05 sits directly behind the cache plugin: a context that arrives with a response was answered from the cache.
type probe05 struct {
	hit    bool
	served []rr05
}

func (p *probe05) Exec(_ context.Context, qCtx *query_context.Context) error {
	if m := qCtx.R(); m != nil {
		p.hit, p.served = true, snap05(m)
	}
	return nil
}

// up05 is the upstream behind a skip-when-answered guard.
type up05 struct {
	calls int
	rcode int
	tc    bool
	rrs   []rr05
}

func (u *up05) Exec(_ context.Context, qCtx *query_context.Context) error {
	if qCtx.R() != nil {
		return nil
	}
	u.calls++
	m := msg05(u.rcode, u.tc, u.rrs)
	m.Id = qCtx.Q().Id
	qCtx.SetResponse(m)
	return nil
}

// obs05 notes the response at the point where Cache.Exec has just returned.
type obs05 struct {
	has  bool
	left []rr05
}

func (o *obs05) Exec(_ context.Context, qCtx *query_context.Context) error {
	o.has, o.left = false, nil
	if m := qCtx.R(); m != nil {
		o.has, o.left = true, snap05(m)
	}
	return nil
}

// wrap05 is a plugin in front of the cache that post-processes the reply after its continuation returned.
type wrap05 struct {
	obs  *obs05
	post *rw05
}

func (w *wrap05) Exec(ctx context.Context, qCtx *query_context.Context, next sequence.ChainWalker) error {
	err := next.ExecNext(ctx, qCtx)
	w.obs.Exec(ctx, qCtx)
	w.post.Exec(ctx, qCtx)
	return err
}

func (r *Run) runPost05(idx int) {
	lazy := []int{0, 0, 3600, 86400}[r.Rng.Intn(4)]
	layout := []string{"sub", "wrap"}[r.Rng.Intn(2)]
	up := &up05{rcode: []int{0, 0, 0, 0, 0, 0, 3, 2}[r.Rng.Intn(8)], tc: r.Rng.Intn(16) == 0, rrs: r.rrs05(true)}
	for i := range up.rrs {
		if x := &up.rrs[i]; !x.isOpt && x.ttl < 8 && r.Rng.Intn(4) != 0 { // keep some very short / zero TTLs, not most
			x.ttl = uint32(8 + r.Rng.Intn(4000))
		}
	}
	post := r.genRw05()
	var inner *rw05
	if r.Rng.Intn(3) == 0 {
		inner = r.genRw05()
	}
	probe, obs := &probe05{}, &obs05{}
	c := cache.NewCache(&cache.Args{Size: 1024, LazyCacheTTL: lazy}, cache.Opts{})
	defer c.Close()
	plugins := map[string]any{"cache": c, "probe": probe, "up": up, "obs": obs, "post": post, "wrap": &wrap05{obs: obs, post: post}}
	m := coremain.NewTestMosdnsWithPlugins(plugins)
	bq := sequence.NewBQ(m, m.Logger())
	cached := []sequence.RuleArgs{{Exec: "$cache"}, {Exec: "$probe"}, {Exec: "$up"}}
	cachedDesc := "cache; upstream (skipped when answered)"
	if inner != nil {
		plugins["inner"] = inner
		cached = append(cached, sequence.RuleArgs{Exec: inner.rule("inner")})
		cachedDesc += "; " + inner.String()
	}
	var rules []sequence.RuleArgs
	var chainDesc string
	if layout == "sub" {
		sub, err := sequence.NewSequence(bq, cached)
		if err != nil {
			r.Note("C05 post-processing: sub-sequence build failed: " + err.Error())
			r.Count("post:build-failed")
			return
		}
		plugins["sub"] = sub
		rules = []sequence.RuleArgs{{Exec: "$sub"}, {Exec: "$obs"}, {Exec: post.rule("post")}}
		chainDesc = "main = [ exec: $sub ; " + post.String() + " ], sub = [ " + cachedDesc + " ]"
	} else {
		rules = append([]sequence.RuleArgs{{Exec: "$wrap"}}, cached...)
		chainDesc = "main = [ wrapper{ continue; then " + post.String() + " } ; " + cachedDesc + " ]"
	}
	main, err := sequence.NewSequence(bq, rules)
	if err != nil {
		r.Note("C05 post-processing: sequence build failed: " + err.Error())
		r.Count("post:build-failed")
		return
	}
	q := new(dns.Msg)
	q.SetQuestion("c05.example.", dns.TypeA)
	key := cache.VerifGetMsgKey(q)
	type res05 struct {
		s, e     time.Time
		err      error
		hit      bool
		served   []rr05
		upCalled bool
		has      bool
		left     []rr05
	}
	ask := func(id uint16) (x res05) {
		qq := q.Copy()
		qq.Id = id
		qCtx := query_context.NewContext(qq)
		probe.hit, probe.served = false, nil
		obs.has, obs.left = false, nil
		before := up.calls
		x.s = time.Now()
		x.err = main.Exec(context.Background(), qCtx)
		x.e = time.Now()
		x.hit, x.served, x.upCalled, x.has, x.left = probe.hit, probe.served, up.calls != before, obs.has, obs.left
		return
	}
	r.Eval(fmt.Sprintf("post:%s:%d:%d:%v:%s:%s:%v", layout, lazy, up.rcode, up.tc, rrsOp05(up.rrs), post.op(), inner), true)
	r.Count("post:layout=" + layout)
	r.Trace()
	first := ask(1)
	if first.err != nil || !first.has || first.hit || !first.upCalled {
		r.Note(fmt.Sprintf("C05 post-processing: the first query of a scenario was not an upstream-answered miss (err=%v)", first.err))
		r.Count("post:first-query-odd")
		return
	}
	stored := first.left // the answer as it was when Cache.Exec stored it and returned
	desc := func(extra map[string]any) map[string]any {
		d := map[string]any{"chain": chainDesc, "lazy_cache_ttl": lazy, "upstream_answer": fmt.Sprintf("rcode=%d tc=%v %s", up.rcode, up.tc, rrsOp05(up.rrs)),
			"answer_when_Exec_returned(section:isOpt:ttl)": rrsOp05(stored), "rewritten_after_Exec_returned_by": post.String()}
		for k, v := range extra {
			d[k] = v
		}
		return d
	}
	adm := admissible05(up.rcode, up.tc, stored)
	_, st, me, ce, ok := c.VerifPeek(key)
	lineHead := fmt.Sprintf("alias 1 1 %d 5 %d %s %s ", lazy, up.rcode, b01(up.tc), rrsOp05(stored))
	if !adm {
		if ok {
			r.Fail("a reply that must never be stored (TC, rcode other than NOERROR/NXDOMAIN/SERVFAIL, zero TTL, no record) was stored by Cache.Exec", desc(nil))
		} else {
			r.Line(lineHead+post.op()+"/hit.500000000", "none")
		}
		r.Count("post:not-storable")
		return
	}
	if !ok {
		r.Count("post:storable reply not found in the store (not demanded; skipped)")
		return
	}
	life := int64(me.Sub(st) / time.Second)
	inStore := life // ages are kept inside both the message lifetime and the time the entry stays in the store
	if x := int64(ce.Sub(st) / time.Second); x < inStore {
		inStore = x
	}
	if inStore < 1 {
		r.Count("post:lifetime below 1 s (skipped)")
		return
	}
	var ks []int64
	for i, n := 0, 1+r.Rng.Intn(3); i < n; i++ {
		k := []int64{0, 1, 2, 5, 6, inStore / 2, inStore - 1, inStore - 2, r.Rng.Int63n(inStore)}[r.Rng.Intn(9)]
		if k >= 0 && k < inStore {
			ks = append(ks, k)
		}
	}
	sort.Slice(ks, func(i, j int) bool { return ks[i] < ks[j] })
	evs := []string{post.op()}
	var impl []string
	for qi, k := range ks {
		msgNow, stNow, meNow, ceNow, ok := c.VerifPeek(key)
		if !ok {
			r.Count("post:entry gone while ageing (skipped)")
			break
		}
		// the very same item contents, every time shifted: the entry is now k + 0.5 s old
		shift := time.Duration(k)*time.Second + 500*time.Millisecond - time.Since(stNow)
		st2, me2 := stNow.Add(-shift), meNow.Add(-shift)
		c.VerifInject(key, msgNow, st2, me2, ceNow.Add(-shift))
		if m3, st3, me3, _, ok3 := c.VerifPeek(key); !ok3 || m3 != msgNow || !st3.Equal(st2) || !me3.Equal(me2) {
			r.Count("post:the store did not take the aged item (skipped)")
			break
		}
		x := ask(uint16(10 + qi))
		if int64(x.s.Sub(st2)/time.Second) != k || int64(x.e.Sub(st2)/time.Second) != k || !x.e.Before(me2) {
			r.Count("post:query not within its half-second window (process stalled; rest of the scenario skipped)")
			break
		}
		evs = append(evs, fmt.Sprintf("hit.%d", int64(k)*int64(time.Second)+int64(500*time.Millisecond)))
		if x.err != nil || !x.hit || x.upCalled {
			impl = append(impl, "miss")
			r.Count("post:miss")
			break
		}
		r.Count("post:fresh-hit")
		impl = append(impl, "fresh "+ttls05(x.served))
		var want []rr05
		for _, y := range stored {
			if y.isOpt {
				continue // never stored
			}
			if y.ttl > uint32(k) {
				y.ttl -= uint32(k)
			} else {
				y.ttl = 1
			}
			want = append(want, y)
		}
		if ttls05(want) != ttls05(x.served) {
			d := desc(map[string]any{"message_lifetime_s": life, "query": qi + 2, "entry_age": fmt.Sprintf("%d.5s", k), "served_ttls": ttls05(x.served), "want_ttls": ttls05(want)})
			for _, y := range x.served {
				if !y.isOpt && int64(y.ttl) > life-k {
					d["note"] = fmt.Sprintf("a served TTL is above the %d s the answer has left", life-k)
				}
			}
			r.Fail("a fresh hit does not carry the TTLs the answer had when Cache.Exec stored it, lowered by the whole seconds elapsed since (floor 1); the replies of the earlier queries were rewritten in place after the cache plugin had returned (see chain), which is all that happened to them", d)
			break
		}
		evs = append(evs, post.op())
	}
	if len(impl) > 0 {
		r.Line(lineHead+strings.Join(evs, "/"), strings.Join(impl, "/"))
	}
}
