//go:build pC01 || pall

package main

import (
	"bytes"
	"context"
	"encoding/base64"
	"encoding/binary"
	"errors"
	"fmt"
	"io"
	"net/http"
	"strconv"
	"strings"
	"sync"
	"time"

	"github.com/IrineSistiana/mosdns/v5/pkg/pool"
	"github.com/IrineSistiana/mosdns/v5/pkg/upstream/doh"
)

// C01, part 6: DoH (pkg/upstream/doh) over an http.RoundTripper that behaves like a real transport: a request
// handed to RoundTrip is not put on the wire at once (a connection has to be obtained, a stream slot has to be
// free), and it is serialised - URL, or body for POST - when it is sent. The fake parks every request of a
// burst and the scenario then lets them go in an order of its choosing, one by one or all at once; a third of
// the transports serialise on entry instead. The server behind the transport answers the query it finds in the
// request (GET ?dns= or POST body), with the id the request carries, and stamps the reply with the number of
// the request, so that the harness knows afterwards which request a caller's reply came back on.
//
// Callers: 2..11 (thorough ..31) per burst, pairwise distinct questions, ids from the colliding set; some give
// up while their request is parked, and the request of a caller that gave up may be held back and sent in the
// middle of the next burst (a reply to a cancelled, earlier query while others are in flight).
//
// Oracle (statement only): a call that succeeds holds, byte for byte, a reply the server produced for that
// call's own question, with the caller's id in front; it still does after the later bursts, whose replies the
// harness releases to the (overwriting) pool.

type dohSrv01 struct {
	mu    sync.Mutex
	sent  map[int][][]byte // per question: every reply produced for it (id zeroed)
	stamp int
}

func (s *dohSrv01) produce(q []byte, stamp int) []byte {
	r := mkReply(q, binary.BigEndian.Uint16(q))
	r = append(r, []byte("/doh/"+strconv.Itoa(stamp)+"/")...)
	tag := tagOf(q)
	for i := 0; i < 20+tag%40; i++ {
		r = append(r, byte(tag*7+i*13+1))
	}
	z := append([]byte(nil), r...)
	z[0], z[1] = 0, 0
	s.mu.Lock()
	s.sent[tag] = append(s.sent[tag], z)
	s.mu.Unlock()
	return r
}

func (s *dohSrv01) produced(tag int, reply []byte) bool {
	z := append([]byte(nil), reply...)
	if len(z) >= 2 {
		z[0], z[1] = 0, 0
	}
	s.mu.Lock()
	defer s.mu.Unlock()
	for _, p := range s.sent[tag] {
		if bytes.Equal(p, z) {
			return true
		}
	}
	return false
}

// stampOf01 finds the request number the server put into a reply (-1: none).
func stampOf01(reply []byte) int {
	i := bytes.Index(reply, []byte("/doh/"))
	if i < 0 {
		return -1
	}
	rest := reply[i+5:]
	j := bytes.IndexByte(rest, '/')
	if j <= 0 {
		return -1
	}
	n, err := strconv.Atoi(string(rest[:j]))
	if err != nil {
		return -1
	}
	return n
}

type parked01 struct {
	req   *http.Request
	stamp int
	q     []byte // the query the request carried when the transport serialised it (nil: none / unreadable)
	seq   int    // position in the order of serialisation
	phase int    // the burst during which the transport sent it
	goCh  chan struct{}
	done  chan struct{}
}

type rtPark01 struct {
	mu       sync.Mutex
	atEntry  bool // the transport serialises a request when RoundTrip is entered; otherwise when it sends it
	bodyStep int  // the response body is handed out in reads of at most this many bytes (0: as a whole)
	parked   []*parked01
	arrived  chan struct{}
	serial   int
	srv      *dohSrv01
}

// serialise reads what the request carries, as a transport does when it writes the request line / :path / body.
func (t *rtPark01) serialise(p *parked01) {
	var wire []byte
	switch p.req.Method {
	case http.MethodGet:
		wire, _ = base64.RawURLEncoding.DecodeString(p.req.URL.Query().Get("dns"))
	case http.MethodPost:
		if p.req.Body != nil {
			wire, _ = io.ReadAll(io.LimitReader(p.req.Body, 65536))
		}
	}
	if len(wire) >= 12 {
		p.q = wire
	}
	p.seq = t.serial
	t.serial++
}

type stepReader01 struct {
	b    []byte
	step int
}

func (s *stepReader01) Read(p []byte) (int, error) {
	if len(s.b) == 0 {
		return 0, io.EOF
	}
	n := len(p)
	if s.step > 0 && n > s.step {
		n = s.step
	}
	n = copy(p[:n], s.b)
	s.b = s.b[n:]
	return n, nil
}

func (t *rtPark01) RoundTrip(req *http.Request) (*http.Response, error) {
	p := &parked01{req: req, goCh: make(chan struct{}), done: make(chan struct{})}
	defer close(p.done)
	t.mu.Lock()
	t.srv.mu.Lock()
	p.stamp = t.srv.stamp
	t.srv.stamp++
	t.srv.mu.Unlock()
	t.parked = append(t.parked, p)
	if t.atEntry {
		t.serialise(p)
	}
	t.mu.Unlock()
	t.arrived <- struct{}{}
	select {
	case <-p.goCh:
	case <-req.Context().Done():
		return nil, req.Context().Err()
	}
	t.mu.Lock()
	if !t.atEntry {
		t.serialise(p)
	}
	q := p.q
	t.mu.Unlock()
	if q == nil {
		return &http.Response{StatusCode: 400, Status: "400 Bad Request", Proto: "HTTP/2.0", ProtoMajor: 2, Header: http.Header{}, Body: io.NopCloser(strings.NewReader("no dns message in the request")), Request: req}, nil
	}
	rep := t.srv.produce(q, p.stamp)
	return &http.Response{StatusCode: 200, Status: "200 OK", Proto: "HTTP/2.0", ProtoMajor: 2, Header: http.Header{"Content-Type": []string{"application/dns-message"}},
		Body: io.NopCloser(&stepReader01{b: rep, step: t.bodyStep}), ContentLength: int64(len(rep)), Request: req}, nil
}

// judge01 says what a finished, successful call holds: "own", "badid", "foreign:<tag>" or "altered"
// (own question, but not byte for byte a reply the server produced for it).
func judge01(c *call01, produced func(tag int, reply []byte) bool) string {
	v := c.verdict()
	if v == "own" && !produced(c.tag, *c.resp) {
		v = "altered"
	}
	return v
}

type dohFail01 struct {
	Transport string   `json:"transport"`
	Bursts    string   `json:"concurrent_exchanges_on_one_doh_upstream_per_burst"`
	Sent      string   `json:"requests_sent"`
	Caller    int      `json:"caller"`
	CallerID  uint16   `json:"caller_id"`
	Verdict   string   `json:"verdict"`
	Own       string   `json:"own_question"`
	Got       string   `json:"question_of_the_returned_reply"`
	Ids       []uint16 `json:"caller_ids_of_the_burst"`
	Round     int      `json:"round"`
	BurstNo   int      `json:"burst"`
}

func qname01(tag int) string { return "q" + strconv.Itoa(tag) + ".test." }

func c01Doh(r *Run) {
	type held struct {
		c    *call01
		snap []byte
	}
	var helds []held // replies of the previous round, still owned by their callers
	checkHelds := func(rd int) {
		for _, h := range helds {
			if !bytes.Equal(*h.c.resp, h.snap) {
				r.Fail("a reply handed to its caller was overwritten later (its buffer was released while the caller owned it)", map[string]any{"transport": "doh", "caller_question": qname01(h.c.tag), "round": rd})
			}
			pool.ReleaseBuf(h.c.resp) // the caller is done: it is the last owner
		}
		helds = nil
	}
	rounds := r.N(12, 120)
	for rd := 0; rd < rounds; rd++ {
		srv := &dohSrv01{sent: map[int][][]byte{}}
		rt := &rtPark01{atEntry: r.Rng.Intn(3) == 0, bodyStep: []int{0, 0, 1, 7, 64}[r.Rng.Intn(5)], srv: srv, arrived: make(chan struct{}, 1<<16)}
		u, err := doh.NewUpstream("https://doh.test/dns-query", rt, nil)
		if err != nil {
			fatal(err)
		}
		mode := "serialises a request when it sends it"
		if rt.atEntry {
			mode = "serialises a request on entry to RoundTrip"
		}
		var calls []*call01
		var burstOf []int
		var ids []uint16
		var sizes []string
		gaveUp := map[int]bool{}
		var heldBack []*parked01 // requests not sent yet (the transport is slow with them)
		oneByOne := r.Rng.Intn(2) == 0
		bursts := 1 + r.Rng.Intn(3)
		for b := 0; b < bursts; b++ {
			n := 2 + r.Rng.Intn(r.N(10, 30))
			sizes = append(sizes, strconv.Itoa(n))
			rt.mu.Lock()
			base := len(rt.parked)
			rt.mu.Unlock()
			first := len(calls)
			for i := 0; i < n; i++ {
				tag01++
				c := &call01{n: len(calls), tag: tag01, id: ids01[r.Rng.Intn(len(ids01))], done: make(chan struct{})}
				if len(calls) > 0 && r.Rng.Intn(3) == 0 {
					c.id = calls[r.Rng.Intn(len(calls))].id
				}
				ids = append(ids, c.id)
				ctx, cancel := context.WithTimeout(context.Background(), 60*time.Second)
				c.cancel = cancel
				q := mkQuery(c.id, c.tag)
				go func() {
					c.resp, c.err = u.ExchangeContext(ctx, q)
					close(c.done)
				}()
				calls = append(calls, c)
				burstOf = append(burstOf, b)
			}
			timeout := time.After(10 * time.Second)
		waitArr:
			for arrived := 0; arrived < n; {
				select {
				case <-rt.arrived:
					arrived++
				case <-timeout:
					r.Count("doh-parked:not-all-requests-arrived-in-10s")
					break waitArr
				}
			}
			rt.mu.Lock()
			mine := append([]*parked01(nil), rt.parked[base:]...)
			rt.mu.Unlock()
			// some callers give up while their request waits in the transport
			for i := 0; i < n/5; i++ {
				j := first + r.Rng.Intn(n)
				calls[j].cancel()
				calls[j].wait(5 * time.Second)
				gaveUp[j] = true
			}
			// the transport sends the requests in an order of its own; up to two stay behind until the next burst is
			// in flight (whose they are the transport does not know: a caller that still waits, or one that gave up)
			order := append(append([]*parked01(nil), mine...), heldBack...)
			heldBack = nil
			r.Rng.Shuffle(len(order), func(i, j int) { order[i], order[j] = order[j], order[i] })
			if b+1 < bursts {
				k := r.Rng.Intn(3)
				if k > len(order) {
					k = len(order)
				}
				heldBack, order = order[:k], order[k:]
			}
			for _, p := range order {
				p.phase = b
				close(p.goCh)
				if oneByOne {
					select {
					case <-p.done:
					case <-time.After(5 * time.Second):
					}
				}
			}
			for _, p := range order { // the next burst starts when the transport is through with these
				select {
				case <-p.done:
				case <-time.After(5 * time.Second):
				}
			}
			r.Count("doh-parked:bursts")
		}
		sentDesc := "all of a burst at once"
		if oneByOne {
			sentDesc = "one by one"
		}
		sentDesc += ", in an order chosen by the transport; up to two requests of a burst are sent only while the next burst is in flight"
		for _, c := range calls {
			if !c.wait(20 * time.Second) {
				c.cancel()
				c.wait(5 * time.Second)
				r.Count("doh-parked:call-did-not-return-in-20s") // C07's matter
			}
		}
		checkHelds(rd - 1)
		// which request did each caller's reply come back on
		ownerOf := map[int]int{} // request number -> caller
		for i, c := range calls {
			if c.err != nil || c.resp == nil {
				if !gaveUp[i] {
					r.Count("doh-parked:exchange-failed") // not C01's matter
				}
				continue
			}
			v := judge01(c, srv.produced)
			if v != "own" {
				got := "(not a reply of this server)"
				if t := tagOf(*c.resp); t >= 0 {
					got = qname01(t)
				}
				r.Fail("a DoH exchange returned a reply that is not the server's reply to its own query (or its id was not restored)", dohFail01{
					Transport: "doh.NewUpstream over an http.RoundTripper that " + mode, Bursts: strings.Join(sizes, "+"), Sent: sentDesc, Caller: i, CallerID: c.id, Verdict: v,
					Own: qname01(c.tag), Got: got, Ids: ids, Round: rd, BurstNo: burstOf[i]})
			} else {
				helds = append(helds, held{c, append([]byte(nil), *c.resp...)})
			}
			if st := stampOf01(*c.resp); st >= 0 {
				ownerOf[st] = i
			}
			r.Eval(fmt.Sprintf("dohp/%v/%v/%d/%d", rt.atEntry, oneByOne, bursts, min(len(calls), 12)), true)
		}
		// the same round on the request model: build = the request was handed to the transport, serve = the
		// transport serialised it, the server answered what it carried and the reply went back on that request
		tagIdx := map[int]int{}
		for i, c := range calls {
			tagIdx[c.tag] = i
		}
		rt.mu.Lock()
		all := append([]*parked01(nil), rt.parked...)
		rt.mu.Unlock()
		known := func(p *parked01) (owner, asked int, ok bool) {
			owner, ok = ownerOf[p.stamp]
			if !ok || p.q == nil {
				return 0, 0, false
			}
			asked, ok = tagIdx[tagOf(p.q)]
			return owner, asked, ok
		}
		var ops, outs []string
		if rt.atEntry {
			for _, p := range all {
				if o, a, ok := known(p); ok {
					ops = append(ops, fmt.Sprintf("build:%d", o), fmt.Sprintf("serve:%d", o))
					outs = append(outs, "-", fmt.Sprintf("%d<-%d", o, a))
				}
			}
		} else {
			// the requests of a burst are all built before the first of them is sent; a request that stayed behind
			// is serialised among those of the next burst
			bySeq := append([]*parked01(nil), all...)
			for i := 1; i < len(bySeq); i++ {
				for j := i; j > 0 && bySeq[j].seq < bySeq[j-1].seq; j-- {
					bySeq[j], bySeq[j-1] = bySeq[j-1], bySeq[j]
				}
			}
			for b := 0; b < bursts; b++ {
				for _, p := range all {
					if o, _, ok := known(p); ok && burstOf[o] == b {
						ops = append(ops, fmt.Sprintf("build:%d", o))
						outs = append(outs, "-")
					}
				}
				for _, p := range bySeq {
					if o, a, ok := known(p); ok && p.phase == b {
						ops = append(ops, fmt.Sprintf("serve:%d", o))
						outs = append(outs, fmt.Sprintf("%d<-%d", o, a))
					}
				}
			}
		}
		if len(ops) > 0 {
			r.Line("doh "+strings.Join(ops, ","), strings.Join(outs, ";"))
		}
		if rt.atEntry {
			r.Count("doh-parked:rounds, transport serialises on entry")
		} else {
			r.Count("doh-parked:rounds, transport serialises when it sends")
		}
		// whatever is still parked is let go
		for _, p := range all {
			select {
			case <-p.goCh:
			default:
				close(p.goCh)
			}
		}
		r.Trace()
	}
	checkHelds(rounds - 1)
}

var _ = errors.New
