//go:build pC20 || pall

package main

import (
	"context"
	"fmt"
	"runtime"
	"strings"
	"sync/atomic"
	"time"

	"github.com/IrineSistiana/mosdns/v5/coremain"
	"github.com/IrineSistiana/mosdns/v5/pkg/query_context"
	"github.com/IrineSistiana/mosdns/v5/pkg/verifpoint"
	"github.com/IrineSistiana/mosdns/v5/plugin/executable/sequence"
	"github.com/IrineSistiana/mosdns/v5/plugin/executable/sequence/fallback"
	"github.com/miekg/dns"
)

// Calls that outlive their caller: the workers of a call run on contexts of their own (the caller's deadline,
// not its cancellation), so when a caller gives up while its primary is still working, the two goroutines of
// that call stay around - with whatever they hold or wait on - while the next calls of the process run.
//
// abandon20: 1..3 calls abandoned by their callers while the primary works (with and without always_standby,
// a standby secondary finished or still working; the workers are left hanging), then a call whose primary is
// slower than the threshold and whose secondary answers at once when started or released: that call is judged
// as every other one (the secondary's answer when the threshold passes, i.e. before the primary finishes; the
// primary's late answer if the secondary fails; ErrFailed if both fail), and every call is replayed on the model.
func abandon20(r *Run, pin bool) {
	outcomes := []string{"ans", "none", "err", "errans"}
	procs := runtime.GOMAXPROCS(0)
	if pin {
		runtime.GOMAXPROCS(1) // one P: the pool hands the next call the timer the previous one released
		defer runtime.GOMAXPROCS(procs)
	}
	verifpoint.Set(nil)
	var left []*exec20
	var cancels []context.CancelFunc
	build := func(prim, sec *exec20, threshold int, standby bool) sequence.Executable {
		plugins := map[string]any{"prim": prim, "sec": sec}
		m := coremain.NewTestMosdnsWithPlugins(plugins)
		fb, err := fallback.Init(coremain.NewBP("fb", m), &fallback.Args{Primary: "prim", Secondary: "sec", Threshold: threshold, AlwaysStandby: standby})
		if err != nil {
			fatal(err)
		}
		return fb.(sequence.Executable)
	}
	type ret struct {
		err error
		at  time.Time
	}
	call := func(fb sequence.Executable, ctx context.Context) (*query_context.Context, chan ret) {
		q := new(dns.Msg)
		q.SetQuestion("c20.example.", dns.TypeA)
		qCtx := query_context.NewContext(q)
		ch := make(chan ret, 1)
		go func() {
			err := fb.Exec(ctx, qCtx)
			ch <- ret{err, time.Now()}
		}()
		return qCtx, ch
	}

	// ---- the abandoned calls
	for k, n := 0, 1+r.Rng.Intn(3); k < n; k++ {
		standby := r.Rng.Intn(2) == 0
		secDone := standby && r.Rng.Intn(2) == 0 // the standby secondary has finished (with an answer) and waits
		threshold := 5000
		if !standby && r.Rng.Intn(2) == 0 {
			threshold = 100
		}
		prim := newExec20("primary", outcomes[r.Rng.Intn(4)], false)
		sec := newExec20("secondary", "ans", secDone)
		left = append(left, prim, sec)
		fb := build(prim, sec, threshold, standby)
		what := fmt.Sprintf("abandoned(always_standby=%v threshold_ms=%d primary=still-working secondary=%s) gomaxprocs=%d", standby, threshold,
			map[bool]string{true: "finished-with-answer", false: "not-finished"}[secDone], runtime.GOMAXPROCS(0))
		earlier := earlier20()
		hist20 = append(hist20, what)
		meter := startStallMeter()
		ctx, cancel := context.WithCancel(context.Background())
		cancels = append(cancels, cancel)
		qCtx, ch := call(fb, ctx)
		if standby {
			for i := 0; i < 3000 && atomic.LoadInt32(&sec.calls) == 0; i++ {
				time.Sleep(time.Millisecond)
			}
			if secDone {
				waitCh(sec.done, 3*time.Second)
			}
		}
		time.Sleep(time.Duration(5+r.Rng.Intn(11)) * time.Millisecond)
		cancelAt := time.Now()
		cancel()
		var got ret
		res := "hang"
		select {
		case got = <-ch:
			res = result20(got.err, qCtx)
		case <-time.After(4 * time.Second):
			got.at = time.Now()
		}
		stall := meter.Stop()
		secStarted := atomic.LoadInt32(&sec.calls) > 0
		var labels []string
		switch {
		case standby && secDone:
			labels = append(labels, "sStart", "sFinish")
		case standby:
			labels = append(labels, "sStart")
		case secStarted: // the (100 ms) threshold passed before the caller gave up: a loaded machine
			labels = append(labels, "timerFire", "sPickTimer")
		}
		labels = append(labels, "ctxCancel", "mCtx")
		late := got.at.Sub(cancelAt)
		desc := map[string]any{"scenario": what, "result": res, "secondary_started": secStarted, "ended_after_cancel": late.String(),
			"schedule": strings.Join(labels, ","), "with_earlier_calls_in_this_process": earlier}
		switch {
		case res == "ctx" && late > time.Second && stall > 500*time.Millisecond:
			r.Count("timing-bound-not-asserted:machine-stalled")
		case res != "ctx" || late > time.Second:
			r.Fail("the call did not end (with the context's error) when the caller's context ended", desc)
		}
		r.Line(fmt.Sprintf("sched %s 1 %s %s", b01(prim.outcome == "ans"), b01(standby), strings.Join(labels, ",")), fmt.Sprintf("%s secStarted=%s", res, b01(secStarted)))
		r.Eval(fmt.Sprintf("abandoned/%v/%v", standby, secDone), true)
		r.Count("scenario:abandoned")
	}

	// ---- a call whose primary is slower than the threshold; the secondary does not block
	{
		standby := r.Rng.Intn(2) == 0
		p, s := outcomes[r.Rng.Intn(4)], "ans"
		if r.Rng.Intn(3) == 0 {
			s = outcomes[r.Rng.Intn(4)]
		}
		pAns, sAns := p == "ans", s == "ans"
		threshold := 50 + r.Rng.Intn(50)
		slower := 1500 * time.Millisecond // how long after the threshold the primary finishes (unless the call has ended before)
		if s != "ans" {
			slower = 150 * time.Millisecond // nothing can end the call before the primary finishes
		}
		prim, sec := newExec20("primary", p, false), newExec20("secondary", s, true)
		fb := build(prim, sec, threshold, standby)
		what := fmt.Sprintf("slow-primary(always_standby=%v threshold_ms=%d primary=%s-after-threshold+%v secondary=%s-at-once) gomaxprocs=%d",
			standby, threshold, p, slower, s, runtime.GOMAXPROCS(0))
		earlier := earlier20()
		hist20 = append(hist20, what)
		meter := startStallMeter()
		ctx, cancel := context.WithCancel(context.Background())
		cancels = append(cancels, cancel)
		t0 := time.Now()
		qCtx, ch := call(fb, ctx)
		var got ret
		res, endedBeforePrimary := "hang", false
		select {
		case got = <-ch:
			res, endedBeforePrimary = result20(got.err, qCtx), true
		case <-time.After(time.Duration(threshold)*time.Millisecond + slower):
			close(prim.gate)
			select {
			case got = <-ch:
				res = result20(got.err, qCtx)
			case <-time.After(4 * time.Second):
				got.at = time.Now()
			}
		}
		stall := meter.Stop()
		secStarted := atomic.LoadInt32(&sec.calls) > 0
		var labels []string
		if standby {
			labels = append(labels, "sStart", "sFinish")
			if !sAns {
				labels = append(labels, "sSend")
			}
			labels = append(labels, "timerFire")
			if sAns {
				labels = append(labels, "sWaitTimer")
			}
		} else {
			labels = append(labels, "timerFire", "sPickTimer", "sFinish", "sSend")
		}
		if !sAns {
			labels = append(labels, "pFinish", "pOp", "pOp")
		}
		labels = append(labels, "mRecv", "mRecv")
		desc := map[string]any{"scenario": what, "result": res, "secondary_started": secStarted, "took": got.at.Sub(t0).String(),
			"call_ended_before_the_primary_finished": endedBeforePrimary, "schedule": strings.Join(labels, ","), "with_earlier_calls_in_this_process": earlier}
		switch {
		case sAns && !endedBeforePrimary && stall > 500*time.Millisecond:
			r.Count("timing-bound-not-asserted:machine-stalled") // the harness process itself was held up
		case sAns && (res != "secondary" || !endedBeforePrimary):
			r.Fail("the primary was slower than the threshold and the secondary answered as soon as it was started or released, but the secondary's answer was not returned when the threshold passed (the call was still waiting 1.5 s after it)", desc)
		case !sAns && pAns && res != "primary":
			r.Fail("the secondary failed and the primary answered (late), but the primary's answer was not returned", desc)
		case !sAns && !pAns && res != "failed":
			r.Fail("both failed but the call did not report ErrFailed", desc)
		}
		out := fmt.Sprintf("%s secStarted=%s", res, b01(secStarted))
		if sAns && !endedBeforePrimary && res == "secondary" {
			out = "secondary-only-after-the-primary-finished secStarted=" + b01(secStarted)
		}
		r.Line(fmt.Sprintf("sched %s %s %s %s", b01(pAns), b01(sAns), b01(standby), strings.Join(labels, ",")), out)
		r.Eval(fmt.Sprintf("slow-primary-after-abandoned/%v/%s/%s", standby, p, s), true)
		r.Count("scenario:slow-primary-after-abandoned")
		select {
		case <-prim.gate:
		default:
			close(prim.gate)
		}
	}
	// let the abandoned calls' workers go
	for _, e := range left {
		select {
		case <-e.gate:
		default:
			close(e.gate)
		}
	}
	for _, c := range cancels {
		c()
	}
	time.Sleep(5 * time.Millisecond)
	r.Count("sequence:abandoned")
	r.Trace()
}
