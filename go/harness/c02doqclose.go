//go:build pC02 || pall

package main

import (
	"context"
	"encoding/binary"
	"fmt"
	"math/rand"
	"sync"
	"sync/atomic"
	"time"

	"github.com/IrineSistiana/mosdns/v5/pkg/upstream/transport"
	"github.com/quic-go/quic-go"
)

// C02, DoQ: the peer closes the CONNECTION right behind the reply. The fake connection of doq.go is wrapped so
// that the scenario decides when the connection's context ends (quic-go cancels it when the connection is closed,
// independently of the stream readers): inside the very Read call that hands out the last byte of the (last
// outstanding) reply, concurrently with the reader, a moment later, or never. Every reply that was handed out
// completely and without error by the stream's Read calls must be what the exchange returns.

type fqConnC struct {
	*fqConn
	ctx       context.Context
	cancel    context.CancelCauseFunc
	newStream func(s *fqStream) quic.Stream
}

func (c *fqConnC) Context() context.Context { return c.ctx }
func (c *fqConnC) OpenStream() (quic.Stream, error) {
	s, err := c.fqConn.OpenStream()
	if err != nil {
		return nil, err
	}
	return c.newStream(s.(*fqStream)), nil
}
func (c *fqConnC) CloseWithError(quic.ApplicationErrorCode, string) error {
	c.cancel(context.Canceled)
	return nil
}

type fqStreamC struct {
	*fqStream
	afterRead  func(s *fqStream, n int, err error) // runs before Read returns to the transport
	afterClose func(s *fqStream)                   // runs after the FIN went out
}

func (s *fqStreamC) Read(p []byte) (int, error) {
	n, err := s.fqStream.Read(p)
	if s.afterRead != nil {
		s.afterRead(s.fqStream, n, err)
	}
	return n, err
}

func (s *fqStreamC) Close() error {
	err := s.fqStream.Close()
	if err == nil && s.afterClose != nil {
		s.afterClose(s.fqStream)
	}
	return err
}

type connClosed02 struct{}

func (connClosed02) Error() string {
	return "Application error 0x0 (remote) (fake: the peer closed the connection)"
}

func doqCloseScenarios02(r *Run, n int) {
	for i := 0; i < n; i++ {
		when := i % 4               // 0: inside the Read that hands out the last byte; 1: concurrently, as soon as the replies are readable; 2: shortly after the last byte was handed out; 3: never
		viaPipeline := (i/4)%2 == 1 // through PipelineTransport (what quic:// upstreams use) or on the QuicDnsConn directly
		early := r.Rng.Intn(2) == 0 // reply as soon as the query frame is complete / after the FIN
		chunking := r.Rng.Intn(4)
		callers := 1
		if !viaPipeline {
			callers = 1 + r.Rng.Intn(3)
		}
		base := r.Rng.Int63()
		delay := time.Duration(r.Rng.Intn(400)) * time.Microsecond
		whenTxt := []string{"inside the Read call that hands out the last byte of the last outstanding reply", "as soon as all replies are readable (concurrently with the stream readers)", "shortly after the last byte of the last outstanding reply was handed out", "never (control)"}[when]

		var mu sync.Mutex
		consumedAt := map[*fqStream]time.Time{} // streams whose reply was handed out completely
		mkConn := func(expect int) *fqConnC {
			c := &fqConnC{fqConn: newFqConn(nil)}
			c.ctx, c.cancel = context.WithCancelCause(context.Background())
			var fed, consumed atomic.Int32
			closeConn := func() {
				c.cancel(connClosed02{})
				c.fqConn.mu.Lock()
				ss := append([]*fqStream(nil), c.fqConn.streams...)
				c.fqConn.mu.Unlock()
				for _, s := range ss {
					s.feedErr(connClosed02{}) // a closed connection fails the reads of its streams (behind what is buffered)
				}
			}
			c.newStream = func(s *fqStream) quic.Stream {
				rnd := rand.New(rand.NewSource(base + int64(s.id)))
				var once sync.Once
				total := 0
				answer := func(s *fqStream, w []byte) {
					if len(w) < 2 || len(w) < 2+int(binary.BigEndian.Uint16(w)) {
						return
					}
					once.Do(func() {
						q := w[2:]
						rep := mkReply(q, binary.BigEndian.Uint16(q))
						f := make([]byte, 2+len(rep))
						binary.BigEndian.PutUint16(f, uint16(len(rep)))
						copy(f[2:], rep)
						s.mu.Lock()
						total = len(f)
						s.mu.Unlock()
						for _, ch := range chunksDoq(rnd, f, chunking) {
							s.feed(ch)
						}
						if int(fed.Add(1)) == expect && when == 1 {
							go closeConn()
						}
					})
				}
				got := 0
				sc := &fqStreamC{fqStream: s}
				sc.afterRead = func(s *fqStream, n int, err error) {
					if err != nil || n == 0 {
						return
					}
					s.mu.Lock()
					got += n
					done := total > 0 && got == total
					s.mu.Unlock()
					if !done {
						return
					}
					mu.Lock()
					consumedAt[s] = time.Now()
					mu.Unlock()
					if int(consumed.Add(1)) == expect {
						switch when {
						case 0:
							closeConn()
						case 2:
							go func() { time.Sleep(delay); closeConn() }()
						}
					}
				}
				if early {
					s.onWrite = answer
				} else {
					sc.afterClose = func(s *fqStream) {
						s.mu.Lock()
						w := append([]byte(nil), s.written...)
						s.mu.Unlock()
						answer(s, w)
					}
				}
				return sc
			}
			return c
		}

		type res struct {
			q    []byte
			resp *[]byte
			err  error
			took time.Duration
		}
		out := make([]res, callers)
		const deadline = 3 * time.Second
		var conns []*fqConnC
		if viaPipeline {
			t := transport.NewPipelineTransport(transport.PipelineOpts{DialContext: func(ctx context.Context) (transport.DnsConn, error) {
				c := mkConn(1)
				mu.Lock()
				conns = append(conns, c)
				mu.Unlock()
				return transport.NewQuicDnsConn(c), nil
			}})
			q := mkQuery(uint16(r.Rng.Intn(65536)), 500000+i*10)
			ctx, cancel := context.WithTimeout(context.Background(), deadline)
			t0 := time.Now()
			resp, err := t.ExchangeContext(ctx, q)
			out[0] = res{q: q, resp: resp, err: err, took: time.Since(t0)}
			cancel()
			t.Close()
		} else {
			c := mkConn(callers)
			conns = append(conns, c)
			dc := transport.NewQuicDnsConn(c)
			// all callers reserve their stream first: the connection is closed only behind the last reply
			rxs := make([]transport.ReservedExchanger, callers)
			for k := range rxs {
				rxs[k], _ = dc.ReserveNewQuery()
			}
			var wg sync.WaitGroup
			for k := 0; k < callers; k++ {
				q := mkQuery(uint16(r.Rng.Intn(65536)), 500000+i*10+k)
				if rxs[k] == nil {
					out[k] = res{q: q, err: fmt.Errorf("cannot reserve")}
					continue
				}
				wg.Add(1)
				go func(k int, q []byte) {
					defer wg.Done()
					ctx, cancel := context.WithTimeout(context.Background(), deadline)
					defer cancel()
					t0 := time.Now()
					resp, err := rxs[k].ExchangeReserved(ctx, q)
					out[k] = res{q: q, resp: resp, err: err, took: time.Since(t0)}
				}(k, q)
			}
			wg.Wait()
			dc.Close()
		}
		// which queries had their reply handed out completely (by stream content)
		answeredTag := map[int]bool{}
		mu.Lock()
		for s := range consumedAt {
			s.mu.Lock()
			if len(s.written) > 2 {
				answeredTag[tagOf(s.written[2:])] = true
			}
			s.mu.Unlock()
		}
		mu.Unlock()
		for k, o := range out {
			desc := map[string]any{"transport": map[bool]string{false: "QuicDnsConn (ReserveNewQuery + ExchangeReserved)", true: "PipelineTransport over QuicDnsConn"}[viaPipeline],
				"scenario": "doq: the peer closes the connection behind the reply", "connection_context_ends": whenTxt, "callers": callers, "caller": k,
				"reply_sent":     map[bool]string{true: "as soon as the query was complete", false: "after the FIN"}[early],
				"reply_chunking": []string{"one chunk", "single bytes", "header split", "random"}[chunking], "took": o.took.String(), "err": fmt.Sprint(o.err), "caller_deadline": deadline.String()}
			got := answeredTag[tagOf(o.q)]
			verdict := "reply"
			switch {
			case !got:
				r.Count("doq-close:reply-not-handed-out")
			case o.err != nil || o.resp == nil:
				verdict = "error:" + fmt.Sprint(o.err)
				r.Fail("a DoQ reply was completely read from the query's stream (without error, well before the caller's deadline) and the connection was closed by the peer right behind it, but the exchange failed", desc)
			case len(*o.resp) < 12 || tagOf(*o.resp) != tagOf(o.q) || binary.BigEndian.Uint16(*o.resp) != binary.BigEndian.Uint16(o.q):
				verdict = "foreign-reply"
				r.Fail("a DoQ exchange returned something other than the reply to its own query (with the caller's id)", desc)
			}
			if when == 3 {
				r.Line("sched 1 1 writeReturns,readerDeliver,pickReply", verdict)
			} else {
				r.Line("sched 1 1 writeReturns,readerDeliver,readerClose,pickReply", verdict)
			}
			r.Eval(fmt.Sprintf("doq-close/%d/%v/%v/%d/%d/%d", when, viaPipeline, early, chunking, callers, k), got)
			r.Count(fmt.Sprintf("doq-close:when=%d:pipeline=%v", when, viaPipeline))
			r.Trace()
		}
		_ = conns
	}
}
