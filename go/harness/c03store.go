//go:build pC03 || pC15 || pall

package main

import (
	"bytes"
	"context"
	"encoding/base64"
	"fmt"
	"io"
	"net/http"
	"net/http/httptest"
	"os"
	"path/filepath"
	"strings"
	"sync"
	"time"

	"github.com/IrineSistiana/mosdns/v5/coremain"
	"github.com/IrineSistiana/mosdns/v5/pkg/query_context"
	"github.com/IrineSistiana/mosdns/v5/pkg/server"
	"github.com/IrineSistiana/mosdns/v5/pkg/server_handler"
	"github.com/IrineSistiana/mosdns/v5/plugin/executable/arbitrary"
	"github.com/IrineSistiana/mosdns/v5/plugin/executable/cache"
	"github.com/IrineSistiana/mosdns/v5/plugin/executable/ecs_handler"
	"github.com/IrineSistiana/mosdns/v5/plugin/executable/hosts"
	"github.com/IrineSistiana/mosdns/v5/plugin/executable/redirect"
	"github.com/IrineSistiana/mosdns/v5/plugin/executable/sequence"
	"github.com/IrineSistiana/mosdns/v5/plugin/executable/ttl"
	"github.com/miekg/dns"
)

// C03, section (7): plugins that REWRITE the question (redirect) composed with plugins that KEEP responses across
// queries (cache), in any order, one chain asked SEVERAL DIFFERENT names of the redirect graph with the same type and
// flags: a miss for an alias is stored under the key of the target, a later query for the target itself (or for another
// alias of it, or for the alias again) is answered from that entry - and the other way round. Whatever the stored entry
// went through after it was stored (the redirect above the cache renames the live reply in place), every well-formed
// query gets one reply with its own ID and question (oracle03, nothing else is demanded).
//
// Chains made of `full` redirects and caches only (plus [has_resp]accept) whose last plugin answered every query of the
// history are also lines for the model driver (`store ...`, Model.C03Store: the cache's entries as heap objects that do
// or do not share their question with the live reply).
//
// Section (8): the real server.HttpHandler + EntryHandler behind real net/http servers on loopback (HTTP/1.1 in clear,
// HTTP/2 over TLS), DoH GET and DoH POST, the POST body framed every way HTTP allows: with a Content-Length, or streamed
// without one (HTTP/1.1 chunked transfer coding, HTTP/2 DATA frames without a content-length header), written in one
// piece or in several. The DNS query is the same well-formed query in every framing, so the same reply is owed
// (oracle03 with the scripted outcome of section (1); every case is also a `reply` line for Model.Handler).

type storeChain03 struct {
	seq   *sequence.Sequence
	up    *upstream03
	desc  []string
	model []string // outside in; nil: not replayed on the model
	names []string // names worth asking: sources and targets of the chain's redirect rules
	close []func()
	caches []*swapCache03
}

// swapCache03 is the cache plugin of a chain as the sequence sees it: the real *cache.Cache behind a pointer that the
// harness replaces when it "restarts" the plugin (Close writes dump_file, NewCache with the same arguments loads it).
type swapCache03 struct {
	mu   sync.Mutex
	c    *cache.Cache
	args cache.Args
}

func (s *swapCache03) cur() *cache.Cache {
	s.mu.Lock()
	defer s.mu.Unlock()
	return s.c
}

func (s *swapCache03) Exec(ctx context.Context, qCtx *query_context.Context, next sequence.ChainWalker) error {
	return s.cur().Exec(ctx, qCtx, next)
}

// reload: what the entries of the cache go through between two lives of the process (mode "restart": dump_file written
// by Close, read by NewCache) or when an operator moves them with the plugin's API (mode "api": GET /dump, then
// POST /load_dump into the same cache, "api-flush": with GET /flush in between). Returns a description of what failed.
func (s *swapCache03) reload(mode string) string {
	old := s.cur()
	if mode == "restart" {
		if s.args.DumpFile == "" {
			return ""
		}
		old.Close()
		a := s.args
		n := cache.NewCache(&a, cache.Opts{})
		s.mu.Lock()
		s.c = n
		s.mu.Unlock()
		return ""
	}
	api := old.Api()
	rec := httptest.NewRecorder()
	api.ServeHTTP(rec, httptest.NewRequest(http.MethodGet, "/dump", nil))
	if rec.Code != 200 {
		return fmt.Sprintf("GET /dump: status %d", rec.Code)
	}
	dump := rec.Body.Bytes()
	if mode == "api-flush" {
		api.ServeHTTP(httptest.NewRecorder(), httptest.NewRequest(http.MethodGet, "/flush", nil))
	}
	rec = httptest.NewRecorder()
	api.ServeHTTP(rec, httptest.NewRequest(http.MethodPost, "/load_dump", bytes.NewReader(dump)))
	if rec.Code != 200 {
		return fmt.Sprintf("POST /load_dump: status %d %s", rec.Code, rec.Body.String())
	}
	return ""
}

var dumpDir03 = struct {
	once sync.Once
	dir  string
	n    int
}{}

func dumpFile03() string {
	dumpDir03.once.Do(func() { dumpDir03.dir, _ = os.MkdirTemp("", "verif-c03-dump") })
	dumpDir03.n++
	return filepath.Join(dumpDir03.dir, fmt.Sprintf("cache%d.dump", dumpDir03.n))
}

func buildStore03(r *Run) (*storeChain03, error) {
	plugins := map[string]any{}
	m := coremain.NewTestMosdnsWithPlugins(plugins)
	ch := &storeChain03{up: &upstream03{}, model: []string{}}
	plugins["up"] = ch.up
	plugins["hasResp"] = sequence.MatchFunc(func(_ context.Context, q *query_context.Context) (bool, error) { return q.R() != nil, nil })
	type elem struct {
		kind string
		rule rule03
	}
	var els []elem
	for i, n := 0, 1+r.Rng.Intn(2); i < n; i++ {
		els = append(els, elem{kind: "redirect", rule: rules03[r.Rng.Intn(len(rules03))]})
	}
	els = append(els, elem{kind: "cache"})
	if r.Rng.Intn(4) == 0 {
		els = append(els, elem{kind: "cache"})
	}
	for i, n := 0, []int{0, 0, 1, 2}[r.Rng.Intn(4)]; i < n; i++ {
		els = append(els, elem{kind: []string{"ttl", "ecs"}[r.Rng.Intn(2)]})
	}
	if r.Rng.Intn(3) == 0 { // a plugin that answers locally for names of the rules and lets the sequence go on with that response
		els = append(els, elem{kind: []string{"hosts", "arbitrary"}[r.Rng.Intn(2)]})
	}
	r.Rng.Shuffle(len(els), func(i, j int) { els[i], els[j] = els[j], els[i] })
	if r.Rng.Intn(3) != 0 { // a redirect above everything (the usual configuration: redirect, cache, forward)
		for i, e := range els {
			if e.kind == "redirect" {
				copy(els[1:i+1], els[:i])
				els[0] = e
				break
			}
		}
	}
	if r.Rng.Intn(2) == 0 { // the local answerer in front of everything: its response passes every redirect and cache of the chain
		for i, e := range els {
			if e.kind == "hosts" || e.kind == "arbitrary" {
				copy(els[1:i+1], els[:i])
				els[0] = e
				break
			}
		}
	}
	seen := map[string]bool{}
	add := func(n string) {
		if !seen[n] {
			seen[n] = true
			ch.names = append(ch.names, n)
		}
	}
	var rules []sequence.RuleArgs
	for i, e := range els {
		tag := fmt.Sprintf("%s%d", e.kind, i)
		d := e.kind
		switch e.kind {
		case "redirect":
			pat := e.rule.pattern
			if e.rule.kind == "domain" {
				pat = "domain:" + pat
				ch.model = nil
			}
			p, err := redirect.NewRedirect(&redirect.Args{Rules: []string{pat + " " + e.rule.target}})
			if err != nil {
				return nil, err
			}
			plugins[tag] = p
			d += "(" + pat + " " + e.rule.target + ")"
			add(e.rule.pattern + ".")
			add(e.rule.target)
			if ch.model != nil {
				ch.model = append(ch.model, fmt.Sprintf("r:%s:%s", hx([]byte(e.rule.pattern+".")), hx([]byte(e.rule.target))))
			}
		case "cache":
			lazy := 0
			if r.Rng.Intn(3) == 0 {
				lazy = 3600
			}
			args := cache.Args{Size: 1024, LazyCacheTTL: lazy, DumpInterval: 3600, DumpFile: dumpFile03()}
			a := args
			c := &swapCache03{c: cache.NewCache(&a, cache.Opts{}), args: args}
			ch.close = append(ch.close, func() {
				c.cur().Close()
				if args.DumpFile != "" {
					os.Remove(args.DumpFile)
				}
			})
			ch.caches = append(ch.caches, c)
			plugins[tag] = c
			d += fmt.Sprintf("(lazy=%v)", lazy > 0)
			if ch.model != nil {
				ch.model = append(ch.model, "c")
			}
		case "hosts", "arbitrary":
			// answers for the SOURCES of the chain's rules (and sometimes a target): behind it the sequence goes on with a
			// response produced for the name as it was asked at that point
			var names []string
			for _, l := range els {
				if l.kind == "redirect" {
					names = append(names, l.rule.pattern)
					if r.Rng.Intn(4) == 0 {
						names = append(names, strings.TrimSuffix(l.rule.target, "."))
					}
				}
			}
			if e.kind == "hosts" {
				var entries []string
				for k, n := range names {
					entries = append(entries, fmt.Sprintf("%s 10.9.0.%d fd00::9:%d", n, k+1, k+1))
				}
				p, err := hosts.NewHosts(&hosts.Args{Entries: entries})
				if err != nil {
					return nil, err
				}
				plugins[tag] = p
			} else {
				var rs []string
				for k, n := range names {
					rs = append(rs, fmt.Sprintf("%s. 60 IN A 10.9.1.%d", n, k+1), fmt.Sprintf("%s. 60 IN AAAA fd00::9:1:%d", n, k+1), fmt.Sprintf("%s. 60 IN TXT \"local\"", n))
				}
				p, err := arbitrary.NewArbitrary(&arbitrary.Args{Rules: rs})
				if err != nil {
					return nil, err
				}
				plugins[tag] = p
			}
			d += "(" + strings.Join(names, ",") + ")"
			ch.model = nil
		case "ttl":
			plugins[tag] = ttl.NewTTL(0, uint32(1+r.Rng.Intn(100)), uint32(100+r.Rng.Intn(1000)))
			ch.model = nil
		case "ecs":
			p, err := ecs_handler.NewHandler(ecs_handler.Args{Forward: r.Rng.Intn(2) == 0})
			if err != nil {
				return nil, err
			}
			plugins[tag] = p
			ch.model = nil
		}
		rules = append(rules, sequence.RuleArgs{Exec: "$" + tag})
		ch.desc = append(ch.desc, d)
		// No accept behind a cache: its hit travels on (through redirects, to other caches) to the last plugin, which
		// leaves it alone. Finding F16 (fixed in /repo ce116f2): a cache that missed stored such a response - produced in
		// front of it for another question - under its own key.
		if e.kind == "cache" && r.Rng.Intn(2) == 0 {
			rules = append(rules, sequence.RuleArgs{Matches: []string{"$hasResp"}, Exec: "accept"})
			ch.desc = append(ch.desc, "[has_resp]accept")
			if ch.model != nil {
				ch.model = append(ch.model, "a")
			}
		}
	}
	rules = append(rules, sequence.RuleArgs{Exec: "$up"})
	ch.desc = append(ch.desc, "upstream")
	sq, err := sequence.NewSequence(sequence.NewBQ(m, m.Logger()), rules)
	if err != nil {
		return nil, err
	}
	ch.seq = sq
	return ch, nil
}

func mixCase03(r *Run, s string) string {
	b := []byte(s)
	for i, c := range b {
		if c >= 'a' && c <= 'z' && r.Rng.Intn(2) == 0 {
			b[i] = c - 32
		}
	}
	return string(b)
}

func storeChain03Run(r *Run, i int) {
	ch, err := buildStore03(r)
	if err != nil {
		r.Note("store chain build failed: " + err.Error())
		return
	}
	defer func() {
		for _, f := range ch.close {
			f()
		}
	}()
	h := server_handler.NewEntryHandler(server_handler.EntryHandlerOpts{Entry: ch.seq})
	vias := []string{"udp", "tcp", "doh-post", "doh-get"}
	base := r.genQ03()
	if r.Rng.Intn(8) != 0 { // the shared part of every question of this history: type, class, flags, OPT
		base.qr, base.nq, base.nAns, base.nNs, base.opcode, base.qclass = false, 1, 0, 0, 0, 1
		if len(base.extras) > 1 {
			base.extras = base.extras[:1]
		}
	}
	base.qtype = []uint16{dns.TypeA, dns.TypeA, dns.TypeAAAA, dns.TypeTXT}[r.Rng.Intn(4)]
	pool := append([]string{}, ch.names...)
	if r.Rng.Intn(3) == 0 {
		pool = append(pool, "other.test.")
	}
	var history, ops []string
	modelOK := ch.model != nil
	// a third of the histories: between two queries every cache of the chain is dumped and loaded again (restart with
	// dump_file, or GET /dump + POST /load_dump); the entries are the same afterwards, so nothing changes for the model
	nqs, reloadAt, reloadMode := 2+r.Rng.Intn(4), -1, ""
	if r.Rng.Intn(3) == 0 {
		nqs += 1 + r.Rng.Intn(3)
		reloadAt = 2 + r.Rng.Intn(nqs-2)
		if r.Rng.Intn(3) == 0 {
			reloadAt = 1 + r.Rng.Intn(nqs-1)
		}
		reloadMode = []string{"restart", "restart", "api", "api-flush"}[r.Rng.Intn(4)]
	}
	for k := 0; k < nqs; k++ {
		if k == reloadAt {
			for ci, c := range ch.caches {
				if e := c.reload(reloadMode); e != "" {
					r.Note(fmt.Sprintf("store chain: reload (%s) of cache %d failed: %s", reloadMode, ci, e))
				}
			}
			history = append(history, "every cache of the chain dumped and loaded again ("+reloadMode+")")
			r.Count("store:reload:" + reloadMode)
		}
		q := base
		q.id = r.U16()
		q.name = pool[r.Rng.Intn(len(pool))]
		if r.Rng.Intn(6) == 0 {
			q.name = mixCase03(r, q.name) // another cache key, the same redirect rule
		}
		if r.Rng.Intn(8) == 0 {
			q.cd = !q.cd // another cache key
		}
		out := outcome03{kind: "ans", nAns: 1 + r.Rng.Intn(3)}
		switch r.Rng.Intn(10) {
		case 0:
			out.kind = []string{"none", "err"}[r.Rng.Intn(2)]
		case 1:
			out.rcode = []int{3, 2, 5}[r.Rng.Intn(3)]
		case 2:
			out.nAns = 0
		}
		if r.Rng.Intn(3) == 0 {
			out.hasUp, out.upOpt = true, []uint16{dns.EDNS0COOKIE}
		}
		ch.up.mu.Lock()
		ch.up.out = out
		ch.up.seen = nil
		ch.up.mu.Unlock()
		via := vias[r.Rng.Intn(len(vias))]
		payload, got := deliver03(h, via, q.msg())
		desc := map[string]any{"chain": strings.Join(ch.desc, " -> "), "query": q.op(), "query_name": q.name, "query_no": k + 1, "arrived_via": via,
			"upstream_outcome": out.op(), "earlier_queries_to_this_chain": append([]string{}, history...)}
		oracle03(r, q, via, payload, got, desc, -1, -1)
		history = append(history, fmt.Sprintf("%s id=%d via %s (upstream: %s)", q.name, q.id, via, out.op()))
		// ---- model line: the whole history so far is one operation (the model's stores start empty)
		modelOK = modelOK && q.valid() && q.opcode == 0 && q.qclass == 1 && out.kind == "ans" && out.rcode == 0 && out.nAns > 0 && simpleName03(q.name)
		if modelOK {
			implOut := "drop"
			if got {
				implOut = "unparsable"
				if p, err := parse03(payload); err == nil {
					implOut = fmt.Sprintf("id=%d q=%s/%d/%d qr=%s ra=%s rcode=%d", p.id, hx(nameOf03(p)), p.qtype, p.qclass, b01(p.qr), b01(p.ra), p.rcode)
				}
			}
			ops = append(ops, fmt.Sprintf("%d:%s:%s", q.id, hx([]byte(q.name)), b01(q.cd)))
			r.Line(fmt.Sprintf("store %d %d %s %s", q.qtype, q.qclass, strings.Join(ch.model, ","), strings.Join(ops, ",")), implOut)
			r.Count("store:model-line")
		}
		r.Eval("store|"+strings.Join(ch.desc, ">")+"|"+q.op()+"|"+fmt.Sprint(k)+"|"+via, q.valid())
		r.Count("store-query")
	}
}

// nameOf03: the question name of a parsed reply in presentation form as the model prints it (bytes of the labels joined
// by dots; the generated names have no byte that needs escaping).
func nameOf03(p reply03) []byte {
	if p.parsed != nil && len(p.parsed.Question) == 1 {
		return []byte(p.parsed.Question[0].Name)
	}
	return nil
}

// ---- (8) DoH over real HTTP servers

type pieces03 struct {
	b   []byte
	max int
}

func (p *pieces03) Read(dst []byte) (int, error) {
	if len(p.b) == 0 {
		return 0, io.EOF
	}
	n := p.max
	if n > len(p.b) {
		n = len(p.b)
	}
	if n > len(dst) {
		n = len(dst)
	}
	copy(dst, p.b[:n])
	p.b = p.b[n:]
	return n, nil
}

func doh03(r *Run) {
	up := &upstream03{}
	h := server_handler.NewEntryHandler(server_handler.EntryHandlerOpts{Entry: up})
	hh := server.NewHttpHandler(h, server.HttpHandlerOpts{})
	h1 := httptest.NewServer(hh)
	defer h1.Close()
	h2 := httptest.NewUnstartedServer(hh)
	h2.EnableHTTP2 = true
	h2.StartTLS()
	defer h2.Close()
	c1, c2 := h1.Client(), h2.Client()
	c1.Timeout, c2.Timeout = 30*time.Second, 30*time.Second
	for i, n := 0, r.N(160, 4000); i < n; i++ {
		q := r.genQ03()
		out := r.genOutcome03(q)
		up.mu.Lock()
		up.out = out
		up.seen = nil
		up.mu.Unlock()
		wire, err := q.msg().Pack()
		if err != nil {
			continue
		}
		proto, c, url := "HTTP/1.1", c1, h1.URL
		if r.Rng.Intn(2) == 0 {
			proto, c, url = "HTTP/2.0", c2, h2.URL
		}
		via := []string{"doh-post", "doh-post", "doh-post", "doh-get"}[r.Rng.Intn(4)]
		framing := "-"
		piece := 0
		if via == "doh-post" {
			framing = []string{"content-length", "streamed", "streamed"}[r.Rng.Intn(3)]
			if r.Rng.Intn(2) == 0 {
				piece = 1 + r.Rng.Intn(len(wire)) // the body is handed to the HTTP client in pieces of at most this size
			}
		}
		mkReq := func() (*http.Request, error) {
			if via == "doh-get" {
				req, err := http.NewRequest(http.MethodGet, url+"/dns-query?dns="+base64.RawURLEncoding.EncodeToString(wire), nil)
				if err == nil {
					req.Header.Set("Accept", "application/dns-message")
				}
				return req, err
			}
			var body io.Reader = bytes.NewReader(wire)
			if piece > 0 {
				body = &pieces03{b: wire, max: piece}
			} else if framing == "streamed" {
				body = struct{ io.Reader }{body} // hides the length from net/http
			}
			req, err := http.NewRequest(http.MethodPost, url+"/dns-query", body)
			if err != nil {
				return nil, err
			}
			if framing == "content-length" {
				req.ContentLength = int64(len(wire))
			} else {
				req.ContentLength = -1 // unknown: chunked over HTTP/1.1, no content-length header over HTTP/2
			}
			req.Header.Set("Content-Type", "application/dns-message")
			req.Header.Set("Accept", "application/dns-message")
			return req, nil
		}
		var resp *http.Response
		for try := 0; try < 2; try++ {
			req, rerr := mkReq()
			if rerr != nil {
				err = rerr
				break
			}
			if resp, err = c.Do(req); err == nil {
				break
			}
		}
		desc := map[string]any{"query": q.op(), "arrived_via": via, "http": proto, "post_body_framing": framing, "plugin_outcome": out.op()}
		if piece > 0 {
			desc["body_written_in_pieces_of"] = piece
		}
		var payload []byte
		got := false
		if err != nil {
			desc["http_error"] = err.Error()
		} else {
			payload, _ = io.ReadAll(resp.Body)
			resp.Body.Close()
			desc["http_status"] = resp.StatusCode
			if resp.Proto != proto {
				r.Note("doh: spoke " + resp.Proto + " instead of " + proto)
				continue
			}
			got = resp.StatusCode == 200
		}
		expect, nAns := out.expect()
		oracle03(r, q, via, payload, got, desc, expect, nAns)
		implOut := "drop"
		if got && q.valid() {
			implOut = "unparsable"
			if p, err := parse03(payload); err == nil {
				implOut = p.show(q.name)
			}
		}
		r.Line(fmt.Sprintf("reply 0 %s %s", q.op(), out.entryOp()), implOut)
		r.Eval("doh|"+q.op()+"|"+out.op()+"|"+proto+"|"+via+"|"+framing+fmt.Sprint(piece), q.valid())
		r.Count("doh:" + proto + ":" + via + ":" + framing)
	}
}
