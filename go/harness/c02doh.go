//go:build pC02 || pall

package main

import (
	"bytes"
	"context"
	"encoding/base64"
	"encoding/binary"
	"encoding/hex"
	"fmt"
	"io"
	"math/rand"
	"net/http"
	"net/http/httptest"
	"strconv"
	"strings"
	"sync"
	"time"

	"github.com/IrineSistiana/mosdns/v5/pkg/upstream/doh"
)

// C02 for DoH (pkg/upstream/doh): the reply is the body of a 200 response, and `resp.Body.Read` hands it out in
// whatever pieces it arrived (TCP segments, TLS records, h2/h3 DATA frames; headers are often flushed before the
// body). A complete reply that arrived seconds before the caller's deadline must be returned, however it was cut up,
// with or without Content-Length, whether EOF comes with the last piece or in a Read of its own.
//
//   - fake http.RoundTripper: the body is scripted piece by piece (deterministic);
//   - real net/http client against an httptest server (HTTP/1.1 and HTTP/2 over TLS) whose handler flushes between pieces.
//
// In both, the body handed to the upstream is wrapped by a recorder: the pieces that the Read calls really returned are
// the `body` operation replayed on the model (Model.C02.Doh.exchange).

type recBody02 struct {
	inner  io.ReadCloser
	mu     sync.Mutex
	pieces [][]byte
	eofAt  string // how EOF was reported: "with-last-piece" or "own-read"
	err    error  // a non-EOF error reported by the inner body
}

func (b *recBody02) Read(p []byte) (int, error) {
	n, err := b.inner.Read(p)
	b.mu.Lock()
	if n > 0 {
		b.pieces = append(b.pieces, append([]byte(nil), p[:n]...))
	}
	if err == io.EOF && b.eofAt == "" {
		b.eofAt = map[bool]string{true: "with-last-piece", false: "own-read"}[n > 0]
	} else if err != nil && err != io.EOF {
		b.err = err
	}
	b.mu.Unlock()
	return n, err
}
func (b *recBody02) Close() error { return b.inner.Close() }

// recRT02 wraps a RoundTripper and records, per request (keyed by its dns= parameter), the body pieces.
type recRT02 struct {
	inner http.RoundTripper
	mu    sync.Mutex
	byQ   map[string]*recBody02
}

func (t *recRT02) RoundTrip(req *http.Request) (*http.Response, error) {
	resp, err := t.inner.RoundTrip(req)
	if err != nil || resp == nil {
		return resp, err
	}
	rb := &recBody02{inner: resp.Body}
	resp.Body = rb
	t.mu.Lock()
	t.byQ[req.URL.Query().Get("dns")] = rb
	t.mu.Unlock()
	return resp, nil
}

// scriptBody02 is the scripted body of the fake RoundTripper.
type scriptBody02 struct {
	pieces      [][]byte
	delay       []time.Duration // before piece i becomes readable
	eofWithLast bool
	closed      bool
}

func (b *scriptBody02) Read(p []byte) (int, error) {
	if b.closed {
		return 0, http.ErrBodyReadAfterClose
	}
	if len(b.pieces) == 0 {
		return 0, io.EOF
	}
	if len(p) == 0 {
		return 0, nil
	}
	if d := b.delay[0]; d > 0 {
		time.Sleep(d)
		b.delay[0] = 0
	}
	n := copy(p, b.pieces[0])
	if n == len(b.pieces[0]) {
		b.pieces, b.delay = b.pieces[1:], b.delay[1:]
	} else {
		b.pieces[0] = b.pieces[0][n:]
	}
	if b.eofWithLast && len(b.pieces) == 0 {
		return n, io.EOF
	}
	return n, nil
}
func (b *scriptBody02) Close() error { b.closed = true; return nil }

type fakeRT02 func(req *http.Request) (*http.Response, error)

func (f fakeRT02) RoundTrip(req *http.Request) (*http.Response, error) { return f(req) }

// dohReply02 builds the server's reply to the query carried by req: the query echoed with QR set (id as on the wire,
// i.e. 0) followed by filler so that the message has `size` bytes (the upstream does not parse it).
func dohReply02(dnsParam string, size int) ([]byte, error) {
	q, err := base64.RawURLEncoding.DecodeString(dnsParam)
	if err != nil || len(q) < 12 {
		return nil, fmt.Errorf("bad dns parameter %q", dnsParam)
	}
	rep := mkReply(q, binary.BigEndian.Uint16(q))
	for i := 0; len(rep) < size; i++ {
		rep = append(rep, byte(i*31+len(q)))
	}
	return rep, nil
}

func dohSize02(rnd *rand.Rand, thorough bool) int {
	switch k := rnd.Intn(12); {
	case k < 5:
		return 0 // just the echoed question (29..34 bytes)
	case k < 8:
		return 60 + rnd.Intn(1400)
	case k < 10:
		return 4000 + rnd.Intn(200) // around the 4 KiB buffers (bufio reader of an http/1 connection, bufPool4k)
	case k < 11 || !thorough:
		return 4200 + rnd.Intn(12000)
	}
	return 65535
}

func hexPieces02(ps [][]byte) string {
	if len(ps) == 0 {
		return "-"
	}
	ss := make([]string, len(ps))
	for i, p := range ps {
		ss[i] = hex.EncodeToString(p)
	}
	return strings.Join(ss, ",")
}

// judge02 applies the oracle to one DoH exchange and emits the model line.
func judge02(r *Run, desc map[string]any, key string, q []byte, want []byte, resp *[]byte, err error, took time.Duration, rb *recBody02, deadline time.Duration) {
	desc["took"] = took.String()
	desc["err"] = fmt.Sprint(err)
	desc["caller_deadline"] = deadline.String()
	var pieces [][]byte
	eofAt := ""
	if rb != nil {
		rb.mu.Lock()
		pieces, eofAt = append([][]byte(nil), rb.pieces...), rb.eofAt
		rb.mu.Unlock()
	}
	lens := make([]int, len(pieces))
	for i, p := range pieces {
		lens[i] = len(p)
	}
	if len(lens) > 12 {
		desc["body_pieces_read"] = fmt.Sprintf("%v ... (%d pieces)", lens[:12], len(lens))
	} else {
		desc["body_pieces_read"] = fmt.Sprint(lens)
	}
	desc["eof"] = eofAt
	out := "reply:" + hx(want)
	if resp != nil && err == nil {
		out = "reply:" + hx(*resp)
	}
	switch {
	case took > deadline-time.Second:
		// the machine stalled for seconds: "arrived before the deadline" cannot be claimed
		r.Count("doh:skipped-machine-stalled")
		r.Eval(key, false)
		return
	case err != nil || resp == nil:
		out = "error:" + fmt.Sprint(err)
		r.Fail("a complete DoH reply (200, the whole body) arrived seconds before the caller's deadline, but the exchange failed", desc)
	case !bytes.Equal(*resp, want):
		r.Fail("a DoH exchange returned something other than the server's reply to its own query (with the caller's id)", desc)
	}
	if err == nil && rb != nil {
		// what the upstream read, replayed on the model; after a failure the recorded pieces are only those the
		// upstream bothered to read, so the model is asked about the whole reply as one piece instead
		r.Line(fmt.Sprintf("body 1 %04x %s", binary.BigEndian.Uint16(q), hexPieces02(pieces)), out)
	} else {
		wire := append([]byte{0, 0}, want[2:]...)
		r.Line(fmt.Sprintf("body 1 %04x %s", binary.BigEndian.Uint16(q), hex.EncodeToString(wire)), out)
	}
	r.Trace()
	r.Eval(key, true)
}

func dohScenarios02(r *Run) {
	const deadline = 5 * time.Second
	// ---- scripted bodies over a fake RoundTripper
	nFake := r.N(60, 900)
	for i := 0; i < nFake; i++ {
		chunking := i % 5 // 0 one piece, 1 single bytes (small replies only), 2 first byte | rest, 3 random, 4 header | rest and all-but-last | last
		size := dohSize02(r.Rng, r.Thorough())
		withCL := r.Rng.Intn(3) != 0
		eofWithLast := r.Rng.Intn(2) == 0
		slow := r.Rng.Intn(3) == 0 // pieces arrive 1..3 ms apart
		seedBody := r.Rng.Int63()
		flavour := r.Rng.Intn(2)
		id := r.U16()
		q := mkQuery(id, 700000+i)
		rt := &recRT02{byQ: map[string]*recBody02{}, inner: fakeRT02(func(req *http.Request) (*http.Response, error) {
			rep, err := dohReply02(req.URL.Query().Get("dns"), size)
			if err != nil {
				return nil, err
			}
			rnd := rand.New(rand.NewSource(seedBody))
			var ps [][]byte
			switch {
			case chunking == 4 && flavour == 0:
				ps = [][]byte{rep[:12], rep[12:]}
			case chunking == 4:
				ps = [][]byte{rep[:len(rep)-1], rep[len(rep)-1:]}
			case chunking == 1 && len(rep) > 600:
				ps = chunksDoq(rnd, rep, 3)
			default:
				ps = chunksDoq(rnd, rep, chunking)
			}
			b := &scriptBody02{eofWithLast: eofWithLast}
			for k, p := range ps {
				b.pieces = append(b.pieces, append([]byte(nil), p...))
				d := time.Duration(0)
				if slow && k > 0 && k < 8 {
					d = time.Duration(1+rnd.Intn(3)) * time.Millisecond
				}
				b.delay = append(b.delay, d)
			}
			resp := &http.Response{Status: "200 OK", StatusCode: 200, Proto: "HTTP/1.1", ProtoMajor: 1, ProtoMinor: 1,
				Header: http.Header{"Content-Type": {"application/dns-message"}}, Body: b, ContentLength: -1, Request: req}
			if withCL {
				resp.ContentLength = int64(len(rep))
				resp.Header.Set("Content-Length", strconv.Itoa(len(rep)))
			}
			return resp, nil
		})}
		u, err := doh.NewUpstream("https://doh.test/dns-query", rt, nil)
		if err != nil {
			fatal(err)
		}
		ctx, cancel := context.WithTimeout(context.Background(), deadline)
		t0 := time.Now()
		resp, err := u.ExchangeContext(ctx, q)
		took := time.Since(t0)
		cancel()
		wire := append([]byte(nil), q...)
		wire[0], wire[1] = 0, 0
		want, _ := dohReply02(base64.RawURLEncoding.EncodeToString(wire), size)
		binary.BigEndian.PutUint16(want, id)
		rt.mu.Lock()
		rb := rt.byQ[base64.RawURLEncoding.EncodeToString(wire)]
		rt.mu.Unlock()
		how := []string{"one piece", "single bytes", "first byte | rest", "random pieces", []string{"12-byte header | rest", "all but the last byte | last byte"}[flavour]}[chunking]
		if chunking == 1 && len(want) > 600 {
			how = "random pieces"
		}
		desc := map[string]any{"transport": "doh", "round_tripper": "fake (scripted body)", "case": i, "reply_bytes": len(want), "content_length_announced": withCL,
			"body_cut_as": how, "pieces_arrive": map[bool]string{true: "1..3 ms apart", false: "at once"}[slow]}
		judge02(r, desc, fmt.Sprintf("doh/fake/%d/%v/%v/%d", chunking, withCL, eofWithLast, len(want)), q, want, resp, err, took, rb, deadline)
		r.Count("doh:fake:" + strings.ReplaceAll(how, " ", "-"))
	}

	// ---- a real net/http client and server on loopback: the handler flushes between the pieces of the body
	type plan struct {
		size   int
		withCL bool
		cuts   []int           // body offsets after which the handler flushes and pauses
		pause  []time.Duration // per cut
		early  bool            // flush the headers before the first body byte
	}
	var pmu sync.Mutex
	plans := map[string]plan{} // by dns parameter
	handler := http.HandlerFunc(func(w http.ResponseWriter, req *http.Request) {
		key := req.URL.Query().Get("dns")
		pmu.Lock()
		pl, ok := plans[key]
		pmu.Unlock()
		rep, err := dohReply02(key, pl.size)
		if !ok || err != nil {
			http.Error(w, "no plan", 500)
			return
		}
		w.Header().Set("Content-Type", "application/dns-message")
		if pl.withCL {
			w.Header().Set("Content-Length", strconv.Itoa(len(rep)))
		}
		fl, _ := w.(http.Flusher)
		if pl.early && fl != nil {
			w.WriteHeader(200)
			fl.Flush()
			time.Sleep(pl.pause[0])
		}
		last := 0
		for k, c := range pl.cuts {
			if c <= last || c >= len(rep) {
				continue
			}
			w.Write(rep[last:c])
			if fl != nil {
				fl.Flush()
			}
			time.Sleep(pl.pause[k%len(pl.pause)])
			last = c
		}
		w.Write(rep[last:])
	})
	for _, proto := range []string{"http/1.1", "h2"} {
		srv := httptest.NewUnstartedServer(handler)
		if proto == "h2" {
			srv.EnableHTTP2 = true
			srv.StartTLS()
		} else {
			srv.Start()
		}
		rt := &recRT02{byQ: map[string]*recBody02{}, inner: srv.Client().Transport}
		u, err := doh.NewUpstream(srv.URL+"/dns-query", rt, nil)
		if err != nil {
			fatal(err)
		}
		rounds := r.N(5, 60)
		for i := 0; i < rounds; i++ {
			callers := 1 + r.Rng.Intn(3)
			type call struct {
				q, want []byte
				key     string
				pl      plan
				resp    *[]byte
				err     error
				took    time.Duration
			}
			cs := make([]*call, callers)
			for c := range cs {
				id := r.U16()
				q := mkQuery(id, 800000+i*10+c+map[string]int{"http/1.1": 0, "h2": 5000}[proto])
				wire := append([]byte(nil), q...)
				wire[0], wire[1] = 0, 0
				key := base64.RawURLEncoding.EncodeToString(wire)
				pl := plan{size: dohSize02(r.Rng, false), withCL: r.Rng.Intn(4) != 0, early: r.Rng.Intn(2) == 0}
				want, _ := dohReply02(key, pl.size)
				binary.BigEndian.PutUint16(want, id)
				switch r.Rng.Intn(4) {
				case 0:
					pl.cuts = []int{12}
				case 1:
					pl.cuts = []int{len(want) - 1}
				case 2:
					pl.cuts = []int{1 + r.Rng.Intn(len(want)-1)}
				default:
					a := 1 + r.Rng.Intn(len(want)-1)
					pl.cuts = []int{a, a + 1 + r.Rng.Intn(len(want))}
				}
				for range pl.cuts {
					pl.pause = append(pl.pause, time.Duration(3+r.Rng.Intn(15))*time.Millisecond)
				}
				pmu.Lock()
				plans[key] = pl
				pmu.Unlock()
				cs[c] = &call{q: q, want: want, key: key, pl: pl}
			}
			var wg sync.WaitGroup
			for _, c := range cs {
				wg.Add(1)
				go func(c *call) {
					defer wg.Done()
					ctx, cancel := context.WithTimeout(context.Background(), deadline)
					defer cancel()
					t0 := time.Now()
					c.resp, c.err = u.ExchangeContext(ctx, c.q)
					c.took = time.Since(t0)
				}(c)
			}
			wg.Wait()
			for ci, c := range cs {
				rt.mu.Lock()
				rb := rt.byQ[c.key]
				rt.mu.Unlock()
				desc := map[string]any{"transport": "doh", "round_tripper": "net/http client, httptest server on loopback, " + proto, "round": i, "caller": ci, "concurrent_callers": callers,
					"reply_bytes": len(c.want), "content_length_announced": c.pl.withCL, "handler_flushes_after_body_offsets": fmt.Sprint(c.pl.cuts), "pauses": fmt.Sprint(c.pl.pause),
					"headers_flushed_before_body": c.pl.early}
				judge02(r, desc, fmt.Sprintf("doh/%s/%v/%v/%d/%v", proto, c.pl.withCL, c.pl.early, len(c.want), c.pl.cuts), c.q, c.want, c.resp, c.err, c.took, rb, deadline)
				r.Count("doh:" + proto + ":flushed-pieces")
			}
		}
		if tr, ok := srv.Client().Transport.(*http.Transport); ok {
			tr.CloseIdleConnections()
		}
		srv.Close()
	}
}
