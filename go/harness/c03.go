//go:build pC03 || pC15 || pall

package main

import (
	"bytes"
	"context"
	"encoding/base64"
	"encoding/binary"
	"errors"
	"fmt"
	"net"
	"net/http"
	"net/http/httptest"
	"net/netip"
	"os"
	"sort"
	"strings"
	"sync"
	"time"

	"github.com/IrineSistiana/mosdns/v5/coremain"
	"github.com/IrineSistiana/mosdns/v5/pkg/pool"
	"github.com/IrineSistiana/mosdns/v5/pkg/query_context"
	"github.com/IrineSistiana/mosdns/v5/pkg/server"
	"github.com/IrineSistiana/mosdns/v5/pkg/server_handler"
	"github.com/IrineSistiana/mosdns/v5/plugin/executable/arbitrary"
	"github.com/IrineSistiana/mosdns/v5/plugin/executable/black_hole"
	"github.com/IrineSistiana/mosdns/v5/plugin/executable/cache"
	"github.com/IrineSistiana/mosdns/v5/plugin/executable/dual_selector"
	"github.com/IrineSistiana/mosdns/v5/plugin/executable/ecs_handler"
	forward_edns0opt "github.com/IrineSistiana/mosdns/v5/plugin/executable/forward_edns0opt"
	"github.com/IrineSistiana/mosdns/v5/plugin/executable/hosts"
	"github.com/IrineSistiana/mosdns/v5/plugin/executable/redirect"
	"github.com/IrineSistiana/mosdns/v5/plugin/executable/sequence"
	"github.com/IrineSistiana/mosdns/v5/plugin/executable/sequence/fallback"
	"github.com/IrineSistiana/mosdns/v5/plugin/executable/ttl"
	"github.com/miekg/dns"
)

// C03: every valid query gets one reply with its own ID and question.
// C15: EDNS0 is terminated, not leaked.

func init() { props["C03"] = runC03; props["C15"] = runC15 }

// ---- query generation

type opt03 struct {
	size  uint16
	do    bool
	codes []uint16
}

type q03 struct {
	id            uint16
	qr            bool
	opcode        int
	rd, cd        bool
	nq            int
	name          string
	qtype, qclass uint16
	nAns, nNs     int
	extras        []any // opt03 or "r"
}

func (q q03) valid() bool { return !q.qr && q.nq == 1 && q.nAns+q.nNs == 0 && len(q.extras) <= 1 }

func (q q03) clientOpt() *opt03 {
	for i := len(q.extras) - 1; i >= 0; i-- {
		if o, ok := q.extras[i].(opt03); ok {
			return &o
		}
	}
	return nil
}

func optRR03(o opt03) *dns.OPT {
	r := &dns.OPT{Hdr: dns.RR_Header{Name: ".", Rrtype: dns.TypeOPT}}
	r.SetUDPSize(o.size)
	if o.do {
		r.SetDo()
	}
	for _, c := range o.codes {
		switch c {
		case dns.EDNS0SUBNET:
			r.Option = append(r.Option, &dns.EDNS0_SUBNET{Code: dns.EDNS0SUBNET, Family: 1, SourceNetmask: 24, Address: net.IPv4(198, 51, 100, 0).To4()})
		case dns.EDNS0COOKIE:
			r.Option = append(r.Option, &dns.EDNS0_COOKIE{Code: dns.EDNS0COOKIE, Cookie: "0102030405060708"})
		case dns.EDNS0PADDING:
			r.Option = append(r.Option, &dns.EDNS0_PADDING{Padding: make([]byte, 5)})
		default:
			r.Option = append(r.Option, &dns.EDNS0_LOCAL{Code: c, Data: []byte{1, 2, 3}})
		}
	}
	return r
}

func (q q03) msg() *dns.Msg {
	m := new(dns.Msg)
	m.Id, m.Response, m.Opcode, m.RecursionDesired, m.CheckingDisabled = q.id, q.qr, q.opcode, q.rd, q.cd
	for i := 0; i < q.nq; i++ {
		n := q.name
		if i > 0 {
			n = "x" + q.name
		}
		m.Question = append(m.Question, dns.Question{Name: n, Qtype: q.qtype, Qclass: q.qclass})
	}
	for i := 0; i < q.nAns; i++ {
		m.Answer = append(m.Answer, &dns.A{Hdr: dns.RR_Header{Name: q.name, Rrtype: dns.TypeA, Class: 1, Ttl: 1}, A: net.IPv4(1, 1, 1, byte(i))})
	}
	for i := 0; i < q.nNs; i++ {
		m.Ns = append(m.Ns, &dns.NS{Hdr: dns.RR_Header{Name: q.name, Rrtype: dns.TypeNS, Class: 1, Ttl: 1}, Ns: "ns."})
	}
	for _, e := range q.extras {
		if o, ok := e.(opt03); ok {
			m.Extra = append(m.Extra, optRR03(o))
		} else {
			m.Extra = append(m.Extra, &dns.A{Hdr: dns.RR_Header{Name: "x.", Rrtype: dns.TypeA, Class: 1, Ttl: 60}, A: net.IPv4(7, 7, 7, 7)})
		}
	}
	return m
}

func codesOp03(cs []uint16) string {
	if len(cs) == 0 {
		return "-"
	}
	var p []string
	for _, c := range cs {
		p = append(p, fmt.Sprint(c))
	}
	return strings.Join(p, "+")
}

func (q q03) op() string {
	var ex []string
	for _, e := range q.extras {
		if o, ok := e.(opt03); ok {
			ex = append(ex, fmt.Sprintf("o:%d:%s:%s", o.size, b01(o.do), codesOp03(o.codes)))
		} else {
			ex = append(ex, "r")
		}
	}
	es := strings.Join(ex, ",")
	if es == "" {
		es = "-"
	}
	return fmt.Sprintf("%d %s %d %s %s %d %s %d %d %d %d %s", q.id, b01(q.qr), q.opcode, b01(q.rd), b01(q.cd), q.nq, hx([]byte(q.name)), q.qtype, q.qclass, q.nAns, q.nNs, es)
}

func (r *Run) genOpt03() opt03 {
	o := opt03{size: []uint16{0, 256, 511, 512, 513, 1200, 1232, 4096, 65535}[r.Rng.Intn(9)], do: r.Rng.Intn(2) == 0}
	all := []uint16{dns.EDNS0SUBNET, dns.EDNS0COOKIE, dns.EDNS0PADDING, 65001}
	for _, c := range all {
		if r.Rng.Intn(3) == 0 {
			o.codes = append(o.codes, c)
		}
	}
	return o
}

func (r *Run) genQ03() q03 {
	q := q03{id: r.U16(), nq: 1, rd: r.Rng.Intn(2) == 0, cd: r.Rng.Intn(4) == 0, qclass: 1}
	names := []string{"www.example.com.", "WwW.ExAmPlE.CoM.", "alias.test.", "target.test.", "host.local.", "blocked.example.", "a.", ".", r.Name(), r.Name()}
	q.name = names[r.Rng.Intn(len(names))]
	q.qtype = []uint16{1, 28, 1, 28, 16, 5, 15, 65, 255, 257, r.U16()}[r.Rng.Intn(11)]
	if q.qtype == 41 || q.qtype == 0 {
		q.qtype = 1
	}
	if r.Rng.Intn(10) == 0 {
		q.qclass = []uint16{3, 4, 255, r.U16()}[r.Rng.Intn(4)]
		if q.qclass == 0 {
			q.qclass = 3
		}
	}
	if r.Rng.Intn(2) == 0 {
		q.extras = append(q.extras, r.genOpt03())
	}
	if r.Rng.Intn(12) == 0 {
		q.opcode = []int{1, 2, 4, 5}[r.Rng.Intn(4)]
	}
	switch r.Rng.Intn(24) { // malformed stream
	case 0:
		q.qr = true
	case 1:
		q.nq = 0
	case 2:
		q.nq = 2
	case 3:
		q.nAns = 1
	case 4:
		q.nNs = 1
	case 5:
		q.extras = append(q.extras, "r")
		if len(q.extras) == 1 {
			q.extras = append(q.extras, r.genOpt03())
		}
	case 6:
		q.extras = []any{"r"} // one non-OPT additional: still valid
	}
	return q
}

// ---- scripted last plugin ("upstream")

type outcome03 struct {
	kind     string // err errresp none ans
	rcode    int
	nAns     int
	ansSize  int // bytes per TXT record
	upOpt    []uint16
	hasUp    bool
	optFirst bool // the upstream's OPT is followed by another additional record
}

func (o outcome03) op() string {
	switch o.kind {
	case "err", "none":
		return o.kind
	case "errresp":
		return fmt.Sprintf("errresp:%d", o.rcode)
	}
	up := "-"
	if o.hasUp {
		up = codesOp03(o.upOpt)
		if up == "-" {
			up = "0" // an OPT without options: encode as code list "0"? keep distinct below
		}
	}
	return fmt.Sprintf("ans:%d:%d:%s", o.rcode, o.nAns, up)
}

type upstream03 struct {
	mu   sync.Mutex
	out  outcome03
	seen []*dns.Msg // copies of the queries that reached the upstream
}

func (u *upstream03) Exec(_ context.Context, qCtx *query_context.Context) error {
	u.mu.Lock()
	u.seen = append(u.seen, qCtx.Q().Copy())
	out := u.out
	u.mu.Unlock()
	if qCtx.R() != nil && out.kind != "err" && out.kind != "errresp" {
		return nil // already answered (cache hit, hosts, ...)
	}
	switch out.kind {
	case "err":
		return errors.New("scripted upstream error")
	case "none":
		return nil
	}
	r := new(dns.Msg)
	r.SetReply(qCtx.Q())
	r.Rcode = out.rcode
	name := qCtx.Q().Question[0].Name
	for i := 0; i < out.nAns; i++ {
		if out.ansSize > 0 {
			r.Answer = append(r.Answer, &dns.TXT{Hdr: dns.RR_Header{Name: name, Rrtype: dns.TypeTXT, Class: 1, Ttl: 300}, Txt: []string{strings.Repeat("t", out.ansSize)}})
		} else {
			t := qCtx.Q().Question[0].Qtype
			if t == dns.TypeAAAA {
				r.Answer = append(r.Answer, &dns.AAAA{Hdr: dns.RR_Header{Name: name, Rrtype: dns.TypeAAAA, Class: 1, Ttl: 300}, AAAA: net.ParseIP("2001:db8::1")})
			} else {
				r.Answer = append(r.Answer, &dns.A{Hdr: dns.RR_Header{Name: name, Rrtype: dns.TypeA, Class: 1, Ttl: 300}, A: net.IPv4(192, 0, 2, byte(i))})
			}
		}
	}
	if out.hasUp {
		r.Extra = append(r.Extra, optRR03(opt03{size: 1232, do: true, codes: out.upOpt}))
		if out.optFirst {
			r.Extra = append(r.Extra, &dns.A{Hdr: dns.RR_Header{Name: "glue.example.", Rrtype: dns.TypeA, Class: 1, Ttl: 60}, A: net.IPv4(192, 0, 2, 200)})
		}
	}
	qCtx.SetResponse(r)
	if out.kind == "errresp" {
		return errors.New("scripted upstream error after setting a response")
	}
	return nil
}

// genOutcome03 scripts what the last plugin does with q.
func (r *Run) genOutcome03(q q03) outcome03 {
	out := outcome03{kind: []string{"ans", "ans", "ans", "ans", "none", "err", "errresp"}[r.Rng.Intn(7)]}
	out.rcode = []int{0, 0, 0, 2, 3, 5, r.Rng.Intn(16)}[r.Rng.Intn(7)]
	if q.clientOpt() != nil && r.Rng.Intn(8) == 0 {
		out.rcode = []int{16, 23}[r.Rng.Intn(2)] // extended rcode, needs the client's OPT
	}
	out.nAns = r.Rng.Intn(4)
	if r.Rng.Intn(4) == 0 {
		out.nAns = 1 + r.Rng.Intn(30)
		out.ansSize = 1 + r.Rng.Intn(250) // answers of any size up to ~7.6 KB
	}
	if r.Rng.Intn(2) == 0 {
		out.hasUp = true
		for _, c := range []uint16{dns.EDNS0SUBNET, dns.EDNS0COOKIE, dns.EDNS0PADDING, 65001} {
			if r.Rng.Intn(2) == 0 {
				out.upOpt = append(out.upOpt, c)
			}
		}
		if len(out.upOpt) == 0 {
			out.upOpt = []uint16{dns.EDNS0COOKIE}
		}
	}
	out.optFirst = r.Rng.Intn(4) == 0
	return out
}

// expect: the rcode the property demands for this outcome and the number of answer records the plugin gave (-1: none given).
func (o outcome03) expect() (rcode, nAns int) {
	switch o.kind {
	case "err", "errresp":
		return 2, -1
	case "none":
		return 5, -1
	}
	return o.rcode, o.nAns
}

// entryOp: the outcome as the model driver reads it (record sizes are not part of the model).
func (o outcome03) entryOp() string {
	if o.kind == "ans" && o.ansSize > 0 {
		return fmt.Sprintf("ans:%d:%d:%s", o.rcode, o.nAns, map[bool]string{true: codesOp03(o.upOpt), false: "-"}[o.hasUp])
	}
	return o.op()
}

// ---- reply parsing (header and question by hand)

type reply03 struct {
	id            uint16
	qr, ra, tc    bool
	rcode         int
	qd, an        int
	qname         []byte // wire form
	qtype, qclass uint16
	nOpt          int
	do            bool
	codes         []uint16
	size          int
	parsed        *dns.Msg
}

func parse03(b []byte) (reply03, error) {
	var r reply03
	r.size = len(b)
	if len(b) < 12 {
		return r, errors.New("short reply")
	}
	r.id = binary.BigEndian.Uint16(b)
	r.qr, r.tc, r.ra = b[2]&0x80 != 0, b[2]&0x02 != 0, b[3]&0x80 != 0
	r.rcode = int(b[3] & 0x0f)
	r.qd, r.an = int(binary.BigEndian.Uint16(b[4:])), int(binary.BigEndian.Uint16(b[6:]))
	off := 12
	if r.qd >= 1 {
		start := off
		for off < len(b) && b[off] != 0 {
			if b[off]&0xc0 != 0 {
				return r, errors.New("compressed question name")
			}
			off += 1 + int(b[off])
		}
		off++
		if off+4 > len(b) {
			return r, errors.New("truncated question")
		}
		r.qname = b[start:off]
		r.qtype, r.qclass = binary.BigEndian.Uint16(b[off:]), binary.BigEndian.Uint16(b[off+2:])
	}
	m := new(dns.Msg)
	if err := m.Unpack(b); err != nil {
		return r, err
	}
	r.parsed = m
	r.rcode = m.Rcode
	for _, rr := range m.Extra {
		if o, ok := rr.(*dns.OPT); ok {
			r.nOpt++
			r.do = o.Do()
			for _, op := range o.Option {
				r.codes = append(r.codes, op.Option())
			}
		}
	}
	return r, nil
}

func wireName03(s string) []byte {
	b := make([]byte, 300)
	n, err := dns.PackDomainName(s, b, 0, nil, false)
	if err != nil {
		return nil
	}
	return b[:n]
}

func (p reply03) show(name string) string {
	d, cs := "-", "-"
	if p.nOpt == 1 {
		d = b01(p.do)
		if len(p.codes) > 0 {
			cs = codesOp03(p.codes)
		}
	}
	q := fmt.Sprintf("#%d", p.qd)
	if p.qd == 1 {
		nm := name
		if !bytes.Equal(p.qname, wireName03(name)) {
			nm = "?" + string(p.qname)
		}
		q = fmt.Sprintf("%s/%d/%d", hx([]byte(nm)), p.qtype, p.qclass)
	}
	return fmt.Sprintf("id=%d q=%s qr=%s ra=%s rcode=%d opt=%d do=%s codes=%s", p.id, q, b01(p.qr), b01(p.ra), p.rcode, p.nOpt, d, cs)
}

// deliver hands q to the handler through one of the server front ends.
func deliver03(h *server_handler.EntryHandler, via string, m *dns.Msg) ([]byte, bool) {
	switch via {
	case "udp":
		p := h.Handle(context.Background(), m, server.QueryMeta{FromUDP: true, ClientAddr: netip.MustParseAddr("203.0.113.9")}, pool.PackBuffer)
		if p == nil {
			return nil, false
		}
		return append([]byte(nil), *p...), true
	case "tcp":
		p := h.Handle(context.Background(), m, server.QueryMeta{ClientAddr: netip.MustParseAddr("203.0.113.9")}, pool.PackTCPBuffer)
		if p == nil {
			return nil, false
		}
		b := append([]byte(nil), *p...)
		if len(b) < 2 || int(binary.BigEndian.Uint16(b)) != len(b)-2 {
			return nil, false
		}
		return b[2:], true
	default: // DoH GET / POST through the real http handler
		wire, err := m.Pack()
		if err != nil {
			return nil, false
		}
		hh := server.NewHttpHandler(h, server.HttpHandlerOpts{})
		var req *http.Request
		if via == "doh-get" {
			req = httptest.NewRequest("GET", "/dns-query?dns="+base64.RawURLEncoding.EncodeToString(wire), nil)
			req.Header.Set("Accept", "application/dns-message")
		} else {
			req = httptest.NewRequest("POST", "/dns-query", bytes.NewReader(wire))
			req.Header.Set("Content-Type", "application/dns-message")
		}
		req.RemoteAddr = "203.0.113.9:5555"
		rec := httptest.NewRecorder()
		hh.ServeHTTP(rec, req)
		if rec.Code != 200 {
			return nil, false
		}
		return rec.Body.Bytes(), true
	}
}

// oracle03 is the property's own predicate on the implementation's reply.
func oracle03(r *Run, q q03, via string, payload []byte, got bool, desc map[string]any, expectRcode int, nAnsGiven int) {
	if !q.valid() {
		if got && via != "doh-get" && via != "doh-post" {
			r.Fail("a malformed query received a DNS reply", desc)
		}
		return
	}
	if !got {
		r.Fail("a well-formed query received no reply", desc)
		return
	}
	p, err := parse03(payload)
	if err != nil {
		desc["parse_error"] = err.Error()
		r.Fail("the reply is not a parsable DNS message", desc)
		return
	}
	desc["reply"] = p.show(q.name)
	switch {
	case p.id != q.id:
		r.Fail("the reply does not carry the query's ID", desc)
	case p.qd != 1 || !bytes.Equal(p.qname, wireName03(q.name)) || p.qtype != q.qtype || p.qclass != q.qclass:
		r.Fail("the reply does not carry the query's question (name bytes, type, class) unchanged", desc)
	case !p.qr || !p.ra:
		r.Fail("the reply does not have QR and RA set", desc)
	case expectRcode >= 0 && p.rcode != expectRcode:
		desc["want_rcode"] = expectRcode
		r.Fail("the reply's rcode is not the plugins' / SERVFAIL on error / REFUSED on no answer", desc)
	}
	if via == "udp" {
		limit := 512
		if o := q.clientOpt(); o != nil && int(o.size) > limit {
			limit = int(o.size)
		}
		if p.size > limit {
			desc["limit"], desc["size"] = limit, p.size
			r.Fail("the UDP reply exceeds max(512, advertised EDNS size)", desc)
		}
		if nAnsGiven >= 0 && p.an < nAnsGiven && !p.tc {
			r.Fail("records were dropped from the UDP reply but TC is not set", desc)
		}
	}
}

func runC03(r *Run) {
	vias := []string{"udp", "tcp", "udp", "tcp", "doh-get", "doh-post"}
	// ---------- (1) handler with a scripted entry: model vs implementation + oracle
	n := r.N(2500, 60000)
	for i := 0; i < n; i++ {
		q := r.genQ03()
		out := r.genOutcome03(q)
		via := vias[r.Rng.Intn(len(vias))]
		up := &upstream03{out: out}
		h := server_handler.NewEntryHandler(server_handler.EntryHandlerOpts{Entry: up})
		payload, got := deliver03(h, via, q.msg())
		desc := map[string]any{"query": q.op(), "arrived_via": via, "plugin_outcome": out.op()}
		expect, nAns := out.expect()
		oracle03(r, q, via, payload, got, desc, expect, nAns)
		implOut := "drop"
		if got {
			if p, err := parse03(payload); err == nil {
				implOut = p.show(q.name)
			} else {
				implOut = "unparsable"
			}
		}
		if strings.HasPrefix(via, "doh") && !q.valid() {
			// the http front end answers malformed queries with an HTTP error, not with a DNS reply
			implOut = "drop"
		}
		entry := out.entryOp()
		udp := "0"
		if via == "udp" {
			udp = "1"
		}
		r.Line(fmt.Sprintf("reply %s %s %s", udp, q.op(), entry), implOut)
		r.Eval(q.op()+"|"+entry+"|"+via, q.valid())
		r.Count("via:" + via)
		r.Count("outcome:" + out.kind)
		if !q.valid() {
			r.Count("malformed-query")
		}
	}

	// ---------- (2) compositions of the real built-in plugins in front of the scripted upstream
	m := r.N(1200, 30000)
	for i := 0; i < m; i++ {
		runChain03(r, i, false)
	}
	// ---------- (3) two overlapping client queries for one cached question (fresh or expired-but-kept entry): the first
	// is held in a plugin behind the cache until the second has been answered; each reply must carry its own ID
	for i, nov := 0, r.N(40, 600); i < nov; i++ {
		overlap03(r, i)
	}
	// ---------- (4) the TCP/DoT server in front of the handler: pipelined queries on one connection whose replies are
	// produced at the same time; every query gets exactly one intact reply with its own ID and question
	for i, ns := 0, r.N(12, 150); i < ns; i++ {
		gate := make(chan struct{})
		sizes := map[uint16]int{}
		entry := sequence.ExecutableFunc(func(ctx context.Context, qCtx *query_context.Context) error {
			<-gate
			m := new(dns.Msg)
			m.SetReply(qCtx.Q())
			for k, n := 0, sizes[qCtx.Q().Id]; k < n; k++ {
				m.Answer = append(m.Answer, &dns.TXT{Hdr: dns.RR_Header{Name: qCtx.Q().Question[0].Name, Rrtype: dns.TypeTXT, Class: dns.ClassINET, Ttl: 1}, Txt: []string{strings.Repeat("y", 200)}})
			}
			qCtx.SetResponse(m)
			return nil
		})
		h := server_handler.NewEntryHandler(server_handler.EntryHandlerOpts{Entry: entry})
		serveTCP(r, 2+r.Rng.Intn(14), h, gate, sizes, "pipelined queries on one server connection (TCP / DoT server + handler) did not each get exactly one intact reply with their own ID and question: ")
	}
	// ---------- (5) the UDP server in front of the handler: bursts of distinct queries (and malformed ones, and datagrams
	// that are no message) from several client sockets; see serveudp.go
	for i, ns := 0, r.N(10, 200); i < ns; i++ {
		if !serveUDP03(r, i) {
			break
		}
	}
	// ---------- (6) redirect (rewrites the context's query) x dual-stack selector (replaces the context) in front of a last
	// plugin whose outcome depends on the query type; see c03sel.go
	for i, ns := 0, r.N(400, 10000); i < ns; i++ {
		selChain03Run(r, i)
	}
	// ---------- (7) redirect x cache in any order, one chain asked several names of the redirect graph (alias first and
	// target later, and vice versa); see c03store.go
	for i, ns := 0, r.N(300, 8000); i < ns; i++ {
		storeChain03Run(r, i)
	}
	if dumpDir03.dir != "" {
		os.RemoveAll(dumpDir03.dir)
	}
	// ---------- (9) the chains of (7) with TTL-1 answers and real waits: entries expire during the history, lazy caches
	// refresh in the background on copies of the context; see c03lazy.go
	lazyStore03(r)
	// ---------- (10) replies produced locally by plugins (hosts entries with one address family only, arbitrary, black_hole,
	// reject) for query names of 240..255 wire octets; see c03long.go
	for i, ns := 0, r.N(250, 6000); i < ns; i++ {
		longLocal03(r, i)
	}
	// ---------- (8) DoH GET / POST through real HTTP/1.1 and HTTP/2 servers, POST bodies with and without a Content-Length
	doh03(r)
	r.Finish("(1) queries: IDs, names incl. mixed case / root / long, types and classes, flags, with/without OPT of sizes {0..65535}, malformed stream (QR, 0 or 2 questions, answer/authority records, 2 additionals) x scripted plugin outcome (answer with 0..30 records of up to 250 bytes, rcode 0..15 and extended with OPT, none, error, error after a response) x arrival via UDP, TCP, DoH GET, DoH POST; (2) random chains of 1..4 of {cache, redirect, hosts, black_hole, arbitrary, reject, ttl, ecs, prefer_ipv4, fallback, forward_edns0opt} in front of the scripted upstream, each chain queried 1..3 times; (3) two client queries with different IDs for one cached question (fresh entry / expired entry kept by lazy cache), the first held behind the cache until the second was answered; (4) 2..15 pipelined queries on one non-TCP connection through server.ServeTCP + EntryHandler, all answered at the same moment; (5) server.ServeUDP on a loopback socket (bound to 127.0.0.1 or to 0.0.0.0) + EntryHandler + the scripted last plugin of (1): 4..12 bursts from 2..8 client sockets, each socket writing 1..3 datagrams (queries of (1) with distinct IDs, malformed ones, datagrams that are no DNS message) before anything is read, every socket must receive exactly the replies to its own well-formed queries; (6) chains of 0..2 redirect (full / domain rules, nested), prefer_ipv4 or prefer_ipv6 (sometimes both), 0..2 of {ttl, ecs} in random order, half of them with a redirect in front, before a last plugin (sometimes behind fallback) scripted per query type (A / AAAA / other: address records, other records, no record, no response, error, error after a response), 1..3 queries per chain (names matching the rules in mixed case or not, A / AAAA / TXT / random type, well-formed and malformed, UDP / TCP / DoH): own ID and question, rcode within the outcomes the statement allows (own outcome, or the selector's empty answer when the preferred type had an address record); a third of the chains are a sub-sequence invoked as a plugin ($sub, which returns) or by jump, followed in the caller by a rule that answers locally (reject n / hosts / black_hole / arbitrary, sometimes only when there is no response yet); chains of redirect / selector / ttl only (alone, or as $sub / jump sub followed by reject n) are replayed on Model.C03Sel; (7) chains of 1..2 redirect (full / domain rules), 1..2 cache (lazy or not, half of them followed by [has_resp]accept), 0..2 of {ttl, ecs}, a third of them with hosts / arbitrary answering for the rules' sources (the sequence goes on with that response), in random order (two thirds with a redirect in front) before the scripted upstream, which leaves an existing response alone (cache hits and local answers travel on through redirects to caches that miss: F16), 2..5 queries per chain for DIFFERENT names of the chain's redirect rules (sources, targets, sometimes mixed case or another name) with one type / class / flags (sometimes CD flipped), alias first and target later and vice versa, UDP / TCP / DoH: own ID and question; a third of the histories with every cache of the chain dumped and loaded again between two queries (restart: dump_file written by Close and read by NewCache; API: GET /dump + POST /load_dump, with or without /flush), after which the same replies are owed; histories over full rules, caches and accept whose upstream always answered are replayed on Model.C03Store (dump + load = the same entries); (8) server.HttpHandler + EntryHandler behind net/http servers on loopback (HTTP/1.1, HTTP/2 over TLS): queries and scripted outcomes of (1) by DoH GET and DoH POST, the POST body with a Content-Length or streamed without one (chunked / no content-length header), written in one piece or in pieces of 1..n bytes, oracle of (1), every case also a line for Model.Handler; (9) chains cache (lazy or not) -> redirect -> cache (mostly lazy) [+ redirect, cache, ttl(max 1..2 s), [has_resp]accept; a quarter in random order] -> [!has_resp] upstream answering with TTL 1 s, 4..6 queries per chain over ~2 s of real time (one name, the other name of the rule 0.3..0.7 s later, again after the older entries expired while the younger ones are alive, then both again; a quarter with random names and gaps), chains run concurrently: fresh hits, expired entries, stale hits of lazy caches refreshed in the background on a copy of a context that may already carry a response (F17), oracle own ID and question only (not timing dependent); (10) chains of 1..4 of {hosts with domain: / full: entries of one address family or both, arbitrary with a record for a queried name, black_hole (one family or both), reject n, cache, prefer_ipv4 / prefer_ipv6, redirect between long names} in front of the scripted upstream, asked 3..6 queries (A / AAAA / other types, with and without OPT) for names of 240..255 wire octets under the entries' zones (labels of 63, mixed case) via UDP / TCP / DoH GET / DoH POST, a quarter of the chains behind the real server.ServeUDP and server.ServeTCP on loopback: the reply is a message a full unpack accepts with the query's ID and question, QR and RA (locally built records and the fake SOA of an empty answer must stay within 255 octets per name); non-trivial = valid query")
}

// overlap03: EntryHandler -> [cache, park] with an injected cache entry; query A (id a) is parked behind the cache with
// its response already set, query B (id b) for the same question runs to completion, then A is released.
func overlap03(r *Run, i int) {
	lazy := r.Rng.Intn(2) == 0
	stale := lazy && r.Rng.Intn(3) != 0
	lazyTTL := 0
	if lazy {
		lazyTTL = 3600
	}
	c := cache.NewCache(&cache.Args{Size: 1024, LazyCacheTTL: lazyTTL}, cache.Opts{})
	defer c.Close()
	name := fmt.Sprintf("ov%d.example.", r.Rng.Intn(1000))
	qtype := []uint16{dns.TypeA, dns.TypeAAAA, dns.TypeTXT}[r.Rng.Intn(3)]
	mkq := func(id uint16) *dns.Msg {
		q := new(dns.Msg)
		q.SetQuestion(name, qtype)
		q.Id = id
		return q
	}
	stored := new(dns.Msg)
	stored.SetReply(mkq(0x7777))
	for k, n := 0, 1+r.Rng.Intn(3); k < n; k++ {
		stored.Answer = append(stored.Answer, &dns.TXT{Hdr: dns.RR_Header{Name: name, Rrtype: dns.TypeTXT, Class: dns.ClassINET, Ttl: 300}, Txt: []string{fmt.Sprint("v", k)}})
	}
	now := time.Now()
	key := cache.VerifGetMsgKey(query_context.NewContext(mkq(1)).Q())
	if stale {
		c.VerifInject(key, stored, now.Add(-2*time.Minute), now.Add(-time.Minute), now.Add(time.Hour))
	} else {
		c.VerifInject(key, stored, now.Add(-2*time.Second), now.Add(4*time.Minute), now.Add(4*time.Minute))
	}
	ida := uint16(r.Rng.Intn(65536))
	idb := ida + 1 + uint16(r.Rng.Intn(65534))
	parked, release := make(chan struct{}), make(chan struct{})
	var once sync.Once
	plugins := map[string]any{}
	m := coremain.NewTestMosdnsWithPlugins(plugins)
	plugins["cache"] = c
	plugins["park"] = sequence.ExecutableFunc(func(ctx context.Context, qCtx *query_context.Context) error {
		if qCtx.R() != nil && qCtx.Q().Id == ida {
			once.Do(func() { close(parked) })
			select {
			case <-release:
			case <-ctx.Done():
			}
		}
		return nil
	})
	sq, err := sequence.NewSequence(sequence.NewBQ(m, m.Logger()), []sequence.RuleArgs{{Exec: "$cache"}, {Exec: "$park"}})
	if err != nil {
		r.Note("overlap chain build failed: " + err.Error())
		return
	}
	h := server_handler.NewEntryHandler(server_handler.EntryHandlerOpts{Entry: sq})
	vias := []string{"udp", "tcp", "doh-post"}
	viaA, viaB := vias[r.Rng.Intn(3)], vias[r.Rng.Intn(3)]
	type res struct {
		p   []byte
		got bool
	}
	ra := make(chan res, 1)
	go func() {
		p, got := deliver03(h, viaA, mkq(ida))
		ra <- res{p, got}
	}()
	select {
	case <-parked:
	case <-time.After(2 * time.Second):
	}
	pb, gotB := deliver03(h, viaB, mkq(idb))
	close(release)
	a := <-ra
	kind := map[bool]string{true: "expired entry kept by lazy cache", false: "fresh entry"}[stale]
	for _, x := range []struct {
		who string
		id  uint16
		p   []byte
		got bool
		via string
	}{{"first (held behind the cache while the second was answered)", ida, a.p, a.got, viaA}, {"second", idb, pb, gotB, viaB}} {
		desc := map[string]any{"chain": "cache(lazy=" + fmt.Sprint(lazy) + ") -> plugin that holds the first query", "cached": kind, "question": fmt.Sprintf("%s type %d", name, qtype),
			"first_query_id": ida, "second_query_id": idb, "which": x.who, "arrived_via": x.via}
		if !x.got {
			r.Fail("a valid query got no reply", desc)
			continue
		}
		rm := new(dns.Msg)
		if err := rm.Unpack(x.p); err != nil {
			r.Fail("the reply does not unpack", desc)
			continue
		}
		desc["reply_id"] = rm.Id
		if rm.Id != x.id {
			r.Fail("the reply does not carry the query's ID (two overlapping queries for one cached question)", desc)
		}
		if len(rm.Question) != 1 || rm.Question[0].Name != name || rm.Question[0].Qtype != qtype || rm.Question[0].Qclass != dns.ClassINET || !rm.Response || !rm.RecursionAvailable {
			r.Fail("the reply does not carry the query's question unchanged with QR and RA set", desc)
		}
	}
	r.Eval(fmt.Sprintf("overlap/%d/%v/%v", i, lazy, stale), true)
	r.Count("overlap:" + kind)
}

// ---- real plugin chains

type chain03 struct {
	seq                   *sequence.Sequence
	up                    *upstream03
	desc                  []string
	close                 []func()
	ecsForward, ecsPreset bool
	fwdCodes              map[uint16]bool
}

func buildChain03(r *Run, c15 bool) (*chain03, error) {
	plugins := map[string]any{}
	m := coremain.NewTestMosdnsWithPlugins(plugins)
	ch := &chain03{up: &upstream03{}, fwdCodes: map[uint16]bool{}}
	plugins["up"] = ch.up
	var rules []sequence.RuleArgs
	kinds := []string{"cache", "redirect", "hosts", "black_hole", "arbitrary", "reject", "ttl", "ecs", "prefer_ipv4", "fallback", "forward_edns0opt", "cache", "redirect"}
	if c15 {
		kinds = []string{"cache", "ttl", "ecs", "forward_edns0opt", "cache", "ecs", "forward_edns0opt"}
	}
	n := 1 + r.Rng.Intn(4)
	used := map[string]bool{}
	for i := 0; i < n; i++ {
		k := kinds[r.Rng.Intn(len(kinds))]
		tag := fmt.Sprintf("%s%d", k, i)
		var ra sequence.RuleArgs
		switch k {
		case "cache":
			lazy := 0
			if r.Rng.Intn(3) == 0 {
				lazy = 3600
			}
			c := cache.NewCache(&cache.Args{Size: 1024, LazyCacheTTL: lazy}, cache.Opts{})
			ch.close = append(ch.close, func() { c.Close() })
			plugins[tag] = c
		case "redirect":
			rule := []string{"alias.test target.test", "www.example.com host.local", "full:a a.", "domain:example.com alias.test"}[r.Rng.Intn(4)]
			p, err := redirect.NewRedirect(&redirect.Args{Rules: []string{rule}})
			if err != nil {
				return nil, err
			}
			plugins[tag] = p
			k += "(" + rule + ")"
		case "hosts":
			p, err := hosts.NewHosts(&hosts.Args{Entries: []string{"host.local 10.1.1.1 fd00::1", "target.test 10.2.2.2"}})
			if err != nil {
				return nil, err
			}
			plugins[tag] = p
		case "black_hole":
			if used["match-all-local"] {
				continue
			}
			p, err := black_hole.NewBlackHole([]string{"127.0.0.1", "::1"})
			if err != nil {
				return nil, err
			}
			plugins[tag] = p
			ra.Matches = []string{"$isBlocked"}
			plugins["isBlocked"] = sequence.MatchFunc(func(_ context.Context, q *query_context.Context) (bool, error) {
				return strings.EqualFold(q.QQuestion().Name, "blocked.example."), nil
			})
		case "arbitrary":
			p, err := arbitrary.NewArbitrary(&arbitrary.Args{Rules: []string{"a. 60 IN A 192.0.2.77", "alias.test. 60 IN TXT \"hello\""}})
			if err != nil {
				return nil, err
			}
			plugins[tag] = p
		case "reject":
			ra.Exec = fmt.Sprintf("reject %d", []int{2, 3, 5}[r.Rng.Intn(3)])
			ra.Matches = []string{"$isBlocked"}
			plugins["isBlocked"] = sequence.MatchFunc(func(_ context.Context, q *query_context.Context) (bool, error) {
				return strings.EqualFold(q.QQuestion().Name, "blocked.example."), nil
			})
		case "ttl":
			plugins[tag] = ttl.NewTTL(0, uint32(r.Rng.Intn(100)), uint32(100+r.Rng.Intn(1000)))
		case "ecs":
			a := ecs_handler.Args{Forward: r.Rng.Intn(2) == 0}
			if r.Rng.Intn(2) == 0 {
				a.Preset = "198.51.100.7"
				ch.ecsPreset = true
			}
			if a.Forward {
				ch.ecsForward = true
			}
			p, err := ecs_handler.NewHandler(a)
			if err != nil {
				return nil, err
			}
			plugins[tag] = p
			k += fmt.Sprintf("(forward=%v,preset=%v)", a.Forward, a.Preset != "")
		case "prefer_ipv4":
			p := dual_selector.NewPreferIpv4(sequence.NewBQ(m, m.Logger()))
			ch.close = append(ch.close, func() { p.Close() })
			plugins[tag] = p
		case "fallback":
			sec := &upstream03{out: outcome03{kind: "ans", rcode: 0, nAns: 1}}
			plugins[tag+"sec"] = sec
			p, err := fallback.Init(coremain.NewBP(tag, m), &fallback.Args{Primary: "up", Secondary: tag + "sec", Threshold: 200, AlwaysStandby: r.Rng.Intn(2) == 0})
			if err != nil {
				return nil, err
			}
			plugins[tag] = p
		case "forward_edns0opt":
			codes := []uint16{dns.EDNS0COOKIE, 65001}
			var cs []string
			for _, c := range codes {
				if r.Rng.Intn(2) == 0 {
					cs = append(cs, fmt.Sprint(c))
					ch.fwdCodes[c] = true
				}
			}
			p, err := forward_edns0opt.QuickSetup(nil, strings.Join(cs, " "))
			if err != nil {
				return nil, err
			}
			plugins[tag] = p
			k += "(" + strings.Join(cs, ",") + ")"
		}
		if ra.Exec == "" {
			ra.Exec = "$" + tag
		}
		rules = append(rules, ra)
		ch.desc = append(ch.desc, k)
		if r.Rng.Intn(6) == 0 && !c15 {
			rules = append(rules, sequence.RuleArgs{Matches: []string{"$hasResp"}, Exec: "accept"})
			plugins["hasResp"] = sequence.MatchFunc(func(_ context.Context, q *query_context.Context) (bool, error) { return q.R() != nil, nil })
			ch.desc = append(ch.desc, "[has_resp]accept")
		}
	}
	rules = append(rules, sequence.RuleArgs{Exec: "$up"})
	ch.desc = append(ch.desc, "upstream")
	sq, err := sequence.NewSequence(sequence.NewBQ(m, m.Logger()), rules)
	if err != nil {
		return nil, err
	}
	ch.seq = sq
	return ch, nil
}

func runChain03(r *Run, i int, c15 bool) {
	ch, err := buildChain03(r, c15)
	if err != nil {
		r.Note("chain build failed: " + err.Error())
		return
	}
	defer func() {
		for _, f := range ch.close {
			f()
		}
	}()
	h := server_handler.NewEntryHandler(server_handler.EntryHandlerOpts{Entry: ch.seq})
	vias := []string{"udp", "tcp", "doh-post"}
	nqs := 1 + r.Rng.Intn(3)
	base := r.genQ03()
	for k := 0; k < nqs; k++ {
		q := base
		if k > 0 && r.Rng.Intn(2) == 0 {
			q = r.genQ03()
			q.name, q.qtype = base.name, base.qtype // same question again: cache hits, dual_selector memory
		}
		if c15 {
			q.qr, q.nq, q.nAns, q.nNs, q.opcode = false, 1, 0, 0, 0
			if len(q.extras) > 1 {
				q.extras = q.extras[:1]
			}
		}
		out := outcome03{kind: []string{"ans", "ans", "ans", "none", "err"}[r.Rng.Intn(5)], rcode: []int{0, 0, 3, 2}[r.Rng.Intn(4)], nAns: 1 + r.Rng.Intn(3)}
		if c15 && r.Rng.Intn(3) != 0 {
			out.kind = "ans"
		}
		out.optFirst = r.Rng.Intn(3) == 0
		if r.Rng.Intn(2) == 0 {
			out.hasUp = true
			for _, c := range []uint16{dns.EDNS0SUBNET, dns.EDNS0COOKIE, dns.EDNS0PADDING, 65001} {
				if r.Rng.Intn(2) == 0 {
					out.upOpt = append(out.upOpt, c)
				}
			}
		}
		if r.Rng.Intn(5) == 0 {
			out.nAns, out.ansSize = 20+r.Rng.Intn(20), 200
		}
		ch.up.mu.Lock()
		ch.up.out = out
		ch.up.seen = nil
		ch.up.mu.Unlock()
		via := vias[r.Rng.Intn(len(vias))]
		payload, got := deliver03(h, via, q.msg())
		desc := map[string]any{"chain": strings.Join(ch.desc, " -> "), "query": q.op(), "query_no": k + 1, "arrived_via": via, "upstream_outcome": out.op()}
		key := strings.Join(ch.desc, ">") + "|" + q.op() + "|" + out.op() + "|" + via
		if !c15 {
			oracle03(r, q, via, payload, got, desc, -1, -1)
			r.Eval(key, q.valid())
			r.Count("chain-query")
			for _, d := range ch.desc {
				r.Count("plugin:" + strings.SplitN(d, "(", 2)[0])
			}
			continue
		}
		// ---- C15 oracle
		r.Eval(key, true)
		r.Count("chain-query")
		for _, d := range ch.desc {
			r.Count("plugin:" + strings.SplitN(d, "(", 2)[0])
		}
		co := q.clientOpt()
		ch.up.mu.Lock()
		seen := ch.up.seen
		ch.up.mu.Unlock()
		for _, uq := range seen {
			nopt := 0
			for _, rr := range uq.Extra {
				if o, ok := rr.(*dns.OPT); ok {
					nopt++
					if o.Do() {
						r.Fail("the query sent upstream carries the client's DO bit", desc)
					}
					for _, op := range o.Option {
						c := op.Option()
						fromClient := false
						if co != nil {
							for _, cc := range co.codes {
								if cc == c {
									fromClient = true
								}
							}
						}
						allowed := (c == dns.EDNS0SUBNET && (ch.ecsPreset || (ch.ecsForward && fromClient))) || (ch.fwdCodes[c] && fromClient)
						if !allowed {
							desc["option_code"] = c
							r.Fail("the query sent upstream carries an EDNS option that no plugin forwards explicitly", desc)
						}
					}
				}
			}
			if nopt != 1 {
				desc["upstream_query_opt_count"] = nopt
				r.Fail("the query sent upstream does not carry exactly one OPT record", desc)
			}
		}
		replyOpt15(r, q, payload, got, desc, func(c uint16) bool { return (c == dns.EDNS0SUBNET && ch.ecsForward) || ch.fwdCodes[c] })
	}
}

// replyOpt15: exactly one OPT iff the client sent one, DO mirrored, only allowed options.
func replyOpt15(r *Run, q q03, payload []byte, got bool, desc map[string]any, allowed func(uint16) bool) {
	if !got {
		// an extended rcode cannot be expressed without an OPT record: for a client that sent none, sending nothing is
		// the one outcome that does not hand it an OPT (the model: `packable`; C03 excludes this input)
		if uo, _ := desc["upstream_outcome"].(string); q.clientOpt() == nil && (strings.HasPrefix(uo, "ans:16:") || strings.HasPrefix(uo, "ans:23:")) {
			r.Count("ext-rcode-for-non-edns-client:dropped")
			return
		}
		r.Fail("a well-formed query received no reply", desc)
		return
	}
	p, perr := parse03(payload)
	if perr != nil {
		r.Fail("the reply is not a parsable DNS message", desc)
		return
	}
	desc["reply"] = p.show(q.name)
	co := q.clientOpt()
	want := 0
	if co != nil {
		want = 1
	}
	if p.nOpt != want {
		r.Fail("the reply must carry exactly one OPT iff the client's query had one", desc)
		return
	}
	if co != nil {
		if p.do != co.do {
			r.Fail("the reply's OPT does not mirror the client's DO bit", desc)
		}
		for _, c := range p.codes {
			if !allowed(c) {
				desc["option_code"] = c
				r.Fail("the reply carries an upstream EDNS option that no plugin forwards explicitly", desc)
			}
		}
	}
}

func runC15(r *Run) {
	// (1) handler + scripted upstream: model vs implementation
	n := r.N(2000, 50000)
	for i := 0; i < n; i++ {
		q := r.genQ03()
		q.qr, q.nq, q.nAns, q.nNs = false, 1, 0, 0
		if len(q.extras) > 1 {
			q.extras = q.extras[:1]
		}
		out := outcome03{kind: []string{"ans", "ans", "ans", "none", "err"}[r.Rng.Intn(5)], rcode: []int{0, 3, 2}[r.Rng.Intn(3)], nAns: r.Rng.Intn(3)}
		if q.clientOpt() != nil && r.Rng.Intn(6) == 0 {
			out.rcode = 16
		}
		extNoOpt := q.clientOpt() == nil && r.Rng.Intn(10) == 0
		if extNoOpt {
			// an extended rcode (BADVERS, BADCOOKIE, ...) from upstream for a client that does not speak EDNS0: whatever
			// the server does, it must not send that client an OPT record
			out.kind, out.rcode = "ans", []int{16, 23}[r.Rng.Intn(2)]
		}
		if r.Rng.Intn(3) != 0 || extNoOpt {
			out.hasUp = true
			for _, c := range []uint16{dns.EDNS0SUBNET, dns.EDNS0COOKIE, dns.EDNS0PADDING, 65001} {
				if r.Rng.Intn(2) == 0 {
					out.upOpt = append(out.upOpt, c)
				}
			}
			if len(out.upOpt) == 0 {
				out.upOpt = []uint16{dns.EDNS0PADDING}
			}
		}
		out.optFirst = r.Rng.Intn(3) == 0
		via := []string{"udp", "tcp"}[r.Rng.Intn(2)]
		up := &upstream03{out: out}
		h := server_handler.NewEntryHandler(server_handler.EntryHandlerOpts{Entry: up})
		// the client's OPT with any VERSION / extended-rcode byte / Z bits (c15.go): it is an OPT all the same
		qm, hd := q.msg(), hdr15{}
		if q.clientOpt() != nil {
			hd = genHdr15(r)
			for _, rr := range qm.Extra {
				if o, ok := rr.(*dns.OPT); ok {
					hd.apply(o)
				}
			}
			if hd.ver != 0 {
				r.Count("handler:client-opt-version!=0")
			}
		}
		payload, got := deliver03(h, via, qm)
		replyOpt15(r, q, payload, got, map[string]any{"query": q.op(), "client_opt_header": hd.String(), "arrived_via": via, "upstream_outcome": out.op(), "upstream_opt_followed_by_glue": out.optFirst}, func(uint16) bool { return false })
		implOut := "drop"
		if got {
			if p, err := parse03(payload); err == nil {
				implOut = p.show(q.name)
			} else {
				implOut = "unparsable"
			}
		}
		udp := "0"
		if via == "udp" {
			udp = "1"
		}
		if hd.zero() {
			r.Line(fmt.Sprintf("reply %s %s %s", udp, q.op(), out.op()), implOut)
		} else { // Driver.C15: the same line with the header fields of the client's OPT in front
			r.Line(fmt.Sprintf("replyx %d %d %d %s %s %s", hd.ver, hd.ext, hd.z, udp, q.op(), out.op()), implOut)
		}
		r.Eval(q.op()+hd.op()+"|"+out.op()+"|"+via, q.clientOpt() != nil || out.hasUp)
		r.Count("handler:" + via)
		// upstream side
		for _, uq := range up.seen {
			nopt := 0
			for _, rr := range uq.Extra {
				if o, ok := rr.(*dns.OPT); ok {
					nopt++
					if len(o.Option) != 0 || o.Do() {
						r.Fail("without a forwarding plugin the upstream query's OPT must be fresh (no options, DO clear)", map[string]any{"query": q.op()})
					}
				}
			}
			if nopt != 1 {
				r.Fail("the query sent upstream does not carry exactly one OPT record", map[string]any{"query": q.op(), "count": nopt})
			}
		}
	}
	// (2) chains of cache / ttl / ecs / forward_edns0opt
	m := r.N(1500, 40000)
	for i := 0; i < m; i++ {
		runChain03(r, i, true)
	}
	// (3) forked sub-queries (what fallback, dual_selector and the lazy cache update do with Context.Copy)
	for i, nf := 0, r.N(60, 1500); i < nf; i++ {
		fork15(r, i)
	}
	// (4) successive exchanges for one question over one or two caches, options traceable to their exchange (c15.go)
	for i, nl := 0, r.N(400, 12000); i < nl; i++ {
		cacheLife15(r, i)
	}
	// (5) option-forwarding plugins inside plugins that run sub-queries on copies of the context (c15fork.go)
	for i, nk := 0, r.N(240, 6000); i < nk; i++ {
		forkOpts15(r, i)
	}
	keys := []string{}
	for k := range r.meta.Dist {
		keys = append(keys, k)
	}
	sort.Strings(keys)
	r.Finish("client queries without / with one OPT (UDP size {0..65535}, DO, options from {client-subnet, cookie, padding, 65001}; half of the OPTs with VERSION in {1, 2, 255, any}, extended-rcode byte and Z bits set: handler alone and (4)) x upstream replies without / with OPT (DO set, any of those options, extended rcode) through the handler alone and through random chains of 1..4 of {cache, ttl, ecs_handler(forward/preset), forward_edns0opt(codes)}, each chain queried 1..3 times (cache hits included); the scripted upstream records the query it is sent; (3) forked sub-queries: a copy of the query context whose OPT is then edited, and fallback with an EDNS0-forwarding plugin in the primary branch only in front of a failing upstream (the secondary upstream records its query); (4) 2..5 successive exchanges for one question (UDP/TCP/DoH) through chains of 1..4 of {forward_edns0opt(codes), ecs_handler, ttl} around one or two caches (lazy or not), every option with a payload of its own: reply and upstream query may only carry options of this very exchange that a plugin forwards explicitly, the upstream's client-subnet option only for a client that sent one (ecs_handler with forward / preset / send), the cache entries (read back after each exchange, and through a dump) never contain an OPT; single-cache chains are replayed on the model (Model.C15.transact); (5) one exchange through forwarding plugins inside both branches of fallback, below dual_selector and below a lazy cache holding an expired entry, every upstream call with option payloads and a marker record of its own, the reply packed only after every started sub-query has returned (gated: secondary before primary with always_standby, slow primary after the secondary): options in the reply only from the upstream answer the reply was made from, forwarded by a plugin on its path, not more often than there are such plugins; replayed on Model.C15.fork when nothing precedes the forking plugin; non-trivial = client or upstream OPT present")
}

// fork15: (a) a copied context's query OPT is independent of the original's; (b) fallback{primary: [forwarding plugin,
// failing upstream], secondary: upstream}: the secondary's query carries one fresh OPT and nothing of the client's.
func fork15(r *Run, i int) {
	q := r.genQ03()
	q.qr, q.nq, q.nAns, q.nNs, q.opcode = false, 1, 0, 0, 0
	q.extras = []any{opt03{size: uint16(512 + r.Rng.Intn(4000)), do: r.Rng.Intn(2) == 0, codes: []uint16{dns.EDNS0SUBNET, dns.EDNS0COOKIE}}}
	// ---- (a)
	qc := query_context.NewContext(q.msg())
	cp := qc.Copy()
	cp.QOpt().Option = append(cp.QOpt().Option, &dns.EDNS0_COOKIE{Code: dns.EDNS0COOKIE, Cookie: "0102030405060708"})
	cp.QOpt().SetDo()
	cp.Q().Question[0].Name = "changed.example."
	if o := qc.QOpt(); o == nil || len(o.Option) != 0 || o.Do() || qc.Q().Question[0].Name == "changed.example." {
		r.Fail("a forked sub-query shares its question or OPT record with the query it was copied from: what a plugin adds in one branch reaches the upstream of another", map[string]any{"query": q.op()})
	}
	r.Eval("fork-copy|"+q.op(), true)
	r.Count("fork:context-copy")
	// ---- (b)
	plugins := map[string]any{}
	m := coremain.NewTestMosdnsWithPlugins(plugins)
	upA, upB := &upstream03{out: outcome03{kind: "err"}}, &upstream03{out: outcome03{kind: "ans", nAns: 1}}
	plugins["upA"], plugins["upB"] = upA, upB
	var fwd any
	which := "ecs_handler(forward)"
	if r.Rng.Intn(2) == 0 {
		p, err := ecs_handler.NewHandler(ecs_handler.Args{Forward: true})
		if err != nil {
			r.Note("fork15: " + err.Error())
			return
		}
		fwd = p
	} else {
		p, err := forward_edns0opt.QuickSetup(nil, "8 10")
		if err != nil {
			r.Note("fork15: " + err.Error())
			return
		}
		fwd, which = p, "forward_edns0opt(8,10)"
	}
	plugins["fwd"] = fwd
	prim, err := sequence.NewSequence(sequence.NewBQ(m, m.Logger()), []sequence.RuleArgs{{Exec: "$fwd"}, {Exec: "$upA"}})
	if err != nil {
		r.Note("fork15: " + err.Error())
		return
	}
	plugins["prim"] = prim
	standby := r.Rng.Intn(2) == 0
	fb, err := fallback.Init(coremain.NewBP("fb", m), &fallback.Args{Primary: "prim", Secondary: "upB", Threshold: 300, AlwaysStandby: standby})
	if err != nil {
		r.Note("fork15: " + err.Error())
		return
	}
	h := server_handler.NewEntryHandler(server_handler.EntryHandlerOpts{Entry: fb.(sequence.Executable)})
	via := []string{"udp", "tcp"}[r.Rng.Intn(2)]
	payload, got := deliver03(h, via, q.msg())
	desc := map[string]any{"chain": "fallback{primary: [" + which + ", failing upstream], secondary: upstream B}", "always_standby": standby, "query": q.op(), "arrived_via": via}
	replyOpt15(r, q, payload, got, desc, func(uint16) bool { return false })
	upB.mu.Lock()
	seen := upB.seen
	upB.mu.Unlock()
	if len(seen) == 0 && !standby {
		r.Fail("the secondary upstream was not asked although the primary failed", desc)
	}
	for _, uq := range seen {
		nopt := 0
		for _, rr := range uq.Extra {
			if o, ok := rr.(*dns.OPT); ok {
				nopt++
				if len(o.Option) != 0 || o.Do() {
					var cs []uint16
					for _, op := range o.Option {
						cs = append(cs, op.Option())
					}
					desc["options_seen_by_secondary_upstream"] = cs
					r.Fail("the query sent to an upstream whose branch has no forwarding plugin carries the client's EDNS0 options or DO bit", desc)
				}
			}
		}
		if nopt != 1 {
			r.Fail("the query sent upstream does not carry exactly one OPT record", desc)
		}
	}
	r.Eval("fork-fallback|"+q.op()+"|"+which, true)
	r.Count("fork:fallback")
}
