//go:build pC03 || pC15 || pall

package main

import (
	"context"
	"fmt"
	"strings"
	"sync"
	"time"

	"github.com/IrineSistiana/mosdns/v5/coremain"
	"github.com/IrineSistiana/mosdns/v5/pkg/query_context"
	"github.com/IrineSistiana/mosdns/v5/pkg/server_handler"
	"github.com/IrineSistiana/mosdns/v5/plugin/executable/arbitrary"
	"github.com/IrineSistiana/mosdns/v5/plugin/executable/black_hole"
	"github.com/IrineSistiana/mosdns/v5/plugin/executable/dual_selector"
	"github.com/IrineSistiana/mosdns/v5/plugin/executable/ecs_handler"
	"github.com/IrineSistiana/mosdns/v5/plugin/executable/hosts"
	"github.com/IrineSistiana/mosdns/v5/plugin/executable/redirect"
	"github.com/IrineSistiana/mosdns/v5/plugin/executable/sequence"
	"github.com/IrineSistiana/mosdns/v5/plugin/executable/sequence/fallback"
	"github.com/IrineSistiana/mosdns/v5/plugin/executable/ttl"
	"github.com/miekg/dns"
)

// C03, section (6): plugins that REWRITE the query of the context (redirect: the question name, restored when the rest
// of the chain returns) composed with plugins that REPLACE the context (the dual-stack selector: on its pass paths the
// context the handler created is overwritten by the deep copy on which the client's query was run), in front of a last
// plugin whose outcome depends on the TYPE of the query it is handed (so that the selector's reference query and the
// client's own query can end differently: address record / no record / no response / error).
//
// Oracle (from the property statement): whatever the chain does to the context, a well-formed query gets one reply with
// its own ID and question (oracle03), and its rcode is one of the outcomes the statement allows for what the last plugin
// was scripted to do: the plugins' answer, SERVFAIL after an error, REFUSED after no answer. For a query of the type the
// selector does not prefer that is the outcome of the query itself or - whenever the preferred type had an address
// record in this chain's life - the selector's own empty answer (rcode 0); the set of both is accepted, so the oracle
// does not depend on which of the selector's goroutines wins.
//
// A third of the chains are a sequence of their own, invoked by a caller sequence as a plugin (`$sub`: it RETURNS) or by
// `jump sub`, whose next rule answers locally (reject n / hosts / black_hole / arbitrary, sometimes only when there is
// no response yet): that answer is built from the query the context holds after the chain has returned (finding F13).
//
// Chains made only of redirect / selector / ttl whose outcome does not depend on that race are also lines for the model
// driver (`sel ...`, and `selsub ...` for $sub / jump sub followed by `reject n`; Model.C03Sel: the received message object and the context's query as two heap objects).

// typed03 is the last plugin: one scripted outcome per query type.
type typed03 struct {
	mu     sync.Mutex
	byType map[uint16]outcome03
	other  outcome03
}

func (t *typed03) outFor(qtype uint16) outcome03 {
	t.mu.Lock()
	defer t.mu.Unlock()
	if o, ok := t.byType[qtype]; ok {
		return o
	}
	return t.other
}

func (t *typed03) Exec(ctx context.Context, qCtx *query_context.Context) error {
	return (&upstream03{out: t.outFor(qCtx.Q().Question[0].Qtype)}).Exec(ctx, qCtx)
}

type rule03 struct{ kind, pattern, target string }

var rules03 = []rule03{
	{"full", "alias.test", "target.test."},
	{"full", "www.example.com", "host.local."},
	{"domain", "example.com", "alias.test."},
	{"full", "target.test", "host.local."},
	{"full", "a", "a."},
}

type selChain03 struct {
	seq        *sequence.Sequence
	up         *typed03
	desc       []string
	model      []string // the chain for the model driver, outside in; nil: not replayed
	prefer     uint16
	rcodeOK    bool // the allowed rcodes can be derived from the scripted outcomes
	mayBlock   bool // the preferred type had an address record at some time in this chain's life
	close      []func()
	nested     string // "": one sequence; "call": the chain is a sequence invoked as a plugin ($sub), "jump": by `jump sub`
	tail       string // nested: the caller's next rule
	hint       string // a name the outermost redirect rewrites
	redirFirst bool   // a redirect in front of the (first) selector
	rejectRc   int    // nested: >= 0 when the tail is an unconditional `reject n`
}

func buildSel03(r *Run) (*selChain03, error) {
	plugins := map[string]any{}
	m := coremain.NewTestMosdnsWithPlugins(plugins)
	ch := &selChain03{up: &typed03{byType: map[uint16]outcome03{}}, rcodeOK: true, model: []string{}}
	plugins["up"] = ch.up
	type elem struct {
		kind string
		rule rule03
	}
	var els []elem
	nested := r.Rng.Intn(3) == 0 // the chain becomes a sub-sequence with a caller, see below
	nRed := []int{1, 1, 2, 0}[r.Rng.Intn(4)]
	if nested && nRed == 0 {
		nRed = 1
	}
	for i := 0; i < nRed; i++ {
		els = append(els, elem{kind: "redirect", rule: rules03[r.Rng.Intn(len(rules03))]})
	}
	for i, nf := 0, r.Rng.Intn(3); i < nf; i++ {
		els = append(els, elem{kind: []string{"ttl", "ttl", "ecs"}[r.Rng.Intn(3)]})
	}
	sel := []string{"prefer_ipv4", "prefer_ipv6"}[r.Rng.Intn(2)]
	els = append(els, elem{kind: sel})
	if r.Rng.Intn(10) == 0 { // two selectors: which rcode is right is not derived here, own ID and question still are
		els = append(els, elem{kind: []string{"prefer_ipv4", "prefer_ipv6"}[r.Rng.Intn(2)]})
		ch.rcodeOK, ch.model = false, nil
	}
	r.Rng.Shuffle(len(els), func(i, j int) { els[i], els[j] = els[j], els[i] })
	if nRed > 0 && (r.Rng.Intn(2) == 0 || nested && r.Rng.Intn(4) != 0) { // a redirect in front of everything
		for i, e := range els {
			if e.kind == "redirect" {
				copy(els[1:i+1], els[:i])
				els[0] = e
				break
			}
		}
	}
	ch.prefer = dns.TypeA
	for _, e := range els {
		if e.kind == "redirect" { // a name the outermost redirect has a rule for
			ch.hint = map[string][]string{"alias.test": {"alias.test.", "ALIAS.Test."}, "www.example.com": {"www.example.com.", "WwW.ExAmPlE.CoM."},
				"example.com": {"sub.Example.com.", "example.com."}, "target.test": {"target.test.", "Target.TEST."}, "a": {"a.", "A."}}[e.rule.pattern][r.Rng.Intn(2)]
			break
		}
	}
	for _, e := range els {
		if strings.HasPrefix(e.kind, "prefer_") {
			break
		}
		ch.redirFirst = ch.redirFirst || e.kind == "redirect"
	}
	var rules []sequence.RuleArgs
	for i, e := range els {
		tag := fmt.Sprintf("%s%d", e.kind, i)
		d := e.kind
		switch e.kind {
		case "redirect":
			pat := e.rule.pattern
			if e.rule.kind == "domain" {
				pat = "domain:" + pat
			}
			p, err := redirect.NewRedirect(&redirect.Args{Rules: []string{pat + " " + e.rule.target}})
			if err != nil {
				return nil, err
			}
			plugins[tag] = p
			d += "(" + pat + " " + e.rule.target + ")"
			if ch.model != nil {
				ch.model = append(ch.model, fmt.Sprintf("r:%s:%s:%s", e.rule.kind[:1], hx([]byte(e.rule.pattern)), hx([]byte(e.rule.target))))
			}
		case "ttl":
			plugins[tag] = ttl.NewTTL(0, uint32(r.Rng.Intn(100)), uint32(100+r.Rng.Intn(1000)))
		case "ecs":
			p, err := ecs_handler.NewHandler(ecs_handler.Args{Forward: r.Rng.Intn(2) == 0})
			if err != nil {
				return nil, err
			}
			plugins[tag] = p
			ch.model = nil
		case "prefer_ipv4", "prefer_ipv6":
			var p *dual_selector.Selector
			if e.kind == "prefer_ipv4" {
				p = dual_selector.NewPreferIpv4(sequence.NewBQ(m, m.Logger()))
			} else {
				p = dual_selector.NewPreferIpv6(sequence.NewBQ(m, m.Logger()))
			}
			ch.close = append(ch.close, func() { p.Close() })
			plugins[tag] = p
			if e.kind == sel {
				ch.prefer = map[string]uint16{"prefer_ipv4": dns.TypeA, "prefer_ipv6": dns.TypeAAAA}[sel]
			}
			if ch.model != nil {
				ch.model = append(ch.model, fmt.Sprintf("s:%d", map[string]uint16{"prefer_ipv4": dns.TypeA, "prefer_ipv6": dns.TypeAAAA}[e.kind]))
			}
		}
		rules = append(rules, sequence.RuleArgs{Exec: "$" + tag})
		ch.desc = append(ch.desc, d)
	}
	if r.Rng.Intn(6) == 0 { // the last plugin behind fallback (its branches run on copies of the context)
		sec := &upstream03{out: outcome03{kind: "ans", rcode: 0, nAns: 1}}
		plugins["sec"] = sec
		p, err := fallback.Init(coremain.NewBP("fb", m), &fallback.Args{Primary: "up", Secondary: "sec", Threshold: 200, AlwaysStandby: r.Rng.Intn(2) == 0})
		if err != nil {
			return nil, err
		}
		plugins["fb"] = p
		rules = append(rules, sequence.RuleArgs{Exec: "$fb"})
		ch.desc = append(ch.desc, "fallback{typed upstream | upstream}")
		ch.rcodeOK, ch.model = false, nil
	} else {
		rules = append(rules, sequence.RuleArgs{Exec: "$up"})
		ch.desc = append(ch.desc, "typed upstream")
	}
	ch.rejectRc = -1
	if nested {
		// The chain is a sequence of its own which RETURNS to its caller (invoked as a plugin: `exec: $sub`) or whose end
		// continues with the caller's rest (`jump sub`); the caller's next rule answers locally - from the query the
		// context holds at that moment (F13: behind redirect + selector that was a copy still carrying the redirect target).
		sub, err := sequence.NewSequence(sequence.NewBQ(m, m.Logger()), rules)
		if err != nil {
			return nil, err
		}
		plugins["sub"] = sub
		ch.nested = []string{"call", "call", "jump"}[r.Rng.Intn(3)]
		call := sequence.RuleArgs{Exec: "$sub"}
		if ch.nested == "jump" {
			call = sequence.RuleArgs{Exec: "jump sub"}
		}
		var tail sequence.RuleArgs
		switch r.Rng.Intn(5) {
		case 0, 1:
			ch.rejectRc = []int{2, 3, 5}[r.Rng.Intn(3)]
			tail.Exec = fmt.Sprintf("reject %d", ch.rejectRc)
		case 2:
			p, err := hosts.NewHosts(&hosts.Args{Entries: []string{"alias.test 10.0.0.1 fd00::1", "target.test 10.0.0.2 fd00::2", "host.local 10.0.0.3 fd00::3",
				"domain:example.com 10.0.0.4 fd00::4", "a 10.0.0.5 fd00::5", "other.test 10.0.0.6 fd00::6"}})
			if err != nil {
				return nil, err
			}
			plugins["hosts"] = p
			tail.Exec = "$hosts"
		case 3:
			p, err := black_hole.NewBlackHole([]string{"127.0.0.1", "::1"})
			if err != nil {
				return nil, err
			}
			plugins["black_hole"] = p
			tail.Exec = "$black_hole"
		case 4:
			p, err := arbitrary.NewArbitrary(&arbitrary.Args{Rules: []string{"alias.test. 60 IN TXT \"alias\"", "target.test. 60 IN TXT \"target\"", "host.local. 60 IN TXT \"host\"",
				"www.example.com. 60 IN TXT \"www\"", "a. 60 IN TXT \"a\""}})
			if err != nil {
				return nil, err
			}
			plugins["arbitrary"] = p
			tail.Exec = "$arbitrary"
		}
		ch.tail = tail.Exec
		if r.Rng.Intn(3) == 0 { // only when the chain left no response
			plugins["hasResp"] = sequence.MatchFunc(func(_ context.Context, q *query_context.Context) (bool, error) { return q.R() != nil, nil })
			tail.Matches = []string{"!$hasResp"}
			ch.tail = "[!has_resp]" + ch.tail
			ch.rejectRc = -1
		}
		if ch.rejectRc < 0 {
			ch.rcodeOK, ch.model = false, nil
		}
		ch.desc = []string{map[string]string{"call": "$sub", "jump": "jump sub"}[ch.nested] + "{" + strings.Join(ch.desc, " -> ") + "}", ch.tail}
		rules = []sequence.RuleArgs{call, tail}
	}
	sq, err := sequence.NewSequence(sequence.NewBQ(m, m.Logger()), rules)
	if err != nil {
		return nil, err
	}
	ch.seq = sq
	return ch, nil
}

func (r *Run) genSelOut03() outcome03 {
	out := outcome03{kind: []string{"ans", "ans", "none", "err", "errresp"}[r.Rng.Intn(5)], rcode: []int{0, 0, 0, 3, 2}[r.Rng.Intn(5)], nAns: r.Rng.Intn(3)}
	if r.Rng.Intn(6) == 0 {
		out.nAns, out.ansSize = 1+r.Rng.Intn(3), 1+r.Rng.Intn(60) // records, but no address record
	}
	if r.Rng.Intn(3) == 0 {
		out.hasUp = true
		out.upOpt = []uint16{dns.EDNS0COOKIE}
	}
	return out
}

// selOp03: the outcome as the model driver reads it: `ans:<rcode>:<n>:<a|t>:<upstream OPT codes|->` (a: address records
// of the query's type, t: TXT records).
func selOp03(o outcome03) string {
	if o.kind != "ans" {
		return o.op()
	}
	up := "-"
	if o.hasUp {
		up = codesOp03(o.upOpt)
	}
	return fmt.Sprintf("ans:%d:%d:%s:%s", o.rcode, o.nAns, map[bool]string{true: "t", false: "a"}[o.ansSize > 0], up)
}

func simpleName03(s string) bool {
	for _, c := range []byte(s) {
		if !(c >= 'a' && c <= 'z' || c >= 'A' && c <= 'Z' || c >= '0' && c <= '9' || c == '-' || c == '_' || c == '.') {
			return false
		}
	}
	return len(s) > 0 && !strings.Contains(s, "..")
}

func selChain03Run(r *Run, i int) {
	ch, err := buildSel03(r)
	if err != nil {
		r.Note("selector chain build failed: " + err.Error())
		return
	}
	defer func() {
		for _, f := range ch.close {
			f()
		}
	}()
	h := server_handler.NewEntryHandler(server_handler.EntryHandlerOpts{Entry: ch.seq})
	vias := []string{"udp", "tcp", "doh-post", "doh-get"}
	names := []string{"alias.test.", "ALIAS.Test.", "www.example.com.", "WwW.ExAmPlE.CoM.", "sub.Example.com.", "example.com.", "target.test.", "a.", "host.local.", "other.test.", r.Name()}
	baseName := names[r.Rng.Intn(len(names))]
	if ch.hint != "" && r.Rng.Intn(3) != 0 {
		baseName = ch.hint
	}
	for k, nqs := 0, 1+r.Rng.Intn(3); k < nqs; k++ {
		q := r.genQ03()
		if r.Rng.Intn(5) != 0 {
			q.name = baseName // the same name again: the selector remembers names whose preferred type has a record
			if r.Rng.Intn(4) == 0 {
				q.name = names[r.Rng.Intn(len(names))]
			}
		}
		if r.Rng.Intn(6) != 0 {
			q.qtype = []uint16{dns.TypeA, dns.TypeAAAA, dns.TypeA, dns.TypeAAAA, dns.TypeTXT}[r.Rng.Intn(5)]
		}
		if ch.nested != "" && r.Rng.Intn(3) == 0 {
			q.qtype = dns.TypeA + dns.TypeAAAA - ch.prefer // the type the selector does not prefer
		}
		outs := map[uint16]outcome03{dns.TypeA: r.genSelOut03(), dns.TypeAAAA: r.genSelOut03()}
		other := r.genSelOut03()
		ch.up.mu.Lock()
		ch.up.byType, ch.up.other = outs, other
		ch.up.mu.Unlock()
		if po := outs[ch.prefer]; po.nAns > 0 && po.ansSize == 0 && po.kind == "ans" {
			ch.mayBlock = true
		}
		via := vias[r.Rng.Intn(len(vias))]
		t0 := time.Now()
		payload, got := deliver03(h, via, q.msg())
		slow := time.Since(t0) > 2*time.Second // the handler gives every query 5 s; past that a SERVFAIL is legitimate
		desc := map[string]any{"chain": strings.Join(ch.desc, " -> "), "query": q.op(), "query_no": k + 1, "arrived_via": via,
			"last_plugin_outcome_for_A": outs[dns.TypeA].op(), "last_plugin_outcome_for_AAAA": outs[dns.TypeAAAA].op(), "last_plugin_outcome_for_other_types": other.op()}
		oracle03(r, q, via, payload, got, desc, -1, -1)
		nonPreferred := (q.qtype == dns.TypeA || q.qtype == dns.TypeAAAA) && q.qtype != ch.prefer
		var p reply03
		parsed := false
		if got {
			if pp, err := parse03(payload); err == nil {
				p, parsed = pp, true
			}
		}
		if q.valid() && parsed && ch.rcodeOK && !slow {
			own := other
			if o, ok := outs[q.qtype]; ok {
				own = o
			}
			rc, _ := own.expect()
			blockRc := 0
			if ch.nested != "" { // the caller's `reject n` replaces whatever the chain answered, unless the chain failed
				blockRc = ch.rejectRc
				if own.kind != "err" && own.kind != "errresp" {
					rc = ch.rejectRc
				}
			}
			allowed := []int{rc}
			if nonPreferred && ch.mayBlock {
				allowed = append(allowed, blockRc)
			}
			ok := false
			for _, a := range allowed {
				ok = ok || a == p.rcode
			}
			if !ok {
				desc["allowed_rcodes"] = allowed
				r.Fail("the reply's rcode is not the plugins' / SERVFAIL on error / REFUSED on no answer (redirect and dual-stack selector in the chain)", desc)
			}
		}
		// ---- model line
		if ch.model != nil && !slow && simpleName03(q.name) && !(nonPreferred && ch.mayBlock) {
			implOut := "drop"
			if got {
				implOut = "unparsable"
				if parsed {
					implOut = p.show(q.name)
				}
			}
			if strings.HasPrefix(via, "doh") && !q.valid() {
				implOut = "drop" // an HTTP error, not a DNS reply
			}
			if ch.nested == "" {
				r.Line(fmt.Sprintf("sel %s %s %s %s %s", q.op(), strings.Join(ch.model, ","), selOp03(outs[dns.TypeA]), selOp03(outs[dns.TypeAAAA]), selOp03(other)), implOut)
			} else {
				r.Line(fmt.Sprintf("selsub %s %s %s %s %s %s:rej:%d", q.op(), strings.Join(ch.model, ","), selOp03(outs[dns.TypeA]), selOp03(outs[dns.TypeAAAA]), selOp03(other), ch.nested, ch.rejectRc), implOut)
			}
			r.Count("sel:model-line")
		}
		if ch.nested != "" {
			r.Count("sel:nested-" + ch.nested)
		}
		r.Eval("sel|"+strings.Join(ch.desc, ">")+"|"+q.op()+"|"+via, q.valid())
		r.Count("sel-query")
		if q.valid() && nonPreferred {
			r.Count("sel:non-preferred-type")
			if ch.redirFirst {
				r.Count("sel:non-preferred-type-behind-redirect")
			}
		}
	}
}
