//go:build pC03 || pC15 || pC16 || pall

package main

import (
	"context"
	"encoding/binary"
	"errors"
	"fmt"
	"io"
	"net"
	"runtime"
	"strings"
	"sync"
	"time"

	"github.com/IrineSistiana/mosdns/v5/pkg/server"
	"github.com/miekg/dns"
)

func fnv16(b []byte) uint32 {
	h := uint32(2166136261)
	for _, x := range b {
		h = (h ^ uint32(x)) * 16777619
	}
	return h
}

// ---- fake listener / connection for ServeTCP

type conn16 struct {
	in      *io.PipeReader // what the server reads (queries)
	mu      sync.Mutex
	written []byte
	nwrites int
	rng     func() int
	closed  chan struct{}
	once    sync.Once
}

func (c *conn16) Read(p []byte) (int, error) { return c.in.Read(p) }
func (c *conn16) Write(p []byte) (int, error) {
	// a scheduling point before the bytes hit the "wire": writers that split a
	// frame over two calls will interleave here.
	for i := c.rng(); i > 0; i-- {
		runtime.Gosched()
	}
	time.Sleep(time.Duration(c.rng()) * 20 * time.Microsecond)
	c.mu.Lock()
	c.written = append(c.written, p...)
	c.nwrites++
	c.mu.Unlock()
	return len(p), nil
}
func (c *conn16) Close() error                       { c.once.Do(func() { close(c.closed); c.in.Close() }); return nil }
func (c *conn16) LocalAddr() net.Addr                { return &net.TCPAddr{IP: net.IPv4(127, 0, 0, 1), Port: 53} }
func (c *conn16) RemoteAddr() net.Addr               { return &net.TCPAddr{IP: net.IPv4(127, 0, 0, 1), Port: 40000} }
func (c *conn16) SetDeadline(t time.Time) error      { return nil }
func (c *conn16) SetReadDeadline(t time.Time) error  { return nil }
func (c *conn16) SetWriteDeadline(t time.Time) error { return nil }

type listener16 struct {
	ch   chan net.Conn
	done chan struct{}
}

func (l *listener16) Accept() (net.Conn, error) {
	select {
	case c := <-l.ch:
		return c, nil
	case <-l.done:
		return nil, errors.New("listener closed")
	}
}
func (l *listener16) Close() error   { return nil }
func (l *listener16) Addr() net.Addr { return &net.TCPAddr{} }

type handler16 struct {
	gate  chan struct{}
	sizes map[uint16]int
}

func (h *handler16) Handle(ctx context.Context, q *dns.Msg, meta server.QueryMeta, pack func(m *dns.Msg) (*[]byte, error)) *[]byte {
	<-h.gate // release all replies at once
	m := new(dns.Msg)
	m.SetReply(q)
	n := h.sizes[q.Id]
	for i := 0; i < n; i++ {
		m.Answer = append(m.Answer, &dns.TXT{Hdr: dns.RR_Header{Name: q.Question[0].Name, Rrtype: dns.TypeTXT, Class: dns.ClassINET, Ttl: 1}, Txt: []string{strings.Repeat("y", 200)}})
	}
	b, err := pack(m)
	if err != nil {
		return nil
	}
	return b
}

func serveTCP16(r *Run, k int) {
	h := &handler16{gate: make(chan struct{}), sizes: map[uint16]int{}}
	serveTCP(r, k, h, h.gate, h.sizes, "concurrent replies on one server connection did not arrive as intact frames: ")
}

// serveTCP: k pipelined queries on one (non-*net.TCPConn) connection served by the real server.ServeTCP with handler h;
// h answers query id with sizes[id] records once gate is closed, so that all replies are written at the same time.
func serveTCP(r *Run, k int, h server.Handler, gate chan struct{}, sizes map[uint16]int, failMsg string) {
	pr, pw := io.Pipe()
	var rmu sync.Mutex
	c := &conn16{in: pr, closed: make(chan struct{}), rng: func() int { rmu.Lock(); defer rmu.Unlock(); return r.Rng.Intn(4) }}
	l := &listener16{ch: make(chan net.Conn, 1), done: make(chan struct{})}
	go server.ServeTCP(l, h, server.TCPServerOpts{IdleTimeout: 5 * time.Second})
	l.ch <- c
	ids := map[uint16]bool{}
	for i := 0; i < k; i++ {
		id := uint16(1000 + i)
		ids[id] = true
		sizes[id] = r.Rng.Intn(40)
		q := new(dns.Msg)
		q.SetQuestion(fmt.Sprintf("q%d.example.", i), dns.TypeTXT)
		q.Id = id
		wire, _ := q.Pack()
		pw.Write(append([]byte{byte(len(wire) >> 8), byte(len(wire))}, wire...))
	}
	time.Sleep(20 * time.Millisecond) // let every handler goroutine park on the gate
	close(gate)
	// wait for k replies worth of bytes or a timeout
	deadline := time.Now().Add(5 * time.Second)
	var got []byte
	for time.Now().Before(deadline) {
		c.mu.Lock()
		got = append([]byte(nil), c.written...)
		c.mu.Unlock()
		if countFrames16(got) >= k {
			break
		}
		time.Sleep(2 * time.Millisecond)
	}
	time.Sleep(5 * time.Millisecond)
	c.mu.Lock()
	got = append([]byte(nil), c.written...)
	nw := c.nwrites
	c.mu.Unlock()
	close(l.done)
	pw.Close()
	c.Close()

	r.Eval(fmt.Sprintf("servetcp:%d:%d", k, fnv16(got)), true)
	r.Count("servetcp-round")
	r.Trace()
	// independent framer
	seen := map[uint16]bool{}
	rest := got
	bad := ""
	for len(rest) > 0 {
		if len(rest) < 2 {
			bad = "dangling byte"
			break
		}
		l := int(binary.BigEndian.Uint16(rest))
		if l < 12 || len(rest) < 2+l {
			bad = fmt.Sprintf("frame announces %d bytes, %d available", l, len(rest)-2)
			break
		}
		m := new(dns.Msg)
		if err := m.Unpack(rest[2 : 2+l]); err != nil {
			bad = "frame is not a DNS message: " + err.Error()
			break
		}
		if !ids[m.Id] || seen[m.Id] {
			bad = fmt.Sprintf("unexpected or duplicate reply id %d", m.Id)
			break
		}
		if len(m.Question) != 1 || m.Question[0].Name != fmt.Sprintf("q%d.example.", int(m.Id)-1000) || !m.Response {
			bad = fmt.Sprintf("reply %d does not carry its query's question", m.Id)
			break
		}
		if len(m.Answer) != sizes[m.Id] {
			bad = fmt.Sprintf("reply %d has %d records, want %d", m.Id, len(m.Answer), sizes[m.Id])
			break
		}
		seen[m.Id] = true
		rest = rest[2+l:]
	}
	if bad == "" && len(seen) != k {
		bad = fmt.Sprintf("%d of %d replies arrived", len(seen), k)
	}
	if bad != "" {
		r.Fail(failMsg+bad, map[string]any{"concurrent_replies": k, "write_calls": nw, "bytes": len(got)})
	}
}

func countFrames16(b []byte) int {
	n := 0
	for len(b) >= 2 {
		l := int(binary.BigEndian.Uint16(b))
		if len(b) < 2+l {
			break
		}
		b = b[2+l:]
		n++
	}
	return n
}
