//go:build pC02 || pall

package main

import (
	"bytes"
	"context"
	"encoding/binary"
	"errors"
	"fmt"
	"sync"
	"time"
)

// C02 on connections with a history (c02long.go):
//
//  (a) long-lived pipelined / UDP connections: more than 65536 queries go over ONE connection, each answered from inside
//      Write; the wire-id space has been used up once and every further reply must still find its waiter (the key a
//      waiter is registered under must be the key the reader looks up, for every value of the id counter);
//  (b) a slow reply on a connection that has already served queries: the reply comes after 55..70 % of the caller's
//      deadline - in time -, and must be returned (no layer may abandon the query earlier than the caller's deadline).

type longOut02 struct {
	kind      string
	total     int // queries planned
	done      int // queries answered and returned
	conns     int
	failAt    int // -1: none
	failErr   error
	failTook  time.Duration
	failMode  string
	foreignAt int
	wireAt    int // wire id of the failing query
}

func runLongConn02(kind string, total int, modes []byte, idBase uint16, connID int) longOut02 {
	stream := kind == "tdc-tcp" || kind == "pipeline-tcp"
	o := longOut02{kind: kind, total: total, failAt: -1, foreignAt: -1}
	var mu sync.Mutex
	mode := byte('s') // 's' inside Write, no wait; 'd' inside Write, Write returns after the reader consumed it; 'p' after the caller parked
	lastWire := 0
	dial := func() *fakeConn {
		mu.Lock()
		o.conns++
		n := o.conns
		mu.Unlock()
		c := newFakeConn(connID+n, stream)
		c.onWrite = func(c *fakeConn, w []byte) error {
			q := c.payloadOf(w)
			if len(q) < 12 {
				return nil
			}
			reply := c.frame(mkReply(q, binary.BigEndian.Uint16(q)))
			mu.Lock()
			m := mode
			lastWire = int(binary.BigEndian.Uint16(q))
			mu.Unlock()
			c.mu.Lock()
			c.writes = c.writes[:0] // nothing looks at them here; 65536 copies would only cost memory
			c.mu.Unlock()
			switch m {
			case 'p':
				go func() { time.Sleep(2 * time.Millisecond); c.feed(reply) }()
			case 'd':
				c.feed(reply)
				c.waitDrained(2 * time.Second)
			default:
				c.feed(reply)
			}
			return nil
		}
		return c
	}
	ex, closeT := mk02(kind, dial)
	defer closeT()
	for i := 0; i < total; i++ {
		mu.Lock()
		mode = modes[i%len(modes)]
		if i < total-len(modes) {
			mode = 's'
		}
		m := mode
		mu.Unlock()
		id := idBase + uint16(i*13)
		q := mkQuery(id, 1+i%900000)
		ctx, cancel := context.WithTimeout(context.Background(), 2500*time.Millisecond)
		t0 := time.Now()
		resp, err := ex(ctx, q)
		cancel()
		if err != nil || resp == nil {
			mu.Lock()
			o.failAt, o.failErr, o.failTook, o.failMode, o.wireAt = i, err, time.Since(t0), string(m), lastWire
			mu.Unlock()
			return o
		}
		if !bytes.Equal(*resp, mkReply(q, id)) {
			o.foreignAt = i
			return o
		}
		o.done++
	}
	return o
}

type slowCase02 struct {
	kind     string
	warm     int
	deadline time.Duration
	latency  time.Duration
	idBase   uint16
	tagBase  int
	connID   int
}

type slowOut02 struct {
	warmErr    error
	err        error
	resp       *[]byte
	q          []byte
	id         uint16
	took       time.Duration
	consumedIn time.Duration // from the start of the slow query until the reader had taken its reply off the connection; 0: never
	writes     int           // how often the slow query was written
	conns      int
	stall      time.Duration
}

func runSlowCase02(sc slowCase02) slowOut02 {
	stream := sc.kind != "pipeline-udp"
	var o slowOut02
	var mu sync.Mutex
	slowTag := sc.tagBase + sc.warm
	var t0 time.Time
	dial := func() *fakeConn {
		mu.Lock()
		o.conns++
		n := o.conns
		mu.Unlock()
		c := newFakeConn(sc.connID+n, stream)
		c.onWrite = func(c *fakeConn, w []byte) error {
			q := c.payloadOf(w)
			if len(q) < 12 {
				return nil
			}
			reply := c.frame(mkReply(q, binary.BigEndian.Uint16(q)))
			if tagOf(q) != slowTag {
				c.feed(reply) // warm-up queries are answered at once
				return nil
			}
			mu.Lock()
			o.writes++
			first := o.writes == 1
			start := t0
			mu.Unlock()
			go func() {
				time.Sleep(sc.latency) // every copy of the query is answered after the same latency
				c.feed(reply)
				if first && c.waitDrained(2*time.Second) && !c.isClosed() {
					mu.Lock()
					o.consumedIn = time.Since(start)
					mu.Unlock()
				}
			}()
			return nil
		}
		return c
	}
	ex, closeT := mk02(sc.kind, dial)
	defer closeT()
	for i := 0; i < sc.warm; i++ {
		id := sc.idBase + uint16(i)
		q := mkQuery(id, sc.tagBase+i)
		ctx, cancel := context.WithTimeout(context.Background(), 2500*time.Millisecond)
		resp, err := ex(ctx, q)
		cancel()
		if err != nil || resp == nil || !bytes.Equal(*resp, mkReply(q, id)) {
			o.warmErr = fmt.Errorf("warm-up query %d: %v", i, err)
			return o
		}
	}
	o.id = sc.idBase + uint16(sc.warm)
	o.q = mkQuery(o.id, slowTag)
	sm := startStallMeter()
	ctx, cancel := context.WithTimeout(context.Background(), sc.deadline)
	mu.Lock()
	t0 = time.Now()
	start := t0
	mu.Unlock()
	o.resp, o.err = ex(ctx, o.q)
	o.took = time.Since(start)
	cancel()
	o.stall = sm.Stop()
	// the reader may still be on its way to "consumed" when the exchange fails at the deadline
	time.Sleep(5 * time.Millisecond)
	mu.Lock()
	defer mu.Unlock()
	return o
}

func longScenarios02(r *Run, connID *int) {
	// ---- (a) more than 65536 queries over one connection
	kinds := []string{"tdc-udp", "tdc-tcp", "pipeline-udp", "pipeline-tcp"}
	if !r.Thorough() {
		// one datagram and one stream connection, directly or through the pipeline transport
		kinds = []string{[]string{"tdc-udp", "pipeline-udp"}[r.Rng.Intn(2)], []string{"tdc-tcp", "pipeline-tcp"}[r.Rng.Intn(2)]}
	}
	outs := make([]longOut02, len(kinds))
	var wg sync.WaitGroup
	for i, kind := range kinds {
		// the last queries (on both sides of, and beyond, the first turn of the 16-bit counter) arrive in all three ways
		tail := 8 + r.Rng.Intn(24)
		modes := make([]byte, tail)
		for j := range modes {
			modes[j] = "sdp"[r.Rng.Intn(3)]
		}
		total := 65536 - r.Rng.Intn(tail/2) + tail
		if r.Thorough() && i%2 == 1 {
			total += 65536 // twice round
		}
		*connID += 10
		wg.Add(1)
		go func(i int, kind string, total int, modes []byte, idBase uint16, cid int) {
			defer wg.Done()
			outs[i] = runLongConn02(kind, total, modes, idBase, cid)
		}(i, kind, total, modes, uint16(r.Seed)+uint16(r.Rng.Intn(65536)), *connID)
	}
	wg.Wait()
	for _, o := range outs {
		desc := map[string]any{"transport": o.kind, "scenario": "long-lived connection: queries one after the other over one connection, each answered from inside Write (the last ones also after the caller parked)",
			"queries_planned": o.total, "queries_answered_and_returned": o.done, "connections_dialed": o.conns}
		out := "found"
		ctr := o.total - 1
		switch {
		case o.failAt >= 0:
			out = "lost"
			ctr = o.failAt
			desc["failing_query_number"] = o.failAt
			desc["its_wire_id"] = o.wireAt
			desc["err"] = fmt.Sprint(o.failErr)
			desc["took"] = o.failTook.String()
			desc["arrival"] = map[string]string{"s": "inside Write", "d": "inside Write, Write returned after the reader consumed it", "p": "2 ms after Write (caller parked)"}[o.failMode]
			r.Fail(fmt.Sprintf("after %d answered queries on the same connection the reply to the next query was received on the connection (well before the caller's 2.5 s deadline), but the exchange failed", o.failAt), desc)
		case o.foreignAt >= 0:
			out = "foreign-reply"
			desc["failing_query_number"] = o.foreignAt
			r.Fail("the exchange returned something other than the reply to its own query", desc)
		}
		if o.conns == 1 {
			// query number n on the connection is the n-th value of its id counter: replayed on the id-table model
			r.Line(fmt.Sprintf("ids 1 16 %d", ctr), out)
		}
		r.Line("sched 1 1 readerDeliver,writeReturns,pickReply", map[bool]string{true: "reply", false: "error"}[out == "found"])
		r.Eval(fmt.Sprintf("%s/long-lived/%d", o.kind, o.total), o.done > 65536 || o.failAt >= 0 || o.foreignAt >= 0)
		r.Count(o.kind + ":long-lived-connection")
		r.Trace()
	}

	// ---- (b) a slow, in-time reply on a connection that has served queries before
	var cases []slowCase02
	for rep := 0; rep < r.N(1, 4); rep++ {
		for _, kind := range []string{"pipeline-udp", "pipeline-tcp", "reuse"} {
			dl := time.Duration(1500+r.Rng.Intn(300)) * time.Millisecond
			*connID += 10
			cases = append(cases, slowCase02{kind: kind, warm: 1 + r.Rng.Intn(3), deadline: dl,
				latency: dl * time.Duration(55+r.Rng.Intn(16)) / 100,
				idBase:  uint16(r.Seed) + uint16(r.Rng.Intn(65536)), tagBase: 810000 + len(cases)*10, connID: *connID})
		}
	}
	souts := make([]slowOut02, len(cases))
	for i := range cases { // all asleep most of the time: side by side
		wg.Add(1)
		go func(i int) { defer wg.Done(); souts[i] = runSlowCase02(cases[i]) }(i)
	}
	wg.Wait()
	for i, sc := range cases {
		o := souts[i]
		desc := map[string]any{"transport": sc.kind, "scenario": "slow reply on a connection that served queries before", "earlier_queries_on_the_connection": sc.warm,
			"caller_deadline": sc.deadline.String(), "server_latency": sc.latency.String(), "reply_taken_off_the_connection_after": o.consumedIn.String(),
			"query_written_times": o.writes, "connections_dialed": o.conns, "took": o.took.String(), "err": fmt.Sprint(o.err)}
		const margin = 250 * time.Millisecond
		out := "reply"
		checked := true
		switch {
		case o.warmErr != nil:
			// the warm-up exchanges are ordinary during-send cases (covered above in c02.go); without them there is no history
			checked = false
			r.Count(sc.kind + ":slow-reply-reused:warm-up-failed")
		case o.consumedIn == 0 || o.consumedIn > sc.deadline-margin || o.stall > 100*time.Millisecond:
			checked = false
			r.Count(sc.kind + ":slow-reply-reused:skipped-machine-stalled")
		case o.err != nil || o.resp == nil:
			out = "error:" + fmt.Sprint(o.err)
			what := "the reply was received on the connection before the caller's deadline, but the exchange failed"
			if errors.Is(o.err, context.DeadlineExceeded) {
				what = fmt.Sprintf("the reply to the outstanding query was read from its connection %v after the query started (caller's deadline: %v), but the exchange timed out (the query was written %d time(s))",
					o.consumedIn.Round(time.Millisecond), sc.deadline, o.writes)
			}
			r.Fail(what, desc)
		case !bytes.Equal(*o.resp, mkReply(o.q, o.id)):
			out = "foreign-reply"
			r.Fail("the exchange returned something other than the reply to its own query", desc)
		case o.took > o.consumedIn+margin:
			out = "late"
			r.Fail("the exchange returned the reply only long after it had been read from the connection (it waited for a retransmission)", desc)
		}
		if checked {
			r.Line("sched 1 1 1 writeReturns,readerDeliver,pickReply", out)
			r.Trace()
		}
		r.Eval(fmt.Sprintf("%s/slow-reply-reused/%d", sc.kind, i), checked)
		r.Count(sc.kind + ":slow-reply-reused")
	}
}
