//go:build pC12 || pall

package main

import (
	"fmt"
	"regexp"
	"sort"
	"strings"

	"github.com/IrineSistiana/mosdns/v5/pkg/matcher/domain"
)

// C12: domain rules match exactly the names they describe.

func init() { props["C12"] = runC12 }

type rule12 struct {
	kind    string // full domain regexp keyword
	pattern string // as written (case, trailing dot)
	prefix  bool   // written with its type prefix
	val     int
	noAddr  bool // hosts tables: the rule's value is the empty address list (it yields no answer)
}

// shown12: a rule and its value as printed in reports
func (r rule12) shown12() string {
	if r.noAddr {
		return r.text() + " => (no address)"
	}
	return fmt.Sprintf("%s => %d", r.text(), r.val)
}

func (r rule12) text() string {
	if r.prefix {
		return r.kind + ":" + r.pattern
	}
	return r.pattern
}

// norm12: "lower-cased and stripped of one trailing dot", byte by byte (ASCII names): the 26 upper-case
// letters and nothing else change.
func norm12(s string) string {
	b := []byte(strings.TrimSuffix(s, "."))
	for i, c := range b {
		if 'A' <= c && c <= 'Z' {
			b[i] = c + ('a' - 'A')
		}
	}
	return string(b)
}

// describes: the property's own definition, written without the trie.
func describes12(r rule12, re *regexp.Regexp, name string) bool {
	n := norm12(name)
	switch r.kind {
	case "full":
		return norm12(r.pattern) == n
	case "domain":
		p := norm12(r.pattern)
		return p == "" || n == p || strings.HasSuffix(n, "."+p)
	case "keyword":
		return strings.Contains(n, norm12(r.pattern))
	case "regexp":
		return re.MatchString(n)
	}
	return false
}

// byte classes a label is drawn from (never '.', the label separator, ':', the type separator, '#', the
// comment sign of the text loader, or blanks): letters in both cases, digits, '-' and '_', the bytes right
// next to the two letter ranges ('@' '[' and '`' '{'), the rest of the columns 0x5b..0x5f / 0x7b..0x7f
// (each the other's image under a 0x20 bit flip), and other punctuation.
var classes12 = []string{"abcxyz", "abcxyz", "ABCXYZ", "0189", "-_", "_", "@[`{", "\\]^|}~\x7f", "!$%&'()*+,/;<=>?\""}

func (r *Run) label12() string {
	words := []string{"example", "com", "net", "org", "a", "b", "www", "cdn", "mail", "x1", "co", "uk", "test", "ad", "ads", "tracker", "s3", "img-1", "xn--p1ai", "0"}
	switch r.Rng.Intn(8) {
	case 0: // service and other underscore labels
		words = []string{"_tcp", "_udp", "_dmarc", "_domainkey", "_acme-challenge", "_sip", "a_b", "x_1", "img_cdn", "my-host_1", "_", "0_0", "ad_", "_ads"}
	case 1: // any byte class
		n := 1 + r.Rng.Intn(5)
		b := make([]byte, n)
		for i := range b {
			c := classes12[r.Rng.Intn(len(classes12))]
			b[i] = c[r.Rng.Intn(len(c))]
		}
		return string(b)
	}
	w := words[r.Rng.Intn(len(words))]
	if r.Rng.Intn(6) == 0 {
		w = strings.ToUpper(w[:1]) + w[1:]
	}
	return w
}

func (r *Run) name12(n int) string {
	var ls []string
	for i := 0; i < n; i++ {
		ls = append(ls, r.label12())
	}
	return strings.Join(ls, ".")
}

func upper12(c byte) byte {
	if 'a' <= c && c <= 'z' {
		return c - ('a' - 'A')
	}
	return c
}

// spell12: another spelling of the same name: all upper case, one letter, or every letter at random (the
// 0x20 mixed-case encoding resolvers use), with or without a trailing dot. Only letters change.
func (r *Run) spell12(s string) string {
	b := []byte(s)
	switch r.Rng.Intn(16) {
	case 0, 1, 2, 3:
		for i := range b {
			b[i] = upper12(b[i])
		}
	case 4, 5, 6:
		if len(b) > 0 {
			i := r.Rng.Intn(len(b))
			b[i] = upper12(b[i])
		}
	case 7, 8, 9:
		for i := range b {
			if r.Rng.Intn(2) == 0 {
				b[i] = upper12(b[i])
			}
		}
	}
	s = string(b)
	if r.Rng.Intn(3) == 0 {
		s += "."
	}
	return s
}

// upperThenOther12: an upper-case letter with a non-letter, non-dot byte somewhere behind it.
func upperThenOther12(s string) bool {
	seen := false
	for i := 0; i < len(s); i++ {
		c := s[i]
		switch {
		case 'A' <= c && c <= 'Z':
			seen = true
		case seen && c != '.' && !('a' <= c && c <= 'z'):
			return true
		}
	}
	return false
}

func runC12(r *Run) {
	regexps := []string{`^ad[0-9]*\.`, `\.example\.com$`, `^[a-z]+\.net$`, `cdn`, `^\D+\.example\.com$`, `^www\d?\.`, `co\.uk$`, `^(a|b)\.`, `^ad[0-9].`, `tracker`}
	n := r.N(300, 8000)
	for it := 0; it < n; it++ {
		dflt := []string{"domain", "domain", "full", "keyword", "regexp", ""}[r.Rng.Intn(6)]
		nr := 1 + r.Rng.Intn(8)
		var rules []rule12
		var bases []string
		for i := 0; i < nr; i++ {
			rl := rule12{val: 100 + i}
			rl.kind = []string{"full", "domain", "domain", "domain", "keyword", "regexp"}[r.Rng.Intn(6)]
			switch rl.kind {
			case "regexp":
				rl.pattern = regexps[r.Rng.Intn(len(regexps))]
			case "keyword":
				kw := []string{"ad", "example", "x", "cdn.", ".com", "a.b", "tracker", "mail", "_", "_tcp", "._d", "-1", "_ad"}
				if r.Rng.Intn(6) == 0 {
					kw = []string{r.label12()}
				}
				rl.pattern = r.spell12(kw[r.Rng.Intn(len(kw))])
			default:
				var base string
				if len(bases) > 0 && r.Rng.Intn(2) == 0 {
					b := bases[r.Rng.Intn(len(bases))]
					switch r.Rng.Intn(4) {
					case 0:
						base = b // duplicate
					case 1:
						base = r.name12(1+r.Rng.Intn(2)) + "." + b // nested deeper (maybe with a value-less gap)
					case 2:
						if i := strings.IndexByte(b, '.'); i >= 0 {
							base = b[i+1:] // parent
						} else {
							base = b
						}
					default:
						base = r.label12() + b // string suffix, not label suffix
					}
				} else {
					base = r.name12(1 + r.Rng.Intn(3))
				}
				if r.Rng.Intn(40) == 0 {
					base = "" // the root
				}
				base = strings.Trim(base, ".") // no empty labels: "x." + "" (the root) is "x", not "x."
				for strings.Contains(base, "..") {
					base = strings.ReplaceAll(base, "..", ".")
				}
				bases = append(bases, norm12(base))
				rl.pattern = r.spell12(base)
			}
			rl.prefix = rl.kind != dflt || r.Rng.Intn(2) == 0
			if rl.kind == "regexp" && !rl.prefix && strings.Contains(rl.pattern, ":") {
				rl.prefix = true
			}
			if rl.pattern == "" {
				rl.prefix = true // an empty line is a blank line to the text loader, not a rule for the root
			}
			rules = append(rules, rl)
		}
		if r.Rng.Intn(25) == 0 { // malformed stream: unknown type / missing default
			rules = append(rules, rule12{kind: "suffix", pattern: "example.com", prefix: true, val: 999})
		}
		// names derived from the rules
		var names []string
		for _, b := range bases {
			names = append(names, b, "x."+b, r.name12(2)+"."+b, "not"+b, r.label12()+b)
			if i := strings.IndexByte(b, '.'); i >= 0 {
				names = append(names, b[i+1:], "sib."+b[i+1:])
			}
		}
		names = append(names, r.name12(1+r.Rng.Intn(4)), "ad1.example.com", "www.example.com", "123.example.com", "ad1", "a.net")
		for i := range names {
			names[i] = r.spell12(strings.Trim(names[i], "."))
			if names[i] == "" || names[i] == "." {
				names[i] = "com"
			}
		}
		if len(names) > 40 {
			r.Rng.Shuffle(len(names), func(i, j int) { names[i], names[j] = names[j], names[i] })
			names = names[:40]
		}

		r.case12(dflt, rules, names, r.Rng.Intn(2) == 0, "random")
	}
	// ---- every ASCII byte next to letters of either case. For each byte c (not '.', ':'): rules whose
	// patterns hold c behind and in front of an upper-case letter, in a spelling of their own, a shorter
	// domain rule, and rules for the "twin" name in which c is replaced by c^0x20 (for a letter that is the
	// same name; for every other byte it is a different name that must not be captured: '_' / DEL,
	// '@' / '`', '[' / '{', '-' / 0x0d, digits / control bytes ...); names: both names and their
	// subdomains in several spellings. Loaded by Add (by the text loader too when c is printable and not
	// '#'). The expected answers come from the same trie-free reference as above.
	for c := 0; c < 128; c++ {
		if c == '.' || c == ':' {
			continue
		}
		for rep := 0; rep < r.N(1, 6); rep++ {
			tw := c ^ 0x20
			if tw == '.' || tw == ':' {
				tw = c
			}
			mk := func(b int) (string, string, string) {
				return "h" + string([]byte{byte(b)}) + "st." + string([]byte{byte(b)}) + "svc.example.org", "full" + string([]byte{byte(b)}) + "x.example.org", "k" + string([]byte{byte(b)}) + "w"
			}
			d1, f1, k1 := mk(c)
			d2, f2, k2 := mk(tw)
			up := func(s string) string { // at least the first letter in upper case, the rest at random
				b := []byte(r.spell12(s))
				b[0] = upper12(b[0])
				return string(b)
			}
			rules := []rule12{
				{kind: "domain", pattern: "example.org", prefix: true, val: 1},
				{kind: "domain", pattern: up(d1), prefix: true, val: 2},
				{kind: "domain", pattern: r.spell12(d2), prefix: true, val: 3},
				{kind: "full", pattern: up(f1), prefix: true, val: 4},
				{kind: "full", pattern: r.spell12(f2), prefix: true, val: 5},
				{kind: "keyword", pattern: up(k1), prefix: true, val: 6},
			}
			if r.Rng.Intn(2) == 0 {
				rules[1], rules[2] = rules[2], rules[1]
				rules[3], rules[4] = rules[4], rules[3]
			}
			dflt := "domain"
			if r.Rng.Intn(2) == 0 {
				rules[0].prefix = false
			}
			names := []string{d1, up(d1), "Www." + d1, up("x.y." + d1), d2, up(d2), up(d1[strings.IndexByte(d1, '.')+1:]), up(d2[strings.IndexByte(d2, '.')+1:]),
				f1, up(f1), up(f2), up("sub." + f1), up("a." + k1 + ".net"), "A." + k2 + ".net", up(k1), "Host.example.org", "Hst." + string([]byte{byte(c)}) + "svc.example.net"}
			for i := range names {
				if r.Rng.Intn(3) == 0 {
					names[i] = r.spell12(strings.TrimSuffix(names[i], "."))
				}
			}
			printable := c > 0x20 && c != '#' && tw > 0x20 && tw != '#' // DEL is not a blank to the text loader
			r.case12(dflt, rules, names, printable && r.Rng.Intn(2) == 0, fmt.Sprintf("byte-next-to-letters 0x%02x", c))
		}
	}
	// scanner and normalisation on their own: fixed shapes, every ASCII byte between letters of both cases,
	// and random ASCII strings; the model's `norm` / `scan` (tied to the code by Refine.C12) must agree
	probe := []string{"", ".", "a", "a.", "A.b.C.", "a..b", ".a", "..", "a.b.c.d.e", "xn--p1ai.", "UPPER.Case", "Host._tcp.Example.COM.", "_sip._TCP.example.com", "A_b", "Z@[`{z."}
	for c := 0; c < 128; c++ {
		probe = append(probe, "aB"+string([]byte{byte(c)})+"Cd"+[]string{"", "."}[c%2])
	}
	for i := 0; i < r.N(100, 4000); i++ {
		b := make([]byte, r.Rng.Intn(12))
		for j := range b {
			switch r.Rng.Intn(4) {
			case 0:
				b[j] = byte(r.Rng.Intn(128))
			case 1:
				b[j] = "AZMazm._-"[r.Rng.Intn(9)]
			default:
				c := classes12[r.Rng.Intn(len(classes12))]
				b[j] = c[r.Rng.Intn(len(c))]
			}
		}
		probe = append(probe, string(b))
	}
	for _, s := range probe {
		sc := domain.NewReverseDomainScanner(s)
		var ls []string
		for sc.Scan() {
			ls = append(ls, hx([]byte(sc.NextLabel())))
		}
		if s != "" { // an empty last field is not a protocol line
			r.Line("scan "+hx([]byte(s)), strings.Join(ls, ","))
			r.Line("norm "+hx([]byte(s)), hx([]byte(domain.NormalizeDomain(s))))
		}
	}
	// the domain_set plugin: sets assembled from own rules, files and other sets (c12sets.go)
	r.sets12()
	// rules with values: tables of the hosts plugin, and lists larger than the text loader's read buffer (c12hosts.go)
	r.hosts12()
	r.Finish("rule sets of 1..9 rules over the four types (prefixed or relying on the set's default type), half of the domain/full patterns derived from earlier ones (duplicate, deeper with a value-less gap, parent, string-suffix-but-not-label-suffix), labels from a word list, service labels with '_' and random labels over every byte class (letters of both cases, digits, '-', '_', the bytes around the letter ranges, other punctuation, DEL), spelled all upper case / one letter / every letter at random (0x20 style), with and without trailing dot, loaded by Add or by the text loader with comments/blank lines; names derived from the rules (exact, sub-label, `not`+name, label glued on, parent, sibling) in random spelling; a sweep over every ASCII byte c placed behind and in front of upper-case letters in domain/full/keyword rules and names, together with the twin name holding c^0x20 (same name for a letter, a different one otherwise); NormalizeDomain and the scanner on fixed shapes, every ASCII byte between letters and random ASCII strings against the model; configurations of 3..12 data_provider/domain_set plugins built by the real NewDomainSet in configuration order (own expressions, a file, references to earlier sets in any order, the same set named twice, now and then a set whose own rules are only rules for the root in one of its spellings (domain:. / . / domain: / the empty expression), alone, in a file or referenced by other sets; half of them several sets derived from a common base of 1..7 members, mostly made of other sets only, the base mostly named first), every set asked for names derived from all rules right after it was built and after all others were built, the answer compared with 'some rule of the set or of a set it references, directly or through other sets, describes the name' and with the model's set construction; a third of the configurations (and some of the others) end with 2..4 qname matchers (plugin/matcher/base_domain, built by the qname plugin's quick setup `$set.. rule.. &file` or by NewMatcher from Args) that name a set first - mostly the same set of 1..9 members - and carry expressions / a file of their own, asked through Match(qCtx) with a question for the name right after each was built and after all were built, and replayed on the model as sets; tables of the real hosts plugin (2..9 rules of all four types given as entries and in 1..2 files, `<rule> <ipv4> [<ipv6>]`, regular expressions written with upper-case escapes / classes / literals / flags next to lower-case-only ones, mixed-case full/domain/keyword rules) asked with A questions, the address answered mapped back to its rule; every other table holds rules without address (the rule alone, trailing blanks, or its addresses commented out in a file), some of them full / domain rules for names that a less specific rule with addresses describes too: such a rule is a rule with a value, the name it wins gets no answer (these tables are compared with the reference only); rule lists of 120..400 (thorough: up to 3000) lower-case rules, i.e. several read buffers of the text loader, loaded through LoadFromTextReader, Add, both, or a hosts file, every rule asked with its own names (exact, below it, glued to it) after the whole list was loaded, and Len() compared with the model's; expected answers from a trie-free reference whose normalisation changes the 26 upper-case letters only; non-trivial = some name matched and at least 2 rules")
}

// case12 loads one rule set into the real MixMatcher (by Add or through the text loader), asks it for every
// name, compares each answer with the trie-free reference (describes12 over every rule, precedence
// full > longest domain > regexp > keyword, last Add wins among equal rules) and emits the `mix` line the
// model driver replays.
func (r *Run) case12(dflt string, rules []rule12, names []string, viaText bool, tag string) {
	r.case12x(dflt, rules, names, viaText, tag, func() (func(string) (int, bool), func() int, error) {
		mm := domain.NewMixMatcher[int]()
		if dflt != "" {
			mm.SetDefaultMatcher(dflt)
		}
		if viaText {
			var sb strings.Builder
			sb.WriteString("# rules\n\n")
			vals := map[string]int{}
			for i, rl := range rules {
				vals[rl.text()] = rl.val
				switch i % 3 {
				case 0:
					sb.WriteString(rl.text() + "\n")
				case 1:
					sb.WriteString("  " + rl.text() + "  # trailing comment\n")
				default:
					sb.WriteString("\t" + rl.text() + "\r\n\n")
				}
			}
			if err := domain.LoadFromTextReader[int](mm, strings.NewReader(sb.String()), func(s string) (string, int, error) { return s, vals[s], nil }); err != nil {
				return nil, nil, err
			}
		} else {
			for _, rl := range rules {
				if err := mm.Add(rl.text(), rl.val); err != nil {
					return nil, nil, err
				}
			}
		}
		return mm.Match, mm.Len, nil
	})
}

// case12x: the same for any way of loading the rules (load returns the loaded matcher's Match and Len, or
// the loader's error): every answer is compared with the trie-free reference, and the `mix` (and `len`)
// lines are replayed on the model.
func (r *Run) case12x(dflt string, rules []rule12, names []string, viaText bool, tag string, load func() (func(string) (int, bool), func() int, error)) {
	// ---- implementation
	match, length, loadErr := load()
	// ---- model line
	var rs, ns, tbl []string
	compiled := map[string]*regexp.Regexp{}
	for _, rl := range rules {
		rs = append(rs, fmt.Sprintf("%d=%s", rl.val, hx([]byte(rl.text()))))
		if rl.kind == "regexp" {
			compiled[rl.pattern] = regexp.MustCompile(rl.pattern)
		}
	}
	seenT := map[string]bool{}
	for _, nm := range names {
		ns = append(ns, hx([]byte(nm)))
		for e, re := range compiled {
			k := hx([]byte(e)) + "@" + hx([]byte(norm12(nm)))
			if re.MatchString(norm12(nm)) && !seenT[k] {
				seenT[k] = true
				tbl = append(tbl, k)
			}
		}
	}
	sort.Strings(tbl)
	d := dflt
	if d == "" {
		d = "-"
	}
	tb := strings.Join(tbl, ";")
	if tb == "" {
		tb = "-"
	}
	line := fmt.Sprintf("mix %s %s %s %s", d, strings.Join(rs, ";"), strings.Join(ns, ";"), tb)
	if loadErr != nil {
		r.Line(line, "error")
		r.Eval(line, true)
		r.Count("load-error")
		// is the error legitimate? only an unknown type or a rule without type and without default may be refused
		legit := false
		for _, rl := range rules {
			if rl.kind == "suffix" || (!rl.prefix && dflt == "") {
				legit = true
			}
		}
		if !legit {
			var rt []string
			for _, rl := range rules {
				rt = append(rt, fmt.Sprintf("%s => %d", rl.text(), rl.val))
			}
			r.Fail("a valid rule set was rejected", map[string]any{"scenario": tag, "rules": rt, "err": loadErr.Error()})
		}
		return
	}
	var outs []string
	nontrivial := false
	fails := 0
	// hosts tables: a rule may carry the empty address list as its value. It takes part in the precedence of
	// values like any other rule; a name whose winning rule is such a rule gets no answer.
	noAddr := map[int]bool{}
	anyNoAddr := false
	for _, rl := range rules {
		if rl.noAddr {
			noAddr[rl.val] = true
			anyNoAddr = true
		}
	}
	for _, nm := range names {
		v, ok := match(nm)
		// reference answer
		var full, dom, re, kw []rule12
		for _, rl := range rules {
			if describes12(rl, compiled[rl.pattern], nm) {
				switch rl.kind {
				case "full":
					full = append(full, rl)
				case "domain":
					dom = append(dom, rl)
				case "regexp":
					re = append(re, rl)
				case "keyword":
					kw = append(kw, rl)
				}
			}
		}
		lastFor := func(kind, pat string) int { // last Add for the same (normalised) rule wins
			v := -1
			for _, rl := range rules {
				if rl.kind == kind && ((kind == "regexp" && rl.pattern == pat) || (kind != "regexp" && norm12(rl.pattern) == norm12(pat))) {
					v = rl.val
				}
			}
			return v
		}
		want := map[int]bool{}
		switch {
		case len(full) > 0:
			want[lastFor("full", full[0].pattern)] = true
		case len(dom) > 0:
			best := dom[0]
			for _, rl := range dom {
				if len(norm12(rl.pattern)) > len(norm12(best.pattern)) {
					best = rl
				}
			}
			want[lastFor("domain", best.pattern)] = true
		case len(re) > 0:
			for _, rl := range re {
				want[lastFor("regexp", rl.pattern)] = true
			}
		case len(kw) > 0:
			for _, rl := range kw {
				want[lastFor("keyword", rl.pattern)] = true
			}
		}
		if ok {
			outs = append(outs, fmt.Sprint(v))
			nontrivial = true
		} else {
			outs = append(outs, "none")
		}
		wantNone := len(want) == 0 // no answer is a legitimate outcome: no rule, or a winning rule without address
		for k := range want {
			if noAddr[k] {
				wantNone = true
				delete(want, k)
				if len(full)+len(dom)+len(re)+len(kw) > 1 {
					r.Count("hosts: a name whose winning rule has no address is also described by another rule")
				}
			}
		}
		if (ok && !want[v]) || (!ok && !wantNone) {
			fails++
			if fails > 3 && len(rules) > 60 {
				continue // a large list: the first failures carry the list
			}
			var rt []string
			for _, rl := range rules {
				rt = append(rt, rl.shown12())
			}
			wl := []string{}
			for k := range want {
				wl = append(wl, fmt.Sprint(k))
			}
			if wantNone {
				wl = append(wl, "none")
			}
			rep := map[string]any{"scenario": tag, "default_type": dflt, "via_text_loader": viaText, "rules": rt, "name": nm}
			if len(rules) > 60 && fails > 1 { // the whole list is in the first failure of this case
				var ds []string
				for _, rl := range append(append(append(full, dom...), re...), kw...) {
					ds = append(ds, rl.shown12())
				}
				rep["rules"] = fmt.Sprintf("the %d rules of the previous failure", len(rules))
				rep["rules_describing_the_name"] = ds
			}
			r.Fail(fmt.Sprintf("Match(%q) = (%d,%v) but the rules say %v", nm, v, ok, wl), rep)
		}
	}
	if fails > 3 {
		r.Note(fmt.Sprintf("%s: %d of %d names answered wrongly", tag, fails, len(names)))
	}
	if length != nil {
		// Len() against the model's Len (one entry per distinct rule; the shape is fact c12LenCountsValuedNodesAndRoot)
		r.Line(fmt.Sprintf("len %s %s", d, strings.Join(rs, ";")), fmt.Sprint(length()))
	}
	if !anyNoAddr { // the model's values are numbers; "matched a rule without address" is not visible in a hosts answer
		r.Line(line, strings.Join(outs, ";"))
	}
	r.Eval(line, nontrivial && len(rules) > 1)
	r.Count("via-text:" + b01(viaText))
	r.Count("default:" + d)
	r.Count("scenario:" + strings.SplitN(tag, " ", 2)[0])
	for _, rl := range rules {
		if rl.kind != "regexp" && upperThenOther12(rl.pattern) {
			r.Count("rule spelled with an upper-case letter before a non-letter byte")
			break
		}
	}
	for _, nm := range names {
		if upperThenOther12(nm) {
			r.Count("name spelled with an upper-case letter before a non-letter byte")
			break
		}
	}
}
