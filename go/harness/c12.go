//go:build pC12 || pall

package main

import (
	"fmt"
	"regexp"
	"sort"
	"strings"

	"github.com/IrineSistiana/mosdns/v5/pkg/matcher/domain"
)

// C12: domain rules match exactly the names they describe.

func init() { props["C12"] = runC12 }

type rule12 struct {
	kind    string // full domain regexp keyword
	pattern string // as written (case, trailing dot)
	prefix  bool   // written with its type prefix
	val     int
}

func (r rule12) text() string {
	if r.prefix {
		return r.kind + ":" + r.pattern
	}
	return r.pattern
}

func norm12(s string) string { return strings.ToLower(strings.TrimSuffix(s, ".")) }

// describes: the property's own definition, written without the trie.
func describes12(r rule12, re *regexp.Regexp, name string) bool {
	n := norm12(name)
	switch r.kind {
	case "full":
		return norm12(r.pattern) == n
	case "domain":
		p := norm12(r.pattern)
		return p == "" || n == p || strings.HasSuffix(n, "."+p)
	case "keyword":
		return strings.Contains(n, norm12(r.pattern))
	case "regexp":
		return re.MatchString(n)
	}
	return false
}

func (r *Run) label12() string {
	words := []string{"example", "com", "net", "org", "a", "b", "www", "cdn", "mail", "x1", "co", "uk", "test", "ad", "ads", "tracker", "s3", "img-1", "xn--p1ai", "0"}
	w := words[r.Rng.Intn(len(words))]
	if r.Rng.Intn(6) == 0 {
		w = strings.ToUpper(w[:1]) + w[1:]
	}
	return w
}

func (r *Run) name12(n int) string {
	var ls []string
	for i := 0; i < n; i++ {
		ls = append(ls, r.label12())
	}
	return strings.Join(ls, ".")
}

func (r *Run) spell12(s string) string {
	if r.Rng.Intn(4) == 0 {
		s = strings.ToUpper(s)
	} else if r.Rng.Intn(4) == 0 && len(s) > 0 {
		b := []byte(s)
		i := r.Rng.Intn(len(b))
		b[i] = strings.ToUpper(string(b[i]))[0]
		s = string(b)
	}
	if r.Rng.Intn(3) == 0 {
		s += "."
	}
	return s
}

func runC12(r *Run) {
	regexps := []string{`^ad[0-9]*\.`, `\.example\.com$`, `^[a-z]+\.net$`, `cdn`, `^\D+\.example\.com$`, `^www\d?\.`, `co\.uk$`, `^(a|b)\.`, `^ad[0-9].`, `tracker`}
	n := r.N(300, 8000)
	for it := 0; it < n; it++ {
		dflt := []string{"domain", "domain", "full", "keyword", "regexp", ""}[r.Rng.Intn(6)]
		nr := 1 + r.Rng.Intn(8)
		var rules []rule12
		var bases []string
		for i := 0; i < nr; i++ {
			rl := rule12{val: 100 + i}
			rl.kind = []string{"full", "domain", "domain", "domain", "keyword", "regexp"}[r.Rng.Intn(6)]
			switch rl.kind {
			case "regexp":
				rl.pattern = regexps[r.Rng.Intn(len(regexps))]
			case "keyword":
				rl.pattern = r.spell12([]string{"ad", "example", "x", "cdn.", ".com", "a.b", "tracker", "mail"}[r.Rng.Intn(8)])
			default:
				var base string
				if len(bases) > 0 && r.Rng.Intn(2) == 0 {
					b := bases[r.Rng.Intn(len(bases))]
					switch r.Rng.Intn(4) {
					case 0:
						base = b // duplicate
					case 1:
						base = r.name12(1+r.Rng.Intn(2)) + "." + b // nested deeper (maybe with a value-less gap)
					case 2:
						if i := strings.IndexByte(b, '.'); i >= 0 {
							base = b[i+1:] // parent
						} else {
							base = b
						}
					default:
						base = r.label12() + b // string suffix, not label suffix
					}
				} else {
					base = r.name12(1 + r.Rng.Intn(3))
				}
				if r.Rng.Intn(40) == 0 {
					base = "" // the root
				}
				base = strings.Trim(base, ".") // no empty labels: "x." + "" (the root) is "x", not "x."
				for strings.Contains(base, "..") {
					base = strings.ReplaceAll(base, "..", ".")
				}
				bases = append(bases, norm12(base))
				rl.pattern = r.spell12(base)
			}
			rl.prefix = rl.kind != dflt || r.Rng.Intn(2) == 0
			if rl.kind == "regexp" && !rl.prefix && strings.Contains(rl.pattern, ":") {
				rl.prefix = true
			}
			if rl.pattern == "" {
				rl.prefix = true // an empty line is a blank line to the text loader, not a rule for the root
			}
			rules = append(rules, rl)
		}
		if r.Rng.Intn(25) == 0 { // malformed stream: unknown type / missing default
			rules = append(rules, rule12{kind: "suffix", pattern: "example.com", prefix: true, val: 999})
		}
		// names derived from the rules
		var names []string
		for _, b := range bases {
			names = append(names, b, "x."+b, r.name12(2)+"."+b, "not"+b, r.label12()+b)
			if i := strings.IndexByte(b, '.'); i >= 0 {
				names = append(names, b[i+1:], "sib."+b[i+1:])
			}
		}
		names = append(names, r.name12(1+r.Rng.Intn(4)), "ad1.example.com", "www.example.com", "123.example.com", "ad1", "a.net")
		for i := range names {
			names[i] = r.spell12(strings.Trim(names[i], "."))
			if names[i] == "" || names[i] == "." {
				names[i] = "com"
			}
		}
		if len(names) > 40 {
			r.Rng.Shuffle(len(names), func(i, j int) { names[i], names[j] = names[j], names[i] })
			names = names[:40]
		}

		// ---- implementation
		mm := domain.NewMixMatcher[int]()
		if dflt != "" {
			mm.SetDefaultMatcher(dflt)
		}
		var loadErr error
		viaText := r.Rng.Intn(2) == 0
		if viaText {
			var sb strings.Builder
			sb.WriteString("# rules\n\n")
			vals := map[string]int{}
			for i, rl := range rules {
				vals[rl.text()] = rl.val
				switch i % 3 {
				case 0:
					sb.WriteString(rl.text() + "\n")
				case 1:
					sb.WriteString("  " + rl.text() + "  # trailing comment\n")
				default:
					sb.WriteString("\t" + rl.text() + "\r\n\n")
				}
			}
			loadErr = domain.LoadFromTextReader[int](mm, strings.NewReader(sb.String()), func(s string) (string, int, error) { return s, vals[s], nil })
		} else {
			for _, rl := range rules {
				if err := mm.Add(rl.text(), rl.val); err != nil {
					loadErr = err
					break
				}
			}
		}
		// ---- model line
		var rs, ns, tbl []string
		compiled := map[string]*regexp.Regexp{}
		for _, rl := range rules {
			rs = append(rs, fmt.Sprintf("%d=%s", rl.val, hx([]byte(rl.text()))))
			if rl.kind == "regexp" {
				compiled[rl.pattern] = regexp.MustCompile(rl.pattern)
			}
		}
		seenT := map[string]bool{}
		for _, nm := range names {
			ns = append(ns, hx([]byte(nm)))
			for e, re := range compiled {
				k := hx([]byte(e)) + "@" + hx([]byte(norm12(nm)))
				if re.MatchString(norm12(nm)) && !seenT[k] {
					seenT[k] = true
					tbl = append(tbl, k)
				}
			}
		}
		sort.Strings(tbl)
		d := dflt
		if d == "" {
			d = "-"
		}
		tb := strings.Join(tbl, ";")
		if tb == "" {
			tb = "-"
		}
		line := fmt.Sprintf("mix %s %s %s %s", d, strings.Join(rs, ";"), strings.Join(ns, ";"), tb)
		if loadErr != nil {
			r.Line(line, "error")
			r.Eval(line, true)
			r.Count("load-error")
			// is the error legitimate? only an unknown type or a rule without type and without default may be refused
			legit := false
			for _, rl := range rules {
				if rl.kind == "suffix" || (!rl.prefix && dflt == "") {
					legit = true
				}
			}
			if !legit {
				r.Fail("a valid rule set was rejected", map[string]any{"rules": rs, "err": loadErr.Error()})
			}
			continue
		}
		var outs []string
		nontrivial := false
		for _, nm := range names {
			v, ok := mm.Match(nm)
			// reference answer
			var full, dom, re, kw []rule12
			for _, rl := range rules {
				if describes12(rl, compiled[rl.pattern], nm) {
					switch rl.kind {
					case "full":
						full = append(full, rl)
					case "domain":
						dom = append(dom, rl)
					case "regexp":
						re = append(re, rl)
					case "keyword":
						kw = append(kw, rl)
					}
				}
			}
			lastFor := func(kind, pat string) int { // last Add for the same (normalised) rule wins
				v := -1
				for _, rl := range rules {
					if rl.kind == kind && ((kind == "regexp" && rl.pattern == pat) || (kind != "regexp" && norm12(rl.pattern) == norm12(pat))) {
						v = rl.val
					}
				}
				return v
			}
			want := map[int]bool{}
			switch {
			case len(full) > 0:
				want[lastFor("full", full[0].pattern)] = true
			case len(dom) > 0:
				best := dom[0]
				for _, rl := range dom {
					if len(norm12(rl.pattern)) > len(norm12(best.pattern)) {
						best = rl
					}
				}
				want[lastFor("domain", best.pattern)] = true
			case len(re) > 0:
				for _, rl := range re {
					want[lastFor("regexp", rl.pattern)] = true
				}
			case len(kw) > 0:
				for _, rl := range kw {
					want[lastFor("keyword", rl.pattern)] = true
				}
			}
			if ok {
				outs = append(outs, fmt.Sprint(v))
				nontrivial = true
			} else {
				outs = append(outs, "none")
			}
			if (len(want) == 0) == ok || (ok && !want[v]) {
				var rt []string
				for _, rl := range rules {
					rt = append(rt, fmt.Sprintf("%s => %d", rl.text(), rl.val))
				}
				wl := []int{}
				for k := range want {
					wl = append(wl, k)
				}
				r.Fail(fmt.Sprintf("Match(%q) = (%d,%v) but the rules say %v", nm, v, ok, wl), map[string]any{"default_type": dflt, "rules": rt, "name": nm})
			}
		}
		r.Line(line, strings.Join(outs, ";"))
		r.Eval(line, nontrivial && len(rules) > 1)
		r.Count("via-text:" + b01(viaText))
		r.Count("default:" + d)
	}
	// scanner and normalisation on their own
	for _, s := range []string{"", ".", "a", "a.", "A.b.C.", "a..b", ".a", "..", "a.b.c.d.e", "xn--p1ai.", "UPPER.Case"} {
		sc := domain.NewReverseDomainScanner(s)
		var ls []string
		for sc.Scan() {
			ls = append(ls, hx([]byte(sc.NextLabel())))
		}
		r.Line("scan "+hx([]byte(s)), strings.Join(ls, ","))
		r.Line("norm "+hx([]byte(s)), hx([]byte(domain.NormalizeDomain(s))))
	}
	r.Finish("rule sets of 1..9 rules over the four types (prefixed or relying on the set's default type), half of the domain/full patterns derived from earlier ones (duplicate, deeper with a value-less gap, parent, string-suffix-but-not-label-suffix), mixed case and trailing dots, loaded by Add or by the text loader with comments/blank lines; names derived from the rules (exact, sub-label, `not`+name, label glued on, parent, sibling) in random spelling; non-trivial = some name matched and at least 2 rules")
}
