//go:build pC19 || pall

package main

import (
	"bytes"
	"encoding/binary"
	"fmt"
	"io"
	"math"
	"net"
	"net/http"
	"net/http/httptest"
	"sort"
	"strings"
	"time"

	"github.com/IrineSistiana/mosdns/v5/plugin/executable/cache"
	"github.com/klauspost/compress/gzip"
	"github.com/miekg/dns"
)

// C19: cache dumps reload faithfully; damaged dumps are harmless.

func init() { props["C19"] = runC19 }

type ent19 struct {
	key                string
	msg                *dns.Msg
	stored, mexp, cexp time.Time
}

// question19 is what a client may ask: mostly ordinary questions, next to
// them the unusual but legal ones - meta / high-numbered / 16-bit types,
// classes other than IN, names of 128..253 octets, AD / CD / DO set. The cache
// key of a question is binary (flags, qtype, qclass, length octet, name:
// getMsgKey), so the unusual ones have keys with octets >= 0x80.
func (r *Run) question19(i int) *dns.Msg {
	name := fmt.Sprintf("n%d-%d.example.", i, r.Rng.Intn(1000))
	if r.Rng.Intn(5) == 0 {
		target := 128 + r.Rng.Intn(120)
		for len(name) < target {
			l := target - len(name) - 1
			if l > 63 {
				l = 1 + r.Rng.Intn(63)
			}
			if l < 1 {
				l = 1
			}
			name = strings.Repeat(string(rune('a'+r.Rng.Intn(26))), l) + "." + name
		}
	}
	qtype := []uint16{dns.TypeA, dns.TypeA, dns.TypeAAAA, dns.TypeHTTPS, dns.TypeMX, dns.TypeTXT, dns.TypePTR}[r.Rng.Intn(7)]
	if r.Rng.Intn(4) == 0 {
		switch r.Rng.Intn(4) {
		case 0:
			qtype = []uint16{dns.TypeANY, dns.TypeAXFR, dns.TypeIXFR, dns.TypeMAILA, dns.TypeMAILB, dns.TypeTSIG, dns.TypeTKEY, dns.TypeTA, dns.TypeDLV, dns.TypeURI, dns.TypeCAA}[r.Rng.Intn(11)]
		case 1:
			qtype = uint16(128 + r.Rng.Intn(128))
		case 2:
			qtype = uint16(1 + r.Rng.Intn(65535))
		default:
			qtype = dns.TypeANY
		}
	}
	qclass := uint16(dns.ClassINET)
	if r.Rng.Intn(8) == 0 {
		qclass = []uint16{dns.ClassCHAOS, dns.ClassHESIOD, dns.ClassNONE, dns.ClassANY}[r.Rng.Intn(4)]
	}
	q := new(dns.Msg)
	q.SetQuestion(name, qtype)
	q.Question[0].Qclass = qclass
	q.AuthenticatedData = r.Rng.Intn(6) == 0
	q.CheckingDisabled = r.Rng.Intn(6) == 0
	if r.Rng.Intn(4) == 0 {
		q.SetEdns0(1232, r.Rng.Intn(2) == 0)
	}
	return q
}

// unusual19: the key is not plain ASCII (some octet >= 0x80).
func unusual19(k string) bool {
	for i := 0; i < len(k); i++ {
		if k[i] >= 0x80 {
			return true
		}
	}
	return false
}

// kd19 renders a cache key (binary) for a report.
func kd19(k string) string {
	if len(k) < 6 {
		return fmt.Sprintf("key %x", k)
	}
	hexk := fmt.Sprintf("%x", k)
	if len(hexk) > 80 {
		hexk = hexk[:80] + "..."
	}
	return fmt.Sprintf("question %q %s %s, %d-octet name, flags %#x (key %s)", k[6:], dns.Class(uint16(k[3])<<8|uint16(k[4])).String(), dns.Type(uint16(k[1])<<8|uint16(k[2])).String(), len(k)-6, k[0], hexk)
}

// unusualOf19 counts the keys with octets >= 0x80 and names up to three of them.
func unusualOf19(keys []string) (int, []string) {
	n := 0
	var ex []string
	for _, k := range keys {
		if unusual19(k) {
			n++
			if len(ex) < 3 {
				ex = append(ex, kd19(k))
			}
		}
	}
	return n, ex
}

func (r *Run) entry19(i int, now time.Time, big bool) ent19 {
	q := r.question19(i)
	name := q.Question[0].Name
	m := new(dns.Msg)
	m.SetQuestion(name, q.Question[0].Qtype)
	m.Question[0].Qclass = q.Question[0].Qclass
	m.Response = true
	m.Rcode = []int{0, 0, 0, 3, 2}[r.Rng.Intn(5)]
	nrr := r.Rng.Intn(4)
	for j := 0; j < nrr; j++ {
		m.Answer = append(m.Answer, &dns.A{Hdr: dns.RR_Header{Name: name, Rrtype: dns.TypeA, Class: dns.ClassINET, Ttl: uint32(1 + r.Rng.Intn(5000))}, A: net.IPv4(10, byte(i>>8), byte(i), byte(j))})
	}
	if big {
		for j := 0; j < 40+r.Rng.Intn(10); j++ {
			m.Answer = append(m.Answer, &dns.TXT{Hdr: dns.RR_Header{Name: name, Rrtype: dns.TypeTXT, Class: dns.ClassINET, Ttl: 3600}, Txt: []string{strings.Repeat("x", 200)}})
		}
	}
	if r.Rng.Intn(3) == 0 {
		m.Ns = append(m.Ns, &dns.SOA{Hdr: dns.RR_Header{Name: "example.", Rrtype: dns.TypeSOA, Class: dns.ClassINET, Ttl: uint32(r.Rng.Intn(900))}, Ns: "ns.example.", Mbox: "m.example.", Serial: 1})
	}
	age := time.Duration(r.Rng.Intn(4000))*time.Second + time.Duration(r.Rng.Intn(1000))*time.Millisecond
	e := ent19{key: cache.VerifGetMsgKey(q), msg: m, stored: now.Add(-age)}
	switch r.Rng.Intn(6) {
	case 0: // message expired, still in the store (lazy entry)
		e.mexp = now.Add(-time.Duration(1+r.Rng.Intn(100)) * time.Second)
		e.cexp = now.Add(time.Duration(100+r.Rng.Intn(86400)) * time.Second)
	case 1: // already out of the store: must not be dumped / reloaded
		e.mexp = now.Add(-time.Duration(10+r.Rng.Intn(100)) * time.Second)
		e.cexp = now.Add(-time.Duration(2+r.Rng.Intn(9)) * time.Second)
	default:
		e.mexp = now.Add(time.Duration(30+r.Rng.Intn(5000))*time.Second + 500*time.Millisecond)
		e.cexp = e.mexp.Add(time.Duration(r.Rng.Intn(3)) * time.Hour)
	}
	return e
}

// gunzipAvail returns the plaintext that can be obtained from (a prefix of) a
// compressed stream with the reads a block loader performs (8-byte header,
// then the announced body), using the same gzip implementation as mosdns,
// and whether the stream ended cleanly.
func gunzipAvail(comp []byte) (plain []byte, clean bool, hdrOK bool) {
	gr, err := gzip.NewReader(bytes.NewReader(comp))
	if err != nil {
		return nil, false, false
	}
	for {
		h := make([]byte, 8)
		n, err := io.ReadFull(gr, h)
		plain = append(plain, h[:n]...)
		if err != nil {
			return plain, err == io.EOF, true
		}
		l := binary.BigEndian.Uint64(h)
		if l > 1<<24 {
			return plain, false, true
		}
		body := make([]byte, l)
		n, err = io.ReadFull(gr, body)
		plain = append(plain, body[:n]...)
		if err != nil {
			return plain, false, true
		}
	}
}

// blocks19 parses the plaintext independently: 8-byte length + protobuf block
// (repeated field 1, length-delimited); returns per block the sizes of the
// per-entry chunks (tag + varint + entry).
func blocks19(plain []byte) (blocks [][]int, ok bool) {
	for len(plain) > 0 {
		if len(plain) < 8 {
			return blocks, false
		}
		l := int(binary.BigEndian.Uint64(plain))
		plain = plain[8:]
		if len(plain) < l {
			return blocks, false
		}
		body := plain[:l]
		plain = plain[l:]
		var sizes []int
		for len(body) > 0 {
			if body[0] != 0x0a {
				return blocks, false
			}
			v, n := binary.Uvarint(body[1:])
			if n <= 0 || 1+n+int(v) > len(body) {
				return blocks, false
			}
			sz := 1 + n + int(v)
			sizes = append(sizes, sz)
			body = body[sz:]
		}
		blocks = append(blocks, sizes)
	}
	return blocks, true
}

func blocksOp19(bl [][]int) string {
	if len(bl) == 0 {
		return "-"
	}
	var p []string
	for _, b := range bl {
		var q []string
		for _, s := range b {
			q = append(q, fmt.Sprint(s))
		}
		p = append(p, strings.Join(q, "+"))
	}
	return strings.Join(p, ",")
}

type loadRes19 struct {
	n        int
	err      error
	panicked any
	timedOut bool
	c        *cache.Cache
}

func load19(data []byte) loadRes19 {
	ch := make(chan loadRes19, 1)
	go func() {
		c := cache.NewCache(&cache.Args{Size: 1 << 16, LazyCacheTTL: 86400}, cache.Opts{})
		res := loadRes19{c: c}
		defer func() {
			if p := recover(); p != nil {
				res.panicked = p
			}
			ch <- res
		}()
		res.n, res.err = c.VerifReadDump(bytes.NewReader(data))
	}()
	select {
	case r := <-ch:
		return r
	case <-time.After(10 * time.Second):
		return loadRes19{timedOut: true}
	}
}

func gz19(plain []byte, name string) []byte {
	var b bytes.Buffer
	w, _ := gzip.NewWriterLevel(&b, gzip.BestSpeed)
	w.Name = name
	w.Write(plain)
	w.Close()
	return b.Bytes()
}

// ---- overlapping dumps of one cache -------------------------------------
//
// writeDump has three callers that are not serialised against each other (the
// periodic dump, Close, GET /dump). The scenario below holds a dump up inside
// one of its writes to the consumer (back-pressure of a slow client / disk),
// lets the cache change and further dumps run meanwhile, and then reloads
// every dump. What may be demanded of a dump that overlapped other activity is
// only what the statement says of "dumping a cache": the intact dump loads
// without error, every reloaded entry is an entry (key, answer, times) the
// cache held at some moment while that dump ran, and an entry that was live
// and untouched for the whole time of the dump is there.

// gate19 parks the writer inside its at-th Write (0 = the gzip header, which
// is emitted from inside the first gw.Write of the first block).
type gate19 struct {
	buf     bytes.Buffer
	n, at   int
	entered chan struct{}
	release chan struct{}
}

func (g *gate19) Write(p []byte) (int, error) {
	i := g.n
	g.n++
	if i == g.at {
		close(g.entered)
		<-g.release
	}
	return g.buf.Write(p)
}

type countW19 struct{ n int }

func (c *countW19) Write(p []byte) (int, error) { c.n++; return len(p), nil }

const never19 = math.MaxInt32

// ver19 is one version of one key with the (logical-clock) intervals in which
// it was being installed and being replaced; the clock only ticks on the
// scenario's own goroutine, begin ticks are taken before an action starts and
// end ticks after it was seen to have finished.
type ver19 struct {
	e      ent19
	wire   []byte
	ib, ie int
	rb, re int
}

type dump19 struct {
	name     string
	how      string
	s, e     int
	gate     *gate19
	plain    *bytes.Buffer
	rec      *httptest.ResponseRecorder
	done     chan struct{}
	n        int
	err      error
	finished bool
	noPark   bool // parked state already reported, or the gate was opened
}

func (d *dump19) bytes() []byte {
	switch {
	case d.gate != nil:
		return d.gate.buf.Bytes()
	case d.rec != nil:
		return d.rec.Body.Bytes()
	}
	return d.plain.Bytes()
}

// variant19 returns another answer for the same key: same size (only the
// message ID and the times differ), smaller, or of unrelated size.
func (r *Run) variant19(old ent19, i int, now time.Time, kind int) ent19 {
	var e ent19
	switch kind {
	case 0: // same encoded size
		e = old
		e.msg = old.msg.Copy()
		e.msg.Id = uint16(1 + r.Rng.Intn(65535))
	case 1: // smaller: fewer records
		e = old
		e.msg = old.msg.Copy()
		e.msg.Id = uint16(1 + r.Rng.Intn(65535))
		if n := len(e.msg.Answer); n > 0 {
			e.msg.Answer = e.msg.Answer[:r.Rng.Intn(n)]
		}
		e.msg.Ns = nil
	default:
		e = r.entry19(i, now, false)
		e.key = old.key
	}
	e.stored = now.Add(-time.Duration(r.Rng.Intn(4000)) * time.Second)
	if r.Rng.Intn(4) == 0 { // lazy entry: message expired, still stored
		e.mexp = now.Add(-time.Duration(1+r.Rng.Intn(100)) * time.Second)
	} else {
		e.mexp = now.Add(time.Duration(900+r.Rng.Intn(5000)) * time.Second)
	}
	e.cexp = now.Add(time.Duration(7200+r.Rng.Intn(86400)) * time.Second)
	return e
}

func (r *Run) overlap19(round int) {
	now := time.Now()
	tick := 0
	next := func() int { tick++; return tick }
	big := r.Rng.Intn(6) == 0
	nEnt := []int{1, 2, 5, 20, 60, 127, 128, 129, 300}[r.Rng.Intn(9)]
	if round%2 == 0 {
		nEnt = 1 + r.Rng.Intn(120) // one block: no write to the consumer before the store has been ranged
	}
	if big {
		nEnt = 20 + r.Rng.Intn(60) // ~10 KB answers: the compressor writes to the consumer in the middle of blocks
	}
	src := cache.NewCache(&cache.Args{Size: 1 << 16, LazyCacheTTL: 86400}, cache.Opts{})
	defer src.Close()
	hist := map[string][]*ver19{}
	var keys []string
	install := func(e ent19, ib int) *ver19 {
		w, _ := e.msg.Pack()
		v := &ver19{e: e, wire: w, ib: ib, ie: never19, rb: never19, re: never19}
		if _, ok := hist[e.key]; !ok {
			keys = append(keys, e.key)
		}
		hist[e.key] = append(hist[e.key], v)
		return v
	}
	current := func(k string) *ver19 {
		vs := hist[k]
		if len(vs) == 0 || vs[len(vs)-1].rb != never19 {
			return nil
		}
		return vs[len(vs)-1]
	}
	t0 := next()
	for i := 0; i < nEnt; i++ {
		e := r.entry19(i, now, big)
		e = r.variant19(e, i, now, 0)
		src.VerifInject(e.key, e.msg, e.stored, e.mexp, e.cexp)
		install(e, t0).ie = t0
	}
	nextKey := nEnt
	cw := &countW19{}
	if n, err := src.VerifWriteDump(cw); err != nil || n != nEnt {
		nu, exu := unusualOf19(keys)
		r.Fail("writeDump failed or did not write exactly the live entries", map[string]any{"entries": nEnt, "written": n, "err": fmt.Sprint(err), "entries_with_key_octets_above_0x7f": nu, "such_as": exu})
		return
	}
	singleBlock := nEnt <= 120 && !big // stays one block with the few names the updates add
	at := 0
	if cw.n > 2 && r.Rng.Intn(3) == 0 {
		at = r.Rng.Intn(cw.n)
	}
	var log []string
	var dumps []*dump19
	start := func(name string, gated bool, gateAt int) *dump19 {
		d := &dump19{name: name, done: make(chan struct{}), e: never19}
		switch {
		case gated:
			d.how = fmt.Sprintf("writeDump into a consumer that stalls in its write #%d", gateAt)
			d.gate = &gate19{at: gateAt, entered: make(chan struct{}), release: make(chan struct{})}
		case r.Rng.Intn(2) == 0:
			d.how = "GET /dump on the plugin API"
			d.rec = httptest.NewRecorder()
		default:
			d.how = "writeDump (as the periodic dump / Close)"
			d.plain = new(bytes.Buffer)
		}
		d.s = next()
		log = append(log, fmt.Sprintf("t%d: dump %s starts: %s", d.s, name, d.how))
		go func() {
			defer close(d.done)
			switch {
			case d.gate != nil:
				d.n, d.err = src.VerifWriteDump(d.gate)
			case d.rec != nil:
				src.Api().ServeHTTP(d.rec, httptest.NewRequest(http.MethodGet, "/dump", nil))
				d.n = -1
				if d.rec.Code != http.StatusOK {
					d.err = fmt.Errorf("status %d: %s", d.rec.Code, d.rec.Body.String())
				}
			default:
				d.n, d.err = src.VerifWriteDump(d.plain)
			}
		}()
		dumps = append(dumps, d)
		return d
	}
	// sees whether d has finished (or, for a gated dump, is parked) within the wait
	settle := func(d *dump19, wait time.Duration) (parked bool) {
		var ent chan struct{}
		if d.gate != nil && !d.noPark {
			ent = d.gate.entered
		}
		select {
		case <-d.done:
			if !d.finished {
				d.finished = true
				d.e = next()
				log = append(log, fmt.Sprintf("t%d: dump %s has finished", d.e, d.name))
			}
		case <-ent:
			d.noPark = true
			log = append(log, fmt.Sprintf("t%d: dump %s is held up by its consumer", next(), d.name))
			return true
		case <-time.After(wait):
		}
		return false
	}
	type batch19 struct {
		done    chan struct{}
		b       int
		vers    []*ver19 // installed by this batch
		retired []*ver19 // replaced / flushed by this batch
		closed  bool
	}
	var pending *batch19
	finishBatch := func(wait time.Duration) bool {
		if pending == nil {
			return true
		}
		select {
		case <-pending.done:
			te := next()
			for _, v := range pending.vers {
				v.ie = te
			}
			for _, v := range pending.retired {
				v.re = te
			}
			log = append(log, fmt.Sprintf("t%d: the update started at t%d is complete", te, pending.b))
			pending = nil
			return true
		case <-time.After(wait):
			return false
		}
	}
	mutate := func(wait time.Duration) {
		if !finishBatch(0) {
			return
		}
		b := &batch19{done: make(chan struct{}), b: next()}
		var ops []func()
		kind := r.Rng.Intn(5)
		what := ""
		switch kind {
		case 0:
			what = "nothing changes"
		case 1, 2, 3: // replace a share of the keys (all of them every other time) by same-size / smaller / unrelated answers
			vk := kind - 1
			what = []string{"answers replaced by answers of the same size", "answers replaced by smaller answers", "answers replaced by unrelated answers"}[vk]
			all := r.Rng.Intn(2) == 0
			cnt := 0
			for i, k := range keys {
				cur := current(k)
				if cur == nil || (!all && r.Rng.Intn(3) != 0) {
					continue
				}
				e := r.variant19(cur.e, i, now, vk)
				cur.rb = b.b
				b.retired = append(b.retired, cur)
				b.vers = append(b.vers, install(e, b.b))
				ops = append(ops, func() { src.VerifInject(e.key, e.msg, e.stored, e.mexp, e.cexp) })
				cnt++
			}
			for j := r.Rng.Intn(3); j > 0 && vk == 2; j-- { // and a few new names
				e := r.variant19(r.entry19(nextKey, now, false), nextKey, now, 0)
				nextKey++
				b.vers = append(b.vers, install(e, b.b))
				ops = append(ops, func() { src.VerifInject(e.key, e.msg, e.stored, e.mexp, e.cexp) })
			}
			what = fmt.Sprintf("%d %s", cnt, what)
		default: // GET /flush, then part of the names come back (same size)
			var back []ent19
			for i, k := range keys {
				cur := current(k)
				if cur == nil {
					continue
				}
				cur.rb = b.b
				b.retired = append(b.retired, cur)
				if r.Rng.Intn(3) != 0 {
					back = append(back, r.variant19(cur.e, i, now, 0))
				}
			}
			ops = append(ops, func() {
				src.Api().ServeHTTP(httptest.NewRecorder(), httptest.NewRequest(http.MethodGet, "/flush", nil))
			})
			for _, e := range back {
				e := e
				b.vers = append(b.vers, install(e, b.b))
				ops = append(ops, func() { src.VerifInject(e.key, e.msg, e.stored, e.mexp, e.cexp) })
			}
			what = fmt.Sprintf("GET /flush, then %d of the names are stored again", len(back))
		}
		log = append(log, fmt.Sprintf("t%d: update: %s", b.b, what))
		r.Count("overlap-update-" + []string{"none", "same-size", "smaller", "unrelated", "flush-refill"}[kind])
		go func() {
			defer close(b.done)
			for _, op := range ops {
				op()
			}
		}()
		pending = b
		finishBatch(wait)
	}

	long, short := 60*time.Second, 30*time.Millisecond
	A := start("A", true, at)
	aParked := settle(A, long)
	if !aParked && !A.finished {
		r.Count("overlap-stuck-skipped")
		return
	}
	// a one-block dump writes to its consumer only after it has left Range, so a
	// parked dump holds no lock of the store; a longer one may, and whoever needs
	// that shard waits for it: then do not wait for them
	wait := short
	if singleBlock {
		wait = long
	}
	ranWhileParked := []*dump19{}
	phases := 1 + r.Rng.Intn(2)
	for ph := 0; ph < phases; ph++ {
		mutate(wait)
		name := string(rune('B' + ph))
		gated := r.Rng.Intn(4) == 0
		d := start(name, gated, 0)
		if !settle(d, wait) && d.finished && aParked {
			ranWhileParked = append(ranWhileParked, d)
		}
	}
	if r.Rng.Intn(2) == 0 {
		mutate(wait)
	}
	// release the consumers in a seeded order
	var rel []*dump19
	for _, d := range dumps {
		if d.gate != nil {
			rel = append(rel, d)
		}
	}
	r.Rng.Shuffle(len(rel), func(i, j int) { rel[i], rel[j] = rel[j], rel[i] })
	for _, d := range rel {
		log = append(log, fmt.Sprintf("t%d: the consumer of dump %s no longer stalls", next(), d.name))
		d.noPark = true
		close(d.gate.release)
		if r.Rng.Intn(2) == 0 {
			settle(d, wait)
		}
	}
	for _, d := range dumps {
		if !d.finished {
			settle(d, long)
		}
		if !d.finished {
			r.Count("overlap-stuck-skipped")
			return
		}
	}
	if !finishBatch(long) {
		r.Count("overlap-stuck-skipped")
		return
	}
	// one more dump with nothing else going on
	Z := start("Z", false, 0)
	settle(Z, long)
	if !Z.finished {
		r.Count("overlap-stuck-skipped")
		return
	}

	r.Count("overlap-scenario")
	if aParked {
		r.Count(fmt.Sprintf("overlap-first-dump-held-in-write-%s", map[bool]string{true: "0", false: "n"}[at == 0]))
	}
	type reload struct {
		n      int
		err    bool
		blocks [][]int
		ok     bool
	}
	rl := map[*dump19]reload{}
	for _, d := range dumps {
		comp := d.bytes()
		desc := map[string]any{"entries": nEnt, "big_answers": big, "history": log, "dump": d.name, "dump_ran": fmt.Sprintf("t%d..t%d", d.s, d.e), "dump_bytes": len(comp)}
		r.Eval(fmt.Sprintf("overlap:%d:%s:%d", round, d.name, len(comp)), len(dumps) > 1)
		if d.err != nil {
			desc["err"] = fmt.Sprint(d.err)
			r.Fail("a dump taken while other dumps / updates of the same cache were in flight failed", desc)
			continue
		}
		res := load19(comp)
		if res.panicked != nil || res.timedOut || res.err != nil {
			desc["err"], desc["panic"] = fmt.Sprint(res.err), fmt.Sprint(res.panicked)
			r.Fail("an intact dump, taken while other dumps / updates of the same cache were in flight, fails to load", desc)
			if res.c != nil {
				res.c.Close()
			}
			continue
		}
		if d.n >= 0 && d.n != res.n {
			desc["written"], desc["read"] = d.n, res.n
			r.Fail("the loader read a different number of entries than the dump reported written", desc)
		}
		found, bad := 0, 0
		for _, k := range keys {
			m2, st2, me2, ce2, ok := res.c.VerifPeek(k)
			var definite *ver19
			for _, v := range hist[k] {
				if v.ie < d.s && v.rb > d.e {
					definite = v
				}
			}
			if !ok {
				if definite != nil && bad < 3 {
					bad++
					desc["key"] = kd19(k)
					r.Fail("an entry that was live and untouched for the whole time of the dump is missing after reload", desc)
				}
				continue
			}
			found++
			w2, _ := m2.Pack()
			match := false
			for _, v := range hist[k] {
				if v.ib <= d.e && v.re >= d.s && bytes.Equal(v.wire, w2) &&
					v.e.stored.Unix() == st2.Unix() && v.e.mexp.Unix() == me2.Unix() && v.e.cexp.Unix() == ce2.Unix() {
					match = true
				}
			}
			if !match && bad < 3 {
				bad++
				desc["key"] = kd19(k)
				r.Fail("a reloaded entry (answer, stored / message-expiry / cache-expiry time) is not an entry the cache held under that key at any moment while the dump ran", desc)
			}
		}
		if found != res.c.VerifLen() {
			desc["reloaded"], desc["under_known_keys"] = res.c.VerifLen(), found
			r.Fail("reloading the dump added entries under keys the cache never held", desc)
		}
		plain, clean, _ := gunzipAvail(comp)
		bl, okp := blocks19(plain)
		rl[d] = reload{n: res.c.VerifLen(), blocks: bl, ok: clean && okp && !big}
		res.c.Close()
	}
	// the same interleaving on the model: A marshals its first block and is held
	// in gw.Write(l); B runs from start to end; A resumes
	if aParked && at == 0 && singleBlock && len(ranWhileParked) > 0 {
		B := ranWhileParked[0]
		ra, okA := rl[A]
		rb, okB := rl[B]
		if okA && okB && ra.ok && rb.ok && len(ra.blocks) > 0 {
			sched := "0" + strings.Repeat("1", 3*len(rb.blocks)) + strings.Repeat("0", 3*len(ra.blocks)-1)
			r.Line(fmt.Sprintf("ovl %s %s %s", blocksOp19(ra.blocks), blocksOp19(rb.blocks), sched), fmt.Sprintf("%d 0 %d 0", ra.n, rb.n))
			r.Count("overlap-replayed-on-model")
		}
	}
}

// restart19: what clients are served across a restart, through the plugin's
// own paths: questions -> getMsgKey -> saveRespToCache into a cache, GET /dump,
// POST /load_dump into an empty cache (both on the plugin API), and then every
// question is looked up in both caches with getRespFromCache.
func (r *Run) restart19(round int) {
	began := time.Now()
	lazy := []int{0, 86400}[r.Rng.Intn(2)]
	a := cache.NewCache(&cache.Args{Size: 1 << 16, LazyCacheTTL: lazy}, cache.Opts{})
	defer a.Close()
	b := cache.NewCache(&cache.Args{Size: 1 << 16, LazyCacheTTL: lazy}, cache.Opts{})
	defer b.Close()
	n := []int{1, 3, 20, 127, 129, 260}[r.Rng.Intn(6)]
	var keys []string
	for i := 0; i < n; i++ {
		q := r.question19(i)
		if round%2 == 0 && i == n/2 { // at least one of the unusual questions every other round
			q.Question[0].Qtype = []uint16{dns.TypeANY, dns.TypeAXFR, uint16(128 + r.Rng.Intn(128))}[r.Rng.Intn(3)]
		}
		k := cache.VerifGetMsgKey(q)
		resp := new(dns.Msg)
		resp.SetReply(q)
		name := q.Question[0].Name
		switch r.Rng.Intn(5) {
		case 0:
			resp.Rcode = dns.RcodeNameError // kept 30 s
		case 1: // empty answer, SOA minimum decides (kept up to 300 s)
			resp.Ns = append(resp.Ns, &dns.SOA{Hdr: dns.RR_Header{Name: "example.", Rrtype: dns.TypeSOA, Class: dns.ClassINET, Ttl: uint32(60 + r.Rng.Intn(900))}, Ns: "ns.example.", Mbox: "m.example.", Serial: 1, Minttl: uint32(60 + r.Rng.Intn(900))})
		default:
			for j := 0; j <= r.Rng.Intn(3); j++ {
				resp.Answer = append(resp.Answer, &dns.A{Hdr: dns.RR_Header{Name: name, Rrtype: dns.TypeA, Class: dns.ClassINET, Ttl: uint32(60 + r.Rng.Intn(5000))}, A: net.IPv4(10, byte(i>>8), byte(i), byte(j))})
			}
		}
		if a.VerifSave(k, resp) {
			keys = append(keys, k)
		}
	}
	nu, exu := unusualOf19(keys)
	desc := map[string]any{"questions": n, "stored": len(keys), "lazy_cache_ttl": lazy, "entries_with_key_octets_above_0x7f": nu, "such_as": exu}
	r.Eval(fmt.Sprintf("restart:%d:%d:%d:%d", round, n, len(keys), nu), len(keys) > 0)
	r.Count("restart-scenario")
	if nu > 0 {
		r.Count("restart-scenario-with-unusual-questions")
	}
	if len(keys) > 0 && len(keys) <= 20 { // one block: the same keys on the model's writer (key field kind = regenerated fact)
		var hk []string
		for _, k := range keys {
			hk = append(hk, hx([]byte(k)))
		}
		wn, werr := a.VerifWriteDump(io.Discard)
		r.Line("wr "+strings.Join(hk, ","), fmt.Sprintf("%d %s", wn, b01(werr != nil)))
		r.Count("restart-keys-replayed-on-model")
	}
	rec := httptest.NewRecorder()
	a.Api().ServeHTTP(rec, httptest.NewRequest(http.MethodGet, "/dump", nil))
	if rec.Code != http.StatusOK {
		desc["status"], desc["body"] = rec.Code, strings.TrimSpace(rec.Body.String())
		r.Fail("GET /dump of a cache filled through saveRespToCache failed", desc)
		return
	}
	rec2 := httptest.NewRecorder()
	b.Api().ServeHTTP(rec2, httptest.NewRequest(http.MethodPost, "/load_dump", bytes.NewReader(rec.Body.Bytes())))
	if rec2.Code != http.StatusOK {
		desc["status"], desc["body"] = rec2.Code, strings.TrimSpace(rec2.Body.String())
		r.Fail("POST /load_dump of the dump just taken failed", desc)
		return
	}
	if time.Since(began) > 15*time.Second {
		r.Count("restart-stalled-skipped")
		return
	}
	if a.VerifLen() != len(keys) || b.VerifLen() != len(keys) { // every lifetime is >= 30 s: nothing leaves the store during the scenario
		desc["before"], desc["after"] = a.VerifLen(), b.VerifLen()
		r.Fail("the cache after GET /dump -> POST /load_dump does not hold the same number of entries", desc)
	}
	bad := 0
	for _, k := range keys {
		if time.Since(began) > 15*time.Second { // the shortest lifetime is 30 s; on a stalled machine entries may expire under us
			r.Count("restart-stalled-skipped")
			return
		}
		m1, l1 := a.VerifGet(k)
		m2, l2 := b.VerifGet(k)
		if m1 == nil || m2 == nil || l1 != l2 {
			if bad++; bad <= 3 {
				r.Fail("a question answered from the cache before the restart is served differently after GET /dump -> POST /load_dump", map[string]any{"key": kd19(k), "before_hit": m1 != nil, "after_hit": m2 != nil, "before_lazy": l1, "after_lazy": l2, "scenario": desc})
			}
			continue
		}
		same := m1.Rcode == m2.Rcode && len(m1.Answer) == len(m2.Answer) && len(m1.Ns) == len(m2.Ns) && len(m1.Question) == len(m2.Question) && m1.Question[0] == m2.Question[0]
		for _, sec := range [][2][]dns.RR{{m1.Answer, m2.Answer}, {m1.Ns, m2.Ns}} {
			for i := 0; same && i < len(sec[0]); i++ {
				x, y := dns.Copy(sec[0][i]), dns.Copy(sec[1][i])
				d := int64(x.Header().Ttl) - int64(y.Header().Ttl)
				x.Header().Ttl, y.Header().Ttl = 0, 0
				same = d >= -1 && d <= 1 && x.String() == y.String()
			}
		}
		if !same {
			if bad++; bad <= 3 {
				r.Fail("an answer served from the cache differs (records, or TTLs by more than a second) after GET /dump -> POST /load_dump", map[string]any{"key": kd19(k), "before": m1.String(), "after": m2.String()})
			}
		}
	}
}

func runC19(r *Run) {
	for round := 0; round < r.N(16, 200); round++ {
		r.overlap19(round)
	}
	for round := 0; round < r.N(6, 80); round++ {
		r.restart19(round)
	}
	for round := 0; round < r.N(6, 60); round++ {
		r.rcodes19(round)
	}
	for round := 0; round < r.N(1, 4); round++ {
		r.bigdump19(round)
	}
	for round := 0; round < r.N(2, 12); round++ {
		r.smalldump19(round)
	}
	rounds := r.N(4, 40)
	for round := 0; round < rounds; round++ {
		now := time.Now()
		nEnt := []int{0, 1, 5, 127, 128, 129, 256, 300}[r.Rng.Intn(8)]
		big := r.Rng.Intn(4) == 0
		if big {
			nEnt = 130 + r.Rng.Intn(60) // > 1 MiB per 128 entries unless the writer splits by size
		}
		src := cache.NewCache(&cache.Args{Size: 1 << 16, LazyCacheTTL: 86400}, cache.Opts{})
		var ents []ent19
		live := map[string]ent19{}
		for i := 0; i < nEnt; i++ {
			e := r.entry19(i, now, big)
			ents = append(ents, e)
			src.VerifInject(e.key, e.msg, e.stored, e.mexp, e.cexp)
			if e.cexp.After(now.Add(time.Second)) {
				live[e.key] = e
				if unusual19(e.key) {
					r.Count("live-entry-with-key-octets-above-0x7f")
				} else {
					r.Count("live-entry-with-ascii-key")
				}
			}
		}
		var dump bytes.Buffer
		nd, err := src.VerifWriteDump(&dump)
		comp := dump.Bytes()
		desc := map[string]any{"entries": nEnt, "live": len(live), "big_answers": big, "dump_bytes": len(comp)}
		if err != nil || nd != len(live) {
			var lk []string
			for k := range live {
				lk = append(lk, k)
			}
			sort.Strings(lk)
			nu, exu := unusualOf19(lk)
			r.Fail("writeDump failed or did not write exactly the live entries", map[string]any{"entries": nEnt, "live": len(live), "written": nd, "err": fmt.Sprint(err), "entries_with_key_octets_above_0x7f": nu, "such_as": exu})
			continue
		}
		plain, clean, _ := gunzipAvail(comp)
		bl, okp := blocks19(plain)
		if !clean || !okp {
			r.Fail("the dump is not a clean gzip stream of length-prefixed protobuf blocks", desc)
			continue
		}
		for _, b := range bl {
			sum := 0
			for _, s := range b {
				sum += s
			}
			if sum > 1<<20 {
				r.Fail("writeDump wrote a block longer than the 1 MiB the loader accepts", desc)
			}
		}
		blOp := blocksOp19(bl)
		if big {
			blOp = "" // too large for the model driver's list encoding; the oracle below still applies
		}

		// ---- complete dump into an empty cache: same live entries, same answers, same times to the second
		full := load19(comp)
		r.Eval(fmt.Sprintf("full:%d:%v:%d", nEnt, big, len(comp)), len(live) > 0)
		r.Count("reload-full")
		if full.panicked != nil || full.timedOut || full.err != nil {
			r.Fail("loading an intact dump failed", map[string]any{"entries": nEnt, "big_answers": big, "err": fmt.Sprint(full.err), "panic": fmt.Sprint(full.panicked)})
		} else {
			if full.c.VerifLen() != len(live) {
				desc["reloaded"] = full.c.VerifLen()
				r.Fail("reloading the dump did not reproduce the same number of live entries", desc)
			}
			checked := 0
			for k, e := range live {
				m2, st2, me2, ce2, ok := full.c.VerifPeek(k)
				if !ok {
					r.Fail("a live entry is missing after dump + load", map[string]any{"key": kd19(k)})
					break
				}
				w1, _ := e.msg.Pack()
				w2, _ := m2.Pack()
				if !bytes.Equal(w1, w2) {
					r.Fail("a reloaded entry holds a different answer", map[string]any{"key": kd19(k)})
					break
				}
				if st2.Unix() != e.stored.Unix() || me2.Unix() != e.mexp.Unix() || ce2.Unix() != e.cexp.Unix() {
					r.Fail("a reloaded entry does not keep its stored / message-expiry / cache-expiry time (to the second)", map[string]any{"key": kd19(k),
						"stored": []int64{e.stored.Unix(), st2.Unix()}, "msg_expiry": []int64{e.mexp.Unix(), me2.Unix()}, "cache_expiry": []int64{e.cexp.Unix(), ce2.Unix()}})
					break
				}
				// what clients are served
				if checked < 40 {
					checked++
					a1, l1 := src.VerifGet(k)
					a2, l2 := full.c.VerifGet(k)
					if (a1 == nil) != (a2 == nil) || l1 != l2 {
						// an entry within one second of its expiry may legitimately flip; skip those
						if d := e.mexp.Sub(time.Now()); d > 2*time.Second || d < -2*time.Second {
							r.Fail("an entry is served differently after dump + load (hit/miss/lazy)", map[string]any{"key": kd19(k), "before_hit": a1 != nil, "after_hit": a2 != nil, "before_lazy": l1, "after_lazy": l2})
						}
					} else if a1 != nil {
						s1, s2 := a1.Answer, a2.Answer
						for i := range s1 {
							d := int64(s1[i].Header().Ttl) - int64(s2[i].Header().Ttl)
							if d < -1 || d > 1 {
								r.Fail("remaining TTLs differ by more than a second after dump + load", map[string]any{"key": kd19(k), "before": s1[i].Header().Ttl, "after": s2[i].Header().Ttl})
								break
							}
						}
					}
				}
			}
			for _, e := range ents {
				if _, isLive := live[e.key]; !isLive && !e.cexp.After(now.Add(-time.Second)) {
					if _, _, _, _, ok := full.c.VerifPeek(e.key); ok {
						r.Fail("an entry that had left the store came back after dump + load", map[string]any{"key": kd19(e.key)})
					}
				}
			}
			full.c.Close()
		}
		if blOp != "" {
			r.Line(fmt.Sprintf("load %s %d 1", blOp, len(plain)), fmt.Sprintf("%d 0", len(live)))
		}

		// ---- every truncation point (thorough) / all block boundaries +-8 and seeded points (quick)
		cuts := map[int]bool{}
		if r.Thorough() && len(comp) <= 6000 {
			for c := 0; c < len(comp); c++ {
				cuts[c] = true
			}
		} else {
			for i := 0; i < r.N(60, 400); i++ {
				cuts[r.Rng.Intn(len(comp))] = true
			}
			for c := 0; c < 30 && c < len(comp); c++ {
				cuts[c] = true // inside the gzip header
			}
			for c := len(comp) - 12; c < len(comp); c++ {
				if c >= 0 {
					cuts[c] = true // inside the gzip trailer
				}
			}
		}
		for c := range cuts {
			part := comp[:c]
			p2, clean2, hdrOK := gunzipAvail(part)
			res := load19(part)
			r.Eval(fmt.Sprintf("cut:%d:%d:%d", round, len(comp), c), len(p2) > 8)
			r.Count("truncation")
			d := map[string]any{"dump_bytes": len(comp), "cut_at": c, "entries": len(live), "plaintext_available": len(p2)}
			if res.panicked != nil || res.timedOut {
				r.Fail("loading a truncated dump panicked or hung", d)
				continue
			}
			if res.err == nil {
				r.Fail("loading a truncated dump reported no error", d)
			}
			// only entries of the intact dump, unchanged
			loaded := res.c.VerifLen()
			okSubset := true
			for k := range live {
				if m2, _, _, _, ok := res.c.VerifPeek(k); ok {
					w1, _ := live[k].msg.Pack()
					w2, _ := m2.Pack()
					if !bytes.Equal(w1, w2) {
						okSubset = false
					}
					loaded--
				}
			}
			if loaded != 0 || !okSubset {
				r.Fail("loading a truncated dump added an entry the intact dump does not contain", d)
			}
			if hdrOK && blOp != "" {
				errFlag := "1"
				if clean2 {
					errFlag = "0"
				}
				r.Line(fmt.Sprintf("load %s %d %s", blOp, len(p2), b01(clean2)), fmt.Sprintf("%d %s", res.c.VerifLen(), errFlag))
			}
			res.c.Close()
		}
		src.Close()
	}

	// ---- crafted streams: valid gzip + header name, hostile block structure
	var crafted [][]byte
	be := func(n uint64) []byte { b := make([]byte, 8); binary.BigEndian.PutUint64(b, n); return b }
	for _, n := range []uint64{0, 1, 7, 1 << 20, 1<<20 + 1, 1 << 31, 1<<32 - 1, 1 << 32, 1 << 62, 1 << 63, 1<<63 + 5, 1<<64 - 1} {
		crafted = append(crafted, be(n), append(be(n), 0), append(append(be(0), be(0)...), be(n)...))
	}
	crafted = append(crafted, nil, []byte{1}, []byte{0, 0, 0, 0, 0, 0, 0}, append(be(0), be(0)...))
	for _, p := range crafted {
		res := load19(gz19(p, "mosdns_cache_v2"))
		r.Eval("crafted:"+hx(p), true)
		r.Count("crafted")
		if res.panicked != nil || res.timedOut {
			r.Fail("loading a crafted dump panicked or hung", map[string]any{"plaintext": hx(p), "panic": fmt.Sprint(res.panicked)})
			continue
		}
		errFlag := "0"
		if res.err != nil {
			errFlag = "1"
		}
		// bodies are empty or missing, so the toy codec of the driver and protobuf agree
		ok := true
		for i := 0; i+8 <= len(p); {
			l := binary.BigEndian.Uint64(p[i:])
			i += 8
			if l > 0 && l <= 1<<20 && uint64(len(p)-i) >= l {
				ok = false // would need a real protobuf body; not used above except n=1 with a 0 byte
			}
			if l > uint64(len(p)-i) {
				break
			}
			i += int(l)
		}
		if ok {
			r.Line(fmt.Sprintf("raw %s 1", hx(p)), fmt.Sprintf("%d %s", res.c.VerifLen(), errFlag))
		}
		res.c.Close()
	}
	// wrong header name, arbitrary bytes, flipped bytes
	for i := 0; i < r.N(60, 1500); i++ {
		var data []byte
		switch r.Rng.Intn(3) {
		case 0:
			data = make([]byte, r.Rng.Intn(200))
			r.Rng.Read(data)
		case 1:
			data = gz19(append(be(uint64(r.Rng.Intn(40))), make([]byte, r.Rng.Intn(60))...), []string{"mosdns_cache_v2", "mosdns_cache", ""}[r.Rng.Intn(3)])
		default:
			data = gz19(append(be(3), 1, 2, 3), "mosdns_cache_v2")
			for k := 0; k < 1+r.Rng.Intn(3); k++ {
				data[r.Rng.Intn(len(data))] ^= 1 << uint(r.Rng.Intn(8))
			}
		}
		res := load19(data)
		r.Eval("fuzz:"+hx(data), true)
		r.Count("arbitrary")
		if res.panicked != nil || res.timedOut {
			r.Fail("loading an arbitrary / corrupted file panicked or hung", map[string]any{"file": hx(data), "panic": fmt.Sprint(res.panicked)})
		}
		if res.c != nil {
			res.c.Close()
		}
	}
	r.Finish("overlapping dumps of one cache: a first dump (1..300 entries, a sixth with ~10 KB answers) is held up inside a seeded write to its consumer (the gzip header or a later one) while 1-2 further dumps (writeDump or GET /dump, a quarter held up too) run and the cache is updated between them (nothing / same-size / smaller / unrelated answers, new names, GET /flush + partial refill), consumers released in seeded order, one final undisturbed dump; every dump is reloaded: it loads without error, every reloaded entry equals (answer and times to the second) a version the cache held under that key at some moment while that dump ran, entries live and untouched for the whole dump are present, no foreign keys; when the first dump was parked in the first write of a one-block dump and the next ran start to end, the same interleaving is run on the model (ovl); entries are keyed by getMsgKey of seeded client questions: mostly ordinary (A/AAAA/HTTPS/MX/TXT/PTR IN, short names), about four in ten unusual but legal (ANY / AXFR / IXFR / TSIG / TA / DLV / TYPE128..255 / any 16-bit type, class CH / HS / NONE / ANY, names of 128..247 octets, AD / CD / DO), so dumped keys hold octets >= 0x80 next to plain ASCII ones; restart scenarios on the plugin paths: 1..260 questions -> getMsgKey -> saveRespToCache (answers, NXDOMAIN, empty + SOA; lazy cache on / off), GET /dump, POST /load_dump into an empty cache, both 200, same number of entries, every question looked up in both caches with getRespFromCache: same hit / lazy flag, same records, TTLs within a second (one-block caches: the keys are also run through the model writer, wr); rcode scenarios: 24..290 seeded questions through Cache.Exec with an upstream that answers, off the wire (Pack -> Unpack), with every rcode 0..23 (16..23 carried by an OPT record), a few of 24..4095 and ordinary answers around them; whatever the plugin kept is dumped (writeDump or GET /dump): the dump succeeds, loads without error, every entry the cache held is there with the same answer, rcode and times, nothing else is, and up to 60 questions are asked of both caches with no upstream behind them: same hit / rcode / records, TTLs within a second (skipped when the machine stalls beyond the 5 s SERVFAIL lifetime); one big cache (thorough: 4): 700..900 (thorough: up to 2400) TXT answers of 14..19 KiB incompressible key material stored with saveRespToCache, GET /dump over a real HTTP connection (httptest server), the 9..14 MiB body (thorough: up to ~35 MiB) posted to /load_dump of an empty cache on another server: 200, same number of entries, every entry equal (answer, times) both through the API and through readDump; two caches (thorough: 12) configured with a size below the documented minimum (1, 2, 4, 16, 64, 256, 1023 or seeded 1..1023; pkg/cache holds 1024 entries for all of them; the first always size 1 or 4), filled until 850..1000 entries are live with 1..4 A records / 1..2 KiB / 14..19 KiB of TXT key material, GET /dump over real HTTP, body posted (Content-Length or chunked) to /load_dump of an empty cache of the same configured size: 200, same number of entries, every entry equal (answer, times); then caches of {0,1,5,127,128,129,256,300} entries (a quarter with ~10 KB answers, 130..190 entries) with random ages, a sixth message-expired but still stored, a sixth already out of the store; dump -> load into an empty cache -> compare keys, answers, times and served TTLs; truncation of the compressed dump at seeded points + the whole gzip header and trailer (thorough: every byte of small dumps); crafted gzip streams with block lengths {0,1,7,2^20,2^20+1,2^31,...,2^64-1}; random bytes, wrong header names, bit flips; non-trivial = dump with live entries / cut that leaves more than a header / every hostile file")
}
