//go:build pC19 || pall

package main

import (
	"bytes"
	"encoding/binary"
	"fmt"
	"io"
	"net"
	"strings"
	"time"

	"github.com/IrineSistiana/mosdns/v5/plugin/executable/cache"
	"github.com/klauspost/compress/gzip"
	"github.com/miekg/dns"
)

// C19: cache dumps reload faithfully; damaged dumps are harmless.

func init() { props["C19"] = runC19 }

type ent19 struct {
	key                string
	msg                *dns.Msg
	stored, mexp, cexp time.Time
}

func (r *Run) entry19(i int, now time.Time, big bool) ent19 {
	m := new(dns.Msg)
	name := fmt.Sprintf("n%d-%d.example.", i, r.Rng.Intn(1000))
	m.SetQuestion(name, dns.TypeA)
	m.Response = true
	m.Rcode = []int{0, 0, 0, 3, 2}[r.Rng.Intn(5)]
	nrr := r.Rng.Intn(4)
	for j := 0; j < nrr; j++ {
		m.Answer = append(m.Answer, &dns.A{Hdr: dns.RR_Header{Name: name, Rrtype: dns.TypeA, Class: dns.ClassINET, Ttl: uint32(1 + r.Rng.Intn(5000))}, A: net.IPv4(10, byte(i>>8), byte(i), byte(j))})
	}
	if big {
		for j := 0; j < 40+r.Rng.Intn(10); j++ {
			m.Answer = append(m.Answer, &dns.TXT{Hdr: dns.RR_Header{Name: name, Rrtype: dns.TypeTXT, Class: dns.ClassINET, Ttl: 3600}, Txt: []string{strings.Repeat("x", 200)}})
		}
	}
	if r.Rng.Intn(3) == 0 {
		m.Ns = append(m.Ns, &dns.SOA{Hdr: dns.RR_Header{Name: "example.", Rrtype: dns.TypeSOA, Class: dns.ClassINET, Ttl: uint32(r.Rng.Intn(900))}, Ns: "ns.example.", Mbox: "m.example.", Serial: 1})
	}
	age := time.Duration(r.Rng.Intn(4000))*time.Second + time.Duration(r.Rng.Intn(1000))*time.Millisecond
	e := ent19{key: fmt.Sprintf("\x00\x00\x01\x00\x01\x05key%d", i), msg: m, stored: now.Add(-age)}
	switch r.Rng.Intn(6) {
	case 0: // message expired, still in the store (lazy entry)
		e.mexp = now.Add(-time.Duration(1+r.Rng.Intn(100)) * time.Second)
		e.cexp = now.Add(time.Duration(100+r.Rng.Intn(86400)) * time.Second)
	case 1: // already out of the store: must not be dumped / reloaded
		e.mexp = now.Add(-time.Duration(10+r.Rng.Intn(100)) * time.Second)
		e.cexp = now.Add(-time.Duration(2+r.Rng.Intn(9)) * time.Second)
	default:
		e.mexp = now.Add(time.Duration(30+r.Rng.Intn(5000))*time.Second + 500*time.Millisecond)
		e.cexp = e.mexp.Add(time.Duration(r.Rng.Intn(3)) * time.Hour)
	}
	return e
}

// gunzipAvail returns the plaintext that can be obtained from (a prefix of) a
// compressed stream with the reads a block loader performs (8-byte header,
// then the announced body), using the same gzip implementation as mosdns,
// and whether the stream ended cleanly.
func gunzipAvail(comp []byte) (plain []byte, clean bool, hdrOK bool) {
	gr, err := gzip.NewReader(bytes.NewReader(comp))
	if err != nil {
		return nil, false, false
	}
	for {
		h := make([]byte, 8)
		n, err := io.ReadFull(gr, h)
		plain = append(plain, h[:n]...)
		if err != nil {
			return plain, err == io.EOF, true
		}
		l := binary.BigEndian.Uint64(h)
		if l > 1<<24 {
			return plain, false, true
		}
		body := make([]byte, l)
		n, err = io.ReadFull(gr, body)
		plain = append(plain, body[:n]...)
		if err != nil {
			return plain, false, true
		}
	}
}

// blocks19 parses the plaintext independently: 8-byte length + protobuf block
// (repeated field 1, length-delimited); returns per block the sizes of the
// per-entry chunks (tag + varint + entry).
func blocks19(plain []byte) (blocks [][]int, ok bool) {
	for len(plain) > 0 {
		if len(plain) < 8 {
			return blocks, false
		}
		l := int(binary.BigEndian.Uint64(plain))
		plain = plain[8:]
		if len(plain) < l {
			return blocks, false
		}
		body := plain[:l]
		plain = plain[l:]
		var sizes []int
		for len(body) > 0 {
			if body[0] != 0x0a {
				return blocks, false
			}
			v, n := binary.Uvarint(body[1:])
			if n <= 0 || 1+n+int(v) > len(body) {
				return blocks, false
			}
			sz := 1 + n + int(v)
			sizes = append(sizes, sz)
			body = body[sz:]
		}
		blocks = append(blocks, sizes)
	}
	return blocks, true
}

func blocksOp19(bl [][]int) string {
	if len(bl) == 0 {
		return "-"
	}
	var p []string
	for _, b := range bl {
		var q []string
		for _, s := range b {
			q = append(q, fmt.Sprint(s))
		}
		p = append(p, strings.Join(q, "+"))
	}
	return strings.Join(p, ",")
}

type loadRes19 struct {
	n        int
	err      error
	panicked any
	timedOut bool
	c        *cache.Cache
}

func load19(data []byte) loadRes19 {
	ch := make(chan loadRes19, 1)
	go func() {
		c := cache.NewCache(&cache.Args{Size: 1 << 16, LazyCacheTTL: 86400}, cache.Opts{})
		res := loadRes19{c: c}
		defer func() {
			if p := recover(); p != nil {
				res.panicked = p
			}
			ch <- res
		}()
		res.n, res.err = c.VerifReadDump(bytes.NewReader(data))
	}()
	select {
	case r := <-ch:
		return r
	case <-time.After(10 * time.Second):
		return loadRes19{timedOut: true}
	}
}

func gz19(plain []byte, name string) []byte {
	var b bytes.Buffer
	w, _ := gzip.NewWriterLevel(&b, gzip.BestSpeed)
	w.Name = name
	w.Write(plain)
	w.Close()
	return b.Bytes()
}

func runC19(r *Run) {
	rounds := r.N(4, 40)
	for round := 0; round < rounds; round++ {
		now := time.Now()
		nEnt := []int{0, 1, 5, 127, 128, 129, 256, 300}[r.Rng.Intn(8)]
		big := r.Rng.Intn(4) == 0
		if big {
			nEnt = 130 + r.Rng.Intn(60) // > 1 MiB per 128 entries unless the writer splits by size
		}
		src := cache.NewCache(&cache.Args{Size: 1 << 16, LazyCacheTTL: 86400}, cache.Opts{})
		var ents []ent19
		live := map[string]ent19{}
		for i := 0; i < nEnt; i++ {
			e := r.entry19(i, now, big)
			ents = append(ents, e)
			src.VerifInject(e.key, e.msg, e.stored, e.mexp, e.cexp)
			if e.cexp.After(now.Add(time.Second)) {
				live[e.key] = e
			}
		}
		var dump bytes.Buffer
		nd, err := src.VerifWriteDump(&dump)
		comp := dump.Bytes()
		desc := map[string]any{"entries": nEnt, "live": len(live), "big_answers": big, "dump_bytes": len(comp)}
		if err != nil || nd != len(live) {
			r.Fail("writeDump failed or did not write exactly the live entries", map[string]any{"entries": nEnt, "live": len(live), "written": nd, "err": fmt.Sprint(err)})
			continue
		}
		plain, clean, _ := gunzipAvail(comp)
		bl, okp := blocks19(plain)
		if !clean || !okp {
			r.Fail("the dump is not a clean gzip stream of length-prefixed protobuf blocks", desc)
			continue
		}
		for _, b := range bl {
			sum := 0
			for _, s := range b {
				sum += s
			}
			if sum > 1<<20 {
				r.Fail("writeDump wrote a block longer than the 1 MiB the loader accepts", desc)
			}
		}
		blOp := blocksOp19(bl)
		if big {
			blOp = "" // too large for the model driver's list encoding; the oracle below still applies
		}

		// ---- complete dump into an empty cache: same live entries, same answers, same times to the second
		full := load19(comp)
		r.Eval(fmt.Sprintf("full:%d:%v:%d", nEnt, big, len(comp)), len(live) > 0)
		r.Count("reload-full")
		if full.panicked != nil || full.timedOut || full.err != nil {
			r.Fail("loading an intact dump failed", map[string]any{"entries": nEnt, "big_answers": big, "err": fmt.Sprint(full.err), "panic": fmt.Sprint(full.panicked)})
		} else {
			if full.c.VerifLen() != len(live) {
				desc["reloaded"] = full.c.VerifLen()
				r.Fail("reloading the dump did not reproduce the same number of live entries", desc)
			}
			checked := 0
			for k, e := range live {
				m2, st2, me2, ce2, ok := full.c.VerifPeek(k)
				if !ok {
					r.Fail("a live entry is missing after dump + load", map[string]any{"key": k})
					break
				}
				w1, _ := e.msg.Pack()
				w2, _ := m2.Pack()
				if !bytes.Equal(w1, w2) {
					r.Fail("a reloaded entry holds a different answer", map[string]any{"key": k})
					break
				}
				if st2.Unix() != e.stored.Unix() || me2.Unix() != e.mexp.Unix() || ce2.Unix() != e.cexp.Unix() {
					r.Fail("a reloaded entry does not keep its stored / message-expiry / cache-expiry time (to the second)", map[string]any{"key": k,
						"stored": []int64{e.stored.Unix(), st2.Unix()}, "msg_expiry": []int64{e.mexp.Unix(), me2.Unix()}, "cache_expiry": []int64{e.cexp.Unix(), ce2.Unix()}})
					break
				}
				// what clients are served
				if checked < 40 {
					checked++
					a1, l1 := src.VerifGet(k)
					a2, l2 := full.c.VerifGet(k)
					if (a1 == nil) != (a2 == nil) || l1 != l2 {
						// an entry within one second of its expiry may legitimately flip; skip those
						if d := e.mexp.Sub(time.Now()); d > 2*time.Second || d < -2*time.Second {
							r.Fail("an entry is served differently after dump + load (hit/miss/lazy)", map[string]any{"key": k, "before_hit": a1 != nil, "after_hit": a2 != nil, "before_lazy": l1, "after_lazy": l2})
						}
					} else if a1 != nil {
						s1, s2 := a1.Answer, a2.Answer
						for i := range s1 {
							d := int64(s1[i].Header().Ttl) - int64(s2[i].Header().Ttl)
							if d < -1 || d > 1 {
								r.Fail("remaining TTLs differ by more than a second after dump + load", map[string]any{"key": k, "before": s1[i].Header().Ttl, "after": s2[i].Header().Ttl})
								break
							}
						}
					}
				}
			}
			for _, e := range ents {
				if _, isLive := live[e.key]; !isLive && !e.cexp.After(now.Add(-time.Second)) {
					if _, _, _, _, ok := full.c.VerifPeek(e.key); ok {
						r.Fail("an entry that had left the store came back after dump + load", map[string]any{"key": e.key})
					}
				}
			}
			full.c.Close()
		}
		if blOp != "" {
			r.Line(fmt.Sprintf("load %s %d 1", blOp, len(plain)), fmt.Sprintf("%d 0", len(live)))
		}

		// ---- every truncation point (thorough) / all block boundaries +-8 and seeded points (quick)
		cuts := map[int]bool{}
		if r.Thorough() && len(comp) <= 6000 {
			for c := 0; c < len(comp); c++ {
				cuts[c] = true
			}
		} else {
			for i := 0; i < r.N(60, 400); i++ {
				cuts[r.Rng.Intn(len(comp))] = true
			}
			for c := 0; c < 30 && c < len(comp); c++ {
				cuts[c] = true // inside the gzip header
			}
			for c := len(comp) - 12; c < len(comp); c++ {
				if c >= 0 {
					cuts[c] = true // inside the gzip trailer
				}
			}
		}
		for c := range cuts {
			part := comp[:c]
			p2, clean2, hdrOK := gunzipAvail(part)
			res := load19(part)
			r.Eval(fmt.Sprintf("cut:%d:%d:%d", round, len(comp), c), len(p2) > 8)
			r.Count("truncation")
			d := map[string]any{"dump_bytes": len(comp), "cut_at": c, "entries": len(live), "plaintext_available": len(p2)}
			if res.panicked != nil || res.timedOut {
				r.Fail("loading a truncated dump panicked or hung", d)
				continue
			}
			if res.err == nil {
				r.Fail("loading a truncated dump reported no error", d)
			}
			// only entries of the intact dump, unchanged
			loaded := res.c.VerifLen()
			okSubset := true
			for k := range live {
				if m2, _, _, _, ok := res.c.VerifPeek(k); ok {
					w1, _ := live[k].msg.Pack()
					w2, _ := m2.Pack()
					if !bytes.Equal(w1, w2) {
						okSubset = false
					}
					loaded--
				}
			}
			if loaded != 0 || !okSubset {
				r.Fail("loading a truncated dump added an entry the intact dump does not contain", d)
			}
			if hdrOK && blOp != "" {
				errFlag := "1"
				if clean2 {
					errFlag = "0"
				}
				r.Line(fmt.Sprintf("load %s %d %s", blOp, len(p2), b01(clean2)), fmt.Sprintf("%d %s", res.c.VerifLen(), errFlag))
			}
			res.c.Close()
		}
		src.Close()
	}

	// ---- crafted streams: valid gzip + header name, hostile block structure
	var crafted [][]byte
	be := func(n uint64) []byte { b := make([]byte, 8); binary.BigEndian.PutUint64(b, n); return b }
	for _, n := range []uint64{0, 1, 7, 1 << 20, 1<<20 + 1, 1 << 31, 1<<32 - 1, 1 << 32, 1 << 62, 1 << 63, 1<<63 + 5, 1<<64 - 1} {
		crafted = append(crafted, be(n), append(be(n), 0), append(append(be(0), be(0)...), be(n)...))
	}
	crafted = append(crafted, nil, []byte{1}, []byte{0, 0, 0, 0, 0, 0, 0}, append(be(0), be(0)...))
	for _, p := range crafted {
		res := load19(gz19(p, "mosdns_cache_v2"))
		r.Eval("crafted:"+hx(p), true)
		r.Count("crafted")
		if res.panicked != nil || res.timedOut {
			r.Fail("loading a crafted dump panicked or hung", map[string]any{"plaintext": hx(p), "panic": fmt.Sprint(res.panicked)})
			continue
		}
		errFlag := "0"
		if res.err != nil {
			errFlag = "1"
		}
		// bodies are empty or missing, so the toy codec of the driver and protobuf agree
		ok := true
		for i := 0; i+8 <= len(p); {
			l := binary.BigEndian.Uint64(p[i:])
			i += 8
			if l > 0 && l <= 1<<20 && uint64(len(p)-i) >= l {
				ok = false // would need a real protobuf body; not used above except n=1 with a 0 byte
			}
			if l > uint64(len(p)-i) {
				break
			}
			i += int(l)
		}
		if ok {
			r.Line(fmt.Sprintf("raw %s 1", hx(p)), fmt.Sprintf("%d %s", res.c.VerifLen(), errFlag))
		}
		res.c.Close()
	}
	// wrong header name, arbitrary bytes, flipped bytes
	for i := 0; i < r.N(60, 1500); i++ {
		var data []byte
		switch r.Rng.Intn(3) {
		case 0:
			data = make([]byte, r.Rng.Intn(200))
			r.Rng.Read(data)
		case 1:
			data = gz19(append(be(uint64(r.Rng.Intn(40))), make([]byte, r.Rng.Intn(60))...), []string{"mosdns_cache_v2", "mosdns_cache", ""}[r.Rng.Intn(3)])
		default:
			data = gz19(append(be(3), 1, 2, 3), "mosdns_cache_v2")
			for k := 0; k < 1+r.Rng.Intn(3); k++ {
				data[r.Rng.Intn(len(data))] ^= 1 << uint(r.Rng.Intn(8))
			}
		}
		res := load19(data)
		r.Eval("fuzz:"+hx(data), true)
		r.Count("arbitrary")
		if res.panicked != nil || res.timedOut {
			r.Fail("loading an arbitrary / corrupted file panicked or hung", map[string]any{"file": hx(data), "panic": fmt.Sprint(res.panicked)})
		}
		if res.c != nil {
			res.c.Close()
		}
	}
	r.Finish("caches of {0,1,5,127,128,129,256,300} entries (a quarter with ~10 KB answers, 130..190 entries) with random ages, a sixth message-expired but still stored, a sixth already out of the store; dump -> load into an empty cache -> compare keys, answers, times and served TTLs; truncation of the compressed dump at seeded points + the whole gzip header and trailer (thorough: every byte of small dumps); crafted gzip streams with block lengths {0,1,7,2^20,2^20+1,2^31,...,2^64-1}; random bytes, wrong header names, bit flips; non-trivial = dump with live entries / cut that leaves more than a header / every hostile file")
}
