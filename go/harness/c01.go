//go:build pC01 || pall

package main

import (
	"bytes"
	"context"
	"encoding/base64"
	"encoding/binary"
	"fmt"
	"io"
	"net/http"
	"runtime"
	"sort"
	"strings"
	"sync"
	"time"

	"github.com/IrineSistiana/mosdns/v5/pkg/pool"
	"github.com/IrineSistiana/mosdns/v5/pkg/upstream/doh"
	"github.com/IrineSistiana/mosdns/v5/pkg/upstream/transport"
)

// C01: every upstream exchange returns the reply to its own query.
//
// The harness is the server. Each query carries a unique question (tag) and a
// caller id drawn from a small colliding set (0, 0xFFFF, ...). Replies are
// produced from the query bytes seen on the wire, and sent in any order, late,
// twice, or with ids nobody waits for. pool.ReleaseBuf is wrapped so that a
// released buffer is overwritten: a reply released while its caller still owns
// it shows up as a wrong reply.

func init() { props["C01"] = runC01 }

type call01 struct {
	n      int // caller number on its connection (model numbering)
	tag    int
	id     uint16
	cancel context.CancelFunc
	done   chan struct{}
	resp   *[]byte
	err    error
	wireQ  []byte
	conn   *fakeConn
}

func (c *call01) finished() bool {
	select {
	case <-c.done:
		return true
	default:
		return false
	}
}

func (c *call01) wait(d time.Duration) bool {
	select {
	case <-c.done:
		return true
	case <-time.After(d):
		return false
	}
}

// verdict: "" while running, "own" / "foreign:<tag>" / "badid" / "err"
func (c *call01) verdict() string {
	if !c.finished() {
		return ""
	}
	if c.err != nil || c.resp == nil {
		return "err"
	}
	r := *c.resp
	if len(r) < 12 || tagOf(r) != c.tag {
		return fmt.Sprintf("foreign:%d", tagOf(r))
	}
	if binary.BigEndian.Uint16(r) != c.id {
		return "badid"
	}
	return "own"
}

var ids01 = []uint16{0, 0xFFFF, 1, 0x1234, 0, 0xFFFF, 7}
var tag01 int

// rawRelease01 is pool.ReleaseBuf as the repo has it (no overwriting) while poison01 is in force.
var rawRelease01 func(*[]byte)

func poison01() func() {
	orig := pool.ReleaseBuf
	rawRelease01 = orig
	pool.ReleaseBuf = func(b *[]byte) {
		if b != nil {
			for i := range *b {
				(*b)[i] = 0xEE
			}
		}
		orig(b)
	}
	return func() { pool.ReleaseBuf = orig }
}

func runC01(r *Run) {
	undo := poison01()
	defer undo()

	newCall := func(ex func(ctx context.Context, q []byte) (*[]byte, error)) *call01 {
		tag01++
		c := &call01{tag: tag01, id: ids01[r.Rng.Intn(len(ids01))], done: make(chan struct{})}
		ctx, cancel := context.WithTimeout(context.Background(), 120*time.Second)
		c.cancel = cancel
		q := mkQuery(c.id, c.tag)
		go func() {
			c.resp, c.err = ex(ctx, q)
			close(c.done)
		}()
		return c
	}
	findWrite := func(conns func() []*fakeConn, c *call01, d time.Duration) bool {
		deadline := time.Now().Add(d)
		for {
			for _, fc := range conns() {
				fc.mu.Lock()
				for _, w := range fc.writes {
					p := fc.payloadOf(w)
					if len(p) >= 12 && tagOf(p) == c.tag {
						c.wireQ, c.conn = p, fc
					}
				}
				fc.mu.Unlock()
			}
			if c.wireQ != nil {
				return true
			}
			if c.finished() || time.Now().After(deadline) {
				return false
			}
			runtime.Gosched()
		}
	}

	// ---------------------------------------------------------- part 1: one pipelined / UDP connection, scripted histories
	histories := r.N(30, 300)
	for hi := 0; hi < histories; hi++ {
		stream := r.Rng.Intn(2) == 0
		fc := newFakeConn(hi, stream)
		dc := transport.NewDnsConn(transport.TraditionalDnsConnOpts{WithLengthHeader: stream, IdleTimeout: 20 * time.Second, MaxConcurrentQuery: 64}, fc)
		ex := func(ctx context.Context, q []byte) (*[]byte, error) {
			rx, _ := dc.ReserveNewQuery()
			if rx == nil {
				return nil, fmt.Errorf("cannot reserve")
			}
			return rx.ExchangeReserved(ctx, q)
		}
		var calls []*call01 // by model caller number
		waiting := map[int]bool{}
		lastUser := map[uint16]int{}
		var ops, outs []string
		checked := map[int]bool{}
		scan := func(expect int) {
			// any caller other than `expect` that has just finished with a reply must hold its own reply
			for n, c := range calls {
				if checked[n] || !c.finished() {
					continue
				}
				checked[n] = true
				v := c.verdict()
				if v != "own" && v != "err" {
					r.Fail("an exchange returned a reply that is not the server's reply to its own query (or its id was not restored)", map[string]any{
						"history": strings.Join(ops, ","), "caller": n, "verdict": v, "caller_id": c.id, "stream": stream})
				}
				if v == "own" && n != expect {
					r.Fail("a caller received a reply although the server had not answered its query", map[string]any{"history": strings.Join(ops, ","), "caller": n})
				}
			}
		}
		add := func() {
			c := newCall(ex)
			c.n = len(calls)
			calls = append(calls, c)
			if !findWrite(func() []*fakeConn { return []*fakeConn{fc} }, c, 2*time.Second) {
				ops = append(ops, "add")
				outs = append(outs, "wid=none")
				return
			}
			w := binary.BigEndian.Uint16(c.wireQ)
			for n := range waiting {
				if binary.BigEndian.Uint16(calls[n].wireQ) == w {
					r.Fail("two waiting queries share a wire id", map[string]any{"history": strings.Join(ops, ","), "wire_id": w, "callers": []int{n, c.n}})
				}
			}
			waiting[c.n] = true
			lastUser[w] = c.n
			ops = append(ops, "add")
			outs = append(outs, fmt.Sprintf("wid=%d", w))
		}
		reply := func(o int) {
			c := calls[o]
			w := binary.BigEndian.Uint16(c.wireQ)
			fc.feed(fc.frame(mkReply(c.wireQ, w)))
			out := "dropped"
			if waiting[o] {
				if c.wait(2 * time.Second) {
					out = fmt.Sprintf("to=%d", o)
				}
				delete(waiting, o)
			} else {
				fc.waitDrained(time.Second)
				time.Sleep(100 * time.Microsecond)
			}
			// did it reach somebody else?
			for n := range waiting {
				if calls[n].finished() && calls[n].err == nil {
					out = fmt.Sprintf("to=%d", n)
					delete(waiting, n)
				}
			}
			ops = append(ops, fmt.Sprintf("reply:%d:%d", w, o))
			outs = append(outs, out)
			scan(o)
		}
		wrap := hi%10 == 0 // one long-lived query survives a full turn of the 16-bit counter
		steps := 8 + r.Rng.Intn(30)
		if wrap {
			add()
			add()
			n := 65536 - 2 - 1 - r.Rng.Intn(3)
			for i := 0; i < n; i++ {
				c := newCall(ex)
				c.n = len(calls)
				calls = append(calls, c)
				if !findWrite(func() []*fakeConn { return []*fakeConn{fc} }, c, 2*time.Second) {
					break
				}
				w := binary.BigEndian.Uint16(c.wireQ)
				lastUser[w] = c.n
				fc.feed(fc.frame(mkReply(c.wireQ, w)))
				c.wait(2 * time.Second)
				if v := c.verdict(); v != "own" {
					r.Fail("an exchange returned a reply that is not the server's reply to its own query", map[string]any{"history": strings.Join(ops, ",") + ",fill", "caller": c.n, "verdict": v})
				}
				checked[c.n] = true
				fc.mu.Lock()
				fc.writes = fc.writes[:0]
				fc.mu.Unlock()
				c.resp = nil
			}
			ops = append(ops, fmt.Sprintf("fill:%d", n))
			outs = append(outs, fmt.Sprintf("wid=%d", binary.BigEndian.Uint16(calls[len(calls)-1].wireQ)))
			steps = 12
		}
		for st := 0; st < steps; st++ {
			switch k := r.Rng.Intn(12); {
			case k >= 10 && len(waiting) < 40:
				// the reply arrives while the caller is still inside Write, the caller's context ends, then Write returns:
				// the caller takes the reply or leaves (both are ready); whatever it does, the NEXT query on this
				// connection must wait for its own reply (nothing of this one may be left behind for it)
				gate := make(chan struct{})
				fc.mu.Lock()
				fc.onWrite = func(*fakeConn, []byte) error { <-gate; return nil }
				fc.mu.Unlock()
				c := newCall(ex)
				c.n = len(calls)
				calls = append(calls, c)
				found := findWrite(func() []*fakeConn { return []*fakeConn{fc} }, c, 2*time.Second)
				fc.mu.Lock()
				fc.onWrite = nil
				fc.mu.Unlock()
				if !found {
					close(gate)
					ops = append(ops, "add")
					outs = append(outs, "wid=none")
					continue
				}
				w := binary.BigEndian.Uint16(c.wireQ)
				for n := range waiting {
					if binary.BigEndian.Uint16(calls[n].wireQ) == w {
						r.Fail("two waiting queries share a wire id", map[string]any{"history": strings.Join(ops, ","), "wire_id": w, "callers": []int{n, c.n}})
					}
				}
				lastUser[w] = c.n
				ops = append(ops, "add")
				outs = append(outs, fmt.Sprintf("wid=%d", w))
				fc.feed(fc.frame(mkReply(c.wireQ, w)))
				fc.waitDrained(time.Second)
				c.cancel()
				close(gate)
				c.wait(2 * time.Second)
				if c.verdict() == "err" {
					checked[c.n] = true
					ops = append(ops, fmt.Sprintf("leave:%d", c.n), fmt.Sprintf("reply:%d:%d", w, c.n))
					outs = append(outs, "-", "dropped")
					r.Count("pipe:left-with-reply-delivered")
				} else {
					ops = append(ops, fmt.Sprintf("reply:%d:%d", w, c.n))
					outs = append(outs, fmt.Sprintf("to=%d", c.n))
					scan(c.n)
					r.Count("pipe:reply-inside-write-then-cancel")
				}
				add()
				nb := calls[len(calls)-1]
				if nb.wait(3*time.Millisecond) && nb.err == nil {
					r.Fail("a query returned at once with a reply although the server had not answered it (a reply left behind by an earlier, abandoned query)", map[string]any{
						"history": strings.Join(ops, ","), "caller": nb.n, "verdict": nb.verdict(), "stream": stream})
					delete(waiting, nb.n)
				}
				scan(-1)
			case k < 4 && len(waiting) < 40:
				add()
			case k < 7 && len(waiting) > 0: // answer a waiting query (any order)
				var ws []int
				for n := range waiting {
					ws = append(ws, n)
				}
				sort.Ints(ws)
				reply(ws[r.Rng.Intn(len(ws))])
			case k == 7 && len(calls) > 0: // duplicate / late reply: to any earlier query that is still the latest user of its id
				o := r.Rng.Intn(len(calls))
				if calls[o].wireQ != nil && lastUser[binary.BigEndian.Uint16(calls[o].wireQ)] == o {
					reply(o)
				}
			case k == 8 && len(waiting) > 0: // the caller gives up
				var ws []int
				for n := range waiting {
					ws = append(ws, n)
				}
				sort.Ints(ws)
				o := ws[r.Rng.Intn(len(ws))]
				calls[o].cancel()
				calls[o].wait(2 * time.Second)
				delete(waiting, o)
				checked[o] = true
				ops = append(ops, fmt.Sprintf("leave:%d", o))
				outs = append(outs, "-")
			case k == 9: // a reply with an id nobody waits for
				var w uint16
				for {
					w = uint16(r.Rng.Intn(65536))
					free := true
					for n := range waiting {
						if binary.BigEndian.Uint16(calls[n].wireQ) == w {
							free = false
						}
					}
					if free {
						break
					}
				}
				fc.feed(fc.frame(mkReply(mkQuery(0, 999999), w)))
				fc.waitDrained(time.Second)
				time.Sleep(100 * time.Microsecond)
				scan(-1)
				r.Count("pipe:stray-id")
			}
		}
		// whatever is still waiting is answered now, newest first
		var ws []int
		for n := range waiting {
			ws = append(ws, n)
		}
		sort.Ints(ws)
		for i := len(ws) - 1; i >= 0; i-- {
			if waiting[ws[i]] {
				reply(ws[i])
			}
		}
		scan(-1)
		// replies handed out earlier must still be intact (nobody released them behind the caller's back)
		for n, c := range calls {
			if c.resp != nil && c.finished() && c.err == nil && c.verdict() != "own" {
				r.Fail("a reply handed to its caller was overwritten later (its buffer was released while the caller owned it)", map[string]any{"history": strings.Join(ops, ","), "caller": n})
			}
		}
		dc.Close()
		r.Line(fmt.Sprintf("pipe 100 %s", strings.Join(ops, ",")), strings.Join(outs, ";"))
		r.Eval(fmt.Sprintf("pipe/%d", hi), true)
		if wrap {
			r.Count("pipe:counter-wrap-histories")
		}
		r.Count("pipe:histories")
		r.Trace()
	}

	// ---------------------------------------------------------- part 2: concurrent callers over PipelineTransport, server permutes
	rounds := r.N(10, 80)
	for rd := 0; rd < rounds; rd++ {
		stream := r.Rng.Intn(2) == 0
		var mu sync.Mutex
		var conns []*fakeConn
		type pend struct {
			c *fakeConn
			q []byte
		}
		var pending []pend
		onWrite := func(c *fakeConn, w []byte) error {
			q := c.payloadOf(w)
			if len(q) >= 12 {
				mu.Lock()
				pending = append(pending, pend{c, append([]byte(nil), q...)})
				mu.Unlock()
			}
			return nil
		}
		maxq := 8 + r.Rng.Intn(40)
		t := transport.NewPipelineTransport(transport.PipelineOpts{MaxConcurrentQueryWhileDialing: maxq, DialContext: func(ctx context.Context) (transport.DnsConn, error) {
			mu.Lock()
			c := newFakeConn(len(conns)+1, stream)
			c.onWrite = onWrite
			conns = append(conns, c)
			mu.Unlock()
			return transport.NewDnsConn(transport.TraditionalDnsConnOpts{WithLengthHeader: stream, IdleTimeout: 20 * time.Second, MaxConcurrentQuery: maxq}, c), nil
		}})
		n := 5 + r.Rng.Intn(60)
		calls := make([]*call01, n)
		for i := range calls {
			calls[i] = newCall(t.ExchangeContext)
		}
		deadline := time.Now().Add(2 * time.Second)
		for time.Now().Before(deadline) {
			mu.Lock()
			k := len(pending)
			mu.Unlock()
			if k >= n {
				break
			}
			time.Sleep(100 * time.Microsecond)
		}
		// some callers give up before anything is answered
		gaveUp := map[int]bool{}
		for i := 0; i < n/6; i++ {
			j := r.Rng.Intn(n)
			calls[j].cancel()
			gaveUp[j] = true
		}
		mu.Lock()
		ps := append([]pend(nil), pending...)
		mu.Unlock()
		r.Rng.Shuffle(len(ps), func(i, j int) { ps[i], ps[j] = ps[j], ps[i] })
		for _, p := range ps {
			w := binary.BigEndian.Uint16(p.q)
			if r.Rng.Intn(5) == 0 { // an id nobody on this connection uses right now: far away from the counter
				p.c.feed(p.c.frame(mkReply(mkQuery(0, 999999), w+30000)))
			}
			p.c.feed(p.c.frame(mkReply(p.q, w)))
			if r.Rng.Intn(4) == 0 {
				p.c.feed(p.c.frame(mkReply(p.q, w))) // duplicate
			}
		}
		for i, c := range calls {
			c.wait(3 * time.Second)
			v := c.verdict()
			if v == "err" && !gaveUp[i] {
				r.Count("pipeline:exchange-failed") // not a C01 matter: the property speaks about calls that succeed
			}
			if !(v == "own" || v == "err") {
				r.Fail("an exchange returned a reply that is not the server's reply to its own query (or its id was not restored)", map[string]any{
					"transport": "pipeline", "stream": stream, "concurrent_callers": n, "caller": i, "verdict": v, "err": fmt.Sprint(c.err), "caller_id": c.id})
			}
			w := 0
			if c.wireQ == nil {
				for _, p := range ps {
					if tagOf(p.q) == c.tag {
						w = int(binary.BigEndian.Uint16(p.q))
					}
				}
			}
			if v == "own" {
				r.Line(fmt.Sprintf("restore %d %d %d", c.id, w, c.tag), fmt.Sprintf("wire=%d id=%d body=%d", w, binary.BigEndian.Uint16(*c.resp), c.tag+1))
			}
			r.Eval(fmt.Sprintf("conc/%d/%d", rd, i), true)
		}
		time.Sleep(time.Millisecond)
		for i, c := range calls {
			if c.finished() && c.err == nil && c.verdict() != "own" {
				r.Fail("a reply handed to its caller was overwritten later (its buffer was released while the caller owned it)", map[string]any{"transport": "pipeline", "caller": i})
			}
		}
		t.Close()
		r.Count("pipeline:concurrent-rounds")
		r.Trace()
	}

	// ---------------------------------------------------------- part 3: non-pipelined reused connections
	histories = r.N(30, 300)
	for hi := 0; hi < histories; hi++ {
		var mu sync.Mutex
		var conns []*fakeConn
		t := transport.NewReuseConnTransport(transport.ReuseConnOpts{DialContext: func(ctx context.Context) (transport.NetConn, error) {
			mu.Lock()
			defer mu.Unlock()
			c := newFakeConn(len(conns), true)
			conns = append(conns, c)
			return c, nil
		}})
		getConns := func() []*fakeConn { mu.Lock(); defer mu.Unlock(); return append([]*fakeConn(nil), conns...) }
		events := map[int][]string{} // per connection
		outs := map[int][]string{}
		owed := map[int][]*call01{} // queries written on the connection and not answered, oldest first
		seq := map[int]int{}        // next caller number per connection
		type slot01 struct {
			c *call01
			n int
		}
		slot := map[int]*slot01{} // caller whose channel is installed
		recorded := map[string]bool{}
		var all []*call01
		// record notes every connection the query of c was written on and not yet accounted for
		// (a query whose caller gave up on a reused connection is re-sent on other idle connections)
		record := func(c *call01, left bool) {
			for _, fc := range getConns() {
				key := fmt.Sprintf("%d/%d", fc.id, c.tag)
				if recorded[key] {
					continue
				}
				found := false
				fc.mu.Lock()
				for _, w := range fc.writes {
					p := fc.payloadOf(w)
					if len(p) >= 12 && tagOf(p) == c.tag {
						found = true
						if c.wireQ == nil {
							c.wireQ = p
						}
					}
				}
				fc.mu.Unlock()
				if !found {
					continue
				}
				recorded[key] = true
				id := fc.id
				if seq[id] > 0 {
					events[id] = append(events[id], "take")
					outs[id] = append(outs[id], "-")
				}
				n := seq[id]
				seq[id]++
				events[id] = append(events[id], "send")
				outs[id] = append(outs[id], "-")
				if len(owed[id]) > 0 {
					r.Fail("a non-pipelined connection was given to a new caller while the server still owes a reply on it", map[string]any{"connection": id, "events": strings.Join(events[id], ",")})
				}
				owed[id] = append(owed[id], c)
				slot[id] = &slot01{c, n}
				if left {
					events[id] = append(events[id], "leave")
					outs[id] = append(outs[id], "-")
				}
			}
		}
		steps := 6 + r.Rng.Intn(24)
		for st := 0; st < steps; st++ {
			switch k := r.Rng.Intn(8); {
			case k < 3: // a new query
				c := newCall(t.ExchangeContext)
				all = append(all, c)
				if !findWrite(getConns, c, 2*time.Second) {
					continue
				}
				record(c, false)
			case k < 6: // the server answers the oldest query it owes on some connection
				var ids []int
				for id, o := range owed {
					if len(o) > 0 && !getConns()[id].isClosed() {
						ids = append(ids, id)
					}
				}
				if len(ids) == 0 {
					continue
				}
				sort.Ints(ids)
				id := ids[r.Rng.Intn(len(ids))]
				fc := getConns()[id]
				o := owed[id][0]
				owed[id] = owed[id][1:]
				fc.feed(fc.frame(mkReply(o.wireQ, binary.BigEndian.Uint16(o.wireQ))))
				fc.waitDrained(time.Second)
				out := "dropped"
				if s := slot[id]; s != nil {
					if s.c.finished() && s.c.err != nil { // it had given up: the reply lands in its abandoned channel
						out = fmt.Sprintf("to=%d", s.n)
					} else if s.c.wait(2 * time.Second) {
						out = fmt.Sprintf("to=%d", s.n)
						if v := s.c.verdict(); v != "own" {
							r.Fail("an exchange on a reused connection returned a reply that is not the server's reply to its own query", map[string]any{
								"connection": id, "events": strings.Join(events[id], ",") + ",reply", "verdict": v, "caller": s.n, "reply_was_for_tag": o.tag, "caller_tag": s.c.tag})
						}
					}
					slot[id] = nil
				} else if fc.isClosed() {
					out = "closed"
				}
				events[id] = append(events[id], "reply")
				outs[id] = append(outs[id], out)
			case k == 6: // a waiting caller gives up
				var cs []*slot01
				var cid []int
				for id, s := range slot {
					if s != nil && !s.c.finished() {
						cs = append(cs, s)
						cid = append(cid, id)
					}
				}
				if len(cs) == 0 {
					continue
				}
				sort.Slice(cid, func(a, b int) bool { return cid[a] < cid[b] })
				sort.Slice(cs, func(a, b int) bool { return cs[a].c.conn.id < cs[b].c.conn.id })
				i := r.Rng.Intn(len(cs))
				cs[i].c.cancel()
				cs[i].c.wait(2 * time.Second)
				events[cid[i]] = append(events[cid[i]], "leave")
				outs[cid[i]] = append(outs[cid[i]], "-")
				record(cs[i].c, true)
			case k == 7: // a surplus reply on an idle connection
				var ids []int
				for id := range seq {
					if len(owed[id]) == 0 && slot[id] == nil && !getConns()[id].isClosed() {
						ids = append(ids, id)
					}
				}
				if len(ids) == 0 {
					continue
				}
				sort.Ints(ids)
				id := ids[r.Rng.Intn(len(ids))]
				fc := getConns()[id]
				fc.feed(fc.frame(mkReply(mkQuery(5, 999999), 5)))
				for i := 0; i < 20000 && !fc.isClosed(); i++ {
					time.Sleep(100 * time.Microsecond)
				}
				out := "dropped"
				if fc.isClosed() {
					out = "closed"
				} else {
					fc.mu.Lock()
					dbg := fmt.Sprintf("unread=%d blockedReaders=%d reads=%d rerr=%v", len(fc.rq), fc.readsBlk, fc.nReads, fc.rerr)
					fc.mu.Unlock()
					r.Fail("a surplus reply on an idle non-pipelined connection did not close it", map[string]any{"connection": id, "events": strings.Join(events[id], ","), "conn_state": dbg})
				}
				events[id] = append(events[id], "surplus")
				outs[id] = append(outs[id], out)
			}
		}
		for _, c := range all {
			c.cancel()
		}
		for _, c := range all {
			c.wait(2 * time.Second)
			if c.err == nil && c.verdict() != "own" {
				r.Fail("an exchange on a reused connection returned a reply that is not the server's reply to its own query", map[string]any{"caller_tag": c.tag, "verdict": c.verdict()})
			}
		}
		t.Close()
		for id, ev := range events {
			r.Line("reuse "+strings.Join(ev, ","), strings.Join(outs[id], ";"))
			r.Eval(fmt.Sprintf("reuse/%d/%d", hi, id), len(ev) > 2)
		}
		r.Count("reuse:histories")
		r.Trace()
	}

	// ---------------------------------------------------------- part 4: DoH, one HTTP request per query
	rounds = r.N(6, 40)
	for rd := 0; rd < rounds; rd++ {
		rt := &rt01{rng: r.Rng.Int63()}
		u, err := doh.NewUpstream("https://doh.test/dns-query", rt, nil)
		if err != nil {
			fatal(err)
		}
		n := 4 + r.Rng.Intn(30)
		calls := make([]*call01, n)
		for i := range calls {
			calls[i] = newCall(u.ExchangeContext)
		}
		for i, c := range calls {
			c.wait(3 * time.Second)
			v := c.verdict()
			if v != "own" {
				r.Fail("a DoH exchange returned a reply that is not the reply to its own query, or its id was not restored", map[string]any{"caller": i, "verdict": v, "err": fmt.Sprint(c.err), "caller_id": c.id})
			} else {
				r.Line(fmt.Sprintf("restore %d 0 %d", c.id, c.tag), fmt.Sprintf("wire=%d id=%d body=%d", rt.maxID(), binary.BigEndian.Uint16(*c.resp), c.tag+1))
			}
			r.Eval(fmt.Sprintf("doh/%d/%d", rd, i), true)
		}
		r.Count("doh:rounds")
		r.Trace()
	}
	// ---------------------------------------------------------- part 5: upstreams built by NewUpstream against a UDP+TCP loopback server
	c01Upstreams(r)
	// ---------------------------------------------------------- part 6: DoH over a transport that parks requests and serialises them when it sends them
	c01Doh(r)
	// ---------------------------------------------------------- part 7: DoQ with replies that arrive in pieces, reply buffers going round through the pool
	c01Doq(r)
	// ---------------------------------------------------------- part 8: https:// and quic:// upstreams built by NewUpstream against HTTPS / DoQ servers on loopback
	c01Net(r)
	// ---------------------------------------------------------- part 9: many connections receiving at once, and the byte pool under them
	c01Pool(r)
	r.Finish("part 1: scripted histories on one TraditionalDnsConn (stream / datagram): callers with colliding ids {0, 0xFFFF, 1, ...} enter, are answered in any order, late, twice, or give up; replies with ids nobody waits for; every tenth history keeps one query outstanding while 65533..65535 further queries turn the 16-bit counter once round; part 2: 5..64 concurrent callers over PipelineTransport, the server permutes, duplicates and injects stray ids; part 3: histories of query / oldest-owed reply / give up / surplus reply over ReuseConnTransport; part 4: concurrent DoH exchanges through an in-process RoundTripper answering out of order with id 0; part 5: upstream.NewUpstream(udp:// with its TCP fallback, with and without a TCP listener, tcp://, tcp+pipeline://) against a loopback server on one UDP+TCP port: bursts of 4..31 concurrent callers, per query the UDP reply is plain or has TC set, late, doubled or preceded by a stray id, the TCP side answers / closes / sends half a frame / stalls / refuses; every returned reply must be byte for byte one the server produced for that question, with the caller's id, and must still be so after 20..59 further exchanges whose replies the harness releases to the pool; released buffers are overwritten (pool.ReleaseBuf wrapped); part 6: doh.NewUpstream over an http.RoundTripper that parks the requests of a burst (2..11 concurrent callers, 1..3 bursts per upstream, some callers give up, up to two requests stay behind until the next burst is in flight) and serialises each request (GET ?dns= or POST body) when it sends it - or on entry, one transport in three -, in an order of its own, one by one or all at once; the server answers what the request carries and stamps the reply with the request's number; the round is replayed on the request model (build / serve events); part 7: transport.QuicDnsConn over an in-memory quic.Connection: replies of 48..4200 bytes arrive in pieces (one piece, 1200-byte packets, header alone + halves, split header, last byte alone, random pieces; a Read never crosses a piece), FIN with the last bytes / by a read of its own / never / a reset after the reply, reply sent before or after the client's FIN, waves of 1..5 concurrent callers on one connection, replies of a round mostly of one length and released between waves (overwriting or plain release), one caller may give up inside its reply; every returned reply must be exactly the bytes the server sent on that query's stream with the caller's id; replies up to 1500 bytes are replayed on the regenerated reader (model op doq); part 8: upstream.NewUpstream(https://, quic://) against an HTTPS (HTTP/2) server and a DoQ server on loopback: bursts of 2..9 concurrent callers, the HTTPS server holds a burst and answers in an order of its own from what each request carries, the DoQ server writes each reply (300..2900 bytes) in two or three pieces with pauses; part 9: (a) 16..32 goroutines take buffers from pool.GetBuf in the sizes the transports use (2, query / frame lengths, reply lengths, the 4095-byte udp rx buffer, class boundaries), write their own mark over the buffer (many short rounds that mark its front only, then whole-buffer rounds), look at it again up to three times and release it: a held buffer never shows another holder's bytes; (b) 16..40 TraditionalDnsConns (two in three datagram, else stream framing) over in-memory sockets with 1..3 callers each exchange queries with questions of their own at the same time, replies padded to 0..3900 bytes; each caller compares its reply byte for byte with what the server sent (caller id in front) up to three times before it releases it")
}

// rt01 answers DoH GET requests in process, after a random delay, with id 0.
type rt01 struct {
	mu    sync.Mutex
	rng   int64
	idMax uint16
}

func (t *rt01) maxID() int { t.mu.Lock(); defer t.mu.Unlock(); return int(t.idMax) }

func (t *rt01) RoundTrip(req *http.Request) (*http.Response, error) {
	raw := req.URL.Query().Get("dns")
	q, err := base64.RawURLEncoding.DecodeString(raw)
	if err != nil || len(q) < 12 {
		return nil, fmt.Errorf("bad dns parameter")
	}
	t.mu.Lock()
	if id := binary.BigEndian.Uint16(q); id > t.idMax {
		t.idMax = id
	}
	t.rng = t.rng*6364136223846793005 + 1442695040888963407
	d := time.Duration((t.rng>>33)&1023) * time.Microsecond
	t.mu.Unlock()
	time.Sleep(d)
	reply := mkReply(q, 0)
	return &http.Response{StatusCode: 200, Status: "200 OK", Proto: "HTTP/2.0", ProtoMajor: 2, Header: http.Header{"Content-Type": []string{"application/dns-message"}},
		Body: io.NopCloser(bytes.NewReader(reply)), ContentLength: int64(len(reply)), Request: req}, nil
}
