//go:build pC02 || pall

package main

import (
	"bytes"
	"context"
	"crypto/tls"
	"encoding/binary"
	"fmt"
	"io"
	"net"
	"sync"
	"sync/atomic"
	"time"

	"github.com/IrineSistiana/mosdns/v5/pkg/upstream"
	"github.com/IrineSistiana/mosdns/v5/pkg/utils"
)

// C02 at the level of pkg/upstream: the upstreams as NewUpstream builds them (tcp, tcp+pipeline, tls,
// tls+pipeline), with and without an EventObserver (the forward plugin always sets one; with one, every
// connection is wrapped by the observer layer that sits between the transport and the socket), against
// loopback servers that answer and close at once:
//   - TLS: the reply record and the close_notify alert leave the server in ONE tcp write (TLS 1.2: crypto/tls
//     then returns the last bytes of the reply together with io.EOF from a single Read; TLS 1.3: data, then EOF);
//   - plain tcp: the FIN directly behind the reply;
//   - or in two writes, or the connection stays open (control).
// Queries go one after the other; every one that the server answered must come back with that answer.

type obs02 struct{ open, closed atomic.Int64 }

func (o *obs02) OnEvent(typ upstream.Event) {
	switch typ {
	case upstream.EventConnOpen:
		o.open.Add(1)
	case upstream.EventConnClose:
		o.closed.Add(1)
	}
}

// holdConn02 collects what is written while holding and sends it with one Write when it is closed.
type holdConn02 struct {
	net.Conn
	mu          sync.Mutex
	holding     bool
	buf         []byte
	flushFailed bool
}

func (c *holdConn02) hold() {
	c.mu.Lock()
	c.holding = true
	c.mu.Unlock()
}

func (c *holdConn02) Write(b []byte) (int, error) {
	c.mu.Lock()
	defer c.mu.Unlock()
	if c.holding {
		c.buf = append(c.buf, b...)
		return len(b), nil
	}
	return c.Conn.Write(b)
}

// Close sends what was held in one piece and closes (tls.Conn.Close calls it after it has written its close_notify).
func (c *holdConn02) Close() error {
	c.mu.Lock()
	if len(c.buf) > 0 {
		c.Conn.SetWriteDeadline(time.Now().Add(5 * time.Second)) // tls.Conn.Close leaves an expired write deadline behind
		if _, err := c.Conn.Write(c.buf); err != nil {
			c.flushFailed = true
		}
		c.buf = nil
	}
	c.mu.Unlock()
	return c.Conn.Close()
}

func (c *holdConn02) flushClose() bool {
	c.Close()
	c.mu.Lock()
	defer c.mu.Unlock()
	return !c.flushFailed
}

type srv02up struct {
	l        net.Listener
	tlsCfg   *tls.Config // nil: plain tcp
	after    int         // 0: reply and close in one write; 1: reply, then close; 2: connection stays open
	split    bool        // the 2-byte length and the message in separate writes (tls: separate records)
	mu       sync.Mutex
	answered map[int]time.Time // query tag -> when its reply had been written completely
	conns    int
	wg       sync.WaitGroup
}

func newSrv02up(tlsCfg *tls.Config, after int, split bool) (*srv02up, error) {
	l, err := net.Listen("tcp", "127.0.0.1:0")
	if err != nil {
		return nil, err
	}
	s := &srv02up{l: l, tlsCfg: tlsCfg, after: after, split: split, answered: map[int]time.Time{}}
	s.wg.Add(1)
	go func() {
		defer s.wg.Done()
		for {
			c, err := l.Accept()
			if err != nil {
				return
			}
			s.mu.Lock()
			s.conns++
			s.mu.Unlock()
			s.wg.Add(1)
			go func() {
				defer s.wg.Done()
				s.serve(c)
			}()
		}
	}()
	return s, nil
}

func readFrame02(c io.Reader) ([]byte, error) {
	var h [2]byte
	if _, err := io.ReadFull(c, h[:]); err != nil {
		return nil, err
	}
	b := make([]byte, binary.BigEndian.Uint16(h[:]))
	if _, err := io.ReadFull(c, b); err != nil {
		return nil, err
	}
	return b, nil
}

func (s *srv02up) serve(raw net.Conn) {
	hc := &holdConn02{Conn: raw}
	var c net.Conn = hc
	if s.tlsCfg != nil {
		tc := tls.Server(hc, s.tlsCfg)
		tc.SetDeadline(time.Now().Add(8 * time.Second))
		if err := tc.Handshake(); err != nil {
			raw.Close()
			return
		}
		c = tc
	}
	c.SetDeadline(time.Now().Add(8 * time.Second))
	for {
		q, err := readFrame02(c)
		if err != nil || len(q) < 12 {
			hc.flushClose()
			return
		}
		rep := mkReply(q, binary.BigEndian.Uint16(q))
		f := make([]byte, 2+len(rep))
		binary.BigEndian.PutUint16(f, uint16(len(rep)))
		copy(f[2:], rep)
		if s.after == 0 {
			hc.hold()
		}
		var werr error
		if s.split {
			if _, werr = c.Write(f[:2]); werr == nil {
				_, werr = c.Write(f[2:])
			}
		} else {
			_, werr = c.Write(f)
		}
		switch s.after {
		case 0:
			if s.tlsCfg != nil {
				c.(*tls.Conn).Close() // close_notify goes into the held buffer; the socket is closed by flushClose
			}
			if ok := hc.flushClose(); ok && werr == nil {
				s.note(q)
			}
			return
		case 1:
			if werr == nil {
				s.note(q)
			}
			if s.tlsCfg != nil {
				c.(*tls.Conn).Close()
			}
			raw.Close()
			return
		default:
			if werr != nil {
				raw.Close()
				return
			}
			s.note(q)
		}
	}
}

func (s *srv02up) note(q []byte) {
	s.mu.Lock()
	if _, dup := s.answered[tagOf(q)]; !dup {
		s.answered[tagOf(q)] = time.Now()
	}
	s.mu.Unlock()
}

func (s *srv02up) close() {
	s.l.Close()
	done := make(chan struct{})
	go func() { s.wg.Wait(); close(done) }()
	select {
	case <-done:
	case <-time.After(3 * time.Second):
	}
}

func upstreamScenarios02(r *Run) {
	cert, err := utils.GenerateCertificate("c02.test")
	if err != nil {
		r.Note("upstream-level scenarios skipped: cannot make a certificate: " + err.Error())
		return
	}
	type cse struct {
		scheme string
		tlsMax uint16
		obs    bool
		after  int
	}
	var cases []cse
	for _, scheme := range []string{"tls", "tls+pipeline", "tcp", "tcp+pipeline"} {
		vers := []uint16{0}
		if scheme[:3] == "tls" {
			vers = []uint16{tls.VersionTLS12, tls.VersionTLS13}
		}
		for _, v := range vers {
			for _, obs := range []bool{true, false} {
				for after := 0; after < 3; after++ {
					cases = append(cases, cse{scheme, v, obs, after})
				}
			}
		}
	}
	const deadline = 5 * time.Second
	tagBase := 900000
	for rep := 0; rep < r.N(1, 6); rep++ {
		for ci, cs := range cases {
			split := r.Rng.Intn(3) == 0
			nq := 1 + r.Rng.Intn(3)
			var tcfg *tls.Config
			if cs.tlsMax != 0 {
				tcfg = &tls.Config{Certificates: []tls.Certificate{cert}, MaxVersion: cs.tlsMax}
			}
			srv, err := newSrv02up(tcfg, cs.after, split)
			if err != nil {
				r.Note("upstream-level scenario skipped: " + err.Error())
				continue
			}
			opt := upstream.Opt{TLSConfig: &tls.Config{InsecureSkipVerify: true}}
			ob := new(obs02)
			if cs.obs {
				opt.EventObserver = ob
			}
			u, err := upstream.NewUpstream(cs.scheme+"://"+srv.l.Addr().String(), opt)
			if err != nil {
				srv.close()
				r.Note("upstream-level scenario skipped: NewUpstream: " + err.Error())
				continue
			}
			afterTxt := []string{"the reply and the close (tls: close_notify alert) in one tcp write, then the socket is closed", "the reply, then the connection is closed", "the connection stays open"}[cs.after]
			for qi := 0; qi < nq; qi++ {
				tagBase++
				id := uint16(r.Rng.Intn(65536))
				q := mkQuery(id, tagBase)
				ctx, cancel := context.WithTimeout(context.Background(), deadline)
				t0 := time.Now()
				resp, xerr := u.ExchangeContext(ctx, q)
				took := time.Since(t0)
				cancel()
				srv.mu.Lock()
				at, answered := srv.answered[tagBase]
				srv.mu.Unlock()
				desc := map[string]any{"level": "upstream.NewUpstream", "scheme": cs.scheme, "event_observer": cs.obs, "server_after_reply": afterTxt,
					"reply_in_two_writes": split, "query_no_on_this_upstream": qi, "took": took.String(), "err": fmt.Sprint(xerr), "caller_deadline": deadline.String()}
				if cs.tlsMax != 0 {
					desc["tls_max_version"] = map[uint16]string{tls.VersionTLS12: "1.2", tls.VersionTLS13: "1.3"}[cs.tlsMax]
				}
				out := "reply"
				// the oracle applies only if the server wrote the whole reply to this query (loopback: it is then in the
				// client's socket) well before the caller's deadline
				inTime := answered && at.Sub(t0) < deadline-2*time.Second
				switch {
				case !inTime:
					out = "reply" // nothing demanded; keep the model line trivial
					r.Count("up:not-answered-in-time")
				case xerr != nil || resp == nil:
					out = "error:" + fmt.Sprint(xerr)
					r.Fail("the server's reply was received on the connection seconds before the caller's deadline (the peer closed the connection right behind it), but the exchange failed", desc)
				case !bytes.Equal(*resp, mkReply(q, id)):
					out = "foreign-reply"
					r.Fail("the exchange returned something other than the reply to its own query", desc)
				}
				if cs.after == 2 {
					r.Line("sched 1 1 writeReturns,readerDeliver,pickReply", out)
				} else {
					r.Line("sched 1 1 writeReturns,readerDeliver,readerClose,pickClose", out)
				}
				ver := ""
				if cs.tlsMax != 0 {
					ver = fmt.Sprintf("/tls%x", cs.tlsMax)
				}
				r.Eval(fmt.Sprintf("up/%s%s/obs=%v/after=%d/split=%v/%d", cs.scheme, ver, cs.obs, cs.after, split, qi), inTime)
				r.Count(fmt.Sprintf("up:%s:obs=%v:after=%d", cs.scheme, cs.obs, cs.after))
				r.Trace()
			}
			u.Close()
			srv.close()
			_ = ci
		}
	}
}
