//go:build pC01 || pall

package main

import (
	"bytes"
	"context"
	"crypto/ecdsa"
	"crypto/elliptic"
	crand "crypto/rand"
	"crypto/tls"
	"crypto/x509"
	"crypto/x509/pkix"
	"encoding/base64"
	"encoding/binary"
	"fmt"
	"io"
	"log"
	"math/big"
	"net"
	"net/http"
	"sort"
	"strconv"
	"strings"
	"sync"
	"time"

	"github.com/IrineSistiana/mosdns/v5/pkg/pool"
	"github.com/IrineSistiana/mosdns/v5/pkg/upstream"
	"github.com/quic-go/quic-go"
)

// C01, part 8: the DoH and DoQ upstreams as pkg/upstream.NewUpstream builds them (net/http + x/net/http2, quic-go),
// against real servers on loopback.
//
//   - https://127.0.0.1:<port>/dns-query: an HTTPS (HTTP/2) server that holds the requests of a burst until all of
//     them have arrived (or 300 ms have passed) and then answers them in an order of its own, each from what its
//     request carries (GET ?dns= or POST body).
//   - quic://127.0.0.1:<port>: a DoQ server (RFC 9250) that reads the query up to the FIN and writes its reply of
//     300..2900 bytes in two or three pieces with pauses of 1..3 ms between them, so that the client's stream
//     reader gets it in several reads; replies of a burst mostly have one length, and the harness releases them
//     before the next burst.
//
// Bursts of 2..9 (thorough ..24) concurrent callers with distinct questions and colliding ids per upstream.
// Oracle (statement only): a call that succeeds holds, byte for byte, a reply the server produced for that
// call's own question, with the caller's id in front. Calls that fail (a loaded machine, a handshake that takes
// too long) are counted, not judged.

func selfSigned01() (tls.Certificate, error) {
	key, err := ecdsa.GenerateKey(elliptic.P256(), crand.Reader)
	if err != nil {
		return tls.Certificate{}, err
	}
	tmpl := &x509.Certificate{SerialNumber: big.NewInt(1), Subject: pkix.Name{CommonName: "c01.test"}, NotBefore: time.Now().Add(-time.Hour), NotAfter: time.Now().Add(24 * time.Hour),
		DNSNames: []string{"c01.test"}, IPAddresses: []net.IP{net.IPv4(127, 0, 0, 1)}, KeyUsage: x509.KeyUsageDigitalSignature, ExtKeyUsage: []x509.ExtKeyUsage{x509.ExtKeyUsageServerAuth}}
	der, err := x509.CreateCertificate(crand.Reader, tmpl, tmpl, &key.PublicKey, key)
	if err != nil {
		return tls.Certificate{}, err
	}
	return tls.Certificate{Certificate: [][]byte{der}, PrivateKey: key}, nil
}

// netSrv01 is what both servers share: the replies produced per question, and the burst being held.
type netSrv01 struct {
	mu      sync.Mutex
	sent    map[int][][]byte // per question: every reply produced for it (id zeroed)
	size    map[int]int      // DoQ: reply length wanted for a question
	want    int              // DoH: requests of the current burst
	held    int
	release chan struct{}
	rng     uint64
}

func (s *netSrv01) record(tag int, rep []byte) {
	z := append([]byte(nil), rep...)
	z[0], z[1] = 0, 0
	s.mu.Lock()
	s.sent[tag] = append(s.sent[tag], z)
	s.mu.Unlock()
}

func (s *netSrv01) produced(tag int, reply []byte) bool {
	z := append([]byte(nil), reply...)
	if len(z) >= 2 {
		z[0], z[1] = 0, 0
	}
	s.mu.Lock()
	defer s.mu.Unlock()
	for _, p := range s.sent[tag] {
		if bytes.Equal(p, z) {
			return true
		}
	}
	return false
}

// rnd is the server's own source of delays (called from server goroutines; not the run's PRNG).
func (s *netSrv01) rnd(n int) int {
	s.mu.Lock()
	defer s.mu.Unlock()
	s.rng = s.rng*6364136223846793005 + 1442695040888963407
	return int((s.rng >> 33) % uint64(n))
}

// newBurst tells the DoH server how many requests to hold.
func (s *netSrv01) newBurst(n int) {
	s.mu.Lock()
	s.want, s.held, s.release = n, 0, make(chan struct{})
	s.mu.Unlock()
}

func (s *netSrv01) ServeHTTP(w http.ResponseWriter, req *http.Request) {
	var q []byte
	switch req.Method {
	case http.MethodGet:
		q, _ = base64.RawURLEncoding.DecodeString(req.URL.Query().Get("dns"))
	case http.MethodPost:
		q, _ = io.ReadAll(io.LimitReader(req.Body, 65536))
	}
	if len(q) < 12 {
		http.Error(w, "no dns message", http.StatusBadRequest)
		return
	}
	s.mu.Lock()
	s.held++
	rel := s.release
	if rel != nil && s.held >= s.want {
		select {
		case <-rel:
		default:
			close(rel)
		}
	}
	s.mu.Unlock()
	if rel != nil {
		select {
		case <-rel:
		case <-time.After(300 * time.Millisecond):
		case <-req.Context().Done():
			return
		}
	}
	time.Sleep(time.Duration(s.rnd(1500)) * time.Microsecond) // replies leave in any order
	rep := mkReply(q, binary.BigEndian.Uint16(q))
	rep = append(rep, []byte("/https/")...)
	tag := tagOf(q)
	for i := 0; i < 20+tag%50; i++ {
		rep = append(rep, byte(tag*11+i*7+1))
	}
	s.record(tag, rep)
	w.Header().Set("Content-Type", "application/dns-message")
	w.Write(rep)
}

func (s *netSrv01) serveDoQ(ln *quic.Listener) {
	for {
		conn, err := ln.Accept(context.Background())
		if err != nil {
			return
		}
		go func() {
			for {
				st, err := conn.AcceptStream(context.Background())
				if err != nil {
					return
				}
				go s.doqStream(st)
			}
		}()
	}
}

func (s *netSrv01) doqStream(st quic.Stream) {
	defer st.Close()
	st.SetReadDeadline(time.Now().Add(5 * time.Second))
	b, err := io.ReadAll(io.LimitReader(st, 65538)) // the client sends one query and the FIN
	if err != nil || len(b) < 14 || int(binary.BigEndian.Uint16(b))+2 != len(b) {
		st.CancelWrite(2)
		return
	}
	q := b[2:]
	tag := tagOf(q)
	s.mu.Lock()
	size := s.size[tag]
	s.mu.Unlock()
	if size == 0 {
		size = 300
	}
	rep := doqReply01(q, size)
	s.record(tag, rep)
	f := make([]byte, 2+len(rep))
	binary.BigEndian.PutUint16(f, uint16(len(rep)))
	copy(f[2:], rep)
	// two or three pieces, a pause between them
	cuts := []int{2 + s.rnd(len(f)-2)}
	if s.rnd(2) == 0 {
		cuts = append(cuts, 2+s.rnd(len(f)-2))
		sort.Ints(cuts)
	}
	if s.rnd(4) == 0 {
		cuts[0] = 1 // the length header is split
	}
	st.SetWriteDeadline(time.Now().Add(5 * time.Second))
	off := 0
	for _, c := range cuts {
		if c > off {
			if _, err := st.Write(f[off:c]); err != nil {
				return
			}
			off = c
			time.Sleep(time.Duration(1000+s.rnd(2000)) * time.Microsecond)
		}
	}
	st.Write(f[off:])
}

type netFail01 struct {
	Upstream string   `json:"upstream"`
	Server   string   `json:"server"`
	Burst    int      `json:"concurrent_exchanges"`
	Caller   int      `json:"caller"`
	CallerID uint16   `json:"caller_id"`
	Verdict  string   `json:"verdict"`
	Own      string   `json:"own_question"`
	Got      string   `json:"question_of_the_returned_reply"`
	Ids      []uint16 `json:"caller_ids_of_the_burst"`
	BurstNo  int      `json:"burst"`
}

func c01Net(r *Run) {
	cert, err := selfSigned01()
	if err != nil {
		fatal(err)
	}
	// ---- servers
	hs := &netSrv01{sent: map[int][][]byte{}, size: map[int]int{}, rng: uint64(r.Rng.Int63())}
	tl, err := net.Listen("tcp", "127.0.0.1:0")
	if err != nil {
		fatal(err)
	}
	httpSrv := &http.Server{Handler: hs, TLSConfig: &tls.Config{Certificates: []tls.Certificate{cert}}, ReadHeaderTimeout: 10 * time.Second, ErrorLog: log.New(io.Discard, "", 0)}
	go httpSrv.ServeTLS(tl, "", "")
	defer httpSrv.Close()
	qs := &netSrv01{sent: map[int][][]byte{}, size: map[int]int{}, rng: uint64(r.Rng.Int63())}
	ql, err := quic.ListenAddr("127.0.0.1:0", &tls.Config{Certificates: []tls.Certificate{cert}, NextProtos: []string{"doq"}}, &quic.Config{MaxIdleTimeout: 20 * time.Second, MaxIncomingStreams: 1000})
	if err != nil {
		r.Note("part 8: no QUIC listener on loopback (" + err.Error() + "): the quic:// upstream was not run")
		ql = nil
	}
	if ql != nil {
		go qs.serveDoQ(ql)
		defer ql.Close()
	}
	type up01 struct {
		name, server string
		u            upstream.Upstream
		srv          *netSrv01
	}
	var ups []up01
	hu, err := upstream.NewUpstream("https://"+tl.Addr().String()+"/dns-query", upstream.Opt{TLSConfig: &tls.Config{InsecureSkipVerify: true}})
	if err != nil {
		fatal(err)
	}
	defer hu.Close()
	ups = append(ups, up01{"https:// (upstream.NewUpstream: net/http transport, HTTP/2)", "HTTPS server on loopback; holds the requests of a burst until all have arrived, answers in an order of its own, each from what its request carries", hu, hs})
	if ql != nil {
		qu, err := upstream.NewUpstream("quic://"+ql.Addr().String(), upstream.Opt{TLSConfig: &tls.Config{InsecureSkipVerify: true}})
		if err != nil {
			fatal(err)
		}
		defer qu.Close()
		ups = append(ups, up01{"quic:// (upstream.NewUpstream: quic-go)", "DoQ server on loopback; writes each reply in two or three pieces with pauses of 1..3 ms", qu, qs})
	}

	type held struct {
		c    *call01
		snap []byte
	}
	var helds []held
	bursts := r.N(5, 40)
	for b := 0; b < bursts; b++ {
		for _, u := range ups {
			n := 2 + r.Rng.Intn(r.N(8, 23))
			size := []int{300, 513, 1232, 1400, 2900}[r.Rng.Intn(5)]
			calls := make([]*call01, n)
			ids := make([]uint16, n)
			u.srv.newBurst(n)
			for i := range calls {
				tag01++
				c := &call01{n: i, tag: tag01, id: ids01[r.Rng.Intn(len(ids01))], done: make(chan struct{})}
				if i > 0 && r.Rng.Intn(3) == 0 {
					c.id = calls[r.Rng.Intn(i)].id
				}
				ids[i] = c.id
				u.srv.mu.Lock()
				u.srv.size[c.tag] = size
				if r.Rng.Intn(4) == 0 {
					u.srv.size[c.tag] = []int{300, 513, 1232, 1400, 2900}[r.Rng.Intn(5)]
				}
				u.srv.mu.Unlock()
				calls[i] = c
			}
			for _, c := range calls {
				c := c
				ctx, cancel := context.WithTimeout(context.Background(), 8*time.Second)
				c.cancel = cancel
				q := mkQuery(c.id, c.tag)
				go func() {
					c.resp, c.err = u.u.ExchangeContext(ctx, q)
					close(c.done)
				}()
			}
			// the replies of the burst before go back to the pool while this one is in flight / before it is read
			for _, h := range helds {
				if !bytes.Equal(*h.c.resp, h.snap) {
					r.Fail("a reply handed to its caller was overwritten later (its buffer was released while the caller owned it)", map[string]any{"upstream": "https:// / quic:// on loopback", "caller_question": qname01(h.c.tag), "burst": b})
				}
				if r.Rng.Intn(2) == 0 {
					pool.ReleaseBuf(h.c.resp)
				} else {
					rawRelease01(h.c.resp)
				}
			}
			helds = nil
			for i, c := range calls {
				if !c.wait(12 * time.Second) {
					c.cancel()
					c.wait(5 * time.Second)
					r.Count("net:call-did-not-return-in-12s") // C07's matter
				}
				c.cancel()
				short := strings.SplitN(u.name, " ", 2)[0]
				r.Eval(fmt.Sprintf("net/%s/%d", short, min(n, 10)), true)
				if c.err != nil || c.resp == nil {
					r.Count("net:" + short + " exchange failed") // not C01's matter
					continue
				}
				v := judge01(c, u.srv.produced)
				if v != "own" {
					got := "(not a reply of this server)"
					if t := tagOf(*c.resp); t >= 0 {
						got = qname01(t)
					}
					if v == "altered" {
						v = "own question, but not byte for byte a reply the server produced for it (" + strconv.Itoa(len(*c.resp)) + " bytes)"
					}
					r.Fail("an exchange returned a reply that is not the server's reply to its own query (or its id was not restored)", netFail01{
						Upstream: u.name, Server: u.server, Burst: n, Caller: i, CallerID: c.id, Verdict: v, Own: qname01(c.tag), Got: got, Ids: ids, BurstNo: b})
					continue
				}
				r.Count("net:" + short + " own reply")
				helds = append(helds, held{c, append([]byte(nil), *c.resp...)})
			}
		}
		r.Trace()
	}
	for _, h := range helds {
		pool.ReleaseBuf(h.c.resp)
	}
}
