//go:build pC14 || pall

package main

import (
	"context"
	"errors"
	"fmt"
	"sort"
	"strings"
	"time"

	"github.com/IrineSistiana/mosdns/v5/coremain"
	"github.com/IrineSistiana/mosdns/v5/pkg/query_context"
	"github.com/IrineSistiana/mosdns/v5/pkg/utils"
	fastforward "github.com/IrineSistiana/mosdns/v5/plugin/executable/forward"
	"github.com/IrineSistiana/mosdns/v5/plugin/executable/sequence"
	"github.com/miekg/dns"
)

// C14, fault sequences on ONE configured forward: the property quantifies over fault sequences, and a
// forward lives for the whole run of the server, so what a query is owed must not depend on what earlier
// queries of the same instance ended with. A forward is built from plugin arguments (stream upstreams: tcp,
// tcp + pipeline, socks5; per-entry max_conns / idle_timeout / tags) and then serves a session: healthy
// queries, an outage (some or all servers hang up on every query, or refuse every new connection as well, so
// that exchanges FAIL quickly instead of ending with a reply), and the recovery - repeated. During an outage
// the outcome must be one the statement allows for some start position (a failing upstream never masks a good
// answer; if none is good the last exchange decides); after it every query must again reach c cyclically
// consecutive configured positions - all of them, including those whose exchanges failed before - and be
// answered by one of them. The ports of the servers are never released (no foreign listener can take them).

func runC14Faults(r *Run) {
	const nSrv = 3
	hub := &hub14{hits: map[string]map[int]int{}, wake: make(chan struct{}, 1)}
	srvs := make([]*srv14, nSrv)
	for i := range srvs {
		srvs[i] = newSrv14(i+1, hub)
		defer srvs[i].close()
	}
	byID := func(id int) *srv14 { return srvs[id-1] }
	replying := []string{"g", "x", "b", "f"}
	wantRc := map[string]int{"g": dns.RcodeSuccess, "x": dns.RcodeNameError, "b": dns.RcodeServerFailure, "f": dns.RcodeRefused}
	failures := 0

	cases := r.N(12, 120)
	for ci := 0; ci < cases && failures < 3; ci++ {
		n := 1 + r.Rng.Intn(4)
		if r.Rng.Intn(3) > 0 && n < 2 {
			n = 2
		}
		conc := []int{-2, 0, 1, 1, 2, 3, 4, 7}[r.Rng.Intn(8)]
		c := conc
		if c <= 0 {
			c = 1
		}
		if c > 3 {
			c = 3
		}
		shTCP := []string{"tcp://192.0.2.53", "tcp://192.0.2.53:5353"}[r.Rng.Intn(2)]
		capped := r.Rng.Intn(4) > 0 // max_conns present in this configuration
		perm := r.Rng.Perm(nSrv)
		ents := make([]ent14, n)
		maxCap := 0
		for i := range ents {
			t := 1 + perm[i%nSrv]
			if r.Rng.Intn(6) == 0 {
				t = 1 + r.Rng.Intn(nSrv)
			}
			s := byID(t)
			e := map[string]any{}
			switch r.Rng.Intn(4) {
			case 0:
				e["addr"] = "tcp://" + s.tcpAddr
			case 1:
				e["addr"], e["dial_addr"] = shTCP, s.tcpAddr
			case 2:
				e["addr"], e["dial_addr"] = "tcp+pipeline://192.0.2.53", s.tcpAddr
			case 3:
				e["addr"], e["socks5"] = "tcp://resolver.c14.example", s.sockAddr
			}
			if r.Rng.Intn(4) == 0 {
				e["enable_pipeline"] = true
			}
			if r.Rng.Intn(2) == 0 {
				e["idle_timeout"] = []int{5, 30, 60}[r.Rng.Intn(3)] // never shorter than a case may last (see caseStart)
			}
			if capped && r.Rng.Intn(3) > 0 {
				k := 1 + r.Rng.Intn(3)
				e["max_conns"] = k
				if k > maxCap {
					maxCap = k
				}
			}
			tag := ""
			if r.Rng.Intn(5) > 0 {
				tag = fmt.Sprintf("t%d", i)
				e["tag"] = tag
			}
			ents[i] = ent14{cfg: e, target: t, tag: tag}
		}
		var ups []any
		var targets []string
		for _, e := range ents {
			ups = append(ups, e.cfg)
			targets = append(targets, fmt.Sprint(e.target))
		}
		conf := map[string]any{"upstreams": ups, "concurrent": conc}
		args := new(fastforward.Args)
		if err := utils.WeakDecode(conf, args); err != nil {
			fatal(fmt.Errorf("C14 fault sequences: arguments do not decode: %w", err))
		}
		var f *fastforward.Forward
		via := "NewForward"
		if r.Rng.Intn(2) == 0 {
			via = "Init"
			p, err := fastforward.Init(coremain.NewBP(fmt.Sprintf("fwdseq%d", ci), coremain.NewTestMosdnsWithPlugins(nil)), args)
			if err != nil {
				fatal(fmt.Errorf("C14 fault sequences: Init: %w", err))
			}
			f = p.(*fastforward.Forward)
		} else {
			var err error
			if f, err = fastforward.NewForward(args, fastforward.Opts{}); err != nil {
				fatal(fmt.Errorf("C14 fault sequences: NewForward: %w", err))
			}
		}
		r.Count("fault-sequences:cases")
		if maxCap > 0 {
			r.Count("fault-sequences:with-max_conns")
		}

		var history []string // the session so far, for the failing input
		behav := map[int]string{}
		fault := map[int]string{} // server id -> "hangup" | "refuse" during an outage
		setPhase := func(faulty map[int]string) {
			fault = faulty
			for _, s := range srvs {
				behav[s.id] = replying[r.Rng.Intn(len(replying))]
				for bi, b := range behaviours14 {
					if b == behav[s.id] {
						s.behave.Store(int32(bi))
					}
				}
				s.delayNs.Store(int64([]time.Duration{0, 0, 2 * time.Millisecond, 10 * time.Millisecond}[r.Rng.Intn(4)]))
				switch faulty[s.id] {
				case "hangup":
					s.hangup.Store(true)
					s.refuse.Store(false)
				case "refuse":
					s.hangup.Store(true)
					s.refuse.Store(true)
					s.dropConns()
				default:
					s.hangup.Store(false)
					s.refuse.Store(false)
				}
			}
			time.Sleep(10 * time.Millisecond) // connections the servers closed are seen as closed by the transports
		}
		caseStart := time.Now()
		qn := 0
		// one query of the session; false = stop this case
		query := func(phase string) bool {
			if time.Since(caseStart) > 3*time.Second {
				// idle connections are closed after >= 5 s; a query on a connection that is just being closed is
				// legitimately sent again on a fresh one: do not let a case come near that
				r.Count("fault-sequences:case-cut-short-on-a-slow-machine")
				return false
			}
			use := make([]int, n)
			for i := range use {
				use[i] = i
			}
			var exec sequence.Executable = f
			subsetStr := "-"
			var tagged []int
			for i, e := range ents {
				if e.tag != "" {
					tagged = append(tagged, i)
				}
			}
			if len(tagged) > 0 && r.Rng.Intn(3) == 0 {
				k := 1 + r.Rng.Intn(len(tagged))
				use = nil
				var ts, is []string
				for _, j := range r.Rng.Perm(len(tagged))[:k] {
					use = append(use, tagged[j])
					ts = append(ts, ents[tagged[j]].tag)
					is = append(is, fmt.Sprint(tagged[j]))
				}
				e, err := f.QuickConfigureExec(strings.Join(ts, " "))
				if err != nil {
					fatal(err)
				}
				exec = e.(sequence.Executable)
				subsetStr = strings.Join(is, ".")
			}
			qname := fmt.Sprintf("c14seq-%d-%d.example.", ci, qn)
			qn++
			q := new(dns.Msg)
			q.SetQuestion(qname, dns.TypeA)
			q.Id = uint16(r.Rng.Intn(65536))
			qCtx := query_context.NewContext(q)
			_, priorStr := prior14(r, q, qCtx)
			var state []string
			for _, s := range srvs {
				st := behav[s.id] + "+" + time.Duration(s.delayNs.Load()).String()
				if fl := fault[s.id]; fl != "" {
					st = fl
				}
				state = append(state, fmt.Sprintf("%d:%s", s.id, st))
			}
			step := fmt.Sprintf("%s[servers %s; entries %s]", phase, strings.Join(state, " "), subsetStr)
			desc := map[string]any{"config": conf, "built_via": via, "entry_leads_to_server": strings.Join(targets, ","), "tag_subset_entries": subsetStr,
				"session_before_this_query(phase[server:behaviour+delay | fault; entries in use] -> result)": append([]string(nil), history...),
				"this_query": step, "qname": qname, "response_already_in_the_context_before_the_call(rcode:origin)": priorStr,
				"server_addresses": fmt.Sprintf("1: tcp %s socks5 %s; 2: tcp %s socks5 %s; 3: tcp %s socks5 %s", srvs[0].tcpAddr, srvs[0].sockAddr, srvs[1].tcpAddr, srvs[1].sockAddr, srvs[2].tcpAddr, srvs[2].sockAddr)}
			meter := startStallMeter()
			const budget = 2500 * time.Millisecond
			ctx, cancel := context.WithTimeout(context.Background(), budget)
			t0 := time.Now()
			err := exec.Exec(ctx, qCtx)
			took := time.Since(t0)
			cancel()
			healthy := len(fault) == 0
			var obs map[int]int
			total := 0
			if healthy {
				// every server answers: all c helpers' queries show up at once (event-driven wait, generous limit)
				limit := time.NewTimer(2 * time.Second)
			wait:
				for {
					if obs, total = hub.snapshot(qname); total >= c {
						break
					}
					select {
					case <-hub.wake:
					case <-time.After(20 * time.Millisecond):
					case <-limit.C:
						obs, total = hub.snapshot(qname)
						break wait
					}
				}
				limit.Stop()
			} else {
				obs, total = hub.snapshot(qname)
			}
			stall := meter.Stop()
			var obsList []int
			for id, k := range obs {
				for j := 0; j < k; j++ {
					obsList = append(obsList, id)
				}
			}
			sort.Ints(obsList)
			obsStr := strings.Trim(strings.ReplaceAll(fmt.Sprint(obsList), " ", "."), "[]")
			if obsStr == "" {
				obsStr = "none"
			}
			desc["servers_that_received_the_query"] = obsStr
			out := ""
			from := -1
			switch {
			case err != nil && (errors.Is(err, context.DeadlineExceeded) || errors.Is(err, context.Canceled)):
				out = "context error after " + took.Round(time.Millisecond).String()
			case err != nil:
				out = "error: " + err.Error()
			default:
				from = fromOf14(qCtx.R())
				out = fmt.Sprintf("reply:%d:%d", qCtx.R().Rcode, from)
			}
			desc["result"] = out
			history = append(history, step+" -> "+out+", received by "+obsStr)
			if stall > 300*time.Millisecond {
				r.Count("fault-sequences:query-not-judged-machine-stalled")
				return true
			}
			// ---- only upstreams of the list in use are queried
			inUse := map[int]bool{}
			for _, i := range use {
				inUse[ents[i].target] = true
			}
			for id := range obs {
				if !inUse[id] {
					r.Fail("a server that no entry of the list in use leads to received the query", desc)
					failures++
					return false
				}
			}
			// ---- candidate start positions (healthy: the one the observed servers identify)
			var cands []int
			if healthy {
				for cand := 0; cand < len(use); cand++ {
					var exp []int
					for i := 0; i < c; i++ {
						exp = append(exp, ents[use[(cand+i)%len(use)]].target)
					}
					sort.Ints(exp)
					if fmt.Sprint(exp) == fmt.Sprint(obsList) {
						cands = append(cands, cand)
					}
				}
				rs := 0
				if len(cands) > 0 {
					rs = cands[0]
				}
				r.Line(fmt.Sprintf("cfg %s %s %d %d", strings.Join(targets, "."), subsetStr, conc, rs), "servers="+obsStr)
				r.Eval(fmt.Sprintf("seq/%d/%d", ci, qn), len(history) > 1)
				r.Trace()
				if len(cands) == 0 {
					r.Fail("after the earlier queries of this session (failed exchanges among them), a query of the same forward was not sent to the servers of c cyclically consecutive positions of its upstream list, although every server is up and answering", desc)
					failures++
					return false
				}
			} else {
				for cand := 0; cand < len(use); cand++ {
					cands = append(cands, cand)
				}
			}
			// ---- the outcome must be legitimate for one of the candidate starts
			legit := false
			for _, cand := range cands {
				anyGood, anyFaulty := false, false
				contacted := map[int]bool{}
				for i := 0; i < c; i++ {
					id := ents[use[(cand+i)%len(use)]].target
					contacted[id] = true
					if fault[id] != "" {
						anyFaulty = true
					} else if behav[id] == "g" || behav[id] == "x" {
						anyGood = true
					}
				}
				switch {
				case from >= 0: // a reply: of a contacted, answering server, with its rcode; a good one if any contacted server is good
					rc := qCtx.R().Rcode
					if contacted[from] && fault[from] == "" && wantRc[behav[from]] == rc && (!anyGood || rc == dns.RcodeSuccess || rc == dns.RcodeNameError) {
						legit = true
					}
				case strings.HasPrefix(out, "error"): // the last exchange to finish failed: possible only without a good one
					if anyFaulty && !anyGood {
						legit = true
					}
				}
			}
			if !legit {
				what := "the outcome of a query is not one the statement allows for any start position: the first NOERROR / NXDOMAIN reply of a queried upstream, else the outcome of the last exchange to finish (every server answers, hangs up or refuses at once, so the 2.5 s context cannot legitimately end first)"
				r.Fail(what, desc)
				failures++
				return false
			}
			if from >= 0 && (qCtx.R().Id != q.Id || len(qCtx.R().Question) != 1 || qCtx.R().Question[0] != q.Question[0]) {
				r.Fail("the reply does not carry the id and question of the query", desc)
				failures++
				return false
			}
			r.Count("fault-sequences:queries-" + strings.SplitN(phase, "#", 2)[0])
			return true
		}

		ok := true
		rounds := 1 + r.Rng.Intn(2)
		for rd := 0; rd < rounds && ok; rd++ {
			setPhase(nil)
			for k := r.Rng.Intn(3); k > 0 && ok; k-- {
				ok = query(fmt.Sprintf("healthy#%d", rd))
			}
			if !ok {
				break
			}
			faulty := map[int]string{}
			for _, s := range srvs {
				if r.Rng.Intn(3) > 0 {
					faulty[s.id] = []string{"hangup", "refuse"}[r.Rng.Intn(2)]
				}
			}
			if len(faulty) == 0 {
				faulty[1+r.Rng.Intn(nSrv)] = "refuse"
			}
			setPhase(faulty)
			for k := 2 + r.Rng.Intn(3+2*maxCap); k > 0 && ok; k-- {
				ok = query(fmt.Sprintf("outage#%d", rd))
			}
			if !ok {
				break
			}
			setPhase(nil)
			for k := 2 + r.Rng.Intn(3); k > 0 && ok; k-- {
				ok = query(fmt.Sprintf("recovered#%d", rd))
			}
		}
		setPhase(nil)
		_ = f.Close()
	}
}
