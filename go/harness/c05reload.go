//go:build pC05 || pall

package main

import (
	"bytes"
	"encoding/binary"
	"fmt"
	"net/http"
	"net/http/httptest"
	"os"
	"path/filepath"
	"strings"
	"time"

	"github.com/IrineSistiana/mosdns/v5/plugin/executable/cache"
	"github.com/klauspost/compress/gzip"
	"github.com/miekg/dns"
	"google.golang.org/protobuf/proto"
)

// C05, entries that came in through a dump.
//
// The lifetime clauses of the statement do not end at a restart: an answer
// that an instance stored, dumped (dump_file at Close, GET /dump, writeDump)
// and that the same or another instance - possibly running with another
// lazy_cache_ttl - loaded again (dump_file at start, POST /load_dump,
// readDump) is still the answer that was stored at its stored time. Every
// dump used here holds exactly what a mosdns instance writes: the times of an
// entry are the ones saveRespToCache of the writing configuration gives it
// (taken from the real code through VerifSave + VerifPeek), shifted into the
// past by a chosen whole number of seconds.

// dump05 builds a dump file with one entry, the way writeDump frames it.
func dump05(key string, m *dns.Msg, stored, msgExp, cacheExp int64) ([]byte, error) {
	wire, err := m.Pack()
	if err != nil {
		return nil, err
	}
	blk, err := proto.Marshal(&cache.CacheDumpBlock{Entries: []*cache.CachedEntry{{
		Key: []byte(key), CacheExpirationTime: cacheExp, MsgExpirationTime: msgExp, MsgStoredTime: stored, Msg: wire,
	}}})
	if err != nil {
		return nil, err
	}
	var b bytes.Buffer
	w, _ := gzip.NewWriterLevel(&b, gzip.BestSpeed)
	w.Name = "mosdns_cache_v2"
	var l [8]byte
	binary.BigEndian.PutUint64(l[:], uint64(len(blk)))
	w.Write(l[:])
	w.Write(blk)
	w.Close()
	return b.Bytes(), nil
}

func (r *Run) runReload05(idx int) {
	lazies := []int{0, 0, 1, 5, 60, 3600, 86400}
	wl := lazies[r.Rng.Intn(len(lazies))]
	rl := wl
	if r.Rng.Intn(2) == 0 {
		rl = lazies[r.Rng.Intn(len(lazies))]
	}
	if r.Rng.Intn(3) != 0 && rl == 0 { // most of the loading instances run with lazy caching
		rl = 3600
	}
	rcode := []int{0, 0, 0, 2, 2, 3, 3, 3, 5}[r.Rng.Intn(9)]
	tc := r.Rng.Intn(25) == 0
	rrs := r.rrs05(true)
	if rcode == 0 && r.Rng.Intn(2) == 0 { // empty NOERROR answers
		var f []rr05
		for _, x := range rrs {
			if x.sec != 'a' {
				f = append(f, x)
			}
		}
		rrs = f
	}
	m := msg05(rcode, tc, rrs)
	const key = "k"
	op := func(k int64) string {
		at := k*int64(time.Second) + int64(time.Second)/2
		return fmt.Sprintf("reload 1 %d %d 5 %d %s %s %d %d", wl, rl, rcode, b01(tc), rrsOp05(rrs), at, at)
	}
	desc := map[string]any{"rcode": rcode, "tc": tc, "records(section:isOpt:ttl)": rrsOp05(rrs), "writer_lazy_cache_ttl": wl, "loader_lazy_cache_ttl": rl}

	// the lifetimes the writing instance gives this answer (real saveRespToCache)
	cw := cache.NewCache(&cache.Args{Size: 1024, LazyCacheTTL: wl}, cache.Opts{})
	stored := cw.VerifSave(key, m)
	sm, st0, me0, ce0, ok := cw.VerifPeek(key)
	cw.Close()
	r.Eval(fmt.Sprintf("reload:%d:%d:%d:%v:%s:%d", wl, rl, rcode, tc, rrsOp05(rrs), idx), stored)
	if !stored || !ok {
		r.Line(op(0), "none")
		r.Count("reload:not-stored")
		return
	}
	msgTtl, cacheTtl := int64(me0.Sub(st0)/time.Second), int64(ce0.Sub(st0)/time.Second)
	desc["msg_ttl_at_store"], desc["cache_ttl_at_store"] = msgTtl, cacheTtl

	// age of the entry when it is loaded and asked for: k whole seconds and a fraction
	var k int64
	switch r.Rng.Intn(6) {
	case 0:
		k = msgTtl + int64(r.Rng.Intn(3)) - 1
	case 1:
		k = cacheTtl + int64(r.Rng.Intn(3)) - 1
	case 2:
		k = msgTtl + int64(r.Rng.Intn(120))
	case 3:
		k = int64([]int{0, 1, 4, 5, 6, 29, 30, 31, 40, 299, 300, 301, 3599, 3600, 3601}[r.Rng.Intn(15)])
	case 4:
		k = int64(r.Rng.Intn(int(min(msgTtl, 1<<20)) + 1))
	default:
		k = int64(r.Rng.Intn(5000))
	}
	if k < 0 {
		k = 0
	}
	if k > 1<<31 {
		k = 1 << 31
	}
	route := []string{"crafted+readDump", "crafted+load_dump", "inject+writeDump+readDump", "inject+GET /dump+POST /load_dump", "inject+dump_file+restart"}[r.Rng.Intn(5)]
	if strings.HasPrefix(route, "inject") && (k+2 >= cacheTtl || (route == "inject+dump_file+restart" && r.Rng.Intn(3) != 0)) {
		route = "crafted+readDump" // the writer would not hold the entry any more (and keep the file route rare)
	}
	desc["route"], desc["stored_seconds_ago"] = route, fmt.Sprintf("%d s + a fraction", k)

	var got *dns.Msg
	var lazyHit bool
	settled := false
	for try := 0; try < 6 && !settled; try++ {
		nowU := time.Now().Unix()
		st, me, ce := nowU-k, nowU-k+msgTtl, nowU-k+cacheTtl
		var cr *cache.Cache
		var err error
		switch {
		case strings.HasPrefix(route, "crafted"):
			var data []byte
			data, err = dump05(key, sm, st, me, ce)
			if err != nil {
				break
			}
			cr = cache.NewCache(&cache.Args{Size: 1024, LazyCacheTTL: rl}, cache.Opts{})
			if route == "crafted+readDump" {
				_, err = cr.VerifReadDump(bytes.NewReader(data))
			} else {
				rec := httptest.NewRecorder()
				cr.Api().ServeHTTP(rec, httptest.NewRequest(http.MethodPost, "/load_dump", bytes.NewReader(data)))
				if rec.Code != http.StatusOK {
					err = fmt.Errorf("POST /load_dump: %d %s", rec.Code, rec.Body.String())
				}
			}
		case route == "inject+dump_file+restart":
			var dir string
			dir, err = os.MkdirTemp("", "verif-c05-reload")
			if err != nil {
				break
			}
			file := filepath.Join(dir, "cache.dump")
			c1 := cache.NewCache(&cache.Args{Size: 1024, LazyCacheTTL: wl, DumpFile: file}, cache.Opts{})
			c1.VerifInject(key, sm.Copy(), time.Unix(st, 0), time.Unix(me, 0), time.Unix(ce, 0))
			err = c1.Close()
			if err == nil {
				cr = cache.NewCache(&cache.Args{Size: 1024, LazyCacheTTL: rl, DumpFile: file}, cache.Opts{})
				got, lazyHit = cr.VerifGet(key) // asked before Close writes the file again
				settled = time.Now().Unix() == nowU
				cr.Close()
				cr = nil
			}
			os.RemoveAll(dir)
			if err == nil {
				continue
			}
		default:
			c1 := cache.NewCache(&cache.Args{Size: 1024, LazyCacheTTL: wl}, cache.Opts{})
			c1.VerifInject(key, sm.Copy(), time.Unix(st, 0), time.Unix(me, 0), time.Unix(ce, 0))
			var dump bytes.Buffer
			if route == "inject+writeDump+readDump" {
				_, err = c1.VerifWriteDump(&dump)
			} else {
				rec := httptest.NewRecorder()
				c1.Api().ServeHTTP(rec, httptest.NewRequest(http.MethodGet, "/dump", nil))
				if rec.Code != http.StatusOK {
					err = fmt.Errorf("GET /dump: %d %s", rec.Code, rec.Body.String())
				}
				dump.Write(rec.Body.Bytes())
			}
			c1.Close()
			if err != nil {
				break
			}
			cr = cache.NewCache(&cache.Args{Size: 1024, LazyCacheTTL: rl}, cache.Opts{})
			if route == "inject+writeDump+readDump" {
				_, err = cr.VerifReadDump(bytes.NewReader(dump.Bytes()))
			} else {
				rec := httptest.NewRecorder()
				cr.Api().ServeHTTP(rec, httptest.NewRequest(http.MethodPost, "/load_dump", bytes.NewReader(dump.Bytes())))
				if rec.Code != http.StatusOK {
					err = fmt.Errorf("POST /load_dump: %d %s", rec.Code, rec.Body.String())
				}
			}
		}
		if err != nil {
			if cr != nil {
				cr.Close()
			}
			desc["error"] = err.Error()
			r.Fail("a dump holding one entry, as a mosdns instance writes it, could not be written or loaded", desc)
			return
		}
		if cr != nil {
			got, lazyHit = cr.VerifGet(key)
			// the whole of load + lookup happened within the second the dump was made for: the age of the
			// entry was k s + a fraction at every step (anything else: the machine stalled, try again)
			settled = time.Now().Unix() == nowU
			cr.Close()
		}
	}
	if !settled {
		r.Count("reload:skipped-stalls")
		return
	}
	out := "miss"
	if got != nil {
		if lazyHit {
			out = "stale " + ttlsOf05(got)
		} else {
			out = "fresh " + ttlsOf05(got)
		}
	}
	r.Line(op(k), out)
	r.Count("reload:" + route + ":" + strings.Fields(out)[0])
	desc["served"] = out

	// ---- the statement's own clauses, on the real code's answer
	minT, nAns := int64(-1), 0
	for _, x := range rrs {
		if !x.isOpt && (minT < 0 || int64(x.ttl) < minT) {
			minT = int64(x.ttl)
		}
		if x.sec == 'a' {
			nAns++
		}
	}
	if got == nil {
		return
	}
	switch {
	case rcode == 3 && k >= 30:
		r.Fail("a NXDOMAIN answer that came in through a dump is served more than 30 s after it was stored", desc)
	case rcode == 2 && k >= 5:
		r.Fail("a SERVFAIL answer that came in through a dump is served more than 5 s after it was stored", desc)
	case rcode == 0 && nAns == 0 && k >= min(300, minT):
		r.Fail("an empty NOERROR answer that came in through a dump is served after min(300 s, smallest TTL) have run out", desc)
	case rcode == 0 && nAns > 0 && k >= minT && rl <= 0:
		r.Fail("an answer that came in through a dump is served after its smallest TTL has run out although lazy caching is off", desc)
	case rcode == 0 && nAns > 0 && k >= minT:
		for _, sec := range [][]dns.RR{got.Answer, got.Ns, got.Extra} {
			for _, rr := range sec {
				if rr.Header().Rrtype != dns.TypeOPT && rr.Header().Ttl != 5 {
					r.Fail("an answer that came in through a dump is served after its smallest TTL has run out with a TTL other than 5", desc)
					return
				}
			}
		}
	}
}
