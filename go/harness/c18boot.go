//go:build pC18 || pall

package main

import (
	"context"
	"crypto/tls"
	"errors"
	"fmt"
	"net"
	"strconv"
	"strings"
	"sync"
	"time"

	"github.com/IrineSistiana/mosdns/v5/pkg/upstream"
	"github.com/miekg/dns"
)

// C18 (4): several upstreams in one process whose dial host is a NAME that is
// resolved through Opt.Bootstrap.
//
// A fake bootstrap DNS server on loopback maps every name of a group to its
// own loopback address; on each of these addresses TCP (TLS ClientHello
// recorder) and UDP listeners sit on the same small set of ports. A group is
// 2..4 upstreams created one after the other - same name with different
// ports, different schemes (tls, tls+pipeline, https over TCP; quic, h3 over
// UDP), the port written in the URL or in dial_addr - and then used one after
// the other. Every connection an upstream opens must arrive at the address of
// ITS name and at ITS port, whatever the other upstreams of the process are.
//
// Attribution of an observed connection to an upstream does not rest on
// timing: TCP connections carry a per-upstream ALPN tag in the ClientHello
// (Opt.TLSConfig.NextProtos is the caller's to choose); UDP datagrams are
// attributed by their source port (each quic/h3 upstream owns one UDP socket
// for its lifetime, and that socket is never closed by mosdns, so the port is
// never reused within the process): a source first seen while upstream i is
// the only one exchanging belongs to i.

type bootHit struct {
	slot, pidx int
	udp        bool
	tag        string // tcp: ALPN tag; "" = no ClientHello seen
	sni        string
	src        int // udp: source port
}

type bootNet struct {
	v6    bool
	ips   []string // one per slot
	ports []int
	mu    sync.Mutex
	hits  []bootHit
	cl    []interface{ Close() error }
}

func (bn *bootNet) add(h bootHit) {
	bn.mu.Lock()
	bn.hits = append(bn.hits, h)
	bn.mu.Unlock()
}

func (bn *bootNet) take() []bootHit {
	bn.mu.Lock()
	defer bn.mu.Unlock()
	h := bn.hits
	bn.hits = nil
	return h
}

func (bn *bootNet) close() {
	for _, c := range bn.cl {
		c.Close()
	}
}

func (bn *bootNet) serveTCP(l net.Listener, slot, pidx int) {
	for {
		c, err := l.Accept()
		if err != nil {
			return
		}
		go func() {
			defer c.Close()
			c.SetDeadline(time.Now().Add(3 * time.Second))
			seen := false
			ts := tls.Server(c, &tls.Config{GetConfigForClient: func(chi *tls.ClientHelloInfo) (*tls.Config, error) {
				seen = true
				tag := ""
				for _, p := range chi.SupportedProtos {
					if strings.HasPrefix(p, "c18u") {
						tag = p
					}
				}
				bn.add(bootHit{slot: slot, pidx: pidx, tag: tag, sni: chi.ServerName})
				return nil, errors.New("harness: handshake not completed on purpose")
			}})
			ts.Handshake()
			if !seen {
				bn.add(bootHit{slot: slot, pidx: pidx})
			}
		}()
	}
}

func (bn *bootNet) serveUDP(pc net.PacketConn, slot, pidx int) {
	buf := make([]byte, 2048)
	for {
		_, from, err := pc.ReadFrom(buf)
		if err != nil {
			return
		}
		src := 0
		if ua, ok := from.(*net.UDPAddr); ok {
			src = ua.Port
		}
		bn.add(bootHit{slot: slot, pidx: pidx, udp: true, src: src})
	}
}

// newBootNet binds, for every address in ips, TCP and UDP listeners on the same nports ports.
func newBootNet(ips []string, nports int, v6 bool) (*bootNet, error) {
	bn := &bootNet{ips: ips, v6: v6}
	for tries := 0; len(bn.ports) < nports && tries < 40; tries++ {
		l0, err := net.Listen("tcp", net.JoinHostPort(ips[0], "0"))
		if err != nil {
			return nil, err
		}
		port := l0.Addr().(*net.TCPAddr).Port
		ls := []net.Listener{l0}
		var pcs []net.PacketConn
		ok := true
		for i, ip := range ips {
			if i > 0 {
				l, err := net.Listen("tcp", net.JoinHostPort(ip, strconv.Itoa(port)))
				if err != nil {
					ok = false
					break
				}
				ls = append(ls, l)
			}
			pc, err := net.ListenPacket("udp", net.JoinHostPort(ip, strconv.Itoa(port)))
			if err != nil {
				ok = false
				break
			}
			pcs = append(pcs, pc)
		}
		if !ok {
			for _, l := range ls {
				l.Close()
			}
			for _, pc := range pcs {
				pc.Close()
			}
			if len(ls) <= 1 && len(pcs) == 0 && tries > 4 {
				bn.close()
				return nil, fmt.Errorf("cannot bind the loopback addresses %v", ips)
			}
			continue
		}
		pidx := len(bn.ports)
		bn.ports = append(bn.ports, port)
		for i := range ips {
			bn.cl = append(bn.cl, ls[i], pcs[i])
			go bn.serveTCP(ls[i], i, pidx)
			go bn.serveUDP(pcs[i], i, pidx)
		}
	}
	if len(bn.ports) < nports {
		bn.close()
		return nil, fmt.Errorf("could not find %d ports free on %v", nports, ips)
	}
	return bn, nil
}

// bootDNS answers A / AAAA for the names it was told about; everything else gets an empty answer.
type bootDNS struct {
	mu   sync.Mutex
	a    map[string]net.IP // fqdn -> address
	aaaa map[string]net.IP
	srv  *dns.Server
	addr string
}

func newBootDNS() (*bootDNS, error) {
	pc, err := net.ListenPacket("udp", "127.0.0.1:0")
	if err != nil {
		return nil, err
	}
	d := &bootDNS{a: map[string]net.IP{}, aaaa: map[string]net.IP{}, addr: pc.LocalAddr().String()}
	d.srv = &dns.Server{PacketConn: pc, Handler: dns.HandlerFunc(func(w dns.ResponseWriter, q *dns.Msg) {
		m := new(dns.Msg)
		m.SetReply(q)
		if len(q.Question) == 1 {
			name := strings.ToLower(q.Question[0].Name)
			d.mu.Lock()
			switch q.Question[0].Qtype {
			case dns.TypeA:
				if ip, ok := d.a[name]; ok {
					m.Answer = append(m.Answer, &dns.A{Hdr: dns.RR_Header{Name: q.Question[0].Name, Rrtype: dns.TypeA, Class: dns.ClassINET, Ttl: 600}, A: ip})
				}
			case dns.TypeAAAA:
				if ip, ok := d.aaaa[name]; ok {
					m.Answer = append(m.Answer, &dns.AAAA{Hdr: dns.RR_Header{Name: q.Question[0].Name, Rrtype: dns.TypeAAAA, Class: dns.ClassINET, Ttl: 600}, AAAA: ip})
				}
			}
			d.mu.Unlock()
		}
		w.WriteMsg(m)
	})}
	go d.srv.ActivateAndServe()
	return d, nil
}

type bootUp struct {
	id       int
	scheme   string
	udp      bool
	urlHost  string // URL host as written (may include :port)
	urlName  string // URL host without port
	urlIsIP  bool
	dial     string
	slot     int // expected
	pidx     int // expected
	name     string
	url      string
	u        upstream.Upstream
	tag      string
	observed []bootHit
}

func runC18Boot(r *Run) {
	d, err := newBootDNS()
	if err != nil {
		r.Note("bootstrap scenario skipped: no UDP listener for the fake bootstrap server: " + err.Error())
		return
	}
	defer d.srv.Shutdown()
	const nports = 3
	var nets []*bootNet
	if bn, err := newBootNet([]string{"127.18.0.1", "127.18.0.2"}, nports, false); err == nil {
		nets = append(nets, bn)
	} else if bn, err := newBootNet([]string{"127.0.0.1"}, nports, false); err == nil {
		r.Note("bootstrap scenario: only 127.0.0.1 could be bound (" + err.Error() + ")")
		nets = append(nets, bn)
	} else {
		r.Note("bootstrap scenario skipped: " + err.Error())
		return
	}
	if bn, err := newBootNet([]string{"::1"}, nports, true); err == nil {
		nets = append(nets, bn)
	} else {
		r.Note("bootstrap scenario: no IPv6 loopback listeners: " + err.Error())
	}
	defer func() {
		for _, bn := range nets {
			bn.close()
		}
	}()

	q := make([]byte, 29)
	copy(q, []byte{0x12, 0x34, 1, 0, 0, 1, 0, 0, 0, 0, 0, 0, 7, 'e', 'x', 'a', 'm', 'p', 'l', 'e', 3, 'c', 'o', 'm', 0, 0, 1, 0, 1})
	nextID := 0
	udpOwner := map[string]*bootUp{} // "<net>/<source port>" -> upstream, for the whole run
	strayUp := &bootUp{id: -1}
	udpBudget := r.N(120, 1200)       // every quic/h3 upstream leaves one UDP socket behind (mosdns never closes it)
	ngroups := r.N(100, 1500)
	for g := 0; g < ngroups; g++ {
		ni := 0
		if len(nets) > 1 && r.Rng.Intn(4) == 0 {
			ni = 1
		}
		bn := nets[ni]
		ver := 0
		if bn.v6 {
			ver = 6
		} else if r.Rng.Intn(2) == 0 {
			ver = 4
		}
		// names of this group: one per slot (fresh names, so that nothing of an earlier group interferes)
		names := make([]string, len(bn.ips))
		for s := range names {
			const al = "abcdefghijklmnopqrstuvwxyz0123456789"
			lab := make([]byte, 1+r.Rng.Intn(10))
			for j := range lab {
				lab[j] = al[r.Rng.Intn(len(al))]
			}
			names[s] = fmt.Sprintf("g%d-%d.%s.test", g, s, lab)
			d.mu.Lock()
			if bn.v6 {
				d.aaaa[names[s]+"."] = net.ParseIP(bn.ips[s])
			} else {
				d.a[names[s]+"."] = net.ParseIP(bn.ips[s]).To4()
			}
			d.mu.Unlock()
		}
		k := 2 + r.Rng.Intn(3)
		var ups []*bootUp
		mainSlot := r.Rng.Intn(len(names))
		for i := 0; i < k; i++ {
			b := &bootUp{id: nextID}
			nextID++
			b.tag = fmt.Sprintf("c18u%d", b.id)
			b.scheme = []string{"tls", "tls", "tls+pipeline", "https", "https", "quic", "h3"}[r.Rng.Intn(7)]
			if (b.scheme == "quic" || b.scheme == "h3") && udpBudget <= 0 {
				b.scheme = "tls"
			}
			b.udp = b.scheme == "quic" || b.scheme == "h3"
			// most upstreams of a group share one name; ports are drawn from a small set, so equal and different ports both occur
			b.slot = mainSlot
			if r.Rng.Intn(4) == 0 {
				b.slot = r.Rng.Intn(len(names))
			}
			b.pidx = r.Rng.Intn(len(bn.ports))
			if i > 0 && r.Rng.Intn(2) == 0 { // same name as the previous one, another port
				b.slot = ups[i-1].slot
				b.pidx = (ups[i-1].pidx + 1 + r.Rng.Intn(len(bn.ports)-1)) % len(bn.ports)
			}
			b.name = names[b.slot]
			hp := b.name + ":" + strconv.Itoa(bn.ports[b.pidx])
			switch r.Rng.Intn(5) {
			case 0: // dial_addr name:port overrides a URL that names another host of the group and another port
				os := r.Rng.Intn(len(names))
				b.urlName = names[os]
				b.urlHost = b.urlName
				if r.Rng.Intn(2) == 0 {
					b.urlHost += ":" + strconv.Itoa(bn.ports[r.Rng.Intn(len(bn.ports))])
				}
				b.dial = hp
			case 1: // dial_addr name:port, URL host is an IP literal
				b.urlName = []string{"192.0.2.53", "[2001:db8::53]"}[r.Rng.Intn(2)]
				b.urlHost, b.urlIsIP = b.urlName, true
				b.dial = hp
			default:
				b.urlName, b.urlHost = b.name, hp
			}
			b.url = b.scheme + "://" + b.urlHost
			if b.scheme == "https" || b.scheme == "h3" {
				b.url += "/dns-query"
			}
			u, err := upstream.NewUpstream(b.url, upstream.Opt{
				DialAddr: b.dial, Bootstrap: d.addr, BootstrapVer: ver,
				TLSConfig: &tls.Config{InsecureSkipVerify: true, NextProtos: []string{b.tag}},
			})
			r.Eval(fmt.Sprintf("boot:%s|%s|%d", b.url, b.dial, g), true)
			if err != nil {
				// rejection at creation is always allowed by the property
				r.Count("boot:rejected:" + b.scheme)
				continue
			}
			if b.udp {
				udpBudget--
			}
			b.u = u
			ups = append(ups, b)
			r.Count("boot:created:" + b.scheme)
		}
		byTag := map[string]*bootUp{}
		for _, b := range ups {
			byTag[b.tag] = b
		}
		attribute := func(cur *bootUp) {
			for _, h := range bn.take() {
				if h.udp {
					key := fmt.Sprintf("%d/%d", ni, h.src)
					o := udpOwner[key]
					if o == nil {
						if cur == nil || !cur.udp {
							// a source that shows up while no quic/h3 upstream is exchanging: never attributed to anyone
							o = strayUp
							r.Count("boot:udp-unattributed-source")
						} else {
							o = cur
						}
						udpOwner[key] = o
					}
					if o != strayUp {
						o.observed = append(o.observed, h)
					}
					continue
				}
				if o := byTag[h.tag]; o != nil {
					o.observed = append(o.observed, h)
				} else {
					r.Count("boot:tcp-unattributed")
				}
			}
		}
		// use them one after the other, in a random order
		abandonUDP := false
		for _, i := range r.Rng.Perm(len(ups)) {
			b := ups[i]
			attribute(nil)
			if b.udp {
				if abandonUDP {
					b.u.Close()
					continue
				}
				ctx, cancel := context.WithTimeout(context.Background(), 2*time.Second)
				done := make(chan struct{})
				go func() { b.u.ExchangeContext(ctx, q); close(done) }()
				deadline := time.Now().Add(2500 * time.Millisecond)
				finished := false
				for len(b.observed) == 0 && time.Now().Before(deadline) {
					select {
					case <-done:
						finished = true
					case <-time.After(2 * time.Millisecond):
					}
					attribute(b)
					if finished {
						break
					}
				}
				cancel()
				<-done
				b.u.Close()
				attribute(b)
				if len(b.observed) == 0 {
					// its first datagram may still come; nothing that arrives later in this group can be attributed safely
					abandonUDP = true
					r.Count("boot:udp-no-datagram-observed")
				}
			} else {
				ctx, cancel := context.WithTimeout(context.Background(), 1500*time.Millisecond)
				b.u.ExchangeContext(ctx, q) // fails as soon as the listener has aborted the handshake
				cancel()
				b.u.Close()
			}
		}
		if abandonUDP {
			// let stragglers of this group arrive before the next one opens its windows
			time.Sleep(300 * time.Millisecond)
			for _, h := range bn.take() {
				if h.udp {
					if key := fmt.Sprintf("%d/%d", ni, h.src); udpOwner[key] == nil {
						udpOwner[key] = strayUp
					}
				}
			}
		} else {
			time.Sleep(2 * time.Millisecond)
			attribute(nil)
		}
		// oracle + model line
		var items, outs []string
		for _, b := range ups {
			desc := map[string]any{"addr": b.url, "dial_addr": b.dial, "bootstrap_version": ver,
				"want": net.JoinHostPort(bn.ips[b.slot], strconv.Itoa(bn.ports[b.pidx])), "want_name": b.name,
				"created_in_one_process": describeGroup18(ups, bn)}
			obs := "0"
			out := "?"
			for j, h := range b.observed {
				got := net.JoinHostPort(bn.ips[h.slot], strconv.Itoa(bn.ports[h.pidx]))
				if j == 0 {
					obs = "1"
					out = fmt.Sprintf("%s:%d", hx([]byte(names[h.slot]+".")), bn.ports[h.pidx])
					desc["connected_to"] = got
					r.Count("boot:observed:" + b.scheme)
				}
				if h.slot != b.slot || h.pidx != b.pidx {
					desc["connected_to"] = got
					desc["resolved_name_of_that_address"] = names[h.slot]
					r.Fail("an upstream resolved through the bootstrap server connected to a host/port other than the one the user configured", desc)
					break
				}
				if !h.udp && h.tag != "" && !b.urlIsIP && h.sni != b.urlName {
					desc["sni"] = h.sni
					r.Fail("the TLS server name is not the URL host", desc)
					break
				}
			}
			defPort := defaultPort18(b.scheme)
			items = append(items, fmt.Sprintf("%s/%s/%d/%s", hx([]byte(b.urlHost)), hx([]byte(b.dial)), defPort, obs))
			outs = append(outs, out)
		}
		if len(items) > 0 {
			r.Line("boot "+strings.Join(items, ","), strings.Join(outs, ","))
		}
	}
}

func describeGroup18(ups []*bootUp, bn *bootNet) []string {
	var out []string
	for _, b := range ups {
		s := b.url
		if b.dial != "" {
			s += " dial_addr=" + b.dial
		}
		out = append(out, s)
	}
	return out
}
