//go:build pC07 || pall

package main

import (
	"context"
	"encoding/binary"
	"errors"
	"fmt"
	"io"
	"runtime"
	"strings"
	"sync"
	"time"

	"github.com/IrineSistiana/mosdns/v5/pkg/upstream/transport"
)

// C07: exchanges always terminate; Close releases everything.
//
// Part 1 follows the read deadline of one TraditionalDnsConn through scripted
// histories and compares the kind of deadline in force (waiting-reply / idle)
// with the model after every operation.
// Part 2 is a fault matrix over the transports. The fake connections implement
// deadlines themselves and shorten every requested deadline by `scale07`, so
// the transports' liveness timeouts (10 s / 6 s) elapse in 100 / 60 ms.

func init() { props["C07"] = runC07 }

const scale07 = 100

func goroutines07() int {
	buf := make([]byte, 1<<20)
	n := runtime.Stack(buf, true)
	cnt := 0
	for _, g := range strings.Split(string(buf[:n]), "\n\n") {
		if strings.Contains(g, "mosdns/v5/pkg/upstream/transport.") {
			cnt++
		}
	}
	return cnt
}

func runC07(r *Run) {
	// ------------------------------------------------------------------ part 1
	histories := r.N(25, 250)
	for hi := 0; hi < histories; hi++ {
		stream := r.Rng.Intn(2) == 0
		fc := newFakeConn(hi, stream)
		idle := 40 * time.Second
		dc := transport.NewDnsConn(transport.TraditionalDnsConnOpts{WithLengthHeader: stream, IdleTimeout: idle, MaxConcurrentQuery: 64}, fc)
		kind := func() string {
			// what the reader sleeps under: the last deadline that was set
			fc.waitDrained(time.Second)
			fc.mu.Lock()
			defer fc.mu.Unlock()
			if fc.closed {
				return "closed"
			}
			if len(fc.rdlHist) == 0 {
				return "none"
			}
			if fc.rdlHist[len(fc.rdlHist)-1] > 25*time.Second {
				return "idle"
			}
			return "short"
		}
		waitKind := func(want string) string {
			k := kind()
			for i := 0; i < 500 && k != want; i++ {
				time.Sleep(100 * time.Microsecond)
				k = kind()
			}
			return k
		}
		var parked []*call09
		ops := []string{"start"}
		outs := []string{waitKind("idle")}
		steps := 4 + r.Rng.Intn(20)
		for st := 0; st < steps; st++ {
			switch k := r.Rng.Intn(8); {
			case k == 7:
				// a reply nobody waits for sends the reader round its loop; its SetReadDeadline call is held at the
				// entry while a caller enqueues, writes and arms its own deadline (if the code lets it), then let go
				entered := fc.armGate(60 * time.Millisecond)
				fc.feed(fc.frame(mkReply(mkQuery(0, 424242), uint16(40000+r.Rng.Intn(20000)))))
				select {
				case <-entered:
				case <-time.After(time.Second):
				}
				rx, _ := dc.ReserveNewQuery()
				if rx == nil {
					ops = append(ops, "s")
					outs = append(outs, kind())
					continue
				}
				c := startCall09(rx, false)
				if !findWrite09(fc, c, 2*time.Second) {
					continue
				}
				parked = append(parked, c)
				time.Sleep(70 * time.Millisecond) // the held call is through by now
				ops = append(ops, "g")
				outs = append(outs, waitKind("short"))
			case k < 3:
				rx, _ := dc.ReserveNewQuery()
				if rx == nil {
					continue
				}
				c := startCall09(rx, false)
				if !findWrite09(fc, c, 2*time.Second) {
					continue
				}
				parked = append(parked, c)
				ops = append(ops, "q")
				outs = append(outs, waitKind("short"))
			case k < 5 && len(parked) > 0:
				i := r.Rng.Intn(len(parked))
				c := parked[i]
				parked = append(parked[:i], parked[i+1:]...)
				fc.feed(fc.frame(mkReply(c.wireQ, binary.BigEndian.Uint16(c.wireQ))))
				c.wait(2 * time.Second)
				want := "idle"
				if len(parked) > 0 {
					want = "short"
				}
				ops = append(ops, "r")
				outs = append(outs, waitKind(want))
			case k == 5 && len(parked) > 0:
				i := r.Rng.Intn(len(parked))
				c := parked[i]
				parked = append(parked[:i], parked[i+1:]...)
				c.cancel()
				c.wait(2 * time.Second)
				ops = append(ops, "c")
				outs = append(outs, kind())
			case k == 6:
				fc.feed(fc.frame(mkReply(mkQuery(0, 424242), uint16(40000+r.Rng.Intn(20000)))))
				want := "idle"
				if len(parked) > 0 {
					want = "short"
				}
				ops = append(ops, "s")
				outs = append(outs, waitKind(want))
			}
			if len(parked) > 0 {
				if k := kind(); k != "short" {
					r.Fail("a caller is parked in its final wait while the connection's read deadline is not the waiting-reply deadline: a silent server would hold it for the idle timeout", map[string]any{
						"history": strings.Join(ops, ","), "deadline_in_force": k, "parked_callers": len(parked), "stream": stream})
				}
			}
		}
		for _, c := range parked {
			c.cancel()
		}
		dc.Close()
		r.Line("conn "+strings.Join(ops, ","), strings.Join(outs, ";"))
		r.Eval(fmt.Sprintf("deadline/%d", hi), len(ops) > 3)
		r.Count("deadline-histories")
		r.Trace()
	}

	// ------------------------------------------------------------------ part 2
	base := goroutines07()
	type scen struct {
		kind    string // pipeline-tcp pipeline-udp reuse
		fault   string
		trigger string // none cancel deadline close
		callers int
	}
	faults := []string{"dial-error", "dial-blocks", "write-error", "read-eof", "read-reset", "short-frame", "garbage-frame", "close-in-flight", "silence", "silence-after-traffic", "cancel-while-dialing-then-next", "dial-completes-after-close", "partial-frame-then-silence", "junk-datagrams-forever"}
	triggers := []string{"none", "cancel", "deadline", "close"}
	var scens []scen
	for _, kind := range []string{"pipeline-tcp", "pipeline-udp", "reuse"} {
		for _, f := range faults {
			for _, tr := range triggers {
				if f == "dial-blocks" && tr == "none" && !r.Thorough() {
					continue // ends only with the real 5 s dial timeout
				}
				if f == "cancel-while-dialing-then-next" && tr != "cancel" {
					continue
				}
				if f == "dial-completes-after-close" && tr != "close" {
					continue // the dialer ignores its context: only Close followed by the dial's own completion ends it
				}
				if f == "partial-frame-then-silence" && kind == "pipeline-udp" {
					continue // datagrams have no frames to cut
				}
				if f == "junk-datagrams-forever" && kind != "pipeline-udp" {
					continue // on a stream a frame shorter than a header ends the connection (short-frame / garbage-frame)
				}
				for _, n := range []int{1, 3} {
					scens = append(scens, scen{kind, f, tr, n})
				}
			}
		}
	}
	r.Rng.Shuffle(len(scens), func(i, j int) { scens[i], scens[j] = scens[j], scens[i] })
	if !r.Thorough() && len(scens) > 150 {
		keep := scens[:150]
		for _, sc := range scens[150:] {
			if sc.fault == "cancel-while-dialing-then-next" || sc.fault == "silence-after-traffic" || sc.fault == "dial-completes-after-close" || (sc.fault == "junk-datagrams-forever" && sc.trigger == "none") {
				keep = append(keep, sc)
			}
		}
		scens = keep
	}
	wedged := 0
	for si, sc := range scens {
		stream := sc.kind != "pipeline-udp"
		var mu sync.Mutex
		var conns []*fakeConn
		dialGate := make(chan struct{})
		dialBlocks := sc.fault == "dial-blocks" || sc.fault == "cancel-while-dialing-then-next" || sc.fault == "dial-completes-after-close"
		dialIgnoresCtx := sc.fault == "dial-completes-after-close" // a handshake that wins the race against the cancellation
		nWrites := 0
		answered := 0
		// partial-frame-then-silence: how much of the reply frame arrives (the 2-byte length header alone, the header and a part
		// of the body, everything but the last byte), and whether the first query on the connection is answered completely before
		partialCut := r.Rng.Intn(3)
		partialAfterTraffic := sc.fault == "partial-frame-then-silence" && sc.callers > 1 && r.Rng.Intn(3) == 0
		partialSent := map[*fakeConn]bool{}
		junkStarted := map[*fakeConn]bool{}
		var junkPool [][]byte // drawn before the callers start: onWrite runs on their goroutines
		if sc.fault == "junk-datagrams-forever" {
			for i := 0; i < 8; i++ {
				junkPool = append(junkPool, junk07(r))
			}
		}
		var cleared []string // read deadlines cleared (zero time) while a query was written and unanswered: diagnostic only
		onWrite := func(c *fakeConn, w []byte) error {
			q := c.payloadOf(w)
			if len(q) < 12 {
				return nil
			}
			mu.Lock()
			nWrites++
			k := nWrites
			mu.Unlock()
			reply := c.frame(mkReply(q, binary.BigEndian.Uint16(q)))
			switch sc.fault {
			case "write-error":
				if k >= 2 || sc.callers == 1 {
					return errFake
				}
				c.feed(reply)
			case "read-eof":
				c.feedErr(io.EOF)
			case "read-reset":
				c.feedErr(errors.New("read: connection reset by peer (injected)"))
			case "short-frame":
				if stream {
					c.feed([]byte{0})
					c.feedErr(io.EOF)
				} else {
					c.feed([]byte{1, 2, 3})
				}
			case "garbage-frame":
				if stream {
					c.feed([]byte{0, 3, 9, 9, 9}) // a frame shorter than a DNS header
				} else {
					c.feed([]byte{9, 9, 9, 9, 9, 9, 9, 9, 9, 9, 9})
				}
			case "close-in-flight":
				if k >= sc.callers {
					c.feedErr(io.EOF)
				}
			case "silence":
			case "junk-datagrams-forever":
				// the peer answers every datagram it gets with one that is shorter than a DNS header, and keeps doing so at
				// least once per second of the connection's (scaled) clock for as long as the connection exists: never a reply
				c.feed(junkPool[k%len(junkPool)])
				mu.Lock()
				started := junkStarted[c]
				junkStarted[c] = true
				mu.Unlock()
				if !started {
					every := time.Second / scale07 * time.Duration(2+k%7) / 10 // 0.2 .. 0.8 s on the connection's clock
					go func() {
						t0 := time.Now()
						for i := 0; !c.isClosed() && time.Since(t0) < 8*time.Second; i++ {
							time.Sleep(every)
							c.feed(junkPool[i%len(junkPool)])
						}
					}()
				}
			case "partial-frame-then-silence":
				mu.Lock()
				full := partialAfterTraffic && answered == 0
				if full {
					answered++
				}
				mu.Unlock()
				if full {
					c.feed(reply)
					break
				}
				mu.Lock()
				again := partialSent[c]
				partialSent[c] = true
				mu.Unlock()
				if again {
					break // silence: more bytes would complete the frame that was cut short
				}
				n := 2
				switch partialCut {
				case 1:
					n = 2 + 1 + (len(reply)-3)/2
				case 2:
					n = len(reply) - 1
				}
				c.feed(reply[:n])
			case "silence-after-traffic":
				mu.Lock()
				first := answered == 0
				if first {
					answered++
				}
				mu.Unlock()
				if first {
					c.feed(reply)
				}
			default:
				c.feed(reply)
			}
			return nil
		}
		onClear := func(c *fakeConn, call string) {
			c.mu.Lock()
			nq := 0
			for _, w := range c.writes {
				if len(c.payloadOf(w)) >= 12 {
					nq++
				}
			}
			c.mu.Unlock()
			mu.Lock()
			if nq > 0 && len(cleared) < 8 {
				cleared = append(cleared, fmt.Sprintf("connection %d: %s(zero time) after %d queries were written", c.id, call, nq))
			}
			mu.Unlock()
		}
		dial := func(ctx context.Context) (*fakeConn, error) {
			if sc.fault == "dial-error" {
				return nil, errors.New("dial refused (injected)")
			}
			if dialIgnoresCtx {
				<-dialGate
			} else if dialBlocks {
				select {
				case <-dialGate:
				case <-ctx.Done():
					return nil, ctx.Err()
				}
			}
			mu.Lock()
			defer mu.Unlock()
			c := newFakeConn(len(conns), stream)
			c.scale = scale07
			c.onWrite = onWrite
			conns = append(conns, c)
			return c, nil
		}
		var ex func(ctx context.Context, q []byte) (*[]byte, error)
		var closeT func()
		idleTimeout := 10 * time.Second
		if dialIgnoresCtx {
			idleTimeout = 1000 * time.Second // it must be Close, not the idle timeout, that releases the late connection
		}
		if sc.kind == "reuse" {
			t := transport.NewReuseConnTransport(transport.ReuseConnOpts{IdleTimeout: idleTimeout, DialContext: func(ctx context.Context) (transport.NetConn, error) {
				c, err := dial(ctx)
				if err != nil {
					return nil, err
				}
				return &dlwatch07{fakeConn: c, onClear: onClear}, nil
			}})
			ex, closeT = t.ExchangeContext, func() { t.Close() }
		} else {
			t := transport.NewPipelineTransport(transport.PipelineOpts{DialContext: func(ctx context.Context) (transport.DnsConn, error) {
				c, err := dial(ctx)
				if err != nil {
					return nil, err
				}
				return transport.NewDnsConn(transport.TraditionalDnsConnOpts{WithLengthHeader: stream, IdleTimeout: idleTimeout, MaxConcurrentQuery: 16}, &dlwatch07{fakeConn: c, onClear: onClear}), nil
			}})
			ex, closeT = t.ExchangeContext, func() { t.Close() }
		}
		type res struct {
			err  error
			took time.Duration
			ok   bool
		}
		results := make([]res, sc.callers)
		meter := startStallMeter()
		var wg sync.WaitGroup
		ctxs := make([]context.CancelFunc, sc.callers)
		t0 := time.Now()
		for i := 0; i < sc.callers; i++ {
			var ctx context.Context
			switch sc.trigger {
			case "deadline":
				ctx, ctxs[i] = context.WithTimeout(context.Background(), 30*time.Millisecond)
			default:
				ctx, ctxs[i] = context.WithCancel(context.Background())
			}
			wg.Add(1)
			go func(i int, ctx context.Context) {
				defer wg.Done()
				resp, err := ex(ctx, mkQuery(uint16(i), 700000+si*10+i))
				results[i] = res{err: err, took: time.Since(t0), ok: err == nil && resp != nil}
			}(i, ctx)
		}
		switch sc.trigger {
		case "cancel":
			time.Sleep(20 * time.Millisecond)
			for _, c := range ctxs {
				c()
			}
		case "close":
			time.Sleep(20 * time.Millisecond)
			go closeT() // if it blocks, the guarded Close below reports it
			time.Sleep(time.Millisecond)
		}
		// how long may a call take?
		bound := 400 * time.Millisecond // the scaled liveness timeouts (100 / 60 ms), retries on other connections, slack
		if sc.fault == "dial-blocks" && sc.trigger == "none" {
			// only the real 5 s dial timeout ends this. A pipelined query that was queued on somebody else's dialing
			// connection is retried on a new one when that dial fails (C08: at most 3 attempts), so up to 3 x 5 s.
			bound = 5500 * time.Millisecond
			if sc.kind != "reuse" && sc.callers > 1 {
				bound = 16 * time.Second
			}
		}
		doneCh := make(chan struct{})
		go func() { wg.Wait(); close(doneCh) }()
		hung := false
		select {
		case <-doneCh:
		case <-time.After(bound + 2*time.Second):
			hung = true
		}
		stall := meter.Stop()
		if stall > 10*time.Millisecond {
			// the machine held the harness up: widen the bound by what was lost. (A call can legitimately go through three
			// attempts of one scaled liveness timeout each, and every hand-over between goroutines is exposed to such stalls;
			// with the threshold at 50 ms a run on a loaded machine was seen to take 434 ms against the 400 ms bound.)
			bound += 4 * stall
			r.Count("timing-bound-widened:machine-stalled")
		}
		desc := map[string]any{"transport": sc.kind, "fault": sc.fault, "trigger": sc.trigger, "callers": sc.callers, "deadline_scale": scale07}
		if sc.fault == "partial-frame-then-silence" {
			desc["reply_bytes_delivered"] = []string{"the 2-byte length header only", "the length header and half of the body", "all but the last byte"}[partialCut]
			desc["first_query_answered_completely"] = partialAfterTraffic
			mu.Lock()
			if len(cleared) > 0 {
				desc["read_deadline_cleared_with_queries_outstanding"] = append([]string(nil), cleared...)
			}
			mu.Unlock()
		}
		if hung {
			r.Fail("an exchange did not return", desc)
		} else {
			for i, rs := range results {
				desc["caller"] = i
				desc["took"] = rs.took.String()
				desc["err"] = fmt.Sprint(rs.err)
				if rs.took > bound {
					r.Fail("an exchange returned later than the transport's liveness timeouts / its context allow", desc)
				}
				faulty := sc.fault != "silence-after-traffic" && sc.fault != "cancel-while-dialing-then-next" && sc.fault != "dial-completes-after-close" && !(sc.fault == "write-error" && sc.callers > 1) && sc.fault != "dial-blocks" && !partialAfterTraffic
				if faulty && rs.ok {
					r.Fail("an exchange reported success although its connection failed before any reply", desc)
				}
				if sc.trigger == "close" && rs.ok && sc.fault == "silence" {
					r.Fail("a pending exchange succeeded after Close on a silent server", desc)
				}
			}
		}
		if sc.fault == "junk-datagrams-forever" {
			desc["peer"] = "answers every datagram, and at least once per second of the connection's clock, with a datagram of 1..11 bytes; never a reply"
		}
		if sc.fault == "cancel-while-dialing-then-next" {
			// the cancelled callers are gone; now the dial succeeds and the next call must not be held up
			close(dialGate)
			time.Sleep(2 * time.Millisecond)
			ctx, cancel := context.WithTimeout(context.Background(), 2*time.Second)
			t1 := time.Now()
			nextDone := make(chan error, 1)
			go func() { _, err := ex(ctx, mkQuery(9, 790000+si)); nextDone <- err }()
			var err error
			stuck := false
			select {
			case err = <-nextDone:
			case <-time.After(3 * time.Second):
				stuck = true
			}
			cancel()
			if d := time.Since(t1); stuck || d > 500*time.Millisecond || err != nil {
				desc["took"] = d.String()
				desc["err"] = fmt.Sprint(err)
				desc["never_returned"] = stuck
				r.Fail("after callers gave up while the connection was dialing and the dial then succeeded, the next exchange did not complete", desc)
			}
			if stuck {
				// the transport is wedged (its mutex is held by the stuck call): Close would block as well
				closed := make(chan struct{})
				go func() { closeT(); close(closed) }()
				select {
				case <-closed:
				case <-time.After(time.Second):
					r.Fail("Close did not return", desc)
				}
				base = goroutines07()
				r.Count("fault:" + sc.fault)
				continue
			}
		} else if dialBlocks {
			close(dialGate)
			if dialIgnoresCtx {
				// the dial returns its connection only now, after Close: give the transport's dial goroutine time to see it
				for i := 0; i < 200; i++ {
					mu.Lock()
					k := len(conns)
					mu.Unlock()
					if k > 0 {
						break
					}
					time.Sleep(time.Millisecond)
				}
			}
		}
		for _, c := range ctxs {
			c()
		}
		// Close: later calls fail at once, connections are closed, goroutines go away
		closedCh := make(chan struct{})
		go func() { closeT(); close(closedCh) }()
		select {
		case <-closedCh:
		case <-time.After(2 * time.Second):
			r.Fail("Close did not return", desc)
			base = goroutines07()
			r.Count("fault:" + sc.fault)
			continue
		}
		t2 := time.Now()
		ctx, cancel := context.WithTimeout(context.Background(), 2*time.Second)
		_, err := ex(ctx, mkQuery(1, 799999))
		cancel()
		if err == nil || time.Since(t2) > 100*time.Millisecond {
			desc["took"] = time.Since(t2).String()
			r.Fail("a call on a closed transport did not fail immediately", desc)
		}
		// and once more: the rejection itself must not leave anything locked
		again := make(chan error, 1)
		go func() {
			ctx, cancel := context.WithTimeout(context.Background(), 2*time.Second)
			defer cancel()
			_, err := ex(ctx, mkQuery(2, 799998))
			again <- err
		}()
		select {
		case err := <-again:
			if err == nil {
				r.Fail("a second call on a closed transport succeeded", desc)
			}
		case <-time.After(time.Second):
			r.Fail("a second call on a closed transport did not return", desc)
			wedged++
		}
		if wedged >= 3 {
			r.Note("fault matrix stopped early: calls on closed transports keep blocking")
			break
		}
		leakedConn := -1
		deadline := time.Now().Add(time.Second)
		for {
			leakedConn = -1
			mu.Lock()
			for _, c := range conns {
				if !c.isClosed() {
					leakedConn = c.id
				}
			}
			mu.Unlock()
			if leakedConn < 0 || time.Now().After(deadline) {
				break
			}
			time.Sleep(time.Millisecond)
		}
		if leakedConn >= 0 {
			desc["connection"] = leakedConn
			r.Fail("a connection the transport created was not closed by Close", desc)
		}
		g := goroutines07()
		for i := 0; i < 1000 && g > base; i++ {
			time.Sleep(time.Millisecond)
			g = goroutines07()
		}
		if g > base {
			desc["goroutines_in_transport_code"] = g - base
			r.Fail("goroutines of the transport are still running after Close", desc)
			base = g
		}
		r.Eval(fmt.Sprintf("fault/%s/%s/%s/%d", sc.kind, sc.fault, sc.trigger, sc.callers), true)
		r.Count("fault:" + sc.fault)
		r.Count("trigger:" + sc.trigger)
		r.Trace()
	}
	// ------------------------------------------------------------------ part 3: Close racing with failing connections
	rounds := r.N(30, 300)
	for rd := 0; rd < rounds; rd++ {
		kind := []string{"reuse", "pipeline"}[rd%2]
		var mu sync.Mutex
		var conns []*fakeConn
		dial := func() *fakeConn {
			mu.Lock()
			defer mu.Unlock()
			c := newFakeConn(len(conns), true)
			c.scale = scale07
			conns = append(conns, c)
			return c
		}
		var ex func(ctx context.Context, q []byte) (*[]byte, error)
		var closeT func()
		if kind == "reuse" {
			t := transport.NewReuseConnTransport(transport.ReuseConnOpts{DialContext: func(ctx context.Context) (transport.NetConn, error) { return dial(), nil }})
			ex, closeT = t.ExchangeContext, func() { t.Close() }
		} else {
			t := transport.NewPipelineTransport(transport.PipelineOpts{DialContext: func(ctx context.Context) (transport.DnsConn, error) {
				return transport.NewDnsConn(transport.TraditionalDnsConnOpts{WithLengthHeader: true, MaxConcurrentQuery: 2}, dial()), nil
			}})
			ex, closeT = t.ExchangeContext, func() { t.Close() }
		}
		n := 8 + r.Rng.Intn(24)
		var wg sync.WaitGroup
		for i := 0; i < n; i++ {
			wg.Add(1)
			go func(i int) {
				defer wg.Done()
				ctx, cancel := context.WithTimeout(context.Background(), 3*time.Second)
				defer cancel()
				ex(ctx, mkQuery(uint16(i), 900000+i))
			}(i)
		}
		for i := 0; i < 2000; i++ {
			mu.Lock()
			k := len(conns)
			mu.Unlock()
			if (kind == "reuse" && k >= n) || (kind == "pipeline" && k >= n/2) {
				break
			}
			time.Sleep(50 * time.Microsecond)
		}
		time.Sleep(time.Duration(r.Rng.Intn(300)) * time.Microsecond)
		mu.Lock()
		cs := append([]*fakeConn(nil), conns...)
		mu.Unlock()
		start := make(chan struct{})
		for w := 0; w < 4; w++ {
			go func(w int) {
				<-start
				for i := w; i < len(cs); i += 4 {
					cs[i].feedErr(io.EOF)
				}
			}(w)
		}
		closed := make(chan struct{})
		go func() { <-start; closeT(); close(closed) }()
		close(start)
		desc := map[string]any{"transport": kind, "scenario": "Close while every connection fails", "callers": n, "connections": len(cs)}
		stuck := false
		select {
		case <-closed:
		case <-time.After(2 * time.Second):
			stuck = true
			r.Fail("Close did not return", desc)
		}
		if !stuck {
			done := make(chan struct{})
			go func() { wg.Wait(); close(done) }()
			select {
			case <-done:
			case <-time.After(2 * time.Second):
				r.Fail("pending exchanges did not return after Close", desc)
			}
		}
		r.Eval(fmt.Sprintf("close-race/%s/%d", kind, rd), true)
		r.Count("close-race:" + kind)
		r.Trace()
		if stuck {
			break
		}
	}
	runC07Reuse(r)
	runC07CloseRace(r)
	runC07DialDuringClose(r)
	runC07QueueOverflowClose(r)
	runC07Upstreams(r)
	r.Finish("part 1: scripted histories (query parks / reply / give up / stray reply) on one TraditionalDnsConn, comparing the kind of read deadline in force with the model after every operation; part 2: transports {pipeline over stream, pipeline over datagram, reuse} x faults {dial error, dial that blocks, write error, EOF, reset, short frame, garbage frame, peer close with queries in flight, silence, silence after traffic, callers cancelled while dialing then the dial succeeds, on stream transports a reply frame cut short (length header only / header and half of the body / all but the last byte; optionally after one complete reply) followed by silence, on the datagram transport a peer that answers every (re)sent query and at least once per second of the connection's clock with datagrams shorter than a DNS header, for ever} x {unbounded context, cancel, deadline, transport Close} x {1, 3} callers, with connection deadlines shortened 100x; after each: Close, a later call, open connections, goroutines in transport code; part 3: Close racing with the simultaneous failure of 8..31 connections with queries in flight; part 1b: scripted histories (query parks / reply / reply with the reader's deadline call held up and the next query sent the moment the reply is in / caller gives up / late reply / unexpected data) on one reused connection of a ReuseConnTransport, comparing the kind of read deadline in force with the model (run with the statement order regenerated from reusableConn.readLoop) after every operation; part 1c: the same window end to end with deadlines shortened 100x and a 1000 s idle timeout: 1..3 answered queries, then silence with an unbounded context; part 4: Close called while one caller is inside the transport's critical section (held there by a slow SetReadDeadline on the pooled connection) and 1..3 more calls queue up before or behind Close: Close and all calls return, no call is served on a connection dialed after Close returned, a later call fails at once, every connection dialed is closed, no goroutine is left; part 4b: Close held inside the Close() of a pooled connection (slow peer) with the transport's mutex held while the gated dials of 1..3 pending calls (unbounded contexts, some given up first, dialer checking its context or not) return their connections during Close or after it returned: Close and all calls return, on the reuse transport a call pending across Close returns an error, a later call fails at once, every connection dialed is closed, no goroutine is left; part 4c: pipeline transports (stream / datagram) with MaxConcurrentQueryWhileDialing (limit+1..3) > MaxConcurrentQuery (limit 1..3) of the dialed connection: a burst of limit+2..4 callers with unbounded contexts during a gated dial, the dial released, server silent or answering every 2nd/3rd query, real 10 s waiting-reply timeout, then Close: Close and every call return, no success on a silent server, a later call fails at once, every connection dialed is closed, no goroutine is left; part 5: the upstreams built by NewUpstream {udp with its tcp retry, tcp, tcp+pipeline} on loopback sockets with the real timeouts x server behaviour per query {udp: answer, TC (at once / late), silence; tcp: answer, silence, close, half a frame, refused dial} x {unbounded context, cancel placed before the call / when the udp side has the query / when the tcp side has the (retried) query / at a random moment, deadline 30..150 ms, Close of the upstream placed likewise} x 1..5 concurrent calls: a call returns within 1 s of the end of its context and of Close, a failed connection gives an error, afterwards Close returns, a later call fails at once, connections opened = connections closed (EventObserver), no goroutine is left; calls whose phase at the end of the context is known are replayed on the wrapper model (phases and their contexts regenerated from upstream.go); thorough: unbounded context on a silent server returns with an error within 40 s")
}
