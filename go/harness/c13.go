//go:build pC13 || pall

package main

import (
	"bytes"
	"fmt"
	"math/big"
	"net/netip"
	"strings"

	"github.com/IrineSistiana/mosdns/v5/pkg/matcher/netlist"
	"github.com/IrineSistiana/mosdns/v5/plugin/data_provider/ip_set"
)

// C13: IP sets contain exactly the addresses their prefixes cover.

func init() { props["C13"] = runC13 }

type pfx13 struct {
	v4   bool
	addr [16]byte // v4: last 4 bytes
	bits int
}

func (p pfx13) netip() netip.Prefix {
	if p.v4 {
		return netip.PrefixFrom(netip.AddrFrom4([4]byte(p.addr[12:])), p.bits)
	}
	return netip.PrefixFrom(netip.AddrFrom16(p.addr), p.bits)
}

func (p pfx13) op() string {
	if p.v4 {
		return fmt.Sprintf("4:%x/%d", p.addr[12:], p.bits)
	}
	return fmt.Sprintf("6:%x/%d", p.addr[:], p.bits)
}

// to128 maps to the 128-bit space the way the property says (IPv4 = IPv4-mapped).
func to128(v4 bool, a [16]byte) *big.Int {
	if v4 {
		var m [16]byte
		m[10], m[11] = 0xff, 0xff
		copy(m[12:], a[12:])
		return new(big.Int).SetBytes(m[:])
	}
	return new(big.Int).SetBytes(a[:])
}

// covers is the reference predicate (independent of net/netip's Contains):
// the leading `bits` bits of the mapped addresses agree.
func (p pfx13) covers(v4 bool, a [16]byte) bool {
	bits := p.bits
	if p.v4 {
		bits += 96
	}
	x := to128(p.v4, p.addr)
	y := to128(v4, a)
	sh := uint(128 - bits)
	return new(big.Int).Rsh(x, sh).Cmp(new(big.Int).Rsh(y, sh)) == 0
}

type addr13 struct {
	v4 bool
	a  [16]byte
}

func (a addr13) netip() netip.Addr {
	if a.v4 {
		return netip.AddrFrom4([4]byte(a.a[12:]))
	}
	return netip.AddrFrom16(a.a)
}

func (a addr13) op() string {
	if a.v4 {
		return fmt.Sprintf("4:%x", a.a[12:])
	}
	return fmt.Sprintf("6:%x", a.a[:])
}

func from128(x *big.Int) (a [16]byte, ok bool) {
	if x.Sign() < 0 || x.BitLen() > 128 {
		return a, false
	}
	x.FillBytes(a[:])
	return a, true
}

func (r *Run) genPfx13(pool []pfx13) pfx13 {
	// derive from an existing prefix sometimes: nested, adjacent, duplicate, same base other length
	if len(pool) > 0 && r.Rng.Intn(2) == 0 {
		q := pool[r.Rng.Intn(len(pool))]
		maxb := 128
		if q.v4 {
			maxb = 32
		}
		switch r.Rng.Intn(5) {
		case 0:
			return q
		case 1: // same base, other length
			q.bits = r.Rng.Intn(maxb + 1)
			return q
		case 2: // nested: longer prefix with some host bits of q's block set
			if q.bits < maxb {
				nb := q.bits + 1 + r.Rng.Intn(maxb-q.bits)
				for i := q.bits; i < nb; i++ {
					if r.Rng.Intn(2) == 0 {
						idx := i
						if q.v4 {
							idx += 96
						}
						q.addr[idx/8] |= 1 << (7 - uint(idx%8))
					}
				}
				q.bits = nb
			}
			return q
		case 3: // adjacent block
			bits := q.bits
			if q.v4 {
				bits += 96
			}
			x := to128(q.v4, q.addr)
			x.Add(x, new(big.Int).Lsh(big.NewInt(1), uint(128-bits)))
			if a, ok := from128(x); ok {
				if q.v4 {
					if a[10] == 0xff && a[11] == 0xff && a[9] == 0 {
						q.addr = a
						return q
					}
				} else {
					q.addr = a
					return q
				}
			}
			return q
		default: // the v4 <-> mapped twin
			if q.v4 {
				var m [16]byte
				m[10], m[11] = 0xff, 0xff
				copy(m[12:], q.addr[12:])
				return pfx13{v4: false, addr: m, bits: q.bits + 96}
			}
			return q
		}
	}
	var p pfx13
	p.v4 = r.Rng.Intn(2) == 0
	if p.v4 {
		r.Rng.Read(p.addr[12:])
		if r.Rng.Intn(3) == 0 {
			p.addr[12] = 10
		}
		p.bits = []int{0, 1, 7, 8, 9, 15, 16, 17, 23, 24, 25, 30, 31, 32}[r.Rng.Intn(14)]
		if r.Rng.Intn(3) == 0 {
			p.bits = r.Rng.Intn(33)
		}
	} else {
		r.Rng.Read(p.addr[:])
		if r.Rng.Intn(3) == 0 {
			copy(p.addr[:], []byte{0x20, 0x01, 0x0d, 0xb8})
		}
		p.bits = []int{0, 1, 16, 32, 48, 56, 63, 64, 65, 96, 104, 112, 120, 127, 128}[r.Rng.Intn(15)]
		if r.Rng.Intn(3) == 0 {
			p.bits = r.Rng.Intn(129)
		}
	}
	return p
}

func runC13(r *Run) {
	n := r.N(400, 12000)
	for it := 0; it < n; it++ {
		np := r.Rng.Intn(9)
		if r.Rng.Intn(10) == 0 {
			np = 10 + r.Rng.Intn(40)
		}
		var ps []pfx13
		for i := 0; i < np; i++ {
			ps = append(ps, r.genPfx13(ps))
		}
		order := r.Rng.Intn(3) // 0 random, 1 ascending by text base, 2 descending
		switch order {
		case 0:
			r.Rng.Shuffle(len(ps), func(i, j int) { ps[i], ps[j] = ps[j], ps[i] })
		default:
			// sort by mapped base so that "already sorted input" is a common case
			for i := 1; i < len(ps); i++ {
				for j := i; j > 0; j-- {
					c := to128(ps[j-1].v4, ps[j-1].addr).Cmp(to128(ps[j].v4, ps[j].addr))
					if (order == 1 && c > 0) || (order == 2 && c < 0) {
						ps[j-1], ps[j] = ps[j], ps[j-1]
					}
				}
			}
		}
		// addresses: first / last / just outside of every prefix, both notations, plus random
		var as []addr13
		add := func(x *big.Int, alsoV4 bool) {
			if a, ok := from128(x); ok {
				as = append(as, addr13{false, a})
				if alsoV4 && a[10] == 0xff && a[11] == 0xff && bytes.Equal(a[:10], make([]byte, 10)) {
					as = append(as, addr13{true, a})
				}
			}
		}
		for _, p := range ps {
			bits := p.bits
			if p.v4 {
				bits += 96
			}
			base := to128(p.v4, p.addr)
			sz := new(big.Int).Lsh(big.NewInt(1), uint(128-bits))
			first := new(big.Int).Mul(new(big.Int).Div(base, sz), sz)
			last := new(big.Int).Sub(new(big.Int).Add(first, sz), big.NewInt(1))
			add(first, true)
			add(last, true)
			add(new(big.Int).Sub(first, big.NewInt(1)), true)
			add(new(big.Int).Add(last, big.NewInt(1)), true)
			add(base, true)
		}
		for i := 0; i < 4; i++ {
			var a addr13
			a.v4 = r.Rng.Intn(2) == 0
			if a.v4 {
				r.Rng.Read(a.a[12:])
			} else {
				r.Rng.Read(a.a[:])
			}
			as = append(as, a)
		}
		if len(as) > 120 {
			r.Rng.Shuffle(len(as), func(i, j int) { as[i], as[j] = as[j], as[i] })
			as = as[:120]
		}

		// ---- load through one of three paths
		l := netlist.NewList()
		path := []string{"append", "text", "ip_set"}[r.Rng.Intn(3)]
		var loadErr error
		switch path {
		case "append":
			for _, p := range ps {
				l.Append(p.netip())
			}
		case "text":
			var sb strings.Builder
			sb.WriteString("# generated\n\n")
			for i, p := range ps {
				s := p.netip().String()
				if p.bits == p.netip().Addr().BitLen() && r.Rng.Intn(2) == 0 {
					s = p.netip().Addr().String() // single address form
				}
				switch i % 4 {
				case 0:
					sb.WriteString(s + "\n")
				case 1:
					sb.WriteString("  " + s + "   # comment\n")
				case 2:
					sb.WriteString(s + " trailing words\n\n")
				default:
					sb.WriteString("\t" + s + "\r\n")
				}
			}
			loadErr = netlist.LoadFromReader(l, strings.NewReader(sb.String()))
		case "ip_set":
			var ips []string
			for _, p := range ps {
				s := p.netip().String()
				if p.bits == p.netip().Addr().BitLen() && r.Rng.Intn(2) == 0 {
					s = p.netip().Addr().String()
				}
				ips = append(ips, s)
			}
			loadErr = ip_set.LoadFromIPs(ips, l)
		}
		if loadErr != nil {
			r.Fail("a valid prefix list was rejected by the loader ("+path+")", map[string]any{"err": loadErr.Error()})
			continue
		}
		l.Sort()
		var pops, aops []string
		for _, p := range ps {
			pops = append(pops, p.op())
		}
		var out strings.Builder
		nontrivial := false
		if l.Contains(netip.Addr{}) {
			r.Fail("Contains(the zero netip.Addr, which is no address) = true", map[string]any{"prefixes": pops})
		}
		for _, a := range as {
			got := l.Contains(a.netip())
			want := false
			for _, p := range ps {
				if p.covers(a.v4, a.a) {
					want = true
					break
				}
			}
			if got {
				out.WriteByte('1')
			} else {
				out.WriteByte('0')
			}
			aops = append(aops, a.op())
			if want {
				nontrivial = true
			}
			if got != want {
				var pstr []string
				for _, p := range ps {
					pstr = append(pstr, p.netip().String())
				}
				r.Fail(fmt.Sprintf("Contains(%s) = %v but the loaded prefixes say %v", a.netip(), got, want), map[string]any{"prefixes_in_load_order": pstr, "address": a.netip().String(), "loaded_via": path})
			}
		}
		ps1, as1 := strings.Join(pops, ","), strings.Join(aops, ",")
		if ps1 == "" {
			ps1 = "-"
		}
		if as1 == "" {
			as1 = "-"
		}
		r.Line("set "+ps1+" "+as1, out.String())
		r.Eval(ps1+"|"+as1, nontrivial && len(ps) > 1)
		r.Count("load:" + path)
		r.Count(fmt.Sprintf("order:%d", order))
		if len(ps) >= 10 {
			r.Count("big-set")
		}
	}
	r.Finish("multisets of 0..50 prefixes (IPv4 /0../32, IPv6 /0../128, host bits set or not; half derived from earlier ones: duplicate, same base other length, nested, adjacent, IPv4-mapped twin), load order random / ascending / descending, loaded via Append, text loader or ip_set ips; addresses = first, last, just below, just above and the written base of every prefix in IPv6 and (when mapped) IPv4 notation + random; non-trivial = at least 2 prefixes and some address covered")
}
