//go:build pC13 || pall

package main

import (
	"bytes"
	"fmt"
	"math/big"
	"net/netip"
	"os"
	"path/filepath"
	"strconv"
	"strings"

	"github.com/IrineSistiana/mosdns/v5/pkg/matcher/netlist"
	"github.com/IrineSistiana/mosdns/v5/plugin/data_provider/ip_set"
)

// C13: IP sets contain exactly the addresses their prefixes cover.

func init() { props["C13"] = runC13 }

type pfx13 struct {
	v4   bool
	addr [16]byte // v4: last 4 bytes
	bits int
	// how the rule is written in a text line (no influence on what it means):
	host  bool // a full-length prefix written as a single address, without "/len"
	style int  // spelling of a 16-byte address, see text()
}

// text is the rule as a line of a list file / an `ips` entry. An IPv4-mapped
// address is spelled ::ffff:a.b.c.d, expanded, upper case, with hexadecimal
// groups or with explicit zero groups; the length of a 16-byte form counts
// bits of the 128-bit address.
func (p pfx13) text() string {
	a := p.netip().Addr()
	s := a.String()
	if !p.v4 {
		switch p.style {
		case 1:
			s = a.StringExpanded()
		case 2:
			s = strings.ToUpper(s)
		case 3:
			if a.Is4In6() {
				s = fmt.Sprintf("::ffff:%x:%x", uint(p.addr[12])<<8|uint(p.addr[13]), uint(p.addr[14])<<8|uint(p.addr[15]))
			}
		case 4:
			if a.Is4In6() {
				s = "0:0:0:0:0:ffff:" + a.Unmap().String()
			}
		}
	}
	if p.host && p.bits == a.BitLen() {
		return s
	}
	return s + "/" + strconv.Itoa(p.bits)
}

// lineOp is the rule as the model driver reads a text line: `4:<hex>` /
// `6:<hex>` without "/len" is a single-address line (the model's loadLine
// chooses the length), otherwise a CIDR line.
func (p pfx13) lineOp() string {
	if p.host && p.bits == p.netip().Addr().BitLen() {
		return strings.SplitN(p.op(), "/", 2)[0]
	}
	return p.op()
}

func (p pfx13) mapped() pfx13 {
	if !p.v4 {
		return p
	}
	var m [16]byte
	m[10], m[11] = 0xff, 0xff
	copy(m[12:], p.addr[12:])
	return pfx13{v4: false, addr: m, bits: p.bits + 96, host: p.host, style: p.style}
}

func (p pfx13) netip() netip.Prefix {
	if p.v4 {
		return netip.PrefixFrom(netip.AddrFrom4([4]byte(p.addr[12:])), p.bits)
	}
	return netip.PrefixFrom(netip.AddrFrom16(p.addr), p.bits)
}

func (p pfx13) op() string {
	if p.v4 {
		return fmt.Sprintf("4:%x/%d", p.addr[12:], p.bits)
	}
	return fmt.Sprintf("6:%x/%d", p.addr[:], p.bits)
}

// to128 maps to the 128-bit space the way the property says (IPv4 = IPv4-mapped).
func to128(v4 bool, a [16]byte) *big.Int {
	if v4 {
		var m [16]byte
		m[10], m[11] = 0xff, 0xff
		copy(m[12:], a[12:])
		return new(big.Int).SetBytes(m[:])
	}
	return new(big.Int).SetBytes(a[:])
}

// covers is the reference predicate (independent of net/netip's Contains):
// the leading `bits` bits of the mapped addresses agree.
func (p pfx13) covers(v4 bool, a [16]byte) bool {
	bits := p.bits
	if p.v4 {
		bits += 96
	}
	x := to128(p.v4, p.addr)
	y := to128(v4, a)
	sh := uint(128 - bits)
	return new(big.Int).Rsh(x, sh).Cmp(new(big.Int).Rsh(y, sh)) == 0
}

type addr13 struct {
	v4 bool
	a  [16]byte
}

func (a addr13) netip() netip.Addr {
	if a.v4 {
		return netip.AddrFrom4([4]byte(a.a[12:]))
	}
	return netip.AddrFrom16(a.a)
}

func (a addr13) op() string {
	if a.v4 {
		return fmt.Sprintf("4:%x", a.a[12:])
	}
	return fmt.Sprintf("6:%x", a.a[:])
}

func from128(x *big.Int) (a [16]byte, ok bool) {
	if x.Sign() < 0 || x.BitLen() > 128 {
		return a, false
	}
	x.FillBytes(a[:])
	return a, true
}

func (r *Run) genPfx13(pool []pfx13) pfx13 {
	p := r.genPfx13base(pool)
	p.host = r.Rng.Intn(2) == 0
	p.style = r.Rng.Intn(6) // 0 and 5: canonical
	return p
}

func (r *Run) genPfx13base(pool []pfx13) pfx13 {
	// derive from an existing prefix sometimes: nested, adjacent, duplicate, same base other length
	if len(pool) > 0 && r.Rng.Intn(2) == 0 {
		q := pool[r.Rng.Intn(len(pool))]
		maxb := 128
		if q.v4 {
			maxb = 32
		}
		switch r.Rng.Intn(5) {
		case 0:
			return q
		case 1: // same base, other length
			q.bits = r.Rng.Intn(maxb + 1)
			return q
		case 2: // nested: longer prefix with some host bits of q's block set
			if q.bits < maxb {
				nb := q.bits + 1 + r.Rng.Intn(maxb-q.bits)
				for i := q.bits; i < nb; i++ {
					if r.Rng.Intn(2) == 0 {
						idx := i
						if q.v4 {
							idx += 96
						}
						q.addr[idx/8] |= 1 << (7 - uint(idx%8))
					}
				}
				q.bits = nb
			}
			return q
		case 3: // adjacent block
			bits := q.bits
			if q.v4 {
				bits += 96
			}
			x := to128(q.v4, q.addr)
			x.Add(x, new(big.Int).Lsh(big.NewInt(1), uint(128-bits)))
			if a, ok := from128(x); ok {
				if q.v4 {
					if a[10] == 0xff && a[11] == 0xff && a[9] == 0 {
						q.addr = a
						return q
					}
				} else {
					q.addr = a
					return q
				}
			}
			return q
		default: // the v4 <-> mapped twin
			return q.mapped()
		}
	}
	var p pfx13
	p.v4 = r.Rng.Intn(2) == 0
	if p.v4 {
		r.Rng.Read(p.addr[12:])
		if r.Rng.Intn(3) == 0 {
			p.addr[12] = 10
		}
		p.bits = []int{0, 1, 7, 8, 9, 15, 16, 17, 23, 24, 25, 30, 31, 32}[r.Rng.Intn(14)]
		if r.Rng.Intn(3) == 0 {
			p.bits = r.Rng.Intn(33)
		}
		if r.Rng.Intn(4) == 0 {
			p.bits = 32 // single address
		}
		if r.Rng.Intn(4) == 0 {
			return p.mapped() // written in IPv4-mapped form from the start
		}
	} else {
		r.Rng.Read(p.addr[:])
		if r.Rng.Intn(3) == 0 {
			copy(p.addr[:], []byte{0x20, 0x01, 0x0d, 0xb8})
		}
		p.bits = []int{0, 1, 16, 32, 48, 56, 63, 64, 65, 96, 104, 112, 120, 127, 128}[r.Rng.Intn(15)]
		if r.Rng.Intn(3) == 0 {
			p.bits = r.Rng.Intn(129)
		}
		if r.Rng.Intn(4) == 0 {
			p.bits = 128 // single address
		}
	}
	return p
}

var paths13 = []string{"append", "text", "ip_set", "plugin"}

func texts13(ps []pfx13) []string {
	out := []string{}
	for _, p := range ps {
		out = append(out, p.text())
	}
	return out
}

// covered13 is the property's right-hand side: some listed prefix covers the address.
func covered13(ps []pfx13, a addr13) bool {
	for _, p := range ps {
		if p.covers(a.v4, a.a) {
			return true
		}
	}
	return false
}

// load13 builds the set from the rules through one of the loaders:
// Append, the list-file text loader, ip_set's inline `ips`, or the ip_set
// plugin itself with some rules inline and the others in a list file.
func (r *Run) load13(via string, ps []pfx13) (netlist.Matcher, error) {
	l := netlist.NewList()
	texts := texts13(ps)
	switch via {
	case "append":
		for _, p := range ps {
			l.Append(p.netip())
		}
	case "text":
		var file strings.Builder
		file.WriteString("# generated\n\n")
		for i, s := range texts {
			switch i % 4 {
			case 0:
				file.WriteString(s + "\n")
			case 1:
				file.WriteString("  " + s + "   # comment\n")
			case 2:
				file.WriteString(s + " trailing words\n\n")
			default:
				file.WriteString("\t" + s + "\r\n")
			}
		}
		if err := netlist.LoadFromReader(l, strings.NewReader(file.String())); err != nil {
			return nil, err
		}
	case "ip_set":
		if err := ip_set.LoadFromIPs(texts, l); err != nil {
			return nil, err
		}
	case "plugin":
		var ips []string
		var fl strings.Builder
		for _, s := range texts {
			if r.Rng.Intn(2) == 0 {
				ips = append(ips, s)
			} else {
				fl.WriteString(s + "\n")
			}
		}
		fn := filepath.Join(r.Dir, "c13-list.txt")
		if err := os.WriteFile(fn, []byte(fl.String()), 0o644); err != nil {
			fatal(err)
		}
		set, err := ip_set.NewIPSet(nil, &ip_set.Args{IPs: ips, Files: []string{fn}})
		os.Remove(fn)
		if err != nil {
			return nil, err
		}
		return set.GetIPMatcher(), nil
	}
	l.Sort()
	return l, nil
}

// shrink13 drops rules one by one as long as the answer for a still differs from the oracle.
func (r *Run) shrink13(via string, ps []pfx13, a addr13) []pfx13 {
	bad := func(qs []pfx13) bool {
		for try := 0; try < 4; try++ { // the plugin loader splits the rules at random between ips and file
			m, err := r.load13(via, qs)
			if err == nil && m.Match(a.netip()) != covered13(qs, a) {
				return true
			}
			if via != "plugin" {
				break
			}
		}
		return false
	}
	cur := append([]pfx13(nil), ps...)
	for i := 0; i < len(cur); {
		cand := append(append([]pfx13(nil), cur[:i]...), cur[i+1:]...)
		if bad(cand) {
			cur = cand
		} else {
			i++
		}
	}
	return cur
}

func runC13(r *Run) {
	n := r.N(400, 12000)
	for it := 0; it < n; it++ {
		np := r.Rng.Intn(9)
		if r.Rng.Intn(10) == 0 {
			np = 10 + r.Rng.Intn(40)
		}
		var ps []pfx13
		for i := 0; i < np; i++ {
			ps = append(ps, r.genPfx13(ps))
		}
		order := r.Rng.Intn(3) // 0 random, 1 ascending by text base, 2 descending
		switch order {
		case 0:
			r.Rng.Shuffle(len(ps), func(i, j int) { ps[i], ps[j] = ps[j], ps[i] })
		default:
			// sort by mapped base so that "already sorted input" is a common case
			for i := 1; i < len(ps); i++ {
				for j := i; j > 0; j-- {
					c := to128(ps[j-1].v4, ps[j-1].addr).Cmp(to128(ps[j].v4, ps[j].addr))
					if (order == 1 && c > 0) || (order == 2 && c < 0) {
						ps[j-1], ps[j] = ps[j], ps[j-1]
					}
				}
			}
		}
		// addresses: first / last / just outside of every prefix, both notations, plus random
		var as []addr13
		add := func(x *big.Int, alsoV4 bool) {
			if a, ok := from128(x); ok {
				as = append(as, addr13{false, a})
				if alsoV4 && a[10] == 0xff && a[11] == 0xff && bytes.Equal(a[:10], make([]byte, 10)) {
					as = append(as, addr13{true, a})
				}
			}
		}
		for _, p := range ps {
			bits := p.bits
			if p.v4 {
				bits += 96
			}
			base := to128(p.v4, p.addr)
			sz := new(big.Int).Lsh(big.NewInt(1), uint(128-bits))
			first := new(big.Int).Mul(new(big.Int).Div(base, sz), sz)
			last := new(big.Int).Sub(new(big.Int).Add(first, sz), big.NewInt(1))
			add(first, true)
			add(last, true)
			add(new(big.Int).Sub(first, big.NewInt(1)), true)
			add(new(big.Int).Add(last, big.NewInt(1)), true)
			add(base, true)
		}
		for i := 0; i < 4; i++ {
			var a addr13
			a.v4 = r.Rng.Intn(2) == 0
			if a.v4 {
				r.Rng.Read(a.a[12:])
			} else {
				r.Rng.Read(a.a[:])
			}
			as = append(as, a)
		}
		if len(as) > 120 {
			r.Rng.Shuffle(len(as), func(i, j int) { as[i], as[j] = as[j], as[i] })
			as = as[:120]
		}

		// ---- load the same rules through every loader; one of them (chosen at random) is the
		// one whose answers are also compared with the model
		path := paths13[r.Rng.Intn(len(paths13))]
		var pops, aops []string
		for _, p := range ps {
			if path == "append" {
				pops = append(pops, p.op())
			} else {
				pops = append(pops, p.lineOp())
			}
		}
		for _, a := range as {
			aops = append(aops, a.op())
		}
		want := make([]bool, len(as))
		nontrivial := false
		for k, a := range as {
			want[k] = covered13(ps, a)
			nontrivial = nontrivial || want[k]
		}
		var primaryOut string
		primaryOK := true
		for _, via := range paths13 {
			m, loadErr := r.load13(via, ps)
			if loadErr != nil {
				r.Fail("a valid prefix list was rejected by the loader ("+via+")", map[string]any{"err": loadErr.Error(), "as_written": texts13(ps)})
				if via == path {
					primaryOK = false
				}
				continue
			}
			if m.Match(netip.Addr{}) {
				r.Fail("Contains(the zero netip.Addr, which is no address) = true", map[string]any{"prefixes": pops, "loaded_via": via})
			}
			var out strings.Builder
			reported := false
			for k, a := range as {
				got := m.Match(a.netip())
				out.WriteString(b01(got))
				if got != want[k] && !reported {
					reported = true // one report per rule set and loader, on the smallest sub-list that still shows it
					small := r.shrink13(via, ps, a)
					var pstr []string
					for _, p := range small {
						pstr = append(pstr, p.netip().String())
					}
					rep := map[string]any{"prefixes_in_load_order": pstr, "address": a.netip().String(), "loaded_via": via, "shrunk_from_rules": len(ps)}
					if via != "append" {
						rep["as_written"] = texts13(small)
					}
					r.Fail(fmt.Sprintf("Contains(%s) = %v but the loaded prefixes say %v", a.netip(), got, want[k]), rep)
				}
			}
			if via == path {
				primaryOut = out.String()
			}
			r.Count("load:" + via)
		}
		if !primaryOK {
			continue
		}
		ps1, as1 := strings.Join(pops, ","), strings.Join(aops, ",")
		if ps1 == "" {
			ps1 = "-"
		}
		if as1 == "" {
			as1 = "-"
		}
		r.Line("set "+ps1+" "+as1, primaryOut)
		r.Eval(ps1+"|"+as1, nontrivial && len(ps) > 1)
		r.Count("model-line:" + path)
		r.Count(fmt.Sprintf("order:%d", order))
		if len(ps) >= 10 {
			r.Count("big-set")
		}
		for _, p := range ps {
			if !p.v4 && p.netip().Addr().Is4In6() {
				if p.host && p.bits == 128 {
					r.Count("rule:mapped-single-address-line")
				} else {
					r.Count("rule:mapped-cidr-line")
				}
			}
		}
	}
	r.runC13Sets()
	r.Finish("multisets of 0..50 prefixes (IPv4 /0../32, IPv6 /0../128, a quarter single addresses, host bits set or not; a quarter of the IPv4 ones written in IPv4-mapped form; half derived from earlier ones: duplicate, same base other length, nested, adjacent, IPv4-mapped twin), load order random / ascending / descending; every set is loaded via Append, the text loader, ip_set ips and the ip_set plugin (ips + a list file), each compared with the bit-level oracle, one of them (random) also with the model; rule lines are written with or without /len for single addresses and with 16-byte addresses spelled canonical / expanded / upper case / ::ffff:hex:hex / 0:0:0:0:0:ffff:a.b.c.d; addresses = first, last, just below, just above and the written base of every prefix in IPv6 and (when mapped) IPv4 notation + random; non-trivial = at least 2 prefixes and some address covered; configurations of 2..26 ip_set plugins built in config order through coremain (leaf sets with ips/files, sets of 1..7 earlier sets with or without own rules, families of 2..3 sets that reference the same earlier set plus different further sets, in listed or shuffled order): when all are built every plugin is asked the first / last / neighbour addresses of every rule and compared with the bit-level oracle over its own rules and (transitively) those of the sets it references, and with the model (buildSets); a failing configuration is shrunk by sets, references and rules")
}
