//go:build pC07 || pall

package main

import (
	"context"
	"encoding/binary"
	"fmt"
	"strings"
	"sync"
	"time"

	"github.com/IrineSistiana/mosdns/v5/pkg/upstream/transport"
)

// C07, continued.
//
// dlwatch07: a fake connection that reports every deadline call with the zero time (= "no deadline"); used by the fault
// matrix for its failure reports only.
// Part 4b: dials that complete while Close() is in progress. Close is held inside the Close() of a pooled connection
// (a slow peer: tls.Conn.Close flushing close_notify, a full socket buffer); while it sits there with the transport's
// mutex held, gated dials of pending calls return their connections. After Close returned: pending calls have returned
// with an error, every connection the transport was given is closed, a later call fails at once, no goroutine is left.

type dlwatch07 struct {
	*fakeConn
	onClear func(c *fakeConn, call string)
}

func (w *dlwatch07) SetReadDeadline(t time.Time) error {
	if t.IsZero() && w.onClear != nil {
		w.onClear(w.fakeConn, "SetReadDeadline")
	}
	return w.fakeConn.SetReadDeadline(t)
}

func (w *dlwatch07) SetDeadline(t time.Time) error {
	if t.IsZero() && w.onClear != nil {
		w.onClear(w.fakeConn, "SetDeadline")
	}
	return w.fakeConn.SetDeadline(t)
}

// slowclose07: Close() reports that it was entered and then waits for the gate (at most max).
type slowclose07 struct {
	*fakeConn
	once    sync.Once
	entered chan struct{}
	gate    chan struct{}
	max     time.Duration
}

func (c *slowclose07) Close() error {
	first := false
	c.once.Do(func() { first = true; close(c.entered) })
	if first {
		select {
		case <-c.gate:
		case <-time.After(c.max):
		}
	}
	return c.fakeConn.Close()
}

func runC07DialDuringClose(r *Run) {
	base := goroutines07()
	rounds := r.N(5, 60)
	for rd := 0; rd < rounds; rd++ {
		kind := "reuse"
		if rd%3 == 2 {
			kind = "pipeline"
		}
		nPending := 1 + r.Rng.Intn(3) // calls waiting for a gated dial when Close starts
		// when each gated dial returns its connection: 0 = while Close is inside the slow connection's Close(), 1 = after Close returned
		when := make([]int, nPending)
		for i := range when {
			if i > 0 && r.Rng.Intn(3) == 0 {
				when[i] = 1
			}
		}
		cancelled := make([]bool, nPending) // the caller gives up right before its dial completes
		for i := range cancelled {
			cancelled[i] = r.Rng.Intn(4) == 0
		}
		dialHonoursCtx := r.Rng.Intn(2) == 0 // a dialer that returns its context's error if that has ended by the time the gate opens
		window := time.Duration(30+r.Rng.Intn(40)) * time.Millisecond

		var mu sync.Mutex
		var conns []*fakeConn
		var slow *slowclose07
		gates := []chan struct{}{}
		nDials, dialsReturned := 0, 0
		silentTags := map[int]bool{}
		onWrite := func(c *fakeConn, w []byte) error {
			q := c.payloadOf(w)
			if len(q) < 12 {
				return nil
			}
			mu.Lock()
			silent := silentTags[tagOf(q)]
			mu.Unlock()
			if !silent {
				c.feed(c.frame(mkReply(q, binary.BigEndian.Uint16(q))))
			}
			return nil
		}
		// the first dial is the connection that will be pooled (its Close is slow); the following ones are gated
		dial := func(ctx context.Context) (transport.NetConn, error) {
			mu.Lock()
			k := nDials
			nDials++
			var gate chan struct{}
			if k >= 1 {
				gate = make(chan struct{})
				gates = append(gates, gate)
			}
			mu.Unlock()
			if gate != nil {
				<-gate
				if dialHonoursCtx && ctx.Err() != nil {
					mu.Lock()
					dialsReturned++
					mu.Unlock()
					return nil, ctx.Err()
				}
			}
			mu.Lock()
			defer mu.Unlock()
			dialsReturned++
			c := newFakeConn(len(conns), true)
			c.onWrite = onWrite
			conns = append(conns, c)
			if k == 0 {
				slow = &slowclose07{fakeConn: c, entered: make(chan struct{}), gate: make(chan struct{}), max: 3 * time.Second}
				return slow, nil
			}
			return c, nil
		}
		var ex func(ctx context.Context, q []byte) (*[]byte, error)
		var closeT func()
		if kind == "reuse" {
			t := transport.NewReuseConnTransport(transport.ReuseConnOpts{IdleTimeout: 1000 * time.Second, DialContext: dial})
			ex, closeT = t.ExchangeContext, func() { t.Close() }
		} else {
			t := transport.NewPipelineTransport(transport.PipelineOpts{MaxConcurrentQueryWhileDialing: 1, DialContext: func(ctx context.Context) (transport.DnsConn, error) {
				c, err := dial(ctx)
				if err != nil {
					return nil, err
				}
				return transport.NewDnsConn(transport.TraditionalDnsConnOpts{WithLengthHeader: true, IdleTimeout: 1000 * time.Second, MaxConcurrentQuery: 1}, c), nil
			}})
			ex, closeT = t.ExchangeContext, func() { t.Close() }
		}
		whenNames := make([]string, nPending)
		for i, w := range when {
			whenNames[i] = []string{"during-Close", "after-Close-returned"}[w]
			if cancelled[i] {
				whenNames[i] += "(caller-gave-up-first)"
			}
		}
		desc := map[string]any{"transport": kind, "scenario": "Close is held inside the Close() of a pooled connection (slow peer) while the dials of pending calls complete",
			"pending_calls": nPending, "their_dials_complete": strings.Join(whenNames, ","), "dialer_checks_its_context": dialHonoursCtx, "window": window.String()}
		type res struct {
			ok   bool
			err  error
			done chan struct{}
		}
		call := func(tag int, ctx context.Context) *res {
			rs := &res{done: make(chan struct{})}
			go func() {
				resp, err := ex(ctx, mkQuery(uint16(tag), tag))
				rs.ok, rs.err = err == nil && resp != nil, err
				close(rs.done)
			}()
			return rs
		}
		tagBase := 840000 + rd*20
		// 1. the connection that will be in the pool. reuse: an answered query leaves it idle; pipeline: a query that stays
		// unanswered fills it (one query per connection), so that the following calls dial
		var first *res
		ctx0, cancel0 := context.WithTimeout(context.Background(), 5*time.Second)
		if kind == "pipeline" {
			mu.Lock()
			silentTags[tagBase] = true
			mu.Unlock()
		}
		first = call(tagBase, ctx0)
		setup := true
		if kind == "reuse" {
			select {
			case <-first.done:
				setup = first.ok
			case <-time.After(2 * time.Second):
				setup = false
			}
			// reuse: the pending calls must dial, so they have to be started while the first connection is busy... it is idle
			// now; they would take it. Start them first instead: see below (reuse dials when the pool is empty).
		} else {
			for i := 0; i < 4000; i++ {
				mu.Lock()
				n := 0
				if len(conns) > 0 {
					conns[0].mu.Lock()
					n = len(conns[0].writes)
					conns[0].mu.Unlock()
				}
				mu.Unlock()
				if n > 0 {
					break
				}
				time.Sleep(50 * time.Microsecond)
			}
		}
		mu.Lock()
		setup = setup && slow != nil && len(conns) == 1
		mu.Unlock()
		if !setup {
			cancel0()
			closeT()
			continue
		}
		// 2. pending calls, each waiting for its own gated dial. On the reuse transport the idle connection would serve the
		// first of them: take it out of the pool with a query that stays unanswered for the moment.
		var holder *res
		if kind == "reuse" {
			mu.Lock()
			silentTags[tagBase+1] = true
			mu.Unlock()
			holder = call(tagBase+1, ctx0)
			for i := 0; i < 4000; i++ {
				slow.fakeConn.mu.Lock()
				n := len(slow.fakeConn.writes)
				slow.fakeConn.mu.Unlock()
				if n >= 2 {
					break
				}
				time.Sleep(50 * time.Microsecond)
			}
		}
		pend := make([]*res, nPending)
		cancels := make([]context.CancelFunc, nPending)
		for i := 0; i < nPending; i++ {
			var ctx context.Context
			ctx, cancels[i] = context.WithCancel(context.Background()) // unbounded
			pend[i] = call(tagBase+2+i, ctx)
		}
		for i := 0; i < 4000; i++ {
			mu.Lock()
			n := len(gates)
			mu.Unlock()
			if n >= nPending {
				break
			}
			time.Sleep(50 * time.Microsecond)
		}
		mu.Lock()
		ng := len(gates)
		mu.Unlock()
		if ng != nPending {
			// a pending call did not dial (e.g. it queued on a connection that is still dialing): not this scenario
			for _, c := range cancels {
				c()
			}
			cancel0()
			mu.Lock()
			for _, g := range gates {
				close(g)
			}
			mu.Unlock()
			close(slow.gate)
			closeT()
			r.Count("dial-during-close:setup-skipped")
			time.Sleep(5 * time.Millisecond)
			base = goroutines07()
			continue
		}
		if holder != nil {
			// the reply arrives: the first connection goes back into the pool, idle
			slow.fakeConn.mu.Lock()
			q := slow.fakeConn.payloadOf(slow.fakeConn.writes[len(slow.fakeConn.writes)-1])
			slow.fakeConn.mu.Unlock()
			slow.feed(slow.frame(mkReply(q, binary.BigEndian.Uint16(q))))
			select {
			case <-holder.done:
			case <-time.After(2 * time.Second):
			}
		}
		// 3. Close: gets as far as the pooled connection's Close()
		closed := make(chan struct{})
		go func() { closeT(); close(closed) }()
		inClose := false
		select {
		case <-slow.entered:
			inClose = true
		case <-time.After(2 * time.Second):
		}
		release := func(i int) {
			if cancelled[i] {
				cancels[i]()
				time.Sleep(time.Millisecond)
			}
			mu.Lock()
			g := gates[i]
			mu.Unlock()
			close(g)
		}
		for i := range when {
			if when[i] == 0 {
				release(i)
			}
		}
		time.Sleep(window) // the dial goroutines get from the dialer's return to the transport's mutex
		close(slow.gate)
		stuck := false
		select {
		case <-closed:
		case <-time.After(3 * time.Second):
			stuck = true
			r.Fail("Close did not return", desc)
		}
		for i := range when {
			if when[i] == 1 {
				release(i)
			}
		}
		if !stuck {
			for i, c := range pend {
				select {
				case <-c.done:
					if c.ok && inClose && kind == "reuse" {
						// reuse: a dial goroutine registers its connection under the transport's mutex, which Close holds until it
						// is done, so such a call is still pending when Close returns. (pipeline: the call may be served on its
						// freshly dialed connection and return before Close does; nothing is demanded of it then.)
						desc["caller"] = i
						r.Fail("a call that was pending (waiting for its dial) when Close was called returned a reply instead of an error", desc)
						delete(desc, "caller")
					}
				case <-time.After(2 * time.Second):
					stuck = true
				}
			}
			select {
			case <-first.done:
			case <-time.After(2 * time.Second):
				stuck = true
			}
			if stuck {
				r.Fail("pending exchanges did not return after Close", desc)
			}
		}
		for _, c := range cancels {
			c()
		}
		cancel0()
		if !stuck {
			t2 := time.Now()
			ctxL, cancelL := context.WithTimeout(context.Background(), 2*time.Second)
			_, err := ex(ctxL, mkQuery(1, tagBase+19))
			cancelL()
			if err == nil || time.Since(t2) > 100*time.Millisecond {
				desc["took"] = time.Since(t2).String()
				r.Fail("a call on a closed transport did not fail immediately", desc)
				delete(desc, "took")
			}
			leaked := -1
			deadline := time.Now().Add(time.Second)
			for {
				leaked = -1
				mu.Lock()
				for _, c := range conns {
					if !c.isClosed() {
						leaked = c.id
					}
				}
				n, allBack := len(conns), dialsReturned == nDials
				mu.Unlock()
				// all gates are open: every dial returns at once
				if (leaked < 0 && allBack) || time.Now().After(deadline) {
					desc["connections_dialed"] = n
					break
				}
				time.Sleep(time.Millisecond)
			}
			if leaked >= 0 {
				desc["connection"] = leaked
				desc["close_was_inside_the_pooled_connections_close"] = inClose
				r.Fail("a connection the transport created was not closed by Close", desc)
				mu.Lock()
				for _, c := range conns {
					c.Close() // do not let it disturb the following rounds
				}
				mu.Unlock()
			}
			g := goroutines07()
			for i := 0; i < 1000 && g > base; i++ {
				time.Sleep(time.Millisecond)
				g = goroutines07()
			}
			if g > base {
				desc["goroutines_in_transport_code"] = g - base
				r.Fail("goroutines of the transport are still running after Close", desc)
				base = g
			}
		}
		r.Eval(fmt.Sprintf("dial-during-close/%s/%d/%s/%v", kind, nPending, strings.Join(whenNames, ","), dialHonoursCtx), inClose)
		r.Count("dial-during-close:" + kind)
		r.Trace()
		if stuck {
			break
		}
	}
}
