//go:build pC02 || pall

package main

import (
	"bytes"
	"context"
	"encoding/binary"
	"errors"
	"fmt"
	"io"
	"sync"
	"time"

	"github.com/IrineSistiana/mosdns/v5/pkg/upstream/transport"
)

// C02, queries that were handed to a connection which is still being dialed (lazyDnsConn: the first query of a new
// connection of PipelineTransport, and every query of the burst that opened it). The dial takes a little, the server
// takes longer to answer; dial time + server latency is longer than the transport's (deliberately small) DialTimeout,
// but the reply is received seconds before the caller's deadline. Statement: "If the server's reply ... is received on
// its connection before the caller's deadline, the exchange returns that reply: it does not time out".
//
// The oracle is conditional on what the fake server did: only a caller whose query was written on the connection and
// whose reply was made readable (and consumed by the connection's reader) more than a second before that caller's
// deadline is owed the reply. A caller whose query never reached a connection is owed nothing by C02.

type lazyCase02 struct {
	kind        string // pipeline-udp, pipeline-tcp, lazy-udp, lazy-tcp, lazy-doq
	callers     int
	dialTimeout time.Duration
	dialDelay   time.Duration
	latency     []time.Duration // per caller (by tag order of arrival at the server)
	deadline    []time.Duration // per caller
	lateCallers int             // callers that arrive only after the dial finished (fast path), pipeline kinds
	idBase      uint16
	tagBase     int
	connID      int
}

type lazyRes02 struct {
	resp     *[]byte
	err      error
	took     time.Duration
	q        []byte
	id       uint16
	deadline time.Time
}

type lazyOut02 struct {
	res      []lazyRes02
	fedAt    map[int]time.Time // tag -> moment the (first) reply to that query was made readable on its connection
	consumed bool              // the connection's reader took everything that was fed
	dialed   int
}

func runLazyCase02(lc lazyCase02) lazyOut02 {
	out := lazyOut02{res: make([]lazyRes02, lc.callers), fedAt: map[int]time.Time{}}
	var mu sync.Mutex
	var feeds sync.WaitGroup
	var fconns []*fakeConn
	release := make(chan struct{}) // closed when the dial may finish
	nextLat := 0
	answered := map[[2]int]bool{}
	latencyFor := func() time.Duration {
		mu.Lock()
		defer mu.Unlock()
		d := lc.latency[nextLat%len(lc.latency)]
		nextLat++
		return d
	}
	stream := lc.kind == "pipeline-tcp" || lc.kind == "lazy-tcp"
	dial := func(ctx context.Context) (transport.DnsConn, error) {
		select {
		case <-release:
		case <-ctx.Done(): // a dialer honours its context
			return nil, context.Cause(ctx)
		}
		mu.Lock()
		out.dialed++
		mu.Unlock()
		if lc.kind == "lazy-doq" {
			conn := newFqConn(nil)
			conn.prep = func(s *fqStream) {
				var once sync.Once
				s.onWrite = func(s *fqStream, total []byte) {
					if len(total) < 2 || len(total) < 2+int(binary.BigEndian.Uint16(total)) {
						return
					}
					once.Do(func() {
						q := append([]byte(nil), total[2:]...)
						lat := latencyFor()
						feeds.Add(1)
						go func() {
							defer feeds.Done()
							time.Sleep(lat)
							rep := mkReply(q, binary.BigEndian.Uint16(q))
							f := make([]byte, 2+len(rep))
							binary.BigEndian.PutUint16(f, uint16(len(rep)))
							copy(f[2:], rep)
							mu.Lock()
							if _, had := out.fedAt[tagOf(q)]; !had {
								out.fedAt[tagOf(q)] = time.Now()
							}
							mu.Unlock()
							s.feed(f)
							s.feedErr(io.EOF)
						}()
					})
				}
			}
			return transport.NewQuicDnsConn(conn), nil
		}
		c := newFakeConn(lc.connID, stream)
		c.onWrite = func(c *fakeConn, w []byte) error {
			q := c.payloadOf(w)
			if len(q) < 12 {
				return nil
			}
			mu.Lock()
			key := [2]int{tagOf(q), int(binary.BigEndian.Uint16(q))}
			seen := answered[key]
			answered[key] = true // a datagram retransmission (same id on the wire) is not answered twice; a new attempt is
			mu.Unlock()
			if seen {
				return nil
			}
			reply := c.frame(mkReply(q, binary.BigEndian.Uint16(q)))
			lat := latencyFor()
			feeds.Add(1)
			go func() {
				defer feeds.Done()
				time.Sleep(lat)
				mu.Lock()
				if _, had := out.fedAt[tagOf(q)]; !had {
					out.fedAt[tagOf(q)] = time.Now()
				}
				mu.Unlock()
				c.feed(reply)
			}()
			return nil
		}
		mu.Lock()
		fconns = append(fconns, c)
		mu.Unlock()
		return transport.NewDnsConn(transport.TraditionalDnsConnOpts{WithLengthHeader: stream, IdleTimeout: 10 * time.Second, MaxConcurrentQuery: 64}, c), nil
	}

	var ex func(i int) func(ctx context.Context, q []byte) (*[]byte, error)
	var closeT func()
	early := lc.callers - lc.lateCallers
	switch lc.kind {
	case "pipeline-udp", "pipeline-tcp":
		t := transport.NewPipelineTransport(transport.PipelineOpts{DialContext: dial, DialTimeout: lc.dialTimeout})
		ex = func(int) func(ctx context.Context, q []byte) (*[]byte, error) { return t.ExchangeContext }
		closeT = func() { t.Close() }
	default:
		lazy := transport.VerifNewLazyDnsConn(dial, lc.dialTimeout, 16)
		// every early caller reserves while the connection is certainly still dialing (the dial is held back)
		recs := make([]transport.ReservedExchanger, lc.callers)
		for i := 0; i < early; i++ {
			recs[i], _ = lazy.ReserveNewQuery()
		}
		ex = func(i int) func(ctx context.Context, q []byte) (*[]byte, error) {
			return func(ctx context.Context, q []byte) (*[]byte, error) {
				rec := recs[i]
				if rec == nil {
					var closed bool
					if rec, closed = lazy.ReserveNewQuery(); rec == nil {
						return nil, fmt.Errorf("cannot reserve (closed=%v)", closed)
					}
				}
				return rec.ExchangeReserved(ctx, q)
			}
		}
		closeT = func() { lazy.Close() }
	}
	var wg sync.WaitGroup
	start := func(i int) {
		wg.Add(1)
		go func() {
			defer wg.Done()
			id := lc.idBase + uint16(i*7919)
			q := mkQuery(id, lc.tagBase+i)
			d := lc.deadline[i%len(lc.deadline)]
			ctx, cancel := context.WithTimeout(context.Background(), d)
			defer cancel()
			t0 := time.Now()
			resp, err := ex(i)(ctx, q)
			out.res[i] = lazyRes02{resp: resp, err: err, took: time.Since(t0), q: q, id: id, deadline: t0.Add(d)}
		}()
	}
	for i := 0; i < early; i++ {
		start(i)
	}
	time.Sleep(lc.dialDelay) // the dial "takes" this long; the early callers are queued on the dialing connection meanwhile
	close(release)
	if lc.lateCallers > 0 {
		time.Sleep(5 * time.Millisecond)
		for i := early; i < lc.callers; i++ {
			start(i)
		}
	}
	wg.Wait()
	feeds.Wait() // replies to callers that gave up early are still delivered to the connection
	out.consumed = true
	mu.Lock()
	cs := append([]*fakeConn(nil), fconns...)
	mu.Unlock()
	for _, c := range cs {
		if !c.waitDrained(2 * time.Second) {
			out.consumed = false
		}
	}
	closeT()
	return out
}

func lazyScenarios02(r *Run, n int, connID *int) {
	kinds := []string{"pipeline-udp", "pipeline-tcp", "lazy-udp", "lazy-tcp", "lazy-doq"}
	cases := make([]lazyCase02, n)
	for i := range cases {
		*connID++
		lc := lazyCase02{kind: kinds[i%len(kinds)], callers: 1 + r.Rng.Intn(4), connID: *connID,
			dialTimeout: time.Duration(150+r.Rng.Intn(100)) * time.Millisecond,
			dialDelay:   time.Duration(15+r.Rng.Intn(30)) * time.Millisecond,
			idBase:      uint16(r.Seed) + uint16(r.Rng.Intn(65536)), tagBase: 600000 + i*10}
		for c := 0; c < lc.callers; c++ {
			// dial delay + latency is well beyond the dial timeout, and seconds inside the caller's deadline
			lc.latency = append(lc.latency, lc.dialTimeout+time.Duration(150+r.Rng.Intn(200))*time.Millisecond)
			lc.deadline = append(lc.deadline, time.Duration(5+r.Rng.Intn(4))*time.Second)
		}
		if lc.callers > 1 && r.Rng.Intn(3) == 0 {
			lc.lateCallers = 1 // one caller comes when the connection is up: it takes the fast path on the same connection
		}
		cases[i] = lc
	}
	// the cases are independent and spend their time asleep: run them side by side (batches), report in order
	outs := make([]lazyOut02, n)
	const batch = 20
	for lo := 0; lo < n; lo += batch {
		var wg sync.WaitGroup
		for i := lo; i < n && i < lo+batch; i++ {
			wg.Add(1)
			go func(i int) { defer wg.Done(); outs[i] = runLazyCase02(cases[i]) }(i)
		}
		wg.Wait()
	}
	for i, lc := range cases {
		o := outs[i]
		for c, rs := range o.res {
			desc := map[string]any{"transport": lc.kind, "scenario": "queued-while-dialing", "case": i, "caller": c, "concurrent_callers": lc.callers,
				"reserved": map[bool]string{true: "while the connection was dialing", false: "after the dial had finished"}[c < lc.callers-lc.lateCallers],
				"dial_timeout_option": lc.dialTimeout.String(), "dial_took": lc.dialDelay.String(), "caller_deadline": lc.deadline[c%len(lc.deadline)].String(),
				"took": rs.took.String(), "err": fmt.Sprint(rs.err)}
			fed, wasFed := o.fedAt[lc.tagBase+c]
			out := "reply"
			switch {
			case !wasFed:
				// the query never reached a connection: C02 says nothing about it
				out = "reply" // (no line is emitted below)
				r.Count(lc.kind + ":queued-while-dialing:query-not-sent")
			case !o.consumed || !fed.Before(rs.deadline.Add(-time.Second)):
				r.Count(lc.kind + ":queued-while-dialing:skipped-machine-stalled")
				wasFed = false
			case rs.err != nil || rs.resp == nil:
				out = "error:" + fmt.Sprint(rs.err)
				desc["reply_readable_after"] = fed.Sub(rs.deadline.Add(-lc.deadline[c%len(lc.deadline)])).String()
				what := "the reply was received on the connection before the caller's deadline, but the exchange failed"
				if errors.Is(rs.err, context.DeadlineExceeded) {
					what = "the reply was received on the connection seconds before the caller's deadline, but the exchange timed out (before that reply, and before the caller's deadline)"
				}
				r.Fail(what, desc)
			case !bytes.Equal(*rs.resp, mkReply(rs.q, rs.id)):
				out = "foreign-reply"
				r.Fail("the exchange returned something other than the reply to its own query", desc)
			}
			if wasFed {
				r.Line("sched 1 1 1 writeReturns,readerDeliver,pickReply", out)
				r.Trace()
			}
			r.Eval(fmt.Sprintf("%s/queued-while-dialing/%d/%d", lc.kind, i, c), wasFed)
			r.Count(lc.kind + ":queued-while-dialing")
		}
	}
}
