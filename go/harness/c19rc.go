//go:build pC19 || pall

package main

import (
	"bytes"
	"context"
	"encoding/base64"
	"fmt"
	"io"
	"net/http"
	"net/http/httptest"
	"strings"
	"time"

	"github.com/IrineSistiana/mosdns/v5/pkg/query_context"
	"github.com/IrineSistiana/mosdns/v5/plugin/executable/cache"
	"github.com/IrineSistiana/mosdns/v5/plugin/executable/sequence"
	"github.com/miekg/dns"
)

// ---- caches filled through Exec with upstream replies of every rcode ------
//
// The statement speaks of "a cache", whatever the plugin let into it. What the
// plugin lets in is decided by saveRespToCache on what the rest of the
// sequence answered; the replies of a real upstream come off the wire, where
// rcodes 16..4095 are carried by an OPT record that the stored copy no longer
// has. The scenario answers seeded questions with every rcode 0..23 (and a few
// higher ones) the way an upstream does (Pack -> Unpack), lets Cache.Exec keep
// what it keeps, dumps, reloads into an empty cache and demands the statement's
// first sentence: the dump of the live entries succeeds and every live entry
// is there again with its answer and times.

type rcq19 struct {
	q     *dns.Msg
	key   string
	rcode int
}

func rcUpstream19(rcode int, opt bool, nAns int, ttl uint32) sequence.ChainWalker {
	node := &sequence.ChainNode{E: sequence.ExecutableFunc(func(_ context.Context, qc *query_context.Context) error {
		q := qc.Q()
		m := new(dns.Msg)
		m.SetReply(q)
		m.Rcode = rcode
		name := q.Question[0].Name
		if rcode == dns.RcodeSuccess {
			for j := 0; j < nAns; j++ {
				m.Answer = append(m.Answer, &dns.A{Hdr: dns.RR_Header{Name: name, Rrtype: dns.TypeA, Class: dns.ClassINET, Ttl: ttl}, A: []byte{192, 0, 2, byte(j + 1)}})
			}
		}
		if rcode == dns.RcodeNameError || (rcode == dns.RcodeSuccess && nAns == 0) {
			m.Ns = append(m.Ns, &dns.SOA{Hdr: dns.RR_Header{Name: "example.", Rrtype: dns.TypeSOA, Class: dns.ClassINET, Ttl: ttl}, Ns: "ns.example.", Mbox: "m.example.", Serial: 1, Minttl: ttl})
		}
		if opt || rcode > 15 { // an extended rcode lives in the OPT record
			m.SetEdns0(1232, false)
		}
		wire, err := m.Pack()
		if err != nil {
			return nil // no reply
		}
		fromWire := new(dns.Msg)
		if fromWire.Unpack(wire) != nil {
			return nil
		}
		qc.SetResponse(fromWire)
		return nil
	})}
	return sequence.NewChainWalker([]*sequence.ChainNode{node}, nil)
}

func (r *Run) rcodes19(round int) {
	began := time.Now()
	lazy := []int{0, 86400}[r.Rng.Intn(2)]
	a := cache.NewCache(&cache.Args{Size: 1 << 16, LazyCacheTTL: lazy}, cache.Opts{})
	defer a.Close()
	// every rcode 0..23 at least once, a few beyond, and ordinary traffic around them (0..2 blocks)
	var rcs []int
	for rc := 0; rc <= 23; rc++ {
		rcs = append(rcs, rc)
	}
	for i := r.Rng.Intn(4); i > 0; i-- {
		rcs = append(rcs, 24+r.Rng.Intn(4072))
	}
	for i := []int{0, 10, 120, 260}[r.Rng.Intn(4)]; i > 0; i-- {
		rcs = append(rcs, []int{0, 0, 0, 0, 3, 2}[r.Rng.Intn(6)])
	}
	r.Rng.Shuffle(len(rcs), func(i, j int) { rcs[i], rcs[j] = rcs[j], rcs[i] })
	var qs []rcq19
	var asked []string
	for i, rc := range rcs {
		q := new(dns.Msg)
		q.SetQuestion(fmt.Sprintf("rc%d-%d.example.", i, r.Rng.Intn(1000)), []uint16{dns.TypeA, dns.TypeAAAA, dns.TypeTXT}[r.Rng.Intn(3)])
		if r.Rng.Intn(3) == 0 {
			q.SetEdns0(1232, r.Rng.Intn(2) == 0)
		}
		qCtx := query_context.NewContext(q)
		up := rcUpstream19(rc, r.Rng.Intn(2) == 0, r.Rng.Intn(3), uint32(60+r.Rng.Intn(3000)))
		if err := a.Exec(context.Background(), qCtx, up); err != nil {
			continue
		}
		qs = append(qs, rcq19{q: q, key: cache.VerifGetMsgKey(q), rcode: rc})
		if rc > 3 && len(asked) < 40 {
			asked = append(asked, dns.RcodeToString[rc])
			if asked[len(asked)-1] == "" {
				asked[len(asked)-1] = fmt.Sprint(rc)
			}
		}
	}
	// what the cache holds now
	type liveE struct {
		wire               []byte
		rcode              int
		stored, mexp, cexp time.Time
	}
	live := map[string]liveE{}
	keptRc := map[int]bool{}
	for _, x := range qs {
		m, st, me, ce, ok := a.VerifPeek(x.key)
		if !ok {
			continue
		}
		w, _ := m.Pack() // nil if the stored message cannot be packed
		live[x.key] = liveE{wire: w, rcode: m.Rcode, stored: st, mexp: me, cexp: ce}
		keptRc[m.Rcode] = true
	}
	var kept []string
	for rc := 0; rc < 4096; rc++ {
		if keptRc[rc] {
			if s, ok := dns.RcodeToString[rc]; ok {
				kept = append(kept, fmt.Sprintf("%d (%s)", rc, s))
			} else {
				kept = append(kept, fmt.Sprint(rc))
			}
		}
	}
	how := []string{"writeDump (as the periodic dump / Close)", "GET /dump on the plugin API"}[r.Rng.Intn(2)]
	desc := map[string]any{"queries": len(qs), "upstream_rcodes": "every rcode 0..23 (16..23 carried by an OPT record, as on the wire) plus ordinary answers, through Cache.Exec",
		"entries_in_cache": len(live), "rcodes_of_cached_entries": kept, "lazy_cache_ttl": lazy, "dump": how}
	r.Eval(fmt.Sprintf("rcodes:%d:%d:%d", round, len(qs), len(live)), len(live) > 0)
	r.Count("rcode-scenario")
	var comp []byte
	var derr error
	written := -1
	if strings.HasPrefix(how, "GET") {
		rec := httptest.NewRecorder()
		a.Api().ServeHTTP(rec, httptest.NewRequest(http.MethodGet, "/dump", nil))
		if rec.Code != http.StatusOK {
			derr = fmt.Errorf("status %d: %s", rec.Code, strings.TrimSpace(rec.Body.String()))
		}
		comp = rec.Body.Bytes()
	} else {
		var buf bytes.Buffer
		written, derr = a.VerifWriteDump(&buf)
		comp = buf.Bytes()
	}
	if time.Since(began) > 3*time.Second { // the shortest lifetime is 5 s (SERVFAIL): on a stalled machine entries expire under us
		r.Count("rcode-stalled-skipped")
		return
	}
	if derr != nil {
		desc["err"], desc["entries_written_before_the_error"] = fmt.Sprint(derr), written
		r.Fail("dumping a cache that was filled through Exec (upstream replies of every rcode) failed: its live entries cannot be reloaded", desc)
		return
	}
	res := load19(comp)
	if res.c != nil {
		defer res.c.Close()
	}
	if res.panicked != nil || res.timedOut || res.err != nil {
		desc["err"], desc["panic"] = fmt.Sprint(res.err), fmt.Sprint(res.panicked)
		r.Fail("the intact dump of a cache that was filled through Exec (upstream replies of every rcode) fails to load", desc)
		return
	}
	if time.Since(began) > 3*time.Second {
		r.Count("rcode-stalled-skipped")
		return
	}
	bad := 0
	for _, x := range qs {
		e, ok := live[x.key]
		if !ok {
			if _, _, _, _, ok2 := res.c.VerifPeek(x.key); ok2 {
				r.Fail("reloading the dump added an entry the cache did not hold", map[string]any{"key": kd19(x.key), "scenario": desc})
			}
			continue
		}
		m2, st2, me2, ce2, ok2 := res.c.VerifPeek(x.key)
		if !ok2 {
			if bad++; bad <= 3 {
				r.Fail("a live entry is missing after dump + load", map[string]any{"key": kd19(x.key), "rcode": e.rcode, "scenario": desc})
			}
			continue
		}
		w2, _ := m2.Pack()
		if !bytes.Equal(e.wire, w2) || m2.Rcode != e.rcode || st2.Unix() != e.stored.Unix() || me2.Unix() != e.mexp.Unix() || ce2.Unix() != e.cexp.Unix() {
			if bad++; bad <= 3 {
				r.Fail("a reloaded entry differs (answer, rcode, stored / message-expiry / cache-expiry time to the second)", map[string]any{"key": kd19(x.key), "rcode_before": e.rcode, "rcode_after": m2.Rcode, "scenario": desc})
			}
		}
	}
	// what clients are served, with no upstream behind either cache
	none := sequence.NewChainWalker(nil, nil)
	checked := 0
	for _, x := range qs {
		if checked >= 60 || time.Since(began) > 3*time.Second {
			break
		}
		checked++
		c1, c2 := query_context.NewContext(x.q.Copy()), query_context.NewContext(x.q.Copy())
		if a.Exec(context.Background(), c1, none) != nil || res.c.Exec(context.Background(), c2, none) != nil {
			continue
		}
		r1, r2 := c1.R(), c2.R()
		if time.Since(began) > 3*time.Second {
			break
		}
		same := (r1 == nil) == (r2 == nil)
		if same && r1 != nil {
			same = r1.Rcode == r2.Rcode && len(r1.Answer) == len(r2.Answer) && len(r1.Ns) == len(r2.Ns)
			for _, sec := range [][2][]dns.RR{{r1.Answer, r2.Answer}, {r1.Ns, r2.Ns}} {
				for i := 0; same && i < len(sec[0]); i++ {
					y, z := dns.Copy(sec[0][i]), dns.Copy(sec[1][i])
					d := int64(y.Header().Ttl) - int64(z.Header().Ttl)
					y.Header().Ttl, z.Header().Ttl = 0, 0
					same = d >= -1 && d <= 1 && y.String() == z.String()
				}
			}
		}
		if !same {
			if bad++; bad <= 3 {
				r.Fail("a question is served differently from the reloaded cache (hit / rcode / records / TTLs by more than a second)", map[string]any{"key": kd19(x.key), "upstream_rcode": x.rcode, "before": fmt.Sprint(r1), "after": fmt.Sprint(r2), "scenario": desc})
			}
		}
	}
}

// ---- big caches over real HTTP ---------------------------------------------
//
// observe_at of the property: GET /dump -> POST /load_dump on a second
// instance. The statement puts no bound on the size of a cache; GET /dump has
// none either. A cache whose dump is 9..14 MiB (thorough: up to ~40 MiB; big
// TXT rrsets of key material, which gzip cannot shrink) is dumped over a real
// HTTP connection and posted to an empty cache's /load_dump: 200, and every
// live entry is there with its answer and times.

func (r *Run) bigdump19(round int) {
	began := time.Now()
	n := 700 + r.Rng.Intn(200)
	if r.Thorough() {
		n = 600 + r.Rng.Intn(1800)
	}
	size := 1 << 16
	a := cache.NewCache(&cache.Args{Size: size}, cache.Opts{})
	defer a.Close()
	b := cache.NewCache(&cache.Args{Size: size}, cache.Opts{})
	defer b.Close()
	raw := make([]byte, 12000)
	var keys []string
	for i := 0; i < n; i++ {
		q := new(dns.Msg)
		name := fmt.Sprintf("k%d._domainkey.big%d.example.", i, r.Rng.Intn(1000))
		q.SetQuestion(name, dns.TypeTXT)
		resp := new(dns.Msg)
		resp.SetReply(q)
		nrec := 14 + r.Rng.Intn(6) // ~14..19 KiB of TXT data
		for j := 0; j < nrec; j++ {
			r.Rng.Read(raw[:765])
			s := base64.StdEncoding.EncodeToString(raw[:765]) // 1020 characters
			resp.Answer = append(resp.Answer, &dns.TXT{Hdr: dns.RR_Header{Name: name, Rrtype: dns.TypeTXT, Class: dns.ClassINET, Ttl: uint32(3600 + r.Rng.Intn(3600))},
				Txt: []string{s[:255], s[255:510], s[510:765], s[765:1020]}})
		}
		k := cache.VerifGetMsgKey(q)
		if a.VerifSave(k, resp) {
			keys = append(keys, k)
		}
	}
	srvA := httptest.NewServer(a.Api())
	defer srvA.Close()
	srvB := httptest.NewServer(b.Api())
	defer srvB.Close()
	cl := &http.Client{Timeout: 120 * time.Second}
	desc := map[string]any{"entries": len(keys), "answers": "14..19 TXT records of 1020 octets of base64 key material each", "path": "GET /dump of cache A over HTTP, body posted to /load_dump of an empty cache B"}
	r.Count("bigdump-scenario")
	resp, err := cl.Get(srvA.URL + "/dump")
	if err != nil {
		r.Count("bigdump-http-skipped")
		return
	}
	dump, err := io.ReadAll(resp.Body)
	resp.Body.Close()
	desc["dump_bytes"] = len(dump)
	r.Eval(fmt.Sprintf("bigdump:%d:%d:%d", round, len(keys), len(dump)>>20), len(dump) > 8<<20)
	if err != nil || resp.StatusCode != http.StatusOK {
		desc["status"], desc["err"] = resp.StatusCode, fmt.Sprint(err)
		r.Fail("GET /dump of a big cache failed", desc)
		return
	}
	r.Count(fmt.Sprintf("bigdump-%d-MiB", len(dump)>>20))
	resp2, err := cl.Post(srvB.URL+"/load_dump", "application/octet-stream", bytes.NewReader(dump))
	if err != nil {
		// a server that stops reading and closes the connection shows up here
		desc["err"] = fmt.Sprint(err)
		desc["entries_in_B"] = b.VerifLen()
		if b.VerifLen() != len(keys) && time.Since(began) < 60*time.Second {
			r.Fail("POST /load_dump of an intact dump of a big cache failed", desc)
		}
		return
	}
	body2, _ := io.ReadAll(io.LimitReader(resp2.Body, 4096))
	resp2.Body.Close()
	if resp2.StatusCode != http.StatusOK {
		desc["status"], desc["body"], desc["entries_in_B"] = resp2.StatusCode, strings.TrimSpace(string(body2)), b.VerifLen()
		r.Fail("POST /load_dump of an intact dump of a big cache is refused", desc)
		return
	}
	// the file path reads the same bytes
	viaFile := load19(dump)
	if viaFile.c != nil {
		defer viaFile.c.Close()
	}
	if viaFile.panicked != nil || viaFile.timedOut || viaFile.err != nil {
		desc["err"] = fmt.Sprint(viaFile.err)
		r.Fail("readDump of an intact dump of a big cache failed", desc)
		return
	}
	// every lifetime is >= 3600 s
	bad := 0
	for _, k := range keys {
		m1, st1, me1, ce1, ok1 := a.VerifPeek(k)
		if !ok1 {
			continue
		}
		for _, c := range []struct {
			c   *cache.Cache
			how string
		}{{b, "POST /load_dump"}, {viaFile.c, "readDump"}} {
			m2, st2, me2, ce2, ok2 := c.c.VerifPeek(k)
			if !ok2 {
				if bad++; bad <= 3 {
					r.Fail("a live entry of a big cache is missing after dump + load", map[string]any{"key": kd19(k), "loaded_by": c.how, "entries_loaded": c.c.VerifLen(), "scenario": desc})
				}
				continue
			}
			w1, _ := m1.Pack()
			w2, _ := m2.Pack()
			if !bytes.Equal(w1, w2) || st1.Unix() != st2.Unix() || me1.Unix() != me2.Unix() || ce1.Unix() != ce2.Unix() {
				if bad++; bad <= 3 {
					r.Fail("a reloaded entry of a big cache differs (answer or times to the second)", map[string]any{"key": kd19(k), "loaded_by": c.how, "scenario": desc})
				}
			}
		}
	}
	if b.VerifLen() != a.VerifLen() {
		desc["before"], desc["after"] = a.VerifLen(), b.VerifLen()
		r.Fail("the cache after GET /dump -> POST /load_dump does not hold the same number of entries", desc)
	}
}

// ---- caches configured with a size below the documented minimum ------------
//
// "size" of the cache plugin is a legal value whatever it is; pkg/cache raises
// 1..1023 to 1024 entries, so a cache configured with size 1 holds up to 1024
// answers like any other, and the statement's first sentence ("dumping a cache
// and loading the dump into an empty cache reproduces the same live entries")
// speaks of every cache this mosdns can hold, not of the configured number.
// Caches with seeded small sizes are filled to what they really hold with
// ordinary (A), medium (1..2 KiB TXT) or big (14..19 KiB TXT) answers, dumped
// with GET /dump over real HTTP and posted (with a Content-Length or chunked)
// to /load_dump of an empty cache of the same configured size: 200, and every
// live entry is there again with its answer and times.

type chunked19 struct{ r io.Reader } // hides Len(): the client sends the body chunked

func (c chunked19) Read(p []byte) (int, error) { return c.r.Read(p) }

func (r *Run) smalldump19(round int) {
	began := time.Now()
	sizes := []int{1, 2, 4, 16, 64, 256, 1023, 1 + r.Rng.Intn(1023)}
	size := sizes[r.Rng.Intn(len(sizes))]
	kind := r.Rng.Intn(3) // 0 ordinary, 1 medium, 2 big
	if round == 0 {       // the plainest case in every run: a tiny size, ordinary or medium answers
		size = []int{1, 4}[r.Rng.Intn(2)]
		kind = r.Rng.Intn(2)
	}
	lazy := []int{0, 86400}[r.Rng.Intn(2)]
	a := cache.NewCache(&cache.Args{Size: size, LazyCacheTTL: lazy}, cache.Opts{})
	defer a.Close()
	b := cache.NewCache(&cache.Args{Size: size, LazyCacheTTL: lazy}, cache.Opts{})
	defer b.Close()
	want := 850 + r.Rng.Intn(150) // the backend holds 1024 in 64 shards; fill until this many are live
	raw := make([]byte, 765)
	var tried []string
	for i := 0; i < 4000 && a.VerifLen() < want; i++ {
		q := new(dns.Msg)
		resp := new(dns.Msg)
		switch kind {
		case 0:
			name := fmt.Sprintf("h%d.small%d.example.", i, r.Rng.Intn(1000))
			q.SetQuestion(name, dns.TypeA)
			resp.SetReply(q)
			for j := 1 + r.Rng.Intn(4); j > 0; j-- {
				resp.Answer = append(resp.Answer, &dns.A{Hdr: dns.RR_Header{Name: name, Rrtype: dns.TypeA, Class: dns.ClassINET, Ttl: uint32(3600 + r.Rng.Intn(3600))}, A: []byte{198, 51, byte(r.Rng.Intn(256)), byte(r.Rng.Intn(256))}})
			}
		default:
			name := fmt.Sprintf("k%d._domainkey.small%d.example.", i, r.Rng.Intn(1000))
			q.SetQuestion(name, dns.TypeTXT)
			resp.SetReply(q)
			nrec := 1 + r.Rng.Intn(2)
			if kind == 2 {
				nrec = 14 + r.Rng.Intn(6)
			}
			for j := 0; j < nrec; j++ {
				r.Rng.Read(raw)
				s := base64.StdEncoding.EncodeToString(raw) // 1020 characters
				resp.Answer = append(resp.Answer, &dns.TXT{Hdr: dns.RR_Header{Name: name, Rrtype: dns.TypeTXT, Class: dns.ClassINET, Ttl: uint32(3600 + r.Rng.Intn(3600))},
					Txt: []string{s[:255], s[255:510], s[510:765], s[765:1020]}})
			}
		}
		k := cache.VerifGetMsgKey(q)
		if a.VerifSave(k, resp) {
			tried = append(tried, k)
		}
	}
	type liveE struct {
		wire               []byte
		stored, mexp, cexp time.Time
	}
	live := map[string]liveE{}
	var keys []string
	for _, k := range tried {
		if m, st, me, ce, ok := a.VerifPeek(k); ok {
			w, _ := m.Pack()
			live[k] = liveE{w, st, me, ce}
			keys = append(keys, k)
		}
	}
	srvA := httptest.NewServer(a.Api())
	defer srvA.Close()
	srvB := httptest.NewServer(b.Api())
	defer srvB.Close()
	cl := &http.Client{Timeout: 120 * time.Second}
	chunked := r.Rng.Intn(3) == 0
	desc := map[string]any{"configured_size": size, "lazy_cache_ttl": lazy, "entries_live": len(keys), "answers": []string{"1..4 A records", "1..2 TXT records of 1020 octets of base64 key material", "14..19 TXT records of 1020 octets of base64 key material"}[kind],
		"path": "GET /dump of cache A over HTTP, body posted to /load_dump of an empty cache B with the same configured size", "post_chunked": chunked}
	r.Count("smalldump-scenario")
	r.Count(fmt.Sprintf("smalldump-kind-%d", kind))
	resp, err := cl.Get(srvA.URL + "/dump")
	if err != nil {
		r.Count("smalldump-http-skipped")
		return
	}
	dump, err := io.ReadAll(resp.Body)
	resp.Body.Close()
	desc["dump_bytes"] = len(dump)
	r.Eval(fmt.Sprintf("smalldump:%d:%d:%d:%d:%d", round, size, kind, len(keys), len(dump)>>10), len(keys) > size && len(dump) > size*1024)
	if err != nil || resp.StatusCode != http.StatusOK {
		desc["status"], desc["err"] = resp.StatusCode, fmt.Sprint(err)
		r.Fail("GET /dump of a cache configured with a small size failed", desc)
		return
	}
	var body io.Reader = bytes.NewReader(dump)
	if chunked {
		body = chunked19{body}
	}
	resp2, err := cl.Post(srvB.URL+"/load_dump", "application/octet-stream", body)
	if err != nil {
		// a server that stops reading and closes the connection shows up here
		desc["err"], desc["entries_in_B"] = fmt.Sprint(err), b.VerifLen()
		if b.VerifLen() != len(keys) && time.Since(began) < 60*time.Second {
			r.Fail("POST /load_dump of an intact dump of a cache configured with a small size failed", desc)
		}
		return
	}
	body2, _ := io.ReadAll(io.LimitReader(resp2.Body, 4096))
	resp2.Body.Close()
	if resp2.StatusCode != http.StatusOK {
		desc["status"], desc["body"], desc["entries_in_B"] = resp2.StatusCode, strings.TrimSpace(string(body2)), b.VerifLen()
		r.Fail("POST /load_dump of an intact dump of a cache configured with a small size is refused", desc)
		return
	}
	// every lifetime is >= 3600 s
	bad := 0
	for _, k := range keys {
		e := live[k]
		m2, st2, me2, ce2, ok2 := b.VerifPeek(k)
		if !ok2 {
			if bad++; bad <= 3 {
				r.Fail("a live entry of a cache configured with a small size is missing after GET /dump -> POST /load_dump", map[string]any{"key": kd19(k), "entries_loaded": b.VerifLen(), "scenario": desc})
			}
			continue
		}
		w2, _ := m2.Pack()
		if !bytes.Equal(e.wire, w2) || e.stored.Unix() != st2.Unix() || e.mexp.Unix() != me2.Unix() || e.cexp.Unix() != ce2.Unix() {
			if bad++; bad <= 3 {
				r.Fail("a reloaded entry of a cache configured with a small size differs (answer or times to the second)", map[string]any{"key": kd19(k), "scenario": desc})
			}
		}
	}
	if b.VerifLen() != len(keys) {
		desc["after"] = b.VerifLen()
		r.Fail("the cache after GET /dump -> POST /load_dump does not hold the same number of entries", desc)
	}
}
