//go:build pC03 || pC15 || pall

package main

import (
	"context"
	"fmt"
	"net"
	"strings"
	"sync"
	"time"

	"github.com/IrineSistiana/mosdns/v5/coremain"
	"github.com/IrineSistiana/mosdns/v5/pkg/query_context"
	"github.com/IrineSistiana/mosdns/v5/pkg/server_handler"
	"github.com/IrineSistiana/mosdns/v5/plugin/executable/cache"
	"github.com/IrineSistiana/mosdns/v5/plugin/executable/redirect"
	"github.com/IrineSistiana/mosdns/v5/plugin/executable/sequence"
	"github.com/IrineSistiana/mosdns/v5/plugin/executable/ttl"
	"github.com/miekg/dns"
)

// C03, section (9): the chains of section (7) with entries that EXPIRE while the history runs. The upstream answers with
// TTL 1 s, the queries of one history are spread over ~2 s of real time, so caches see fresh hits, misses after expiry
// and - lazy caches - stale hits whose refresh runs in the background on a copy of the context. A copy made behind a
// cache that had a hit already carries that cache's response (finding F17, fixed in /repo 4dc333c: the refresh stored
// it under the key of the stale entry). The oracle is oracle03 (own ID and question, QR, RA); it does not depend on
// when a query was served, the waits only steer which paths are reached. The chains of one batch run concurrently, each
// on a plan drawn beforehand from r.Rng; the replies are judged afterwards on the calling goroutine.

type upTTL03 struct{ ttl uint32 }

func (u *upTTL03) Exec(_ context.Context, qCtx *query_context.Context) error {
	if qCtx.R() != nil {
		return nil // matches: "!has_resp"
	}
	q := qCtx.Q()
	m := new(dns.Msg)
	m.SetReply(q)
	qu := q.Question[0]
	h := dns.RR_Header{Name: qu.Name, Rrtype: qu.Qtype, Class: qu.Qclass, Ttl: u.ttl}
	switch qu.Qtype {
	case dns.TypeA:
		m.Answer = append(m.Answer, &dns.A{Hdr: h, A: net.IPv4(192, 0, 2, 1)})
	case dns.TypeAAAA:
		m.Answer = append(m.Answer, &dns.AAAA{Hdr: h, AAAA: net.ParseIP("2001:db8::1")})
	default:
		h.Rrtype = dns.TypeTXT
		m.Answer = append(m.Answer, &dns.TXT{Hdr: h, Txt: []string{"t"}})
	}
	qCtx.SetResponse(m)
	return nil
}

type lazyStep03 struct {
	at  time.Duration
	q   q03
	via string
	// results
	payload []byte
	got     bool
	served  time.Duration
}

type lazyPlan03 struct {
	h     *server_handler.EntryHandler
	desc  []string
	steps []*lazyStep03
	close []func()
}

func buildLazy03(r *Run) (*lazyPlan03, error) {
	plugins := map[string]any{}
	m := coremain.NewTestMosdnsWithPlugins(plugins)
	pl := &lazyPlan03{}
	plugins["up"] = &upTTL03{ttl: 1}
	plugins["hasResp"] = sequence.MatchFunc(func(_ context.Context, q *query_context.Context) (bool, error) { return q.R() != nil, nil })
	rule := rules03[r.Rng.Intn(len(rules03))]
	type elem struct {
		kind string
		lazy bool
		rule rule03
	}
	// two thirds of the chains: cache -> redirect -> lazy cache (the usual two-level set-up), plus at most one more plugin
	// at either end; the rest: 2..3 caches, 1..2 redirects, ttl in any order
	directed := r.Rng.Intn(3) != 0
	var els []elem
	if directed {
		for rule.pattern+"." == rule.target {
			rule = rules03[r.Rng.Intn(len(rules03))]
		}
		els = []elem{{kind: "cache", lazy: r.Rng.Intn(4) == 0}, {kind: "redirect", rule: rule}, {kind: "cache", lazy: r.Rng.Intn(8) != 0}}
		switch r.Rng.Intn(8) {
		case 0:
			els = append([]elem{{kind: "redirect", rule: rules03[r.Rng.Intn(len(rules03))]}}, els...)
		case 1:
			els = append(els, elem{kind: "redirect", rule: rules03[r.Rng.Intn(len(rules03))]})
		case 2:
			els = append(els, elem{kind: "ttl"})
		}
	} else {
		els = []elem{{kind: "cache", lazy: r.Rng.Intn(3) == 0}, {kind: "redirect", rule: rule}, {kind: "cache", lazy: r.Rng.Intn(4) != 0}}
		if r.Rng.Intn(4) == 0 {
			els = append(els, elem{kind: "redirect", rule: rules03[r.Rng.Intn(len(rules03))]})
		}
		if r.Rng.Intn(5) == 0 {
			els = append(els, elem{kind: "cache", lazy: r.Rng.Intn(2) == 0})
		}
		if r.Rng.Intn(6) == 0 {
			els = append(els, elem{kind: "ttl"})
		}
		if r.Rng.Intn(2) == 0 {
			r.Rng.Shuffle(len(els), func(i, j int) { els[i], els[j] = els[j], els[i] })
		}
	}
	var rules []sequence.RuleArgs
	names := []string{}
	for i, e := range els {
		tag := fmt.Sprintf("%s%d", e.kind, i)
		d := e.kind
		switch e.kind {
		case "redirect":
			pat := e.rule.pattern
			if e.rule.kind == "domain" {
				pat = "domain:" + pat
			}
			p, err := redirect.NewRedirect(&redirect.Args{Rules: []string{pat + " " + e.rule.target}})
			if err != nil {
				return nil, err
			}
			plugins[tag] = p
			d += "(" + pat + " " + e.rule.target + ")"
			names = append(names, e.rule.pattern+".", e.rule.target)
		case "cache":
			lz := 0
			if e.lazy {
				lz = 3600
			}
			c := cache.NewCache(&cache.Args{Size: 1024, LazyCacheTTL: lz}, cache.Opts{})
			pl.close = append(pl.close, func() { c.Close() })
			plugins[tag] = c
			d += fmt.Sprintf("(lazy=%v)", e.lazy)
		case "ttl":
			plugins[tag] = ttl.NewTTL(0, 0, uint32(1+r.Rng.Intn(2))) // maximum TTL 1..2 s
			d += "(max)"
		}
		rules = append(rules, sequence.RuleArgs{Exec: "$" + tag})
		pl.desc = append(pl.desc, d)
		if e.kind == "cache" && r.Rng.Intn(5) == 0 {
			rules = append(rules, sequence.RuleArgs{Matches: []string{"$hasResp"}, Exec: "accept"})
			pl.desc = append(pl.desc, "[has_resp]accept")
		}
	}
	rules = append(rules, sequence.RuleArgs{Exec: "$up"})
	pl.desc = append(pl.desc, "[!has_resp]upstream(TTL 1)")
	sq, err := sequence.NewSequence(sequence.NewBQ(m, m.Logger()), rules)
	if err != nil {
		return nil, err
	}
	pl.h = server_handler.NewEntryHandler(server_handler.EntryHandlerOpts{Entry: sq})

	// ---- the history: names of the first rule (alias = source, target), one type / class / flags
	base := r.genQ03()
	base.qr, base.nq, base.nAns, base.nNs, base.opcode, base.qclass = false, 1, 0, 0, 0, 1
	if len(base.extras) > 1 {
		base.extras = base.extras[:1]
	}
	base.qtype = []uint16{dns.TypeA, dns.TypeA, dns.TypeAAAA, dns.TypeTXT}[r.Rng.Intn(4)]
	alias, target := rule.pattern+".", rule.target
	vias := []string{"udp", "tcp", "doh-post", "doh-get"}
	ms := func(n int) time.Duration { return time.Duration(n) * time.Millisecond }
	var sched []struct {
		at   time.Duration
		name string
	}
	add := func(at time.Duration, name string) {
		sched = append(sched, struct {
			at   time.Duration
			name string
		}{at, name})
	}
	if directed || r.Rng.Intn(2) == 0 {
		// one name, the other name before the first entries expire, again after the older entries expired while the
		// younger ones are alive, then every name again
		first, second := target, alias
		if r.Rng.Intn(6) == 0 {
			first, second = alias, target
		}
		w := 300 + r.Rng.Intn(400)
		add(0, first)
		add(ms(w), second)
		t := 1000 + w*(30+r.Rng.Intn(40))/100
		add(ms(t), []string{second, second, second, second, second, first}[r.Rng.Intn(6)])
		for k, n := 0, 2+r.Rng.Intn(2); k < n; k++ {
			t += 100 + r.Rng.Intn(200)
			add(ms(t), []string{first, first, second}[r.Rng.Intn(3)])
		}
	} else {
		t := 0
		for k, n := 0, 4+r.Rng.Intn(3); k < n && t < 2300; k++ {
			add(ms(t), names[r.Rng.Intn(len(names))])
			t += []int{50, 300, 600, 1100}[r.Rng.Intn(4)]
		}
	}
	for _, s := range sched {
		q := base
		q.id = r.U16()
		q.name = s.name
		if r.Rng.Intn(20) == 0 {
			q.name = mixCase03(r, q.name) // another cache key, the same redirect rule
		}
		pl.steps = append(pl.steps, &lazyStep03{at: s.at, q: q, via: vias[r.Rng.Intn(len(vias))]})
	}
	return pl, nil
}

func lazyStore03(r *Run) {
	total := r.N(36, 360)
	for done := 0; done < total; {
		var batch []*lazyPlan03
		for ; done < total && len(batch) < 60; done++ {
			pl, err := buildLazy03(r)
			if err != nil {
				r.Note("lazy store chain build failed: " + err.Error())
				continue
			}
			batch = append(batch, pl)
		}
		var wg sync.WaitGroup
		for _, pl := range batch {
			wg.Add(1)
			go func(pl *lazyPlan03) {
				defer wg.Done()
				start := time.Now()
				for _, s := range pl.steps {
					if d := s.at - time.Since(start); d > 0 {
						time.Sleep(d)
					}
					s.served = time.Since(start)
					s.payload, s.got = deliver03(pl.h, s.via, s.q.msg())
				}
				time.Sleep(20 * time.Millisecond) // background refreshes of the last query
				for _, f := range pl.close {
					f()
				}
			}(pl)
		}
		wg.Wait()
		for _, pl := range batch {
			var history []string
			for k, s := range pl.steps {
				desc := map[string]any{"chain": strings.Join(pl.desc, " -> "), "query": s.q.op(), "query_name": s.q.name, "query_no": k + 1, "arrived_via": s.via,
					"sent_ms_after_the_first_query": s.served.Milliseconds(), "earlier_queries_to_this_chain": append([]string{}, history...)}
				oracle03(r, s.q, s.via, s.payload, s.got, desc, -1, -1)
				history = append(history, fmt.Sprintf("%s id=%d via %s at %d ms", s.q.name, s.q.id, s.via, s.served.Milliseconds()))
				r.Eval("lazystore|"+strings.Join(pl.desc, ">")+"|"+s.q.op()+"|"+fmt.Sprint(k)+"|"+s.via, s.q.valid())
				r.Count("lazystore-query")
			}
		}
	}
}
