//go:build pC01 || pall

package main

import (
	"bytes"
	"context"
	"encoding/binary"
	"errors"
	"fmt"
	"hash/fnv"
	"io"
	"strconv"
	"strings"
	"sync"
	"time"

	"github.com/IrineSistiana/mosdns/v5/pkg/pool"
	"github.com/IrineSistiana/mosdns/v5/pkg/upstream/transport"
	"github.com/quic-go/quic-go"
)

// C01, part 7: DoQ. The real transport.QuicDnsConn over the in-memory quic.Connection of doq.go, with the
// server's replies as a network delivers them: a reply of a few hundred to a few thousand bytes (several QUIC
// packets) reaches the stream reader in pieces, and a Read returns what has arrived, never more than one piece.
// The FIN is reported together with the last bytes (as quic-go does), by a Read of its own, or not at all.
//
// A round is one connection and 1..3 waves of 1..5 concurrent callers (distinct questions, colliding ids).
// In two rounds out of three all replies of the round have the same length, so that the reply buffers of one
// wave - released by the harness, the callers' last owner, either through the overwriting pool.ReleaseBuf or as
// they are - are the ones the readers of the next wave get from the pool. One caller of a wave may give up in
// the middle of its reply.
//
// Oracle (statement only): a call that succeeds returns exactly the bytes the server sent on its query's
// stream (the reply the server produced for that query), with the caller's id in front. Nothing is demanded of
// calls that fail.

// fq01Stream is a stream of doq.go that can report the FIN together with the last bytes.
type fq01Stream struct {
	*fqStream
	finWithLast func() bool
}

func (s *fq01Stream) Read(p []byte) (int, error) {
	n, err := s.fqStream.Read(p)
	if err == nil && n > 0 && s.finWithLast() {
		s.mu.Lock()
		last := len(s.rd) == 0 && s.rdErr == io.EOF
		s.mu.Unlock()
		if last {
			return n, io.EOF
		}
	}
	return n, err
}

type fq01Conn struct {
	*fqConn
	wrap func(*fqStream) quic.Stream
}

func (c *fq01Conn) OpenStream() (quic.Stream, error) {
	s, err := c.fqConn.OpenStream()
	if err != nil {
		return nil, err
	}
	return c.wrap(s.(*fqStream)), nil
}

// doqReply01 is the server's reply to wire query q, filled up to `size` bytes with bytes that depend on the
// question (two replies of one size differ almost everywhere).
func doqReply01(q []byte, size int) []byte {
	r := mkReply(q, binary.BigEndian.Uint16(q))
	r = append(r, []byte("/doq/")...)
	x := uint32(tagOf(q))*2654435761 + 12345
	for len(r) < size {
		x = x*1103515245 + 12345
		r = append(r, byte(x>>16)|1)
	}
	return r
}

// cut01 cuts a framed reply into the pieces it arrives in.
func cut01(r *Run, f []byte, how int) [][]byte {
	var out [][]byte
	switch how {
	case 0: // one piece
		return [][]byte{f}
	case 1: // packets of 1200 bytes
		for len(f) > 1200 {
			out = append(out, f[:1200])
			f = f[1200:]
		}
		return append(out, f)
	case 2: // the length header alone, then the body in two halves
		if len(f) < 8 {
			return [][]byte{f}
		}
		h := 2 + (len(f)-2)/2
		return [][]byte{f[:2], f[2:h], f[h:]}
	case 3: // header split, the rest in one piece
		return [][]byte{f[:1], f[1:]}
	case 4: // all but the last byte, then the last byte
		return [][]byte{f[:len(f)-1], f[len(f)-1:]}
	default: // random pieces
		for len(f) > 0 {
			n := 1 + r.Rng.Intn(len(f))
			if r.Rng.Intn(3) == 0 {
				n = 1 + r.Rng.Intn(min(len(f), 40))
			}
			out = append(out, f[:n])
			f = f[n:]
		}
		return out
	}
}

type doqFail01 struct {
	Transport string   `json:"transport"`
	Reply     int      `json:"reply_bytes"`
	Pieces    string   `json:"reply_arrives_in_pieces_of"`
	Fin       string   `json:"fin"`
	SentWhen  string   `json:"reply_sent"`
	Callers   int      `json:"concurrent_callers_of_the_wave"`
	Wave      int      `json:"wave_on_this_connection"`
	Caller    int      `json:"caller"`
	CallerID  uint16   `json:"caller_id"`
	Verdict   string   `json:"verdict"`
	Own       string   `json:"own_question"`
	Released  string   `json:"earlier_replies_were_released"`
	Ids       []uint16 `json:"caller_ids_of_the_wave"`
	Round     int      `json:"round"`
}

func c01Doq(r *Run) {
	rounds := r.N(24, 240)
	lines := 0
	for rd := 0; rd < rounds; rd++ {
		sameSize := r.Rng.Intn(3) != 0
		size := []int{48, 300, 513, 1232, 1400, 1400, 2900, 4200}[r.Rng.Intn(8)]
		poisonRelease := r.Rng.Intn(2) == 0
		early := r.Rng.Intn(2) == 0 // the reply is sent as soon as the query frame is complete (before the FIN) / after the FIN
		type plan01 struct {
			size  int
			how   int
			fin   int // 0 with the last bytes, 1 by a Read of its own, 2 never (the stream stays open), 3 a reset after the complete reply
			stall bool
			frame []byte // what the server put on the stream
			sizes []int  // lengths of the pieces it arrives in
		}
		var mu sync.Mutex
		plans := map[int]*plan01{}    // by question
		byStream := map[int]*plan01{} // by stream id
		stalled := map[int]chan struct{}{}
		mkPlan := func() *plan01 {
			p := &plan01{size: size, how: r.Rng.Intn(6), fin: r.Rng.Intn(4)}
			if !sameSize {
				p.size = []int{48, 300, 513, 1232, 1400, 2900}[r.Rng.Intn(6)]
			}
			return p
		}
		inner := newFqConn(nil)
		inner.prep = func(s *fqStream) {
			answer := func(s *fqStream, total []byte) {
				if len(total) < 2 || len(total) < 2+int(binary.BigEndian.Uint16(total)) {
					return
				}
				q := total[2:]
				mu.Lock()
				p := plans[tagOf(q)]
				_, done := byStream[s.id]
				if p != nil && !done {
					byStream[s.id] = p
				}
				var gate chan struct{}
				if p != nil && p.stall {
					gate = stalled[tagOf(q)]
				}
				mu.Unlock()
				if p == nil || done {
					return
				}
				rep := doqReply01(q, p.size)
				f := make([]byte, 2+len(rep))
				binary.BigEndian.PutUint16(f, uint16(len(rep)))
				copy(f[2:], rep)
				mu.Lock()
				p.frame = f
				mu.Unlock()
				if gate != nil {
					// this caller gives up in the middle of its reply: the first half now, the rest when it has left
					half := len(f) / 2
					s.feed(f[:half])
					go func() {
						<-gate
						s.feed(f[half:])
						s.feedErr(io.EOF)
					}()
					return
				}
				off := 0
				for _, n := range p.sizes {
					if off+n > len(f) {
						n = len(f) - off
					}
					s.feed(f[off : off+n])
					off += n
				}
				if off < len(f) {
					s.feed(f[off:])
				}
				switch p.fin {
				case 0, 1:
					s.feedErr(io.EOF)
				case 3:
					s.feedErr(errors.New("stream reset by peer (injected, after the complete reply)"))
				}
			}
			if early {
				s.onWrite = answer
			} else {
				go func() {
					for k := 0; k < 40000; k++ {
						s.mu.Lock()
						fin, w, cancelled := s.finSent, append([]byte(nil), s.written...), s.canceledRd
						s.mu.Unlock()
						if cancelled {
							return
						}
						if fin {
							answer(s, w)
							return
						}
						time.Sleep(200 * time.Microsecond)
					}
				}()
			}
		}
		conn := &fq01Conn{fqConn: inner}
		conn.wrap = func(s *fqStream) quic.Stream {
			return &fq01Stream{fqStream: s, finWithLast: func() bool {
				mu.Lock()
				defer mu.Unlock()
				p := byStream[s.id]
				return p != nil && p.fin == 0
			}}
		}
		dc := transport.NewQuicDnsConn(conn)
		var earlier [][]byte // replies released so far on this connection
		waves := 1 + r.Rng.Intn(3)
		for wv := 0; wv < waves; wv++ {
			k := 1 + r.Rng.Intn(5)
			calls := make([]*call01, k)
			ids := make([]uint16, k)
			stallIdx := -1
			if k > 1 && r.Rng.Intn(4) == 0 {
				stallIdx = r.Rng.Intn(k)
			}
			for i := range calls {
				tag01++
				c := &call01{n: i, tag: tag01, id: ids01[r.Rng.Intn(len(ids01))], done: make(chan struct{})}
				if i > 0 && r.Rng.Intn(3) == 0 {
					c.id = calls[r.Rng.Intn(i)].id
				}
				ids[i] = c.id
				p := mkPlan()
				// what the server will send for this question, and the pieces it is cut into (fixed now, from the run's PRNG)
				rep := doqReply01(mkQuery(0, c.tag), p.size)
				f := make([]byte, 2+len(rep))
				for _, pc := range cut01(r, f, p.how) {
					p.sizes = append(p.sizes, len(pc))
				}
				if i == stallIdx {
					p.stall = true
					p.sizes = []int{len(f) / 2, len(f) - len(f)/2}
				}
				mu.Lock()
				plans[c.tag] = p
				if p.stall {
					stalled[c.tag] = make(chan struct{})
				}
				mu.Unlock()
				calls[i] = c
			}
			for _, c := range calls {
				c := c
				ctx, cancel := context.WithTimeout(context.Background(), 30*time.Second)
				c.cancel = cancel
				q := mkQuery(c.id, c.tag)
				go func() {
					rx, closed := dc.ReserveNewQuery()
					if rx == nil {
						c.err = fmt.Errorf("cannot reserve (closed=%v)", closed)
					} else {
						c.resp, c.err = rx.ExchangeReserved(ctx, q)
					}
					close(c.done)
				}()
			}
			if stallIdx >= 0 {
				// wait until the first half of its reply has been read (or 2 s), then the caller leaves
				c := calls[stallIdx]
				deadline := time.Now().Add(2 * time.Second)
				for time.Now().Before(deadline) {
					mu.Lock()
					p := plans[c.tag]
					started := p.frame != nil
					mu.Unlock()
					if started {
						break
					}
					time.Sleep(100 * time.Microsecond)
				}
				time.Sleep(200 * time.Microsecond)
				c.cancel()
				c.wait(5 * time.Second)
				mu.Lock()
				close(stalled[c.tag])
				mu.Unlock()
				r.Count("doq:caller-gave-up-inside-its-reply")
			}
			for i, c := range calls {
				if !c.wait(10 * time.Second) {
					c.cancel()
					c.wait(5 * time.Second)
					r.Count("doq:call-did-not-return-in-10s") // C07's matter
				}
				c.cancel()
				p := plans[c.tag]
				var sizes []string
				for _, n := range p.sizes {
					sizes = append(sizes, strconv.Itoa(n))
				}
				r.Eval(fmt.Sprintf("doq01/%d/%d/%d/%v/%v", p.size, p.how, p.fin, early, i == stallIdx), true)
				if c.err != nil || c.resp == nil {
					if i != stallIdx {
						r.Count("doq:exchange-failed (fin: " + []string{"with the last bytes", "read of its own", "never", "reset after the reply"}[p.fin] + ")") // not C01's matter
					}
					continue
				}
				got := *c.resp
				q0 := mkQuery(c.id, c.tag)
				q0[0], q0[1] = 0, 0
				want := doqReply01(q0, p.size)
				binary.BigEndian.PutUint16(want, c.id)
				if !bytes.Equal(got, want) {
					v := "the reply has " + strconv.Itoa(len(got)) + " bytes, the server sent " + strconv.Itoa(len(want))
					if len(got) == len(want) {
						d := 0
						for got[d] == want[d] {
							d++
						}
						v = "differs from what the server sent on this query's stream from byte " + strconv.Itoa(d) + " on"
						if d < 2 {
							v = "the caller's id was not restored"
						}
						poisoned := true
						for _, b := range got[d:] {
							if b != 0xEE {
								poisoned = false
							}
						}
						if poisoned {
							v += "; the rest is the pattern the harness writes into buffers released to the pool"
						}
						for _, e := range earlier {
							if len(e) == len(got) && bytes.Equal(e[d:], got[d:]) {
								v += "; the rest is the tail of the reply to the earlier query " + qname01(tagOf(e))
								break
							}
						}
					}
					rel := "through pool.ReleaseBuf as the repo has it"
					if poisonRelease {
						rel = "through the overwriting pool.ReleaseBuf"
					}
					r.Fail("a DoQ exchange returned a reply that is not the reply the server sent for its own query (or its id was not restored)", doqFail01{
						Transport: "transport.QuicDnsConn over an in-memory quic.Connection, one stream per query", Reply: len(want), Pieces: strings.Join(sizes, "+") + " (2-byte length included)",
						Fin:      []string{"reported with the last bytes", "reported by a read of its own", "never (stream stays open)", "reset after the complete reply"}[p.fin],
						SentWhen: map[bool]string{true: "as soon as the query frame was complete", false: "after the FIN"}[early], Callers: k, Wave: wv, Caller: i, CallerID: c.id, Verdict: v,
						Own: qname01(c.tag), Released: rel, Ids: ids, Round: rd})
				}
				// the same stream on the model: the regenerated reader on these pieces, id restored
				mu.Lock()
				frame := p.frame
				mu.Unlock()
				if len(want) <= 1500 && lines < r.N(60, 400) && frame != nil {
					h := fnv.New32a()
					h.Write(got)
					sz := "-"
					if len(sizes) > 1 {
						sz = strings.Join(sizes[:len(sizes)-1], ",")
					}
					r.Line(fmt.Sprintf("doq %d %s %s", c.id, hx(frame), sz), fmt.Sprintf("ok %d %d", len(got), h.Sum32()))
					lines++
				}
			}
			// the callers are done with their replies: they go back to the pool
			for _, c := range calls {
				if c.err == nil && c.resp != nil {
					earlier = append(earlier, append([]byte(nil), *c.resp...))
					if poisonRelease {
						pool.ReleaseBuf(c.resp)
					} else {
						rawRelease01(c.resp)
					}
				}
			}
			r.Count("doq:waves")
		}
		dc.Close()
		if sameSize {
			r.Count("doq:rounds with replies of one size")
		} else {
			r.Count("doq:rounds with replies of mixed sizes")
		}
		r.Trace()
	}
}
