//go:build pC01 || pall

package main

import (
	"bytes"
	"context"
	"encoding/binary"
	"fmt"
	"net"
	"runtime"
	"sync"
	"sync/atomic"
	"time"

	"github.com/IrineSistiana/mosdns/v5/pkg/pool"
	"github.com/IrineSistiana/mosdns/v5/pkg/upstream/transport"
)

// C01, part 9: many connections receiving at the same time, and the byte pool under them.
//
// Every reply that a transport hands to its caller lives in a buffer from pkg/pool (pool.GetBuf in readMsgUdp,
// ReadRawMsgFromTCP, copyMsg...). "The reply to its own query" therefore rests on the pool giving a buffer to
// one owner at a time: the connection's reader between GetBuf and the hand-over, then the caller until it
// releases it. Parts 1-8 run few connections at once; here
//
//	(a) 16..32 goroutines take buffers of the sizes the transports ask for (2, query length, query length+2,
//	    reply lengths, 4095, and sizes around the class boundaries), write an owner tag over the whole buffer,
//	    look at it again a few times and give it back (first many short rounds that mark only the front of
//	    the buffer, so that the holders spend most of their time inside GetBuf / ReleaseBuf, then whole-buffer rounds);
//	(b) 16..40 TraditionalDnsConns (datagram and stream framing mixed) over in-memory sockets exchange queries
//	    at the same time, 1..3 callers per connection, every query with a question of its own; the server
//	    answers from the bytes it sees on the wire, padded to lengths spread over the size classes; a caller
//	    holds its reply for a moment, compares it several times with what the server sent, and releases it.
//
// Oracle (from the statement only): (b) a call that succeeds holds exactly the bytes the server produced for
// its own query with the caller's id in front, for as long as the caller has not released them. (a) is the
// same demand one level down, on the mechanism the statement's anchors name ("reply buffers are released to the
// pool only by their last owner", pkg/pool/allocator.go): a buffer that GetBuf returned and that its holder has
// not released is the holder's alone - a second GetBuf that returns it is two read loops receiving into one
// reply buffer.

// memSock01 is an in-memory socket connected to a server that answers every query it is sent: the reply is the
// query as seen on the wire with QR set, followed by padding that depends on the question alone.
type memSock01 struct {
	stream    bool
	rx        chan []byte
	closed    chan struct{}
	closeOnce sync.Once
	// stream side: bytes of the frame being read
	mu   sync.Mutex
	left []byte
}

func newMemSock01(stream bool) *memSock01 {
	return &memSock01{stream: stream, rx: make(chan []byte, 64), closed: make(chan struct{})}
}

// pad01 is the padding the server puts behind the reply to question `tag`: its length is spread over the pool's
// size classes (including the 4k class of the udp rx buffer), its bytes depend on the tag.
func pad01(tag int) []byte {
	lens := []int{0, 0, 7, 90, 200, 470, 1000, 1500, 2100, 3000, 3900}
	n := lens[tag%len(lens)]
	p := make([]byte, n)
	for i := range p {
		p[i] = byte(tag*31 + i*7 + 1)
	}
	return p
}

func serverReply01(q []byte) []byte {
	r := mkReply(q, binary.BigEndian.Uint16(q))
	return append(r, pad01(tagOf(q))...)
}

func (c *memSock01) Read(p []byte) (int, error) {
	if c.stream {
		c.mu.Lock()
		if len(c.left) > 0 {
			n := copy(p, c.left)
			c.left = c.left[n:]
			c.mu.Unlock()
			return n, nil
		}
		c.mu.Unlock()
	}
	select {
	case b := <-c.rx:
		n := copy(p, b)
		if c.stream && n < len(b) {
			c.mu.Lock()
			c.left = b[n:]
			c.mu.Unlock()
		}
		return n, nil
	case <-c.closed:
		return 0, net.ErrClosed
	}
}

func (c *memSock01) Write(p []byte) (int, error) {
	q := p
	if c.stream {
		if len(p) < 2 || int(binary.BigEndian.Uint16(p)) != len(p)-2 {
			return len(p), nil // the transports write one whole frame per Write; anything else is not answered
		}
		q = p[2:]
	}
	if len(q) < 12 {
		return len(p), nil
	}
	r := serverReply01(q)
	if c.stream {
		f := make([]byte, 2+len(r))
		binary.BigEndian.PutUint16(f, uint16(len(r)))
		copy(f[2:], r)
		r = f
	}
	select {
	case c.rx <- r:
	case <-c.closed:
		return 0, net.ErrClosed
	}
	return len(p), nil
}

func (c *memSock01) Close() error                     { c.closeOnce.Do(func() { close(c.closed) }); return nil }
func (c *memSock01) SetDeadline(time.Time) error      { return nil }
func (c *memSock01) SetReadDeadline(time.Time) error  { return nil }
func (c *memSock01) SetWriteDeadline(time.Time) error { return nil }

func c01Pool(r *Run) {
	// start from an empty free list (sync.Pool drops what it holds after two collections): what this part sees
	// is what happens among the holders of this part
	runtime.GC()
	runtime.GC()
	// ------------------------------------------------------------------ (a) the pool itself
	{
		t0a := time.Now()
		workers := 16 + r.Rng.Intn(17)
		iters := r.N(1500, 30000)        // whole-buffer rounds per holder
		lightIters := r.N(60000, 600000) // rounds that mark and re-read only the first and last bytes: the time between GetBufs is short, many holders meet inside GetBuf
		// sizes the transports use: the 2-byte length header, queries and framed queries (mkQuery: 27..34 bytes),
		// replies of any length, the 4095-byte udp rx buffer; plus neighbours of the class boundaries
		base := []int{2, 12, 29, 31, 33, 64, 65, 127, 128, 129, 512, 513, 1232, 2047, 2048, 2049, 3000, 4094, 4095, 4096, 4097, 8191}
		var sizes []int
		for i := 0; i < 6; i++ { // a seeded emphasis: some sizes several times, so that many workers meet in one class
			sizes = append(sizes, base[r.Rng.Intn(len(base))])
		}
		sizes = append(sizes, 4095, 4095, 4095, 2+r.Rng.Intn(4094), 2+r.Rng.Intn(4094))
		seeds := make([]int64, workers)
		for i := range seeds {
			seeds[i] = r.Rng.Int63()
		}
		type bad01 struct {
			worker, iter, size, at int
			want, got              byte
			length                 int
		}
		var mu sync.Mutex
		var bads []bad01
		var stop atomic.Bool
		var total atomic.Int64
		var wg sync.WaitGroup
		for w := 0; w < workers; w++ {
			wg.Add(1)
			go func(w int) {
				defer wg.Done()
				x := uint64(seeds[w])
				for it := 0; it < lightIters+iters && !stop.Load(); it++ {
					light := it < lightIters
					x = x*6364136223846793005 + 1442695040888963407
					size := sizes[(x>>33)%uint64(len(sizes))]
					b := pool.GetBuf(size)
					total.Add(1)
					if len(*b) != size {
						mu.Lock()
						bads = append(bads, bad01{worker: w, iter: it, size: size, at: -1, length: len(*b)})
						mu.Unlock()
						stop.Store(true)
						return
					}
					tag := byte(w + 1) // one value per holder (at most 32 of them), never 0xEE (what released buffers are overwritten with)
					buf := *b
					if light && len(buf) > 24 {
						buf = buf[:24] // every holder marks the front of its buffer
					}
					for i := range buf {
						buf[i] = tag
					}
					looks := 1 + int((x>>40)%3)
				check:
					for l := 0; l < looks; l++ {
						if l > 0 && (x>>48)%4 == 0 {
							runtime.Gosched()
						}
						for i := range buf {
							if buf[i] != tag {
								mu.Lock()
								bads = append(bads, bad01{worker: w, iter: it, size: size, at: i, want: tag, got: buf[i], length: len(buf)})
								n := len(bads)
								mu.Unlock()
								if n >= 3 {
									stop.Store(true)
								}
								break check
							}
						}
					}
					if light {
						for i := range buf {
							buf[i] = 0xEE
						}
						rawRelease01(b) // the marked part is overwritten here; the whole-buffer overwrite of the wrapped ReleaseBuf would be most of the round
					} else {
						pool.ReleaseBuf(b)
					}
				}
			}(w)
		}
		wg.Wait()
		for _, b := range bads {
			if b.at < 0 {
				r.Fail("pool.GetBuf returned a buffer of another length than asked for", map[string]any{"asked": b.size, "got_len": b.length, "worker": b.worker, "iteration": b.iter})
				continue
			}
			r.Fail("a buffer obtained from pool.GetBuf and not yet released was handed out a second time (two owners of one reply buffer: its holder found another holder's bytes in it)", map[string]any{
				"concurrent_holders": workers, "sizes": fmt.Sprint(sizes), "worker": b.worker, "iteration": b.iter, "size": b.size,
				"offset": b.at, "holder_wrote": b.want, "holder_found": b.got})
		}
		r.Note(fmt.Sprintf("part 9a: %d holders, %d GetBuf/ReleaseBuf rounds in %v", workers, total.Load(), time.Since(t0a).Round(time.Millisecond)))
		r.Eval("pool/probe", total.Load() > 1000)
		r.Count("pool:probe-rounds")
		r.Trace()
	}

	// ------------------------------------------------------------------ (b) many connections receiving at once
	{
		t0b := time.Now()
		nconn := 16 + r.Rng.Intn(25)
		perCaller := r.N(1500, 12000)
		type viol01 struct {
			conn, caller, n int
			stream          bool
			id              uint16
			tag, gotTag     int
			look            int
			gotID           uint16
			gotLen, wantLen int
		}
		var mu sync.Mutex
		var viols []viol01
		var stop atomic.Bool
		var okCalls, failedCalls atomic.Int64
		var wg sync.WaitGroup
		ctx, cancel := context.WithTimeout(context.Background(), 120*time.Second)
		var dcs []*transport.TraditionalDnsConn
		for ci := 0; ci < nconn; ci++ {
			stream := r.Rng.Intn(3) == 0 // two in three are datagram connections (the 4k rx buffer)
			dc := transport.NewDnsConn(transport.TraditionalDnsConnOpts{WithLengthHeader: stream, IdleTimeout: 120 * time.Second, MaxConcurrentQuery: 64}, newMemSock01(stream))
			dcs = append(dcs, dc)
			callers := 1 + r.Rng.Intn(3)
			for ca := 0; ca < callers; ca++ {
				tagBase := tag01
				tag01 += perCaller
				idMode := r.Rng.Intn(3)
				holdSeed := uint64(r.Rng.Int63())
				wg.Add(1)
				go func(ci, ca int, stream bool) {
					defer wg.Done()
					x := holdSeed
					for n := 0; n < perCaller && !stop.Load(); n++ {
						tag := tagBase + 1 + n
						var id uint16
						switch idMode {
						case 0:
							id = ids01[n%len(ids01)] // colliding ids
						case 1:
							id = uint16(n*131 + ci)
						default:
							id = 0
						}
						q := mkQuery(id, tag)
						rx, _ := dc.ReserveNewQuery()
						if rx == nil {
							failedCalls.Add(1)
							return
						}
						resp, err := rx.ExchangeReserved(ctx, q)
						if err != nil {
							failedCalls.Add(1) // not a C01 matter
							return
						}
						okCalls.Add(1)
						want := serverReply01(q)
						binary.BigEndian.PutUint16(want, id)
						x = x*6364136223846793005 + 1442695040888963407
						looks := 1 + int((x>>40)%3)
						for l := 0; l < looks; l++ {
							if !bytes.Equal(*resp, want) {
								v := viol01{conn: ci, caller: ca, n: n, stream: stream, id: id, tag: tag, gotTag: tagOf(*resp), look: l, gotLen: len(*resp), wantLen: len(want)}
								if len(*resp) >= 2 {
									v.gotID = binary.BigEndian.Uint16(*resp)
								}
								mu.Lock()
								viols = append(viols, v)
								k := len(viols)
								mu.Unlock()
								if k >= 3 {
									stop.Store(true)
								}
								break
							}
							if l+1 < looks {
								if (x>>50)%2 == 0 {
									runtime.Gosched()
								} else {
									time.Sleep(time.Microsecond)
								}
							}
						}
						pool.ReleaseBuf(resp)
					}
				}(ci, ca, stream)
			}
		}
		wg.Wait()
		cancel()
		for _, dc := range dcs {
			dc.Close()
		}
		for _, v := range viols {
			r.Fail("an exchange returned a reply that is not the server's reply to its own query, or the reply did not stay so while its caller held it (many connections receiving at once)", map[string]any{
				"connections": nconn, "connection": v.conn, "caller_on_connection": v.caller, "exchange": v.n, "stream": v.stream,
				"asked_question_tag": v.tag, "caller_id": v.id, "reply_question_tag": v.gotTag, "reply_id": v.gotID,
				"reply_len": v.gotLen, "server_sent_len": v.wantLen, "seen_at_look": v.look})
		}
		if failedCalls.Load() > 0 {
			r.Count("conc-conns:exchange-failed")
		}
		r.Note(fmt.Sprintf("part 9b: %d connections, %d exchanges in %v", nconn, okCalls.Load(), time.Since(t0b).Round(time.Millisecond)))
		r.Eval("pool/conns", okCalls.Load() > 1000)
		r.Count("conc-conns:rounds")
		r.Trace()
	}
}
